------------------------------ MODULE Schemes -------------------------------
(* The DOCUMENTED discrete schemes of torchsde as exact maps, composed with   *)
(* the fixed-step loop (dt grid, last step clipped to ts[-1], linear          *)
(* interpolation to output times).                                            *)
(*                                                                            *)
(* Written from the definitions the documentation cites, not from the code:   *)
(*   euler            Euler-Maruyama                                          *)
(*   milstein         Milstein for commutative noise (diagonal element-wise,  *)
(*                    scalar, additive), Ito and Stratonovich; derivative     *)
(*                    based and derivative free (Kloeden-Platen ch. 11)       *)
(*   srk              Roessler 2010: SRI2 (diagonal/scalar), SRA1 (additive); *)
(*                    the tableau is a documented constant                    *)
(*   heun             Stratonovich Heun (Burrage, Burrage, Tian 2004)         *)
(*   midpoint         explicit midpoint                                       *)
(*   euler_heun       Euler-Heun (drift Euler, diffusion trapezoidal)         *)
(*   reversible_heun  Kidger et al. 2021, Algorithm 1                         *)
(*   log_ode          explicit midpoint applied to the log-ODE vector field   *)
(*                    f h + g W + sum_{k<l} A_kl [g_k, g_l]                    *)
(*                                                                            *)
(* The module is generic in the number field: NAdd/NMul/NInv/NRat/NVal are    *)
(* operator constants.  With the rationals (cfg: NAdd <- RAdd ...) it is the  *)
(* exact forward semantics (C17, C18); Dual.tla instantiates it with dual     *)
(* numbers over the rationals, which makes the SAME definitions yield the     *)
(* exact derivative of the numerical solution (C08).                          *)
(*                                                                            *)
(* Vector fields are data: expression trees over constants, t, y_i,           *)
(* parameters p_k, + * / ; tuples so that ToJson prints compact arrays that   *)
(* the harness turns into a torch nn.Module (parameters = the p_k).           *)
(*                                                                            *)
(* C17 lemma (EmbedLemma): for diagonal / scalar / additive structure and     *)
(* every solver accepting both declarations, the solution of the SDE under    *)
(* its special declaration equals the solution of its general embedding      *)
(* (diagonal -> diag matrix).  For log_ode the special declarations carry no  *)
(* Levy-area term; the lemma shows the bracket term of the embedding vanishes *)
(* for commutative structure (and a non-commutative witness shows it does not *)
(* vanish otherwise).                                                         *)
(*                                                                            *)
(* TLC notes: every function constructor is wrapped in TLCEval - TLC's        *)
(* functions are lazy and re-evaluate their body on each application, which   *)
(* is exponential in the nesting depth of vector operations; LET definitions  *)
(* are cached when TLC evaluates a state predicate but not when it evaluates  *)
(* an action, so the scenario machines only CHOOSE the scenario in actions    *)
(* and do all arithmetic (and the printing of scenarios) in invariants.       *)
EXTENDS Rational, FiniteSets, TLC, Json

CONSTANTS NAdd(_, _), NMul(_, _), NInv(_), NRat(_), NVal(_)

VARIABLES stage, sc
vars == <<stage, sc>>

-----------------------------------------------------------------------------
(* numbers, vectors *)
RIdent(x)  == x          \* for the rational instantiation: NRat <- RIdent, NVal <- RIdent
NZero      == NRat(RZero)
NQ(q, a)   == NMul(NRat(q), a)
NSub(a, b) == NAdd(a, NQ(<<-1, 1>>, b))
RECURSIVE NSumSeq(_)
NSumSeq(s) == IF s = <<>> THEN NZero ELSE NAdd(Head(s), NSumSeq(Tail(s)))

NVAdd(u, v)  == TLCEval([i \in 1..Len(u) |-> NAdd(u[i], v[i])])
NVSub(u, v)  == TLCEval([i \in 1..Len(u) |-> NSub(u[i], v[i])])
NVQ(q, u)    == TLCEval([i \in 1..Len(u) |-> NQ(q, u[i])])
NVAdd3(u, v, w)    == NVAdd(u, NVAdd(v, w))
NVAdd4(u, v, w, x) == NVAdd(u, NVAdd(v, NVAdd(w, x)))
NVZero(n)    == TLCEval([i \in 1..n |-> NZero])
RECURSIVE NSumVec(_, _)
NSumVec(s, d) == IF Len(s) = 0 THEN NVZero(d) ELSE NVAdd(Head(s), NSumVec(Tail(s), d))
NVVal(u)     == TLCEval([i \in 1..Len(u) |-> NVal(u[i])])
Lift(qs)     == TLCEval([i \in 1..Len(qs) |-> NRat(qs[i])])

RSqrtCands == {<<a, b>> : a \in 1..8, b \in {1, 2, 4, 8}}
RSqrt(q)   == CHOOSE r \in RSqrtCands : RGcd(r[1], r[2]) = 1 /\ RMul(r, r) = q
RScaleSeq(q, s) == TLCEval([i \in 1..Len(s) |-> RMul(q, s[i])])

-----------------------------------------------------------------------------
(* expression trees *)
EC(q)      == <<"c", q>>
ET         == <<"t">>
EY(i)      == <<"y", i>>
EP(k)      == <<"p", k>>
IsC0(e)    == e[1] = "c" /\ e[2] = RZero
IsC1(e)    == e[1] = "c" /\ e[2] = ROne
EAdd(a, b) == IF IsC0(a) THEN b ELSE IF IsC0(b) THEN a ELSE <<"+", a, b>>
EMul(a, b) == IF IsC0(a) \/ IsC0(b) THEN EC(RZero)
              ELSE IF IsC1(a) THEN b ELSE IF IsC1(b) THEN a ELSE <<"*", a, b>>
EDiv(a, b) == <<"/", a, b>>
ENeg(a)    == EMul(EC(<<-1, 1>>), a)
ESub(a, b) == EAdd(a, ENeg(b))
ESq(a)     == EMul(a, a)
E0         == EC(RZero)

RECURSIVE EEval(_, _, _, _)
EEval(e, t, y, th) ==
   CASE e[1] = "c" -> NRat(e[2])
     [] e[1] = "t" -> NRat(t)
     [] e[1] = "y" -> y[e[2]]
     [] e[1] = "p" -> th[e[2]]
     [] e[1] = "+" -> NAdd(EEval(e[2], t, y, th), EEval(e[3], t, y, th))
     [] e[1] = "*" -> NMul(EEval(e[2], t, y, th), EEval(e[3], t, y, th))
     [] e[1] = "/" -> NMul(EEval(e[2], t, y, th), NInv(EEval(e[3], t, y, th)))

(* exact partial derivative with respect to y_i *)
RECURSIVE EDiff(_, _)
EDiff(e, i) ==
   CASE e[1] = "c" -> E0
     [] e[1] = "t" -> E0
     [] e[1] = "p" -> E0
     [] e[1] = "y" -> IF e[2] = i THEN EC(ROne) ELSE E0
     [] e[1] = "+" -> EAdd(EDiff(e[2], i), EDiff(e[3], i))
     [] e[1] = "*" -> EAdd(EMul(EDiff(e[2], i), e[3]), EMul(e[2], EDiff(e[3], i)))
     [] e[1] = "/" -> ESub(EDiv(EDiff(e[2], i), e[3]),
                           EDiv(EMul(e[2], EDiff(e[3], i)), EMul(e[3], e[3])))

-----------------------------------------------------------------------------
(* SDE = [nt, cal, d, m, f, g]; g: seq_d of expr (diagonal) or d x m matrix   *)
IsDiag(sde) == sde.nt = "diagonal"

FEval(sde, t, y, th) == TLCEval([i \in 1..sde.d |-> EEval(sde.f[i], t, y, th)])
GEval(sde, t, y, th) ==
   IF IsDiag(sde) THEN TLCEval([i \in 1..sde.d |-> EEval(sde.g[i], t, y, th)])
   ELSE TLCEval([i \in 1..sde.d |-> TLCEval([j \in 1..sde.m |-> EEval(sde.g[i][j], t, y, th)])])
(* diffusion times a rational noise vector *)
Prod(sde, g, v) ==
   IF IsDiag(sde) THEN TLCEval([i \in 1..sde.d |-> NQ(v[i], g[i])])
   ELSE TLCEval([i \in 1..sde.d |-> NSumSeq(TLCEval([j \in 1..sde.m |-> NQ(v[j], g[i][j])]))])
GAdd(sde, g1, g2) ==
   IF IsDiag(sde) THEN NVAdd(g1, g2)
   ELSE TLCEval([i \in 1..sde.d |-> NVAdd(g1[i], g2[i])])
GSub(sde, g1, g2) ==
   IF IsDiag(sde) THEN NVSub(g1, g2)
   ELSE TLCEval([i \in 1..sde.d |-> NVSub(g1[i], g2[i])])

(* the d x m matrix of expressions, whatever the declaration *)
GExprMat(sde) ==
   IF IsDiag(sde) THEN TLCEval([i \in 1..sde.d |-> TLCEval([j \in 1..sde.d |-> IF i = j THEN sde.g[i] ELSE E0])])
   ELSE sde.g

(* general embedding of a special declaration (C17) *)
Embed(sde) == [sde EXCEPT !.nt = "general", !.g = GExprMat(sde)]

(* documented acceptance table *)
Methods == {"euler", "milstein", "srk", "heun", "midpoint", "euler_heun", "reversible_heun", "log_ode"}
NoiseTypes == {"diagonal", "scalar", "additive", "general"}
Accepts(method, cal, nt) ==
   CASE method = "euler"    -> cal = "ito"
     [] method = "milstein" -> nt # "general"
     [] method = "srk"      -> cal = "ito" /\ nt # "general"
     [] OTHER               -> cal = "stratonovich"

-----------------------------------------------------------------------------
(* one step of each scheme.  s = [y, ex]; nz = [w, u, a] rational noise       *)

StepEuler(sde, th, t0, t1, nz, s) ==
   LET dt == RSub(t1, t0)
       f  == FEval(sde, t0, s.y, th)
       g  == GEval(sde, t0, s.y, th)
   IN [y |-> NVAdd3(s.y, NVQ(dt, f), Prod(sde, g, nz.w)), ex |-> s.ex]

(* Milstein, commutative noise: y + f h + g W + 1/2 sum_j (dg_j g_j)(W_j^2 - c h) *)
MilV(sde, dt, w) == TLCEval([j \in 1..Len(w) |->
                       IF sde.cal = "ito" THEN RSub(RMul(w[j], w[j]), dt) ELSE RMul(w[j], w[j])])
MilCorr(sde, th, t, y, v) ==
   LET GE == GExprMat(sde)
       gm == TLCEval([k \in 1..sde.d |-> TLCEval([j \in 1..sde.m |-> EEval(GE[k][j], t, y, th)])])
   IN TLCEval([i \in 1..sde.d |->
         NSumSeq(TLCEval([j \in 1..sde.m |->
            NQ(RMul(RHalf, v[j]),
               NSumSeq(TLCEval([k \in 1..sde.d |-> NMul(gm[k][j], EEval(EDiff(GE[i][j], k), t, y, th))])))]))])
StepMilstein(sde, th, t0, t1, nz, s) ==
   LET dt == RSub(t1, t0)
       f  == FEval(sde, t0, s.y, th)
       g  == GEval(sde, t0, s.y, th)
       v  == MilV(sde, dt, nz.w)
   IN [y |-> NVAdd4(s.y, NVQ(dt, f), Prod(sde, g, nz.w), MilCorr(sde, th, t0, s.y, v)), ex |-> s.ex]
(* derivative free: supporting value Y~ = y + [f h] + g sqrt(h) (the drift part only in the
   Ito version), correction (g(Y~) - g(y)) (W^2 - c h) / (2 sqrt h); additive noise: g' = 0 *)
StepMilsteinDF(sde, th, t0, t1, nz, s) ==
   LET dt == RSub(t1, t0)
       sq == RSqrt(dt)
       f  == FEval(sde, t0, s.y, th)
       g  == GEval(sde, t0, s.y, th)
       v  == MilV(sde, dt, nz.w)
       gcol == IF IsDiag(sde) THEN g ELSE TLCEval([i \in 1..sde.d |-> g[i][1]])
       ysup == NVAdd3(s.y, IF sde.cal = "ito" THEN NVQ(dt, f) ELSE NVZero(sde.d), NVQ(sq, gcol))
       gsup == GEval(sde, t0, ysup, th)
       corr == IF sde.nt = "additive" THEN NVZero(sde.d)
               ELSE Prod(sde, GSub(sde, gsup, g), RScaleSeq(RDiv(RHalf, sq), v))
   IN [y |-> NVAdd4(s.y, NVQ(dt, f), Prod(sde, g, nz.w), corr), ex |-> s.ex]

StepHeun(sde, th, t0, t1, nz, s) ==
   LET dt == RSub(t1, t0)
       f  == FEval(sde, t0, s.y, th)
       gw == Prod(sde, GEval(sde, t0, s.y, th), nz.w)
       yp == NVAdd3(s.y, NVQ(dt, f), gw)
       f1 == FEval(sde, t1, yp, th)
       gw1 == Prod(sde, GEval(sde, t1, yp, th), nz.w)
   IN [y |-> NVAdd3(s.y, NVQ(RMul(RHalf, dt), NVAdd(f, f1)), NVQ(RHalf, NVAdd(gw, gw1))), ex |-> s.ex]

StepMidpoint(sde, th, t0, t1, nz, s) ==
   LET dt == RSub(t1, t0)
       tm == RAdd(t0, RMul(RHalf, dt))
       f  == FEval(sde, t0, s.y, th)
       gw == Prod(sde, GEval(sde, t0, s.y, th), nz.w)
       ym == NVAdd3(s.y, NVQ(RMul(RHalf, dt), f), NVQ(RHalf, gw))
   IN [y |-> NVAdd3(s.y, NVQ(dt, FEval(sde, tm, ym, th)), Prod(sde, GEval(sde, tm, ym, th), nz.w)), ex |-> s.ex]

StepEulerHeun(sde, th, t0, t1, nz, s) ==
   LET dt == RSub(t1, t0)
       f  == FEval(sde, t0, s.y, th)
       gw == Prod(sde, GEval(sde, t0, s.y, th), nz.w)
       yp == NVAdd(s.y, gw)
       gw1 == Prod(sde, GEval(sde, t1, yp, th), nz.w)
   IN [y |-> NVAdd3(s.y, NVQ(dt, f), NVQ(RHalf, NVAdd(gw, gw1))), ex |-> s.ex]

(* reversible Heun: ex = [f, g, z] *)
InitRevHeun(sde, th, t0, y0) == [f |-> FEval(sde, t0, y0, th), g |-> GEval(sde, t0, y0, th), z |-> y0]
StepRevHeun(sde, th, t0, t1, nz, s) ==
   LET dt == RSub(t1, t0)
       z1 == NVAdd4(NVQ(<<2, 1>>, s.y), NVQ(<<-1, 1>>, s.ex.z), NVQ(dt, s.ex.f), Prod(sde, s.ex.g, nz.w))
       f1 == FEval(sde, t1, z1, th)
       g1 == GEval(sde, t1, z1, th)
   IN [y |-> NVAdd3(s.y, NVQ(RMul(RHalf, dt), NVAdd(s.ex.f, f1)),
                    NVQ(RHalf, Prod(sde, GAdd(sde, s.ex.g, g1), nz.w))),
       ex |-> [f |-> f1, g |-> g1, z |-> z1]]

(* log-ODE, explicit midpoint.  Lie bracket [X, Y] = (dY) X - (dX) Y of the columns of g *)
LieTerm(sde, th, t, y, a) ==
   LET GE == GExprMat(sde)
       gm == TLCEval([k \in 1..sde.d |-> TLCEval([j \in 1..sde.m |-> EEval(GE[k][j], t, y, th)])])
       Dg(i, l, j) == EEval(EDiff(GE[i][l], j), t, y, th)
       Br(i, k, l) == NSub(NSumSeq(TLCEval([j \in 1..sde.d |-> NMul(Dg(i, l, j), gm[j][k])])),
                           NSumSeq(TLCEval([j \in 1..sde.d |-> NMul(Dg(i, k, j), gm[j][l])])))
       pairs == {<<k, l>> \in (1..sde.m) \X (1..sde.m) : k < l}
       RECURSIVE SumPairs(_, _)
       SumPairs(ps, i) == IF ps = {} THEN NZero
                          ELSE LET p == CHOOSE q \in ps : TRUE
                               IN NAdd(NQ(a[p[1]][p[2]], Br(i, p[1], p[2])), SumPairs(ps \ {p}, i))
   IN TLCEval([i \in 1..sde.d |-> SumPairs(pairs, i)])
StepLogODE(sde, th, t0, t1, nz, s) ==
   LET dt == RSub(t1, t0)
       tm == RAdd(t0, RMul(RHalf, dt))
       f  == FEval(sde, t0, s.y, th)
       gw == Prod(sde, GEval(sde, t0, s.y, th), nz.w)
       ym == NVAdd3(s.y, NVQ(RMul(RHalf, dt), f), NVQ(RHalf, gw))
       lie == IF sde.nt = "general" THEN LieTerm(sde, th, tm, ym, nz.a) ELSE NVZero(sde.d)
   IN [y |-> NVAdd4(s.y, NVQ(dt, FEval(sde, tm, ym, th)), Prod(sde, GEval(sde, tm, ym, th), nz.w), lie),
       ex |-> s.ex]

(* Roessler SRI2 (diagonal / scalar noise) and SRA1 (additive noise) *)
Q(a, b) == R(a, b)
SRI == [c0 |-> <<Q(0,1), Q(1,1), Q(1,2), Q(0,1)>>, c1 |-> <<Q(0,1), Q(1,4), Q(1,1), Q(1,4)>>,
        A0 |-> <<<<>>, <<Q(1,1)>>, <<Q(1,4), Q(1,4)>>, <<Q(0,1), Q(0,1), Q(0,1)>>>>,
        B0 |-> <<<<>>, <<Q(0,1)>>, <<Q(1,1), Q(1,2)>>, <<Q(0,1), Q(0,1), Q(0,1)>>>>,
        A1 |-> <<<<>>, <<Q(1,4)>>, <<Q(1,1), Q(0,1)>>, <<Q(0,1), Q(0,1), Q(1,4)>>>>,
        B1 |-> <<<<>>, <<Q(-1,2)>>, <<Q(1,1), Q(0,1)>>, <<Q(2,1), Q(-1,1), Q(1,2)>>>>,
        al |-> <<Q(1,6), Q(1,6), Q(2,3), Q(0,1)>>,
        b1 |-> <<Q(-1,1), Q(4,3), Q(2,3), Q(0,1)>>, b2 |-> <<Q(1,1), Q(-4,3), Q(1,3), Q(0,1)>>,
        b3 |-> <<Q(2,1), Q(-4,3), Q(-2,3), Q(0,1)>>, b4 |-> <<Q(-2,1), Q(5,3), Q(-2,3), Q(1,1)>>]
SRA == [c0 |-> <<Q(0,1), Q(3,4)>>, c1 |-> <<Q(1,1), Q(0,1)>>,
        A0 |-> <<<<>>, <<Q(3,4)>>>>, B0 |-> <<<<>>, <<Q(3,2)>>>>,
        al |-> <<Q(1,3), Q(2,3)>>, b1 |-> <<Q(1,1), Q(0,1)>>, b2 |-> <<Q(-1,1), Q(1,1)>>]

RECURSIVE SRIStages(_, _, _, _, _, _, _, _)
(* H = sequence of [h0, h1, f, g] for the stages computed so far *)
SRIStages(sde, th, t0, dt, sq, nz, y, H) ==
   IF Len(H) = 4 THEN H
   ELSE LET i == Len(H) + 1
            ones == TLCEval([j \in 1..Len(nz.w) |-> ROne])
            h0 == NVAdd(y, NSumVec(TLCEval([j \in 1..(i-1) |->
                     NVAdd(NVQ(RMul(SRI.A0[i][j], dt), H[j].f),
                           Prod(sde, H[j].g, RScaleSeq(RDiv(SRI.B0[i][j], dt), nz.u)))]), sde.d))
            h1 == NVAdd(y, NSumVec(TLCEval([j \in 1..(i-1) |->
                     NVAdd(NVQ(RMul(SRI.A1[i][j], dt), H[j].f),
                           Prod(sde, H[j].g, RScaleSeq(RMul(SRI.B1[i][j], sq), ones)))]), sde.d))
            fi == FEval(sde, RAdd(t0, RMul(SRI.c0[i], dt)), h0, th)
            gi == GEval(sde, RAdd(t0, RMul(SRI.c1[i], dt)), h1, th)
        IN SRIStages(sde, th, t0, dt, sq, nz, y, Append(H, [h0 |-> h0, h1 |-> h1, f |-> fi, g |-> gi]))
StepSRI(sde, th, t0, t1, nz, s) ==
   LET dt == RSub(t1, t0)
       sq == RSqrt(dt)
       H  == SRIStages(sde, th, t0, dt, sq, nz, s.y, <<>>)
       I11(j)  == RMul(RHalf, RSub(RMul(nz.w[j], nz.w[j]), dt))
       I111(j) == RMul(Q(1,6), RSub(RPow(nz.w[j], 3), RMul(RMul(RInt(3), dt), nz.w[j])))
       gwt(i) == TLCEval([j \in 1..Len(nz.w) |->
                    RAdd(RAdd(RMul(SRI.b1[i], nz.w[j]), RDiv(RMul(SRI.b2[i], I11(j)), sq)),
                         RAdd(RDiv(RMul(SRI.b3[i], nz.u[j]), dt), RDiv(RMul(SRI.b4[i], I111(j)), dt)))])
   IN [y |-> NVAdd(s.y, NSumVec(TLCEval([i \in 1..4 |->
                NVAdd(NVQ(RMul(SRI.al[i], dt), H[i].f), Prod(sde, H[i].g, gwt(i)))]), sde.d)),
       ex |-> s.ex]

RECURSIVE SRAStages(_, _, _, _, _, _, _)
SRAStages(sde, th, t0, dt, nz, y, H) ==
   IF Len(H) = 2 THEN H
   ELSE LET i == Len(H) + 1
            h0 == NVAdd(y, NSumVec(TLCEval([j \in 1..(i-1) |->
                     NVAdd(NVQ(RMul(SRA.A0[i][j], dt), H[j].f),
                           Prod(sde, H[j].g, RScaleSeq(RDiv(SRA.B0[i][j], dt), nz.u)))]), sde.d))
            fi == FEval(sde, RAdd(t0, RMul(SRA.c0[i], dt)), h0, th)
            gi == GEval(sde, RAdd(t0, RMul(SRA.c1[i], dt)), y, th)   \* additive: g does not depend on y
        IN SRAStages(sde, th, t0, dt, nz, y, Append(H, [h0 |-> h0, f |-> fi, g |-> gi]))
StepSRA(sde, th, t0, t1, nz, s) ==
   LET dt == RSub(t1, t0)
       H  == SRAStages(sde, th, t0, dt, nz, s.y, <<>>)
       gwt(i) == TLCEval([j \in 1..Len(nz.w) |-> RAdd(RMul(SRA.b1[i], nz.w[j]), RDiv(RMul(SRA.b2[i], nz.u[j]), dt))])
   IN [y |-> NVAdd(s.y, NSumVec(TLCEval([i \in 1..2 |->
                NVAdd(NVQ(RMul(SRA.al[i], dt), H[i].f), Prod(sde, H[i].g, gwt(i)))]), sde.d)),
       ex |-> s.ex]

Step(c, th, t0, t1, nz, s) ==
   CASE c.method = "euler"           -> StepEuler(c.sde, th, t0, t1, nz, s)
     [] c.method = "milstein"        -> IF c.gradfree THEN StepMilsteinDF(c.sde, th, t0, t1, nz, s)
                                        ELSE StepMilstein(c.sde, th, t0, t1, nz, s)
     [] c.method = "srk"             -> IF c.sde.nt = "additive" THEN StepSRA(c.sde, th, t0, t1, nz, s)
                                        ELSE StepSRI(c.sde, th, t0, t1, nz, s)
     [] c.method = "heun"            -> StepHeun(c.sde, th, t0, t1, nz, s)
     [] c.method = "midpoint"        -> StepMidpoint(c.sde, th, t0, t1, nz, s)
     [] c.method = "euler_heun"      -> StepEulerHeun(c.sde, th, t0, t1, nz, s)
     [] c.method = "reversible_heun" -> StepRevHeun(c.sde, th, t0, t1, nz, s)
     [] c.method = "log_ode"         -> StepLogODE(c.sde, th, t0, t1, nz, s)

InitState(c, y0, th) ==
   [y |-> y0, ex |-> IF c.method = "reversible_heun" THEN InitRevHeun(c.sde, th, c.t0, y0) ELSE <<>>]

-----------------------------------------------------------------------------
(* the fixed-step loop.  c = [sde, method, gradfree, t0, dt, ts, nz, ...]     *)
TEnd(c)     == c.ts[Len(c.ts)]
GridT(c, k) == RMin(RAdd(c.t0, RMul(RInt(k), c.dt)), TEnd(c))
RECURSIVE NStepsFrom(_, _)
NStepsFrom(c, k) == IF RLe(TEnd(c), GridT(c, k)) THEN k ELSE NStepsFrom(c, k + 1)
NSteps(c)   == NStepsFrom(c, 1)

RECURSIVE Run(_, _, _, _, _, _)
Run(c, th, k, n, s, acc) ==
   IF k > n THEN acc
   ELSE LET s1 == Step(c, th, GridT(c, k - 1), GridT(c, k), c.nz[k], s)
        IN Run(c, th, k + 1, n, s1, Append(acc, s1.y))
(* Traj[k+1] = state at grid time k *)
Traj(c, y0, th) == Run(c, th, 1, NSteps(c), InitState(c, y0, th), <<y0>>)

RECURSIVE StepIndexFrom(_, _, _)
StepIndexFrom(c, tau, k) == IF RLe(tau, GridT(c, k)) THEN k ELSE StepIndexFrom(c, tau, k + 1)
Interp(ta, ya, tb, yb, tau) ==
   LET len == RSub(tb, ta)
   IN NVAdd(NVQ(RDiv(RSub(tb, tau), len), ya), NVQ(RDiv(RSub(tau, ta), len), yb))
OutAt(c, tr, tau) ==
   IF tau = c.t0 THEN tr[1]
   ELSE LET k == StepIndexFrom(c, tau, 1)
        IN Interp(GridT(c, k - 1), tr[k], GridT(c, k), tr[k + 1], tau)
(* numerical solution at the output times: sequence (len ts) of d-vectors of numbers *)
Solve(c, y0, th) ==
   LET tr == Traj(c, y0, th)
   IN TLCEval([i \in 1..Len(c.ts) |-> OutAt(c, tr, c.ts[i])])
SolveVal(c) == LET ys == Solve(c, Lift(c.y0), Lift(c.th)) IN TLCEval([i \in 1..Len(ys) |-> NVVal(ys[i])])

-----------------------------------------------------------------------------
(* library of polynomial SDEs with small dyadic parameters                    *)
P2(k, e)  == EAdd(EP(k), EAdd(EMul(EP(k + 1), e), EMul(EP(k + 2), ESq(e))))   \* p_k + p_k+1 e + p_k+2 e^2
P1(k, e)  == EAdd(EP(k), EMul(EP(k + 1), e))                                  \* p_k + p_k+1 e
Mk(nt, cal, d, m, f, g, th, y0) ==
   [sde |-> [nt |-> nt, cal |-> cal, d |-> d, m |-> m, f |-> f, g |-> g], th |-> th, y0 |-> y0]

(* d = 1.  variant 1: quadratic f and g, time dependent; variant 2: affine *)
Prob1(nt, cal, v) ==
   LET f == IF v = 1 THEN <<EAdd(P2(1, EY(1)), ET)>> ELSE <<EAdd(P1(1, EY(1)), ET)>>
       ge == IF nt = "additive" THEN EAdd(EP(4), EMul(EP(5), ET))
             ELSE IF v = 1 THEN EAdd(P2(4, EY(1)), ET) ELSE EAdd(P1(4, EY(1)), ET)
       g == IF nt = "diagonal" THEN <<ge>> ELSE <<<<ge>>>>
       th == IF v = 1 THEN <<Q(1,1), Q(1,2), Q(-1,2), Q(1,1), Q(-1,2), Q(1,2)>>
             ELSE <<Q(1,2), Q(-1,1), Q(0,1), Q(1,1), Q(1,2), Q(0,1)>>
   IN Mk(nt, cal, 1, 1, f, g, th, IF v = 1 THEN <<Q(1,1)>> ELSE <<Q(1,2)>>)

(* d = 2 *)
Prob2(nt, cal, v) ==
   LET fq == <<EAdd(P1(1, EY(1)), EMul(EP(3), EMul(EY(1), EY(2)))), EAdd(EMul(EP(4), EY(1)), EMul(EP(5), EY(2)))>>
       fa == <<EAdd(P1(1, EY(1)), EMul(EP(3), EY(2))), EAdd(EMul(EP(4), EY(1)), EAdd(EMul(EP(5), EY(2)), ET))>>
       f == IF v = 1 THEN fq ELSE fa
       th == <<Q(1,2), Q(-1,1), Q(1,2), Q(1,1), Q(-1,2), Q(1,1), Q(1,2), Q(1,2), Q(-1,1), Q(1,2)>>
       y0 == <<Q(1,2), Q(-1,1)>>
   IN CASE nt = "diagonal" ->
             Mk(nt, cal, 2, 2, f,
                IF v = 1 THEN <<EAdd(EP(6), EMul(EP(7), ESq(EY(1)))), EAdd(P1(8, EY(2)), ET)>>
                ELSE <<P1(6, EY(1)), EAdd(P1(8, EY(2)), ET)>>, th, y0)
        [] nt = "scalar" ->
             Mk(nt, cal, 2, 1, f,
                IF v = 1 THEN <<<<P1(6, EY(2))>>, <<EAdd(EP(8), EMul(EP(9), ESq(EY(1))))>>>>     \* non-symmetric Jacobian
                ELSE <<<<P1(6, EY(1))>>, <<EAdd(P1(8, EY(2)), ET)>>>>, th, y0)
        [] nt = "additive" ->
             Mk(nt, cal, 2, 2, f,
                <<<<EAdd(EP(6), ET), EP(7)>>, <<EP(8), EAdd(EP(9), EMul(EP(10), ET))>>>>, th, y0)
        [] nt = "general" ->
             Mk(nt, cal, 2, 2, f,
                IF v = 1 THEN <<<<P1(6, EY(1)), EMul(EP(8), EY(2))>>, <<EMul(EP(9), EY(1)), EAdd(EP(10), EMul(EY(1), EY(2)))>>>>
                ELSE <<<<P1(6, EY(1)), EMul(EP(8), EY(2))>>, <<EMul(EP(9), EY(1)), EAdd(EP(10), EY(2))>>>>, th, y0)
(* additive with d = 2, m = 1 (rectangular) *)
Prob21(cal, v) ==
   Mk("additive", cal, 2, 1,
      <<EAdd(P1(1, EY(1)), EMul(EP(3), EY(2))), EAdd(EMul(EP(4), EY(1)), EMul(EP(5), IF v = 1 THEN ESq(EY(2)) ELSE EY(2)))>>,
      <<<<EAdd(EP(6), ET)>>, <<EP(7)>>>>,
      <<Q(1,2), Q(-1,1), Q(1,2), Q(1,1), Q(-1,2), Q(1,1), Q(1,2)>>, <<Q(1,2), Q(-1,1)>>)

(* prescribed noise for step k of an m-channel Brownian motion *)
WTab == <<<<Q(1,1), Q(-1,2)>>, <<Q(-1,2), Q(1,1)>>, <<Q(1,2), Q(1,2)>>>>
UTab == <<<<Q(1,4), Q(-1,4)>>, <<Q(1,2), Q(1,4)>>, <<Q(-1,4), Q(1,2)>>>>
ATab == <<Q(1,2), Q(-1,4), Q(1,4)>>
NoiseAt(k, m) ==
   [w |-> TLCEval([j \in 1..m |-> WTab[k][j]]), u |-> TLCEval([j \in 1..m |-> UTab[k][j]]),
    a |-> TLCEval([i \in 1..m |-> TLCEval([j \in 1..m |-> IF i < j THEN ATab[k] ELSE IF i > j THEN RNeg(ATab[k]) ELSE RZero])])]
Noise(n, m) == TLCEval([k \in 1..n |-> NoiseAt(k, m)])

(* time layouts: [dt, ts]; t0 = ts[1]; n = number of steps *)
Layout(n, lay) ==
   CASE lay = "grid"  -> [dt |-> Q(1,1), ts |-> TLCEval([i \in 1..(n + 1) |-> RInt(i - 1)])]
     [] lay = "end"   -> [dt |-> Q(1,1), ts |-> <<RInt(0), RInt(n)>>]
     [] lay = "inner" -> [dt |-> Q(1,1), ts |-> <<RInt(0), Q(1,2), RSub(RInt(n), Q(1,4))>> \o <<RInt(n)>>]
     [] lay = "clip"  -> [dt |-> Q(1,1), ts |-> <<RInt(0), RSub(RInt(n), Q(3,4))>>]   \* last step clipped to length 1/4
     [] lay = "quarter" -> [dt |-> Q(1,4), ts |-> <<RInt(0), Q(1,8), RMul(RInt(n), Q(1,4))>>]

Case(prob, method, gradfree, n, lay) ==
   LET L == Layout(n, lay)
   IN [sde |-> prob.sde, th |-> prob.th, y0 |-> prob.y0, method |-> method, gradfree |-> gradfree,
       t0 |-> L.ts[1], dt |-> L.dt, ts |-> L.ts, nz |-> Noise(n, prob.sde.m), n |-> n, lay |-> lay]

-----------------------------------------------------------------------------
(* C17: scenario machine for the embedding lemma                              *)
SpecialTypes == {"diagonal", "scalar", "additive"}
CalOf(method) == IF method = "euler" THEN "ito" ELSE "stratonovich"
BothSolvers  == {me \in Methods : \A nt \in SpecialTypes \cup {"general"} : Accepts(me, CalOf(me), nt)}
Sizes(nt) == CASE nt = "diagonal" -> {<<1, 1>>, <<2, 2>>}
               [] nt = "scalar"   -> {<<1, 1>>, <<2, 1>>}
               [] nt = "additive" -> {<<1, 1>>, <<2, 2>>, <<2, 1>>}
ProbFor(nt, cal, dm, v) ==
   IF dm = <<1, 1>> THEN Prob1(nt, cal, v)
   ELSE IF dm = <<2, 1>> /\ nt = "additive" THEN Prob21(cal, v)
   ELSE Prob2(nt, cal, v)
(* rich (quadratic) fields for up to 2 steps, affine fields for 3 *)
VariantFor(dm, n) == IF (dm[1] = 1 /\ n <= 2) \/ n = 1 THEN 1 ELSE 2
C17Layouts == {"grid", "inner", "clip"}

(* a diagonal declaration whose diffusion is NOT element-wise: not commutative, outside the lemma *)
NonCommProb ==
   Mk("diagonal", "stratonovich", 2, 2, <<EP(1), EP(2)>>, <<P1(3, EY(2)), P1(5, EY(1))>>,
      <<Q(1,2), Q(-1,1), Q(1,1), Q(1,2), Q(1,2), Q(-1,1)>>, <<Q(1,2), Q(-1,1)>>)

(* TLC note: LET definitions are cached when a state predicate (invariant) is evaluated but NOT
   when an action is evaluated, so the actions only choose the scenario and the invariants do the
   arithmetic (and print the scenario for the harness). *)
InitC17 == stage = "type" /\ sc = <<>>
ChooseType   == /\ stage = "type"
                /\ \E nt \in SpecialTypes : sc' = [nt |-> nt]
                /\ stage' = "solver"
ChooseSolver == /\ stage = "solver"
                /\ \E me \in BothSolvers : sc' = [nt |-> sc.nt, method |-> me]
                /\ stage' = "size"
ChooseSize   == /\ stage = "size"
                /\ \E dm \in Sizes(sc.nt) : sc' = [nt |-> sc.nt, method |-> sc.method, dm |-> dm]
                /\ stage' = "steps"
ChooseSteps  == /\ stage = "steps"
                /\ \E n \in 1..3, lay \in C17Layouts :
                      sc' = [nt |-> sc.nt, method |-> sc.method, dm |-> sc.dm, n |-> n, lay |-> lay]
                /\ stage' = "check"
(* the non-commutative witness: the lemma must FAIL there for log_ode *)
Witness      == /\ stage = "type"
                /\ sc' = [nt |-> "witness"] /\ stage' = "witness"
NextC17 == ChooseType \/ ChooseSolver \/ ChooseSize \/ ChooseSteps \/ Witness
SpecC17 == InitC17 /\ [][NextC17]_vars

EmbedLemma ==
   stage = "check" =>
      LET cal == CalOf(sc.method)
          pr == ProbFor(sc.nt, cal, sc.dm, VariantFor(sc.dm, sc.n))
          cs == Case(pr, sc.method, FALSE, sc.n, sc.lay)
          cg == [cs EXCEPT !.sde = Embed(pr.sde)]
          ys == SolveVal(cs)
          yg == SolveVal(cg)
      IN /\ PrintT("@@" \o ToJson([kind |-> "c17", nt |-> sc.nt, method |-> sc.method, d |-> sc.dm[1],
                                    m |-> sc.dm[2], n |-> sc.n, lay |-> sc.lay, cal |-> cal,
                                    case |-> cs, embedded |-> cg.sde, ys |-> ys]))
         /\ NSteps(cs) = sc.n
         /\ ys = yg
WitnessDiffers ==
   stage = "witness" =>
      LET cs == Case(NonCommProb, "log_ode", FALSE, 1, "grid")
          cg == [cs EXCEPT !.sde = Embed(NonCommProb.sde)]
      IN SolveVal(cs) # SolveVal(cg)
BothSolversAsDocumented ==
   BothSolvers = {"euler", "euler_heun", "heun", "midpoint", "reversible_heun", "log_ode"}
=============================================================================
