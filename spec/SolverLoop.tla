------------------------------ MODULE SolverLoop ------------------------------
(***************************************************************************)
(* The control loop of BaseSDESolver.integrate (torchsde/_core/base_solver) *)
(* as a state machine, one action per critical section, together with the   *)
(* properties C12 (GridSteps, OutputForm, OutputInvariance), C13 (ChunkEq)  *)
(* and C14 (Tiling, MinStep, AcceptRule, HalfStepValue, RejectKeepsState,   *)
(* AcceptedOnly, RetrySmaller, Terminates).                                 *)
(*                                                                         *)
(* Times are integer ticks, t0 = 0.  In adaptive mode every step size, T   *)
(* and dt_min are even so that the midpoint of a trial is a tick as well.   *)
(* y-values are symbolic terms:                                             *)
(*     <<"y0">>                      the initial value                      *)
(*     <<"step", y, e, a, b>>        solver.step(a, b, y, e)[0]             *)
(*     <<"stepx", y, e, a, b>>       solver.step(a, b, y, e)[1]  (extra)    *)
(*     <<"interp", ya, yb, n, d>>    (1 - n/d) ya + (n/d) yb,  0 < n < d    *)
(* The error estimate and the step size the controller proposes next are    *)
(* chosen by an adversarial environment; the only thing assumed about the   *)
(* controller is the contract of C14: after an estimate > 1 it proposes a  *)
(* strictly smaller step (possibly below dt_min, written 0 when it is below *)
(* one tick).                                                               *)
(*                                                                         *)
(* Deviation from DESIGN 3.4: instead of a finite set of rational Factors    *)
(* the environment picks the next step size directly from StepVals; the     *)
(* numeric factor (PI constants, facmin/facmax clamps, ratio memory) is     *)
(* mechanism and deliberately not constrained by C14.                        *)
(*                                                                         *)
(* Configurations (written by harness/loop.py, see checks/c12..c14.py):     *)
(*   fixed   : all layouts, GridSteps/OutputForm/ChunkEq/Tiling, Emit        *)
(*   pair    : PairMode, OutputInvariance                                    *)
(*   restart : RestartMode = "grid", ChunkEq; "any" must refute ChunkEq      *)
(*   adaptive: FairSpec, safety + Terminates (KeepHist = FALSE);             *)
(*             generation with histories, MaxTrials, Emit                    *)
(*   defects : Bugs = {"none", ...}, INVARIANT Detect,                       *)
(*             ACTION_CONSTRAINT DetectAct                                   *)
(*                                                                         *)
(* cfg.bug seeds one design defect (chosen from the constant Bugs); every   *)
(* invariant below is shown to bite: with Bugs # {"none"} the invariant     *)
(* Detect / the action constraint DetectAct print which property each       *)
(* seeded defect violates, and the harness requires the expected ones.      *)
(***************************************************************************)
EXTENDS Integers, Sequences, FiniteSets, TLC, Json

CONSTANTS
  Mode,         \* "fixed" | "adaptive"
  TEnds,        \* set of final times T (t0 = 0)
  MaxInterior,  \* at most this many output times strictly between 0 and T
  Dts,          \* set of (initial) step sizes dt
  DtMins,       \* set of dt_min (adaptive); {0} in fixed mode
  StepVals,     \* step sizes the controller may propose (0 = "below one tick")
  Extras,       \* subset of BOOLEAN: does the solver carry extra state (reversible Heun)
  RestartMode,  \* "none" | "grid" (restart sets = all subsets of interior grid points) | "any"
  PairMode,     \* TRUE: run layout ts, then a layout ts2 \supseteq ts (OutputInvariance)
  MaxTrials,    \* adaptive: behaviours with more trials are not explored (0 = no bound)
  KeepHist,     \* keep history variables (needed by history invariants and by Emit)
  Emit,         \* print every finished behaviour as JSON
  Bugs          \* set of seeded design defects Init may choose from; {"none"} for the real design

VARIABLES
  cfg,          \* the inputs of this behaviour (constant along it)
  phase,        \* 1, or 2 during the second run of PairMode
  pc,           \* "loop" | "est" | "upd" | "clamp" | "decide" | "done"
  currT, prevT, currY, prevY, currE,   \* locals of integrate
  step,         \* step_size
  mem,          \* prev_error_ratio: "none" | "set"
  oi,           \* index of the next output time
  tr,           \* the trial in flight (adaptive)
  gi,           \* number of accepted steps so far
  lastR,        \* time of the last restart (-1: none)
  ntr,          \* number of trials so far (only maintained when MaxTrials > 0)
  \* history variables
  queries,      \* Brownian queries <<ta, tb>> in order
  outs,         \* emitted outputs (terms)
  outK,         \* provenance of outputs <<k, n, d>>: (1-n/d) G(k) + (n/d) G(k+1)
  acc,          \* accepted steps <<ta, tb>>
  gridY,        \* accepted grid states, gridY[k+1] = G(k)
  sched,        \* adaptive: one record per trial
  outs1         \* PairMode: outputs of the first run

vars == <<cfg, phase, pc, currT, prevT, currY, prevY, currE, step, mem, oi, tr, gi, lastR, ntr,
          queries, outs, outK, acc, gridY, sched, outs1>>

-----------------------------------------------------------------------------
Min(a, b) == IF a <= b THEN a ELSE b
RECURSIVE Gcd(_, _)
Gcd(a, b) == IF b = 0 THEN a ELSE Gcd(b, a % b)

RECURSIVE SetToSeq(_)
SetToSeq(S) == IF S = {} THEN <<>>
               ELSE LET m == CHOOSE x \in S : \A y \in S : x <= y IN <<m>> \o SetToSeq(S \ {m})
SeqToSet(s) == {s[i] : i \in 1..Len(s)}
H(s, x) == IF KeepHist THEN Append(s, x) ELSE s

(* ---- terms ---- *)
Y0 == <<"y0">>
NoExtra == <<"noextra">>
Extra0(has) == IF has THEN <<"init", Y0, 0>> ELSE NoExtra
StepY(y, e, a, b) == <<"step", y, e, a, b>>
StepE(y, e, a, b, has) == IF has THEN <<"stepx", y, e, a, b>> ELSE NoExtra
Interp(ya, yb, n, d) == IF n = d THEN yb                 \* 0 * ya + 1 * yb
                        ELSE LET g == Gcd(n, d) IN <<"interp", ya, yb, n \div g, d \div g>>
Half2Y(y, e, a, m, b, has) == StepY(StepY(y, e, a, m), StepE(y, e, a, m, has), m, b)
Half2E(y, e, a, m, b, has) == StepE(StepY(y, e, a, m), StepE(y, e, a, m, has), m, b, has)

(* ---- inputs ---- *)
Layouts(T) == { <<0>> \o SetToSeq(S) \o <<T>> :
                  S \in {X \in SUBSET (1..(T - 1)) : Cardinality(X) <= MaxInterior} }
GridT(k, d, T) == Min(k * d, T)
NSteps(d, T) == (T + d - 1) \div d
GridTimes(d, T) == {GridT(k, d, T) : k \in 0..NSteps(d, T)}
\* candidate restart points: none / interior grid points / any interior tick (refuted: precondition of C13)
RestartCands(d, T) ==
   CASE RestartMode = "none" -> {}
     [] RestartMode = "grid" -> GridTimes(d, T) \ {0, T}
     [] RestartMode = "any"  -> 1..(T - 1)
\* layouts whose outputs are the restart points rs plus at most MaxInterior further interior times
LayoutsWith(rs, T) == { <<0>> \o SetToSeq(rs \cup S) \o <<T>> :
                          S \in {X \in SUBSET ((1..(T - 1)) \ rs) : Cardinality(X) <= MaxInterior} }
SuperLayouts(ts, T) == IF PairMode THEN {l \in Layouts(T) : SeqToSet(ts) \subseteq SeqToSet(l)} ELSE {<<>>}

Ts == IF phase = 1 THEN cfg.ts ELSE cfg.ts2
Bug == cfg.bug
T == cfg.T
NoTrial == [a |-> 0, b |-> 0, m |-> 0, s |-> 0, est |-> "-", raw |-> 0,
            full |-> Y0, half |-> Y0, halfE |-> NoExtra]

Init ==
  \E TT \in TEnds, d \in Dts, mn \in DtMins, has \in Extras, bug \in Bugs :
    \E rs \in SUBSET RestartCands(d, TT) :
      \E ts \in LayoutsWith(rs, TT) : \E ts2 \in SuperLayouts(ts, TT) :
        /\ Mode = "adaptive" => (TT % 2 = 0 /\ d % 2 = 0 /\ mn % 2 = 0 /\ mn <= d /\ mn > 0)
        /\ cfg = [ts |-> ts, T |-> TT, d |-> d, mn |-> mn, has |-> has, rs |-> rs, ts2 |-> ts2, bug |-> bug]
        /\ phase = 1 /\ pc = "loop"
        /\ currT = 0 /\ prevT = 0 /\ currY = Y0 /\ prevY = Y0 /\ currE = Extra0(has)
        /\ step = d /\ mem = "none" /\ oi = 2 /\ tr = NoTrial /\ gi = 0 /\ lastR = -1 /\ ntr = 0
        /\ queries = <<>> /\ outs = <<Y0>> /\ outK = <<<<0, 0, 1>>>> /\ acc = <<>>
        /\ gridY = <<Y0>> /\ sched = <<>> /\ outs1 = <<>>

-----------------------------------------------------------------------------
\* the chunk ending at output time Ts[oi-1] has returned and the next call has not started yet
RestartPending == oi >= 3 /\ oi <= Len(Ts) /\ Ts[oi - 1] \in cfg.rs /\ lastR # Ts[oi - 1]

(* ---- fixed step:  next_t = min(curr_t + dt, ts[-1]);  one solver.step ---- *)
FixedStep ==
  /\ Mode = "fixed" /\ pc = "loop" /\ oi <= Len(Ts) /\ currT < Ts[oi] /\ ~RestartPending
  /\ LET nxt == CASE Bug = "noclip"    -> currT + step
                  [] Bug = "toOutputs" -> Min(currT + step, Ts[oi])
                  [] OTHER             -> Min(currT + step, T)
         ny  == StepY(currY, currE, currT, nxt)
     IN /\ queries' = H(queries, <<currT, nxt>>)
        /\ acc' = H(acc, <<currT, nxt>>)
        /\ gridY' = H(gridY, ny)
        /\ prevT' = currT
        /\ prevY' = IF Bug = "stalePrev" THEN prevY ELSE currY
        /\ currY' = ny
        /\ currE' = StepE(currY, currE, currT, nxt, cfg.has)
        /\ currT' = nxt
        /\ gi' = gi + 1
  /\ UNCHANGED <<cfg, phase, pc, step, mem, oi, tr, lastR, ntr, outs, outK, sched, outs1>>

(* ---- adaptive: one full step and two half steps from the same state ---- *)
Trial ==
  /\ Mode = "adaptive" /\ pc = "loop" /\ oi <= Len(Ts) /\ currT < Ts[oi] /\ ~RestartPending
  /\ MaxTrials = 0 \/ ntr < MaxTrials
  /\ LET b == IF Bug = "noclip" THEN currT + step ELSE Min(currT + step, T)
         m == (currT + b) \div 2
     IN /\ Assert((currT + b) % 2 = 0, "midpoint is not a tick")
        /\ tr' = [a |-> currT, b |-> b, m |-> m, s |-> step, est |-> "-", raw |-> 0,
                  full  |-> StepY(currY, currE, currT, b),
                  half  |-> Half2Y(currY, currE, currT, m, b, cfg.has),
                  halfE |-> Half2E(currY, currE, currT, m, b, cfg.has)]
        /\ queries' = H(H(H(queries, <<currT, b>>), <<currT, m>>), <<m, b>>)
  /\ pc' = "est" /\ ntr' = IF MaxTrials = 0 THEN ntr ELSE ntr + 1    \* counted only when bounded
  /\ UNCHANGED <<cfg, phase, currT, prevT, currY, prevY, currE, step, mem, oi, gi, lastR,
                 outs, outK, acc, gridY, sched, outs1>>

(* the environment decides the class of the error estimate *)
Estimate ==
  /\ pc = "est"
  /\ \E c \in {"le1", "gt1"} : tr' = [tr EXCEPT !.est = c]
  /\ pc' = "upd"
  /\ UNCHANGED <<cfg, phase, currT, prevT, currY, prevY, currE, step, mem, oi, gi, lastR, ntr,
                 queries, outs, outK, acc, gridY, sched, outs1>>

(* the controller proposes the next step size; contract: strictly smaller after estimate > 1 *)
Proposals(c, s) == IF c = "gt1" /\ Bug # "neverShrink" THEN {p \in StepVals : p < s} ELSE StepVals
Update ==
  /\ pc = "upd"
  /\ \E p \in Proposals(tr.est, step) :
        /\ step' = p
        /\ tr' = [tr EXCEPT !.raw = p]
  /\ mem' = "set"            \* update_step_size always returns a ratio (mechanism, not property)
  /\ pc' = "clamp"
  /\ UNCHANGED <<cfg, phase, currT, prevT, currY, prevY, currE, oi, gi, lastR, ntr,
                 queries, outs, outK, acc, gridY, sched, outs1>>

(* if step_size < dt_min: step_size = dt_min, prev_error_ratio = None *)
ClampMin ==
  /\ pc = "clamp"
  /\ IF step < cfg.mn /\ Bug # "noclamp"
       THEN step' = cfg.mn /\ mem' = "none"
       ELSE UNCHANGED <<step, mem>>
  /\ pc' = "decide"
  /\ UNCHANGED <<cfg, phase, currT, prevT, currY, prevY, currE, oi, tr, gi, lastR, ntr,
                 queries, outs, outK, acc, gridY, sched, outs1>>

AcceptCond == CASE Bug = "acceptAll" -> TRUE
                [] Bug = "noForce"   -> tr.est = "le1"
                [] OTHER             -> tr.est = "le1" \/ step <= cfg.mn
SchedRec(a) == [a |-> tr.a, b |-> tr.b, m |-> tr.m, s |-> tr.s, est |-> tr.est, raw |-> tr.raw,
                stp |-> step, mem |-> mem, acc |-> a]
Accept ==
  /\ pc = "decide" /\ AcceptCond
  /\ prevT' = currT /\ prevY' = currY
  /\ currT' = tr.b
  /\ currY' = IF Bug = "fullValue" THEN tr.full ELSE tr.half
  /\ currE' = tr.halfE
  /\ gi' = gi + 1
  /\ acc' = H(acc, <<tr.a, tr.b>>)
  /\ gridY' = H(gridY, currY')
  /\ sched' = H(sched, SchedRec(TRUE))
  /\ pc' = "loop"
  /\ UNCHANGED <<cfg, phase, step, mem, oi, tr, lastR, ntr, queries, outs, outK, outs1>>

Reject ==
  /\ pc = "decide" /\ ~AcceptCond
  /\ sched' = H(sched, SchedRec(FALSE))
  /\ pc' = "loop"
  /\ currE' = IF Bug = "extraOnReject" THEN tr.halfE ELSE currE    \* a rejected trial leaves (y, extra) alone
  /\ UNCHANGED <<cfg, phase, currT, prevT, currY, prevY, step, mem, oi, tr, gi, lastR, ntr,
                 queries, outs, outK, acc, gridY, outs1>>

(* ys.append(linear_interp(prev_t, prev_y, curr_t, curr_y, out_t)) *)
EmitOutput ==
  /\ pc = "loop" /\ oi <= Len(Ts) /\ currT >= Ts[oi] /\ ~RestartPending
  /\ LET n == Ts[oi] - prevT
         d == currT - prevT
         g == Gcd(n, d)
     IN /\ outs' = H(outs, IF Bug = "swapW" THEN Interp(prevY, currY, d - n, d)
                                            ELSE Interp(prevY, currY, n, d))
        /\ outK' = H(outK, IF n = d THEN <<gi, 0, 1>> ELSE <<gi - 1, n \div g, d \div g>>)
  /\ oi' = oi + 1
  /\ UNCHANGED <<cfg, phase, pc, currT, prevT, currY, prevY, currE, step, mem, tr, gi, lastR, ntr,
                 queries, acc, gridY, sched, outs1>>

(* the call returns (ys, extra) at output time r = Ts[oi-1]; a new call starts from ys[-1] and
   the returned extra state, with fresh locals *)
Restart ==
  /\ pc = "loop" /\ RestartPending
  /\ LET r == Ts[oi - 1]
         y == IF KeepHist THEN outs[Len(outs)] ELSE currY     \* ys[-1] of the finished call
     IN /\ lastR' = r
        /\ currT' = r /\ prevT' = r
        /\ currY' = y /\ prevY' = y
        /\ currE' = IF Bug = "dropExtra" THEN (IF cfg.has THEN <<"init", y, r>> ELSE NoExtra) ELSE currE
        /\ step' = IF Bug = "keepStep" THEN step ELSE cfg.d
        /\ mem' = "none"
  /\ UNCHANGED <<cfg, phase, pc, oi, tr, gi, ntr, queries, outs, outK, acc, gridY, sched, outs1>>

Finish ==
  /\ pc = "loop" /\ oi > Len(Ts)
  /\ IF PairMode /\ phase = 1
       THEN /\ phase' = 2 /\ outs1' = outs
            /\ currT' = 0 /\ prevT' = 0 /\ currY' = Y0 /\ prevY' = Y0 /\ currE' = Extra0(cfg.has)
            /\ step' = cfg.d /\ mem' = "none" /\ oi' = 2 /\ gi' = 0 /\ lastR' = -1
            /\ queries' = <<>> /\ outs' = <<Y0>> /\ outK' = <<<<0, 0, 1>>>> /\ acc' = <<>>
            /\ gridY' = <<Y0>>
            /\ UNCHANGED <<cfg, pc, tr, ntr, sched>>
       ELSE /\ pc' = "done"
            /\ UNCHANGED <<cfg, phase, currT, prevT, currY, prevY, currE, step, mem, oi, tr, gi, lastR, ntr,
                           queries, outs, outK, acc, gridY, sched, outs1>>

Next == FixedStep \/ Trial \/ Estimate \/ Update \/ ClampMin \/ Accept \/ Reject
        \/ EmitOutput \/ Restart \/ Finish

Spec == Init /\ [][Next]_vars
FairSpec == Spec /\ WF_vars(Next)

-----------------------------------------------------------------------------
(* ======================= reference semantics (declarative) ============== *)
\* the one-shot trajectory: GridAll[k+1] = <<G(k), extra(k)>>, built front to back
RECURSIVE GridBuild(_, _, _, _, _)
GridBuild(sofar, k, d, TT, has) ==
  IF k > NSteps(d, TT) THEN sofar
  ELSE LET a == GridT(k - 1, d, TT)
           b == GridT(k, d, TT)
       IN GridBuild(Append(sofar, <<StepY(sofar[k][1], sofar[k][2], a, b),
                                    StepE(sofar[k][1], sofar[k][2], a, b, has)>>), k + 1, d, TT, has)
GridAll == GridBuild(<< <<Y0, Extra0(cfg.has)>> >>, 1, cfg.d, T, cfg.has)
StepIndex(t) == (t + cfg.d - 1) \div cfg.d          \* the step (k-1 -> k) with GridT(k-1) < t <= GridT(k)
\* G is GridAll, evaluated once per use site (TLC does not cache it)
OutTermG(G, t) == IF t = 0 THEN Y0
                  ELSE LET k == StepIndex(t)
                           a == GridT(k - 1, cfg.d, T)
                           b == GridT(k, cfg.d, T)
                       IN Interp(G[k][1], G[k + 1][1], t - a, b - a)
GridQueries == [k \in 1..NSteps(cfg.d, T) |-> <<GridT(k - 1, cfg.d, T), GridT(k, cfg.d, T)>>]
IsPrefix(s, t) == Len(s) <= Len(t) /\ \A i \in 1..Len(s) : s[i] = t[i]

TypeOK ==
  /\ pc \in {"loop", "est", "upd", "clamp", "decide", "done"}
  /\ currT \in 0..(T + 16) /\ prevT \in 0..T /\ oi \in 2..(Len(Ts) + 1)
  /\ mem \in {"none", "set"} /\ phase \in {1, 2}

(* ---- C12 ---- *)
\* the Brownian queries are the dt grid with the last step clipped, whatever the interior of Ts
GridSteps ==
  Mode = "fixed" =>
    /\ IsPrefix(queries, GridQueries)
    /\ pc = "done" => queries = GridQueries
\* ys[0] = y0; an output at a grid time is the grid state; inside a step it is the interpolant
OutputForm ==
  Mode = "fixed" => LET G == GridAll IN \A i \in 1..Len(outs) : outs[i] = OutTermG(G, Ts[i])
OutputFormIsGrid ==      \* the reading of OutTermG used above, spelled out
  Mode = "fixed" =>
    LET G == GridAll IN
    \A i \in 1..Len(outs) :
      LET t == Ts[i] IN
        /\ (t \in GridTimes(cfg.d, T)) => \E k \in 0..NSteps(cfg.d, T) : GridT(k, cfg.d, T) = t /\ outs[i] = G[k + 1][1]
        /\ (t \notin GridTimes(cfg.d, T)) =>
              \E k \in 1..NSteps(cfg.d, T) :
                 LET a == GridT(k - 1, cfg.d, T)
                     b == GridT(k, cfg.d, T)
                     g == Gcd(t - a, b - a)
                 IN /\ a < t /\ t < b
                    /\ outs[i] = <<"interp", G[k][1], G[k + 1][1], (t - a) \div g, (b - a) \div g>>
\* adding, removing or moving interior output times does not change the other outputs
Pos(t, s) == CHOOSE i \in 1..Len(s) : s[i] = t
OutputInvariance ==
  (PairMode /\ phase = 2 /\ pc = "done") =>
     \A i \in 1..Len(cfg.ts) : outs1[i] = outs[Pos(cfg.ts[i], cfg.ts2)]

(* ---- C13 ---- *)
\* whatever restarts happened, the loop state between steps is the one-shot state
OnGrid(t) == t \in GridTimes(cfg.d, T)
ChunkEq ==
  (Mode = "fixed" /\ pc \in {"loop", "done"}) =>
     /\ OnGrid(currT)
     /\ currT = GridT(gi, cfg.d, T)
     /\ gi <= NSteps(cfg.d, T)
     /\ LET G == GridAll IN currY = G[gi + 1][1] /\ currE = G[gi + 1][2]
     /\ step = cfg.d

(* ---- refinement of LoopGrid.tla (C12; its inductive invariant is proved by TLAPS for ALL T and dt) ----
   under  t <- currT, k <- gi, T <- cfg.T, D <- cfg.d  every fixed-mode step of this machine is a step of
   LoopGrid or leaves (t, k) unchanged; a Restart keeps (t, k); the second run of PairMode starts afresh.
   (The constants of LoopGrid are state-dependent here, so the step relation is written out instead of
   using INSTANCE.)                                                                                    *)
GridRefinementInit == (Mode = "fixed" /\ gi = 0) => currT = 0
GridRefinementAct ==
  (Mode = "fixed" /\ Bug = "none") =>
     \/ (currT' = currT /\ gi' = gi)
     \/ (currT < T /\ currT' = Min(currT + cfg.d, T) /\ gi' = gi + 1)
     \/ (PairMode /\ phase' # phase /\ currT' = 0 /\ gi' = 0)
GridRefinement == [][GridRefinementAct]_vars

(* ---- refinement of LoopAdaptive.tla (C14; invariant, MinStep and the termination measure are proved by TLAPS
   for ALL T, dt, dt_min) under  t <- currT, s <- the step size of the trial just decided (tr.s), s' <- step:
   every decision of this machine is an Accept or a Reject of LoopAdaptive.  In the model "below one tick" is
   written 0 and clamped like any other proposal.                                                         *)
AdaptiveRefinementAct ==
  (Mode = "adaptive" /\ Bug = "none" /\ pc = "decide" /\ pc' = "loop") =>
     \/ (tr.a < T /\ currT' = Min(tr.a + tr.s, T) /\ step' = step /\ step >= cfg.mn)                    \* Accept
     \/ (tr.a < T /\ tr.s > cfg.mn /\ currT' = currT /\ step' = step /\ step < tr.s /\ step >= cfg.mn)   \* Reject
AdaptiveRefinement == [][AdaptiveRefinementAct]_vars

(* ---- C14 ---- *)
Contiguous(s) == \A i \in 1..Len(s) :
                    /\ s[i][1] < s[i][2]
                    /\ s[i][1] >= 0 /\ s[i][2] <= T
                    /\ (i = 1 => s[i][1] = 0)
                    /\ (i > 1 => s[i][1] = s[i - 1][2])
Tiling ==
  /\ Contiguous(acc)
  /\ KeepHist => (Len(acc) = gi /\ (gi > 0 => acc[gi][2] = currT))
  /\ currT <= T /\ prevT <= currT
  /\ pc = "done" => currT = T
TilingStepAct == currT' >= currT \/ (PairMode /\ phase' # phase) \/ lastR' # lastR
TilingStep == [][TilingStepAct]_vars
\* no trial is shorter than dt_min unless it is clipped to end at T
MinStep ==
  pc \in {"est", "upd", "clamp", "decide"} => (tr.b - tr.a >= cfg.mn \/ tr.b = T)
MinStepSize == (Mode = "adaptive" /\ pc \in {"loop", "est", "decide", "done"}) => step >= cfg.mn
\* accepted iff estimate <= 1 or the (clamped) next step size is at dt_min
AcceptRuleAct ==
  pc = "decide" =>
       /\ (currT' = tr.b /\ gi' = gi + 1) <=> (tr.est = "le1" \/ step <= cfg.mn)
       /\ (currT' = currT /\ gi' = gi) <=> ~(tr.est = "le1" \/ step <= cfg.mn)
       /\ tr.raw < cfg.mn => (step = cfg.mn /\ mem = "none")
AcceptRule == [][AcceptRuleAct]_vars
\* a rejected trial is retried strictly smaller, and never below dt_min
RetrySmallerAct ==
  (pc = "decide" /\ currT' = currT /\ pc' = "loop") => (step' = step /\ step < tr.s /\ step >= cfg.mn)
RetrySmaller == [][RetrySmallerAct]_vars
\* the accepted value is the two-half-step value (and the extra state that goes with it)
HalfStepValueAct ==
  (pc = "decide" /\ gi' = gi + 1) =>
       /\ currY' = StepY(StepY(currY, currE, tr.a, tr.m),
                         StepE(currY, currE, tr.a, tr.m, cfg.has), tr.m, tr.b)
       /\ currE' = StepE(StepY(currY, currE, tr.a, tr.m),
                         StepE(currY, currE, tr.a, tr.m, cfg.has), tr.m, tr.b, cfg.has)
       /\ currY' # StepY(currY, currE, tr.a, tr.b)
       /\ 2 * tr.m = tr.a + tr.b
       /\ prevY' = currY /\ prevT' = currT
HalfStepValue == [][HalfStepValueAct]_vars
\* a rejected trial changes nothing but the step size: the retry starts from the same (t, y, extra), so the
\* returned values are those of the two-half-step solution on the ACCEPTED steps only
RejectKeepsStateAct ==
  (pc = "decide" /\ pc' = "loop" /\ gi' = gi) =>
       (currT' = currT /\ currY' = currY /\ currE' = currE /\ prevT' = prevT /\ prevY' = prevY)
RejectKeepsState == [][RejectKeepsStateAct]_vars
\* hence every trial starts from the state the accepted steps alone produce
RECURSIVE AccPair(_, _, _)
AccPair(sofar, k, s) ==            \* fold the accepted steps (a, m, b) of s over <<y, extra>>
  IF k > Len(s) THEN sofar
  ELSE AccPair(IF s[k].acc
                 THEN <<Half2Y(sofar[1], sofar[2], s[k].a, s[k].m, s[k].b, cfg.has),
                        Half2E(sofar[1], sofar[2], s[k].a, s[k].m, s[k].b, cfg.has)>>
                 ELSE sofar, k + 1, s)
AcceptedOnly ==
  (Mode = "adaptive" /\ KeepHist /\ pc \in {"loop", "done"}) =>
     LET p == AccPair(<<Y0, Extra0(cfg.has)>>, 1, sched) IN currY = p[1] /\ currE = p[2]
\* outputs of an adaptive run interpolate between accepted grid states
OutputFormA ==
  (Mode = "adaptive" /\ KeepHist) =>
     \A i \in 2..Len(outs) :
        \E j \in 1..Len(acc) :
           LET a == acc[j][1]  b == acc[j][2]  t == Ts[i] IN
             /\ a < t /\ t <= b
             /\ outs[i] = Interp(gridY[j], gridY[j + 1], t - a, b - a)
             /\ outK[i] = IF t = b THEN <<j, 0, 1>>
                          ELSE LET g == Gcd(t - a, b - a) IN <<j - 1, (t - a) \div g, (b - a) \div g>>
Terminates == <>(pc = "done")
\* the safety shadow of Terminates (the watchdog of the harness): a bound on the number of trials, from
\* "every accepted step but the last is >= dt_min" and "a rejected trial is retried strictly smaller"
TrialLimit == ((T \div cfg.mn) + 1) * (Cardinality(StepVals) + 1)
TrialBound == (Mode = "adaptive" /\ MaxTrials > 0) => ntr <= TrialLimit
AllEmitted == pc = "done" => (oi = Len(Ts) + 1 /\ (KeepHist => Len(outs) = Len(Ts)))

(* ---- seeded defects: which property catches which ---- *)
Caught(name) == PrintT("@@" \o ToJson([bug |-> cfg.bug, caught |-> name]))
Detect ==
  /\ ~GridSteps => Caught("GridSteps")
  /\ ~OutputForm => Caught("OutputForm")
  /\ ~OutputInvariance => Caught("OutputInvariance")
  /\ ~ChunkEq => Caught("ChunkEq")
  /\ ~Tiling => Caught("Tiling")
  /\ ~MinStep => Caught("MinStep")
  /\ ~MinStepSize => Caught("MinStepSize")
  /\ ~OutputFormA => Caught("OutputFormA")
  /\ ~TrialBound => Caught("TrialBound")
  /\ ~AcceptedOnly => Caught("AcceptedOnly")
DetectAct ==
  /\ ~AcceptRuleAct => Caught("AcceptRule")
  /\ ~RetrySmallerAct => Caught("RetrySmaller")
  /\ ~HalfStepValueAct => Caught("HalfStepValue")
  /\ ~RejectKeepsStateAct => Caught("RejectKeepsState")
  /\ ~TilingStepAct => Caught("TilingStep")

(* ---- JSON for the conformance harness ---- *)
EmitInv ==
  (Emit /\ pc = "done") =>
     PrintT("@@" \o ToJson([mode |-> Mode, ts |-> cfg.ts, T |-> T, d |-> cfg.d, mn |-> cfg.mn, has |-> cfg.has,
                            rs |-> SetToSeq(cfg.rs), queries |-> queries, outK |-> outK, acc |-> acc,
                            sched |-> sched]))
=============================================================================
