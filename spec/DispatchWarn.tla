---------------------------- MODULE DispatchWarn ----------------------------
(* Specification growth next to C19: the WARNING behaviour of the dispatch layer of           *)
(* torchsde.sdeint / sdeint_adjoint, of BrownianInterval.__call__ and of the adaptive loop.   *)
(* No listed property states it; a disagreement of the real code is reported as model drift.  *)
(*                                                                                            *)
(* Three small machines share the variables (`mach` says which one a behaviour belongs to):   *)
(*   "dispatch"  configurations ACCEPTED by Dispatch.tla (its support table is reused through *)
(*               an INSTANCE, nothing is copied), with                                        *)
(*                 (a) ExpectedWarnings(c): the SET of warning classes, declaratively, written *)
(*                     from the warning texts / the comment in adjoint.py ("all of these       *)
(*                     warnings are only applicable for reversible solvers with sdeint_adjoint;*)
(*                     none of them apply to sdeint") and the documented defaults;             *)
(*                 (b) the pipeline: one action per warning site in source order, which        *)
(*                     accumulates `warned` (set) and `wlog` (order of emission);              *)
(*   "brownian"  BrownianInterval.__call__ on a grid of query end points around [t0, t1]:     *)
(*               point evaluation, clamping with one warning per offending end point, ta > tb;*)
(*   "minstep"   base_solver.py: the adaptive loop under a scripted step-size controller:     *)
(*               one "Hitting minimum allowed step size" warning per proposal below dt_min.   *)
(* TLC checks that (a) and (b) agree on the whole finite product and prints every             *)
(* configuration with its expected warnings; harness/dispatch_warn.py replays each of them    *)
(* on the real code.                                                                          *)
EXTENDS Integers, Sequences, FiniteSets, TLC, Json

\* The support table, the documented defaults and the code-shaped default tables of C19.
\* (Dispatch's variables are not used here: they are instantiated by a constant.)
D == INSTANCE Dispatch WITH cfg <- "unused", stage <- "unused", outcome <- "unused",
                            queriedBm <- "unused", sel <- "unused", failedAt <- "unused"

VARIABLES mach, cfg, stage, warned, wlog, aux
vars == <<mach, cfg, stage, warned, wlog, aux>>

Range(s) == {s[i] : i \in DOMAIN s}
Unset == "unset"

Warn(w)  == /\ warned' = warned \cup {w}
            /\ wlog' = Append(wlog, w)
NoWarn   == UNCHANGED <<warned, wlog>>
WarnIf(b, w) == IF b THEN Warn(w) ELSE NoWarn

-----------------------------------------------------------------------------
(* ============================  machine "dispatch"  ============================ *)

Apis   == {"sdeint", "sdeint_adjoint"}
\* ts relative to dt:  "aligned"         ts[0] = 0, every ts[i] a whole multiple of dt
\*                     "aligned_offset"  ts[0] is not a multiple of dt, every ts[i] - ts[0] is
\*                     "misaligned"      some ts[i] - ts[0] is not a whole multiple of dt
Aligns == {"aligned", "aligned_offset", "misaligned"}
Extras == 0..2                       \* number of unknown keyword arguments passed
MethodArgs == D!Methods \cup {"None"}

WCfg(api, st, nt, m, adj, ad, aad, al, ex) ==
    [api |-> api, st |-> st, nt |-> nt, method |-> m, adj |-> adj, adaptive |-> ad,
     adjoint_adaptive |-> aad, align |-> al, extra |-> ex]

\* the same call as a configuration of Dispatch.tla (a given Brownian motion with Foster's Levy area,
\* which every solver accepts; no options, no logqp, well-formed arguments).  Whether a call is accepted
\* does not depend on adaptive / adjoint_adaptive / ts / extra keyword arguments.
ToDispatch(api, st, nt, m, adj) ==
    D!Cfg(api, st, nt, m, FALSE, "given", "foster", FALSE, FALSE, adj, FALSE, "none")
\* sdeint has neither adjoint_method nor adjoint_adaptive ("NA")
AcceptedCore ==
    {x \in Apis \X D!SdeTypes \X D!NoiseTypes \X MethodArgs \X (MethodArgs \cup {"NA"}) :
        /\ (x[1] = "sdeint") = (x[5] = "NA")
        /\ D!Documented(ToDispatch(x[1], x[2], x[3], x[4], x[5]))}
Accepted(c) == <<c.api, c.st, c.nt, c.method, c.adj>> \in AcceptedCore
AdjAdaptiveChoices(api) == IF api = "sdeint" THEN {FALSE} ELSE BOOLEAN

(* (a) DECLARATIVE *)
\* "Defaults to a sensible choice depending on the SDE type and noise type of the supplied SDE."
ResolvedMethod(c)  == IF c.method = "None" THEN D!DocDefaultMethod(c.st, c.nt) ELSE c.method
ResolvedAdjoint(c) == IF c.adj = "None" THEN D!DocDefaultAdjoint(c.st, c.nt, ResolvedMethod(c)) ELSE c.adj
IsAligned(c) == c.align # "misaligned"

\* misc.handle_unused_kwargs: "Unexpected arguments {...}" -- one warning however many there are
UnusedW(c) == IF c.extra > 0 THEN {"unused_kwargs"} ELSE {}
\* "Numerical solution is not guaranteed to converge to the correct solution when using adaptive
\*  time-stepping with the Euler--Maruyama method with non-additive noise."  (either API)
EulerW(c) == IF c.adaptive /\ ResolvedMethod(c) = "euler" /\ c.nt # "additive"
             THEN {"euler_adaptive"} ELSE {}
\* reversible solvers with sdeint_adjoint only:
\*   "method='reversible_heun', but adjoint_method!='adjoint_reversible_heun'."
\*   "... does not save the time steps used. ... may not be perfectly accurate when used with `adaptive`
\*    or `adjoint_adaptive`."
\*   (fixed steps)  "The spacing between time points `ts` is not an integer multiple of the time step `dt`."
RevHeunClasses == {"revheun_adjoint_method", "revheun_adaptive", "revheun_spacing"}
RevHeunW(c) ==
    IF c.api = "sdeint_adjoint" /\ ResolvedMethod(c) = "reversible_heun"
    THEN (IF ResolvedAdjoint(c) # "adjoint_reversible_heun" THEN {"revheun_adjoint_method"} ELSE {})
         \cup (IF c.adaptive \/ c.adjoint_adaptive THEN {"revheun_adaptive"}
               ELSE IF ~IsAligned(c) THEN {"revheun_spacing"} ELSE {})
    ELSE {}

ExpectedWarnings(c) == UnusedW(c) \cup EulerW(c) \cup RevHeunW(c)
DispatchClasses == {"unused_kwargs", "euler_adaptive"} \cup RevHeunClasses

(* (b) OPERATIONAL: one action per warning site, in source order *)
DStages == <<"UnusedKwargs", "DefaultMethod", "EulerAdaptive", "DefaultAdjoint", "RevHeunMethod",
             "RevHeunSteps", "done">>

InitD == /\ mach = "dispatch"
         /\ \E x \in AcceptedCore, ad \in BOOLEAN, al \in Aligns, ex \in Extras :
              \E aad \in AdjAdaptiveChoices(x[1]) :
                 cfg = WCfg(x[1], x[2], x[3], x[4], x[5], ad, aad, al, ex)
         /\ stage = "UnusedKwargs"
         /\ warned = {} /\ wlog = <<>>
         /\ aux = [method |-> Unset, adjm |-> Unset]

AtD(s) == mach = "dispatch" /\ stage = s
GoD(s) == stage' = s /\ UNCHANGED <<mach, cfg>>

\* sdeint.py:90 / adjoint.py:225  misc.handle_unused_kwargs (misc.py:26-31)
WUnusedKwargs == /\ AtD("UnusedKwargs")
                 /\ WarnIf(cfg.extra > 0, "unused_kwargs")
                 /\ GoD("DefaultMethod") /\ UNCHANGED aux

\* sdeint.py:147-156 (check_contract, shared by both APIs; code-shaped table of Dispatch.tla)
WDefaultMethod == /\ AtD("DefaultMethod")
                  /\ aux' = [aux EXCEPT !.method = IF cfg.method = "None"
                                                   THEN D!DefaultMethodTable[cfg.st][cfg.nt]
                                                   ELSE cfg.method]
                  /\ NoWarn /\ GoD("EulerAdaptive")

\* sdeint.py:277-279 (end of check_contract)
WEulerAdaptive == /\ AtD("EulerAdaptive")
                  /\ WarnIf(cfg.adaptive /\ aux.method = "euler" /\ cfg.nt # "additive", "euler_adaptive")
                  /\ GoD(IF cfg.api = "sdeint_adjoint" THEN "DefaultAdjoint" ELSE "done")
                  /\ UNCHANGED aux

\* adjoint.py:238 / 281-296
WDefaultAdjoint == /\ AtD("DefaultAdjoint")
                   /\ aux' = [aux EXCEPT !.adjm = IF cfg.adj # "None" THEN cfg.adj
                                                  ELSE IF aux.method = "reversible_heun"
                                                       THEN "adjoint_reversible_heun"
                                                  ELSE D!DefaultAdjointTable[cfg.st][cfg.nt]]
                   /\ NoWarn /\ GoD("RevHeunMethod")

\* adjoint.py:243-245
WRevHeunMethod == /\ AtD("RevHeunMethod")
                  /\ WarnIf(aux.method = "reversible_heun" /\ aux.adjm # "adjoint_reversible_heun",
                            "revheun_adjoint_method")
                  /\ GoD("RevHeunSteps") /\ UNCHANGED aux

\* adjoint.py:246-257   (num_steps = (ts - ts[0]) / dt must be whole numbers)
WRevHeunSteps == /\ AtD("RevHeunSteps")
                 /\ IF aux.method # "reversible_heun" THEN NoWarn
                    ELSE IF cfg.adaptive \/ cfg.adjoint_adaptive THEN Warn("revheun_adaptive")
                    ELSE WarnIf(cfg.align = "misaligned", "revheun_spacing")
                 /\ GoD("done") /\ UNCHANGED aux
\* (the solve itself has no dispatch warning; the loop's own warning is the machine "minstep")

NextD == WUnusedKwargs \/ WDefaultMethod \/ WEulerAdaptive \/ WDefaultAdjoint \/ WRevHeunMethod
         \/ WRevHeunSteps

-----------------------------------------------------------------------------
(* ============================  machine "brownian"  ============================ *)
(* BrownianInterval(t0, t1).__call__(ta, tb=None) with end points on a grid; T0 < T1 strictly  *)
(* inside the grid so that two distinct points lie below, inside and above.                    *)

Grid == 0..7
T0 == 2
T1 == 5
\* a point query bm(a) carries b = a (unused)
BQueries == {[kind |-> "point", a |-> x, b |-> x] : x \in Grid}
            \cup {[kind |-> "interval", a |-> x, b |-> y] : x \in Grid, y \in Grid}

(* (a) DECLARATIVE *)
BClamp(x) == IF x < T0 THEN T0 ELSE IF x > T1 THEN T1 ELSE x
\* the end points the caller passed, under the names the messages use (bm(t): the argument is `ta`)
BArgs(q) == IF q.kind = "point" THEN {<<"ta", q.a>>} ELSE {<<"ta", q.a>>, <<"tb", q.b>>}
BExpectedClasses(q) ==
    (IF q.kind = "point" THEN {"point_eval"} ELSE {})
    \cup {x[1] \o "_below" : x \in {y \in BArgs(q) : y[2] < T0}}
    \cup {x[1] \o "_above" : x \in {y \in BArgs(q) : y[2] > T1}}
\* bm(t) is the increment over [t0, t]
BEffective(q) == IF q.kind = "point" THEN <<T0, BClamp(q.a)>> ELSE <<BClamp(q.a), BClamp(q.b)>>
BRaises(q) == BEffective(q)[1] > BEffective(q)[2]

(* (b) OPERATIONAL: brownian_interval.py:591-613 *)
BStages == <<"Point", "TaBelow", "TbBelow", "TaAbove", "TbAbove", "Order", "done">>

InitB == /\ mach = "brownian"
         /\ cfg \in BQueries
         /\ stage = "Point"
         /\ warned = {} /\ wlog = <<>>
         /\ aux = [ta |-> 0, tb |-> 0, name |-> Unset, res |-> "running"]

AtB(s) == mach = "brownian" /\ stage = s
GoB(s) == stage' = s /\ UNCHANGED <<mach, cfg>>

\* 592-597
BPoint == /\ AtB("Point")
          /\ IF cfg.kind = "point"
             THEN /\ Warn("point_eval")
                  /\ aux' = [aux EXCEPT !.ta = T0, !.tb = cfg.a, !.name = "ta"]
             ELSE /\ NoWarn
                  /\ aux' = [aux EXCEPT !.ta = cfg.a, !.tb = cfg.b, !.name = "tb"]
          /\ GoB("TaBelow")
\* 600-602
BTaBelow == /\ AtB("TaBelow")
            /\ IF aux.ta < T0 THEN Warn("ta_below") /\ aux' = [aux EXCEPT !.ta = T0]
               ELSE NoWarn /\ UNCHANGED aux
            /\ GoB("TbBelow")
\* 603-605
BTbBelow == /\ AtB("TbBelow")
            /\ IF aux.tb < T0 THEN Warn(aux.name \o "_below") /\ aux' = [aux EXCEPT !.tb = T0]
               ELSE NoWarn /\ UNCHANGED aux
            /\ GoB("TaAbove")
\* 606-608
BTaAbove == /\ AtB("TaAbove")
            /\ IF aux.ta > T1 THEN Warn("ta_above") /\ aux' = [aux EXCEPT !.ta = T1]
               ELSE NoWarn /\ UNCHANGED aux
            /\ GoB("TbAbove")
\* 609-611
BTbAbove == /\ AtB("TbAbove")
            /\ IF aux.tb > T1 THEN Warn(aux.name \o "_above") /\ aux' = [aux EXCEPT !.tb = T1]
               ELSE NoWarn /\ UNCHANGED aux
            /\ GoB("Order")
\* 612-613
BOrder == /\ AtB("Order")
          /\ aux' = [aux EXCEPT !.res = IF aux.ta > aux.tb THEN "RuntimeError" ELSE "value"]
          /\ NoWarn /\ GoB("done")

NextB == BPoint \/ BTaBelow \/ BTbBelow \/ BTaAbove \/ BTbAbove \/ BOrder

-----------------------------------------------------------------------------
(* ============================  machine "minstep"  ============================ *)
(* base_solver.py:114-142 with adaptive=True under a scripted controller: after every step the *)
(* controller proposes the next step size; sizes in units of dt_min / 2.                       *)

DtMin == 2
Dt0   == 4                                   \* the `dt` argument: size of the first step
Proposals == {"below", "at", "above"}
Size(p) == CASE p = "below" -> 1 [] p = "at" -> DtMin [] p = "above" -> 4
Scripts == UNION {[1..n -> Proposals] : n \in 1..3}

(* (a) DECLARATIVE: warn iff the controller proposes a step below dt_min; that step is then dt_min *)
MExpectedCount(s) == Cardinality({i \in DOMAIN s : Size(s[i]) < DtMin})
MExpectedSteps(s) == <<Dt0>> \o [i \in DOMAIN s |-> IF Size(s[i]) < DtMin THEN DtMin ELSE Size(s[i])]

(* (b) OPERATIONAL *)
InitM == /\ mach = "minstep"
         /\ cfg \in {[script |-> s] : s \in Scripts}
         /\ stage = "Step"
         /\ warned = {} /\ wlog = <<>>
         /\ aux = [i |-> 1, step |-> Dt0, taken |-> <<>>]

AtM(s) == mach = "minstep" /\ stage = s
\* 116-132: take a step of the current size, then ask the controller
MStep == /\ AtM("Step")
         /\ IF aux.i <= Len(cfg.script)
            THEN /\ aux' = [aux EXCEPT !.taken = Append(@, aux.step), !.step = Size(cfg.script[aux.i])]
                 /\ stage' = "CheckMin"
            ELSE /\ aux' = [aux EXCEPT !.taken = Append(@, aux.step)]
                 /\ stage' = "done"
         /\ NoWarn /\ UNCHANGED <<mach, cfg>>
\* 134-137
MCheckMin == /\ AtM("CheckMin")
             /\ IF aux.step < DtMin
                THEN Warn("min_step") /\ aux' = [aux EXCEPT !.step = DtMin, !.i = @ + 1]
                ELSE NoWarn /\ aux' = [aux EXCEPT !.i = @ + 1]
             /\ stage' = "Step" /\ UNCHANGED <<mach, cfg>>

NextM == MStep \/ MCheckMin

-----------------------------------------------------------------------------
Init == InitD \/ InitB \/ InitM
Next == NextD \/ NextB \/ NextM
Spec == Init /\ [][Next]_vars

Done == stage = "done"
IsD == mach = "dispatch"
IsB == mach = "brownian"
IsM == mach = "minstep"

TypeOK == /\ mach \in {"dispatch", "brownian", "minstep"}
          /\ IsD => /\ stage \in Range(DStages)
                    /\ warned \subseteq DispatchClasses
                    /\ DOMAIN cfg = DOMAIN WCfg("sdeint", "ito", "general", "None", "NA", FALSE, FALSE, "aligned", 0)
          /\ IsB => /\ stage \in Range(BStages)
                    /\ cfg \in BQueries
                    /\ aux.res \in {"running", "value", "RuntimeError"}
                    /\ (aux.res = "running") = ~Done
          /\ IsM => /\ stage \in {"Step", "CheckMin", "done"}
                    /\ warned \subseteq {"min_step"}
          /\ Range(wlog) = warned

\* ---- dispatch: the two formulations agree on the whole product -------------------------------
DispatchAgree == (IsD /\ Done) => warned = ExpectedWarnings(cfg)
\* every class at most once per call ("exactly one `Unexpected arguments` warning")
OnceEach == (IsD \/ IsB) => Len(wlog) = Cardinality(warned)
\* the defaults used by the pipeline are the documented ones
DefaultsAgree == IsD => /\ (aux.method # Unset => aux.method = ResolvedMethod(cfg))
                        /\ (aux.adjm # Unset => aux.adjm = ResolvedAdjoint(cfg))
\* "none of them apply to sdeint", nor to other methods
RevHeunOnly == (IsD /\ warned \cap RevHeunClasses # {})
                   => (cfg.api = "sdeint_adjoint" /\ ResolvedMethod(cfg) = "reversible_heun")
SdeintNeverRevHeun == (IsD /\ cfg.api = "sdeint") => warned \cap RevHeunClasses = {}
\* the step-saving warning replaces the spacing warning, never both
SpacingExclusive == IsD => ~({"revheun_adaptive", "revheun_spacing"} \subseteq warned)
\* unknown keyword arguments change nothing else
\* (cfg never changes, StepShape: it is enough to look at the first stage)
ExtraOrthogonal == (IsD /\ stage = "UnusedKwargs") =>
    ExpectedWarnings(cfg) \ {"unused_kwargs"} = ExpectedWarnings([cfg EXCEPT !.extra = 0])
\* only accepted configurations are enumerated (that each expected class occurs somewhere is checked by the
\* harness on the emitted lines)
OnlyAccepted == (IsD /\ stage = "UnusedKwargs") => Accepted(cfg)

\* ---- brownian --------------------------------------------------------------------------------
BrownianAgree == (IsB /\ Done) => /\ warned = BExpectedClasses(cfg)
                                  /\ (aux.res = "RuntimeError") = BRaises(cfg)
                                  /\ <<aux.ta, aux.tb>> = BEffective(cfg)
\* one warning per offending end point (+ one for a point evaluation)
BrownianCount == (IsB /\ Done) =>
    Len(wlog) = (IF cfg.kind = "point" THEN 1 ELSE 0)
                + Cardinality({x \in BArgs(cfg) : x[2] < T0 \/ x[2] > T1})
\* after clamping both end points lie in [t0, t1]
BrownianClamped == (IsB /\ Done) => (aux.ta \in T0..T1 /\ aux.tb \in T0..T1)

\* ---- minstep ---------------------------------------------------------------------------------
MinStepAgree == (IsM /\ Done) => /\ Len(wlog) = MExpectedCount(cfg.script)
                                 /\ aux.taken = MExpectedSteps(cfg.script)
MinStepFloor == IsM => (stage = "Step" => aux.step >= DtMin)

\* ---- shape of every step: warnings only accumulate, the configuration is never changed ---------
StageNo(s) == IF IsD THEN CHOOSE i \in DOMAIN DStages : DStages[i] = s
              ELSE CHOOSE i \in DOMAIN BStages : BStages[i] = s
StepShape == [][/\ cfg' = cfg /\ mach' = mach
                /\ warned \subseteq warned'
                /\ Len(wlog') \in {Len(wlog), Len(wlog) + 1}
                /\ SubSeq(wlog', 1, Len(wlog)) = wlog
                /\ (~IsM => StageNo(stage) < StageNo(stage'))]_vars

\* ---- emitted for the harness: one line per configuration ------------------------------------------
Emit == Done => PrintT("@@" \o ToJson(
    IF IsD THEN [mach |-> mach, cfg |-> cfg, warned |-> warned, order |-> wlog, sel |-> aux]
    ELSE IF IsB THEN [mach |-> mach, cfg |-> cfg, warned |-> warned, order |-> wlog, res |-> aux.res,
                      ta |-> aux.ta, tb |-> aux.tb, t0 |-> T0, t1 |-> T1]
    ELSE [mach |-> mach, cfg |-> cfg, warned |-> warned, order |-> wlog, steps |-> aux.taken,
          dt0 |-> Dt0, dtmin |-> DtMin,
          sizes |-> [p \in Proposals |-> Size(p)]]))
=============================================================================
