-------------------------------- MODULE Dual --------------------------------
(* C08.  Dual numbers over the rationals: a number is <<value, gradient>> with  *)
(* the gradient a vector of rationals over the atoms <<"y0", i>>, <<"th", k>>    *)
(* (<<>> abbreviates the zero gradient of a constant).  Instantiating Schemes   *)
(* with this arithmetic makes the SAME documented scheme definitions compute,   *)
(* next to every value of the 1-3 step numerical solution, its EXACT derivative *)
(* with respect to the initial state and every parameter of drift and diffusion *)
(* (the Brownian increments and the step schedule are rational constants: "the  *)
(* Brownian path held fixed").                                                  *)
(*                                                                              *)
(* TLC enumerates (method x calculus x noise type x grad_free) from the          *)
(* documented acceptance table, problems (d, variant, steps, time layout) and   *)
(* loss weightings, and prints forward values, L = sum w_ik y_k(t_i) and dL/dx. *)
(*                                                                              *)
(* Checked by TLC on the way:                                                   *)
(*   ForwardAgrees          value parts = the run in plain rational arithmetic  *)
(*   DualIsExactDerivative  on one-step scenarios the dual gradient equals the  *)
(*                          7-point central difference quotient of L evaluated  *)
(*                          in plain rationals (exact for polynomials of degree *)
(*                          <= 6 in each variable) - an independent path        *)
(*   NoGradInCtl            the step-size controller sees detached values only: *)
(*                          its inputs (full step, two half steps of the first  *)
(*                          trial) carry no gradient although the trial results *)
(*                          do; hence the schedule is a constant of the         *)
(*                          derivative, as in the property ("away from          *)
(*                          accept/reject boundaries")                          *)
EXTENDS Rational, FiniteSets, TLC, Json

CONSTANT Tier          \* "quick" | "thorough"
VARIABLES stage, sc
vars == <<stage, sc>>

(* gradient = dense vector of rationals over the atoms (y0_1..y0_d, th_1..th_P), or <<>> for zero *)
GZero       == <<>>
GIsZero(g)  == \A n \in 1..Len(g) : g[n] = RZero
GPlus(g, h) == IF g = <<>> THEN h ELSE IF h = <<>> THEN g
               ELSE TLCEval([n \in 1..Len(g) |-> RAdd(g[n], h[n])])
GScale(q, g) == IF g = <<>> \/ q = RZero THEN <<>> ELSE TLCEval([n \in 1..Len(g) |-> RMul(q, g[n])])
GUnit(n, np) == TLCEval([k \in 1..np |-> IF k = n THEN ROne ELSE RZero])

DRat(q)    == <<q, GZero>>
DVal(a)    == a[1]
DGrad(a)   == a[2]
DAdd(a, b) == <<RAdd(a[1], b[1]), GPlus(a[2], b[2])>>
DMul(a, b) == <<RMul(a[1], b[1]), GPlus(GScale(a[1], b[2]), GScale(b[1], a[2]))>>
DInv(a)    == LET i == RInv(a[1]) IN <<i, GScale(RNeg(RMul(i, i)), a[2])>>
DVar(q, n, np) == <<q, GUnit(n, np)>>
Detach(a)  == <<a[1], GZero>>
RId(x)     == x

S  == INSTANCE Schemes WITH NAdd <- DAdd, NMul <- DMul, NInv <- DInv, NRat <- DRat, NVal <- DVal
SQ == INSTANCE Schemes WITH NAdd <- RAdd, NMul <- RMul, NInv <- RInv, NRat <- RId, NVal <- RId

-----------------------------------------------------------------------------
Y0Atoms(c) == [i \in 1..Len(c.y0) |-> <<"y0", i>>]
ThAtoms(c) == [k \in 1..Len(c.th) |-> <<"th", k>>]
Atoms(c)   == Y0Atoms(c) \o ThAtoms(c)
NP(c)      == Len(c.y0) + Len(c.th)
DualY0(c)  == TLCEval([i \in 1..Len(c.y0) |-> DVar(c.y0[i], i, NP(c))])
DualTh(c)  == TLCEval([k \in 1..Len(c.th) |-> DVar(c.th[k], Len(c.y0) + k, NP(c))])
DSolve(c)  == S!Solve(c, DualY0(c), DualTh(c))

(* loss weights over outputs (T x d), small integers incl. zero and negative *)
WeightKinds == {"last", "ones", "mixed"}
Weights(kind, T, d) ==
   TLCEval([i \in 1..T |-> TLCEval([k \in 1..d |->
      CASE kind = "last"  -> IF i = T THEN ROne ELSE RZero
        [] kind = "ones"  -> ROne
        [] kind = "mixed" -> RInt(((2 * i + 3 * k) % 5) - 2)])])
Pairs(T, d) == {<<i, k>> : i \in 1..T, k \in 1..d}
RECURSIVE DSumPairs(_, _, _)
DSumPairs(ps, w, outs) ==
   IF ps = {} THEN DRat(RZero)
   ELSE LET p == CHOOSE q \in ps : TRUE
        IN DAdd(DMul(DRat(w[p[1]][p[2]]), outs[p[1]][p[2]]), DSumPairs(ps \ {p}, w, outs))
Loss(w, outs) == DSumPairs(Pairs(Len(outs), Len(outs[1])), w, outs)
RECURSIVE RSumPairs(_, _, _)
RSumPairs(ps, w, ys) ==
   IF ps = {} THEN RZero
   ELSE LET p == CHOOSE q \in ps : TRUE
        IN RAdd(RMul(w[p[1]][p[2]], ys[p[1]][p[2]]), RSumPairs(ps \ {p}, w, ys))
LossQ(w, ys) == RSumPairs(Pairs(Len(ys), Len(ys[1])), w, ys)
GradSeq(c, a) == IF DGrad(a) = <<>> THEN TLCEval([n \in 1..NP(c) |-> RZero]) ELSE DGrad(a)

(* 7-point central difference quotient of the rational loss in one variable (h = 1/2) *)
Shifted(c, n, q) ==
   IF n <= Len(c.y0) THEN [c EXCEPT !.y0[n] = RAdd(@, q)]
   ELSE [c EXCEPT !.th[n - Len(c.y0)] = RAdd(@, q)]
LQ(c, w) == LossQ(w, SQ!SolveVal(c))
FD7(c, w, n) ==
   LET h == R(1, 2)
       Lp(j) == LQ(Shifted(c, n, RMul(RInt(j), h)), w)
       num == RAdd(RAdd(RSub(Lp(3), Lp(-3)), RMul(RInt(-9), RSub(Lp(2), Lp(-2)))),
                   RMul(RInt(45), RSub(Lp(1), Lp(-1))))
   IN RDiv(num, RMul(RInt(60), h))

-----------------------------------------------------------------------------
(* scenario machine *)
Cals == {"ito", "stratonovich"}
Combos == {<<me, cal, nt, gf>> \in S!Methods \X Cals \X S!NoiseTypes \X BOOLEAN :
              S!Accepts(me, cal, nt) /\ (gf => me = "milstein")}
Layouts(d, n) ==
   IF Tier = "quick"
   THEN (IF n = 1 THEN (IF d = 1 THEN {"inner", "quarter"} ELSE {"inner"})
         ELSE IF n = 2 THEN {"clip"} ELSE IF d = 1 THEN {"grid"} ELSE {})
   ELSE {"grid", "end", "inner", "clip", "quarter"}
StepCounts(me) == IF me = "srk" THEN 1..2 ELSE 1..3     \* thirds in the tableau: 3 steps leave 32 bits
Dims == {1, 2}
(* combinations whose exact rationals leave TLC's 32-bit integers are not enumerated *)
Feasible(me, d, n, lay) == me = "srk" => (n = 1 \/ (d = 1 /\ lay # "quarter"))
Variant(me, d, n, lay) == IF me = "srk" THEN 2 ELSE IF n = 1 \/ (d = 1 /\ n = 2 /\ lay # "quarter") THEN 1 ELSE 2
Prob(nt, cal, d, v) == IF d = 1 THEN S!Prob1(nt, cal, v) ELSE S!Prob2(nt, cal, v)
(* scenarios on which the central-difference lemma is evaluated: one step, total degree <= 6 *)
LemmaApplies(c) ==
   /\ c.n = 1 /\ c.lay \in {"inner", "grid"} /\ (Tier = "quick" => c.sde.d = 1)
   /\ \/ c.v = 2
      \/ c.method \in {"euler", "milstein", "heun", "midpoint", "euler_heun", "reversible_heun"}

Init == stage = "method" /\ sc = <<>>
ChooseMethod ==
   /\ stage = "method"
   /\ \E me \in S!Methods, cal \in Cals : (\E nt \in S!NoiseTypes : S!Accepts(me, cal, nt))
                                          /\ sc' = [method |-> me, cal |-> cal]
   /\ stage' = "noise"
ChooseNoise ==
   /\ stage = "noise"
   /\ \E nt \in S!NoiseTypes : S!Accepts(sc.method, sc.cal, nt)
                               /\ sc' = [method |-> sc.method, cal |-> sc.cal, nt |-> nt]
   /\ stage' = "options"
ChooseOptions ==
   /\ stage = "options"
   /\ \E gf \in BOOLEAN : (gf => sc.method = "milstein")
                          /\ sc' = [method |-> sc.method, cal |-> sc.cal, nt |-> sc.nt, gradfree |-> gf]
   /\ stage' = "problem"
ChooseProblem ==
   /\ stage = "problem"
   /\ \E d \in Dims, n \in StepCounts(sc.method) : \E lay \in Layouts(d, n) : Feasible(sc.method, d, n, lay) /\ \E v \in {Variant(sc.method, d, n, lay)} \cup (IF n = 1 /\ lay = "inner" THEN {2} ELSE {}) :
         sc' = [method |-> sc.method, cal |-> sc.cal, nt |-> sc.nt, gradfree |-> sc.gradfree,
                d |-> d, n |-> n, lay |-> lay, v |-> v]
   /\ stage' = "solve"
(* the loss weighting is the last choice; "solve" states print the forward values, "done" states the gradient *)
ChooseWeights ==
   /\ stage = "solve"
   /\ \E wk \in WeightKinds : sc' = sc @@ [wk |-> wk]
   /\ stage' = "done"
TheCase == S!Case(Prob(sc.nt, sc.cal, sc.d, sc.v), sc.method, sc.gradfree, sc.n, sc.lay) @@ [v |-> sc.v]
Key == [method |-> sc.method, cal |-> sc.cal, nt |-> sc.nt, gradfree |-> sc.gradfree, d |-> sc.d, n |-> sc.n,
        lay |-> sc.lay, v |-> sc.v]
(* controller inputs of the first trial step (full step vs two half steps); the bridge splits W, U *)
HalfNoise(nz, j) ==
   LET m == Len(nz.w)
       br == R(1, 4)
       w1 == TLCEval([i \in 1..m |-> RAdd(RMul(RHalf, nz.w[i]), br)])
       w2 == TLCEval([i \in 1..m |-> RSub(RMul(RHalf, nz.w[i]), br)])
   IN [w |-> IF j = 1 THEN w1 ELSE w2, u |-> TLCEval([i \in 1..m |-> RMul(R(1, 4), nz.u[i])]),
       a |-> TLCEval([i \in 1..m |-> TLCEval([k \in 1..m |-> RMul(R(1, 4), nz.a[i][k])])])]
(* (half steps of a step with rational sqrt(h) have irrational sqrt(h/2): no sqrt-using schemes here) *)
TrialApplies == sc.n = 1 /\ sc.v = 2 /\ sc.lay = "inner" /\ ~sc.gradfree /\ sc.method # "srk"
Trial(c) ==
   LET th == DualTh(c)
       s0 == S!InitState(c, DualY0(c), th)
       t0 == c.t0
       t1 == S!GridT(c, 1)
       tm == RMul(RHalf, RAdd(t0, t1))
       full == S!Step(c, th, t0, t1, c.nz[1], s0)
       h1 == S!Step(c, th, t0, tm, HalfNoise(c.nz[1], 1), s0)
       h2 == S!Step(c, th, tm, t1, HalfNoise(c.nz[1], 2), h1)
   IN [full |-> full.y, half |-> h2.y]
NVValEq(u, v) == \A i \in 1..Len(u) : DVal(u[i]) = DVal(v[i])
CtlInputs(tr) == [full |-> TLCEval([i \in 1..Len(tr.full) |-> Detach(tr.full[i])]),
                  half |-> TLCEval([i \in 1..Len(tr.half) |-> Detach(tr.half[i])])]
Next == ChooseMethod \/ ChooseNoise \/ ChooseOptions \/ ChooseProblem \/ ChooseWeights
Spec == Init /\ [][Next]_vars

-----------------------------------------------------------------------------
(* TLC caches LET definitions in state predicates but not in actions: the arithmetic lives in the
   invariants, the actions only choose the scenario. *)
IsDetached(v) == \A i \in 1..Len(v) : GIsZero(DGrad(v[i]))

(* stage "solve": ONE evaluation of the dual run per scenario serves all three conjuncts:
   ForwardAgrees          value parts = plain rational run (prints the forward values)
   per weighting          prints L and dL/dx
   DualIsExactDerivative  central-difference lemma where it applies *)
GradOK(c, outs, wk) ==
   LET w == Weights(wk, Len(c.ts), sc.d)
       L == Loss(w, outs)
       g == GradSeq(c, L)
       lemma == LemmaApplies(c) /\ wk = "mixed"
   IN /\ PrintT("@@" \o ToJson([kind |-> "c08grad", key |-> Key, wkind |-> wk, w |-> w, L |-> DVal(L),
                                 atoms |-> Atoms(c), grad |-> g, lemma |-> lemma]))
      /\ Len(g) = Len(Atoms(c))
      /\ lemma => g = TLCEval([n \in 1..Len(Atoms(c)) |-> FD7(c, w, n)])
ScenarioOK ==
   stage = "solve" =>
      LET c == TheCase
          outs == DSolve(c)
          ys == TLCEval([i \in 1..Len(outs) |-> S!NVVal(outs[i])])
      IN /\ PrintT("@@" \o ToJson([kind |-> "c08fwd", key |-> Key, case |-> c, ys |-> ys]))
         /\ S!NSteps(c) = sc.n
         /\ ys = SQ!SolveVal(c)                          \* ForwardAgrees
         /\ \A wk \in WeightKinds : GradOK(c, outs, wk)  \* incl. DualIsExactDerivative
NoGradInCtl ==
   (stage = "solve" /\ TrialApplies) =>
      LET tr == Trial(TheCase)
          ctl == CtlInputs(tr)
      IN /\ IsDetached(ctl.full) /\ IsDetached(ctl.half)            \* what the controller sees
         /\ NVValEq(ctl.full, tr.full) /\ NVValEq(ctl.half, tr.half)  \* same values
         /\ ~IsDetached(tr.full) /\ ~IsDetached(tr.half)              \* although the trial results carry gradient
(* stage "done" (a weighting was chosen): the weight matrix is T x d; "last" is supported on the final time *)
WeightsWellFormed ==
   stage = "done" =>
      LET c == TheCase
          w == Weights(sc.wk, Len(c.ts), sc.d)
      IN /\ Len(w) = Len(c.ts) /\ \A i \in 1..Len(w) : Len(w[i]) = sc.d
         /\ sc.wk = "last" => \A i \in 1..(Len(w) - 1) : \A k \in 1..sc.d : w[i][k] = RZero
CombosAsDocumented == Cardinality(Combos) = 39
=============================================================================
