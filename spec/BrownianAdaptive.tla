--------------------------- MODULE BrownianAdaptive ---------------------------
(***************************************************************************)
(* "System" of DESIGN 3.5, adaptive flavour: the Brownian machine driven by *)
(* the query pattern of BaseSDESolver.integrate with adaptive=True.  Every  *)
(* trial over [a, b] asks the three intervals (a,b), (a,m), (m,b) with m    *)
(* the midpoint; an adversarial controller then accepts (the next trial     *)
(* starts at b with the same or the doubled step) or rejects (the trial is  *)
(* repeated from a with the halved step, never below HMin).  When the end   *)
(* is reached the accepted steps are asked again in reverse order (the      *)
(* backward pass of an adjoint solve with the same steps).                  *)
(* All accept/reject schedules are explored; the invariants of BrownianImpl *)
(* (Terminates, NoError, StackBound, CacheBound, Partition, Tiles,          *)
(* RefineOnly) must hold along every one of them.                           *)
(***************************************************************************)
EXTENDS BrownianImpl

CONSTANTS H0,     \* initial step in sub-units (a power of two times HMin)
          HMin    \* minimal step in sub-units (even, so that midpoints are sub-units)

VARIABLES pos,      \* start of the next trial
          h,        \* current step size
          sub,      \* 0: ask (a,b); 1: ask (a,m); 2: ask (m,b); 3: decide
          accepted, \* accepted steps <<a,b>> in order
          back      \* index into accepted during the backward sweep (0 = forward phase)
avars == <<vars, pos, h, sub, accepted, back>>

EndOf(a, hh) == IF a + hh > T THEN T ELSE a + hh

InitA == Init /\ pos = 0 /\ h = H0 /\ sub = 0 /\ accepted = <<>> /\ back = 0

Ask(a, b) == Query(a, b)

Trial ==
  /\ back = 0 /\ pos < T /\ err = ""
  /\ LET b == EndOf(pos, h)
         m == (pos + b) \div 2
     IN \/ /\ sub = 0 /\ Ask(pos, b) /\ sub' = 1 /\ UNCHANGED <<pos, h, accepted, back>>
        \/ /\ sub = 1 /\ Ask(pos, m) /\ sub' = 2 /\ UNCHANGED <<pos, h, accepted, back>>
        \/ /\ sub = 2 /\ Ask(m, b) /\ sub' = 3 /\ UNCHANGED <<pos, h, accepted, back>>
Decide ==
  /\ back = 0 /\ pos < T /\ sub = 3 /\ err = ""
  /\ LET b == EndOf(pos, h) IN
     \/ \* accept, keep or double the step
        /\ pos' = b /\ accepted' = Append(accepted, <<pos, b>>)
        /\ h' \in {h, IF 2 * h <= H0 THEN 2 * h ELSE h}
        /\ sub' = 0 /\ UNCHANGED <<vars, back>>
     \/ \* reject: retry smaller (only while above the minimum; at the minimum the step is forced through)
        /\ h > HMin /\ b - pos > HMin
        /\ h' = h \div 2 /\ sub' = 0 /\ UNCHANGED <<vars, pos, accepted, back>>
StartBack ==
  /\ back = 0 /\ pos = T /\ Len(accepted) > 0 /\ err = ""
  /\ back' = Len(accepted) /\ UNCHANGED <<vars, pos, h, sub, accepted>>
Backward ==
  /\ back > 0 /\ err = ""
  /\ Ask(accepted[back][1], accepted[back][2])
  /\ back' = back - 1 /\ (back' = 0 => pos' = T + 1) /\ (back' # 0 => pos' = pos)
  /\ UNCHANGED <<h, sub, accepted>>
NextA == Trial \/ Decide \/ StartBack \/ Backward
SpecA == InitA /\ [][NextA]_avars

ViewA == <<tree, cache, last, nEval, sumDt, treeDt, diverged, err, pos, h, sub, accepted, back>>
\* the forward pass tiles [0, T] by the accepted steps
AcceptedTile == /\ \A i \in 1..Len(accepted) - 1 : accepted[i][2] = accepted[i + 1][1]
                /\ (Len(accepted) > 0 => accepted[1][1] = 0)
                /\ (pos >= T /\ Len(accepted) > 0 => accepted[Len(accepted)][2] = T)
=============================================================================
