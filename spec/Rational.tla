------------------------------ MODULE Rational ------------------------------
(* Exact rational arithmetic on TLC's 32-bit integers.                        *)
(* A rational is a normalised pair <<num, den>>, den > 0, gcd(num, den) = 1.   *)
(* Factors are cancelled BEFORE every multiplication, so intermediate values  *)
(* stay as small as the result allows; TLC raises an error on overflow (it    *)
(* never wraps), so an overflow is a visible machinery failure.               *)
EXTENDS Integers, Sequences

RAbs(x) == IF x < 0 THEN -x ELSE x
RECURSIVE RGcd(_, _)
RGcd(a, b) == IF b = 0 THEN a ELSE RGcd(b, a % b)

RNorm(n, d) == LET g == RGcd(RAbs(n), RAbs(d))
                   s == IF d < 0 THEN -1 ELSE 1
               IN IF n = 0 THEN <<0, 1>> ELSE <<s * (n \div g), s * (d \div g)>>
R(n, d)   == RNorm(n, d)
RInt(n)   == <<n, 1>>
RZero     == <<0, 1>>
ROne      == <<1, 1>>
RHalf     == <<1, 2>>
RNeg(x)   == <<-x[1], x[2]>>
RAdd(x, y) == LET g == RGcd(x[2], y[2])
              IN RNorm(x[1] * (y[2] \div g) + y[1] * (x[2] \div g), (x[2] \div g) * y[2])
RSub(x, y) == RAdd(x, RNeg(y))
RMul(x, y) == LET g1 == RGcd(RAbs(x[1]), y[2])
                  g2 == RGcd(RAbs(y[1]), x[2])
              IN IF x[1] = 0 \/ y[1] = 0 THEN RZero
                 ELSE <<(x[1] \div g1) * (y[1] \div g2), (x[2] \div g2) * (y[2] \div g1)>>
RInv(x)   == IF x[1] < 0 THEN <<-x[2], -x[1]>> ELSE <<x[2], x[1]>>
RDiv(x, y) == RMul(x, RInv(y))
RLt(x, y) == x[1] * y[2] < y[1] * x[2]
RLe(x, y) == x[1] * y[2] <= y[1] * x[2]
RIsZero(x) == x[1] = 0
RMin(x, y) == IF RLe(x, y) THEN x ELSE y
RMax(x, y) == IF RLe(x, y) THEN y ELSE x

RECURSIVE RPow(_, _)
RPow(x, n) == IF n = 0 THEN ROne ELSE RMul(x, RPow(x, n - 1))

RECURSIVE RSumSeq(_)
RSumSeq(s) == IF s = <<>> THEN RZero ELSE RAdd(Head(s), RSumSeq(Tail(s)))

(* vectors / matrices of rationals as sequences *)
VAdd(u, v)   == [i \in 1..Len(u) |-> RAdd(u[i], v[i])]
VSub(u, v)   == [i \in 1..Len(u) |-> RSub(u[i], v[i])]
VScale(c, u) == [i \in 1..Len(u) |-> RMul(c, u[i])]
VDot(u, v)   == RSumSeq([i \in 1..Len(u) |-> RMul(u[i], v[i])])
VZero(n)     == [i \in 1..n |-> RZero]
MVec(m, v)   == [i \in 1..Len(m) |-> VDot(m[i], v)]
=============================================================================
