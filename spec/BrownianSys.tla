----------------------------- MODULE BrownianSys -----------------------------
(* "System" of DESIGN 3.5 for the Brownian machine: the environment is a fixed-step    *)
(* solver -- NSteps equal consecutive steps forward, then (adjoint pass) the same      *)
(* intervals backward.  Used to show how stack depth / termination behave on           *)
(* solver-shaped histories of growing length.                                          *)
EXTENDS BrownianImpl
VARIABLE pc
StepLen == QStep
NSteps == T \div StepLen
InitS == Init /\ pc = 0
NextS == /\ err = ""
         /\ pc < 2 * NSteps
         /\ LET k == IF pc < NSteps THEN pc ELSE 2 * NSteps - 1 - pc
            IN Query(k * StepLen, (k + 1) * StepLen)
         /\ pc' = pc + 1
SpecS == InitS /\ [][NextS]_<<vars, pc>>
=============================================================================
