---------------------------- MODULE BrownianDump ----------------------------
(* BrownianImpl with a history variable, used to hand complete behaviours (every query with the  *)
(* abstract state the model predicts after it) to the replay harness as JSON.                     *)
EXTENDS BrownianImpl, Json
CONSTANT Depth
VARIABLE hist

Spans(tr, out) == [i \in 1..Len(out) |-> <<tr[out[i]].s, tr[out[i]].e>>]
Entry == [q |-> lastQ', out |-> lastOut', spans |-> Spans(tree', lastOut'), cache |-> cache', last |-> last',
          nn |-> Cardinality(DOMAIN tree'), err |-> err', nEval |-> nEval', treeDt |-> treeDt',
          splitDepth |-> splitDepth']
InitD == Init /\ hist = <<>>
NextD == Len(hist) < Depth /\ Next /\ hist' = Append(hist, Entry)
SpecD == InitD /\ [][NextD]_<<vars, hist>>

TreeSet == {<<p, tree[p].s, tree[p].e, tree[p].mid>> : p \in DOMAIN tree}
Done == Len(hist) = Depth \/ err # ""
Dump == Done => PrintT("@@" \o ToJson([hist |-> hist, tree |-> TreeSet]))
=============================================================================
