--------------------------- MODULE BrownianValues ---------------------------
(***************************************************************************)
(* Value-level reference for the Brownian machine (property C04, and the   *)
(* algebra behind C03).                                                    *)
(*                                                                         *)
(* Part 1 -- the single-split lemma.  A node with span h = l + r and       *)
(* values (W, H) is split at l.  The children get                          *)
(*    W_l = (l/h) W + (6 l r / h^2) H + third * X1                         *)
(*    H_l = (l/h)^2 H - a X1 + c r X2          (and symmetrically right)   *)
(* with a = v l^2/h, b = v r^2/h, c = v/sqrt 3, third = 2(a l + b r)/h,    *)
(* v = 1/2 sqrt(l r/(l^3 + r^3)) and X1, X2 fresh standard normals.  The   *)
(* only irrational, v, multiplies exactly the two fresh atoms, so the      *)
(* lemma carries it INSIDE the atoms: atom 3 = v X1 has variance           *)
(* v^2 = l r/(4 (l^3 + r^3)), atom 4 = (v/sqrt 3) X2 has variance v^2/3,   *)
(* and every coefficient and every inner product is rational.  TLC checks  *)
(* for all 1 <= l, r <= LMax that the 4x4 Gram matrix of (W_l, H_l, W_r,   *)
(* H_r) is the Brownian one, that W_l + W_r = W, and that merging the      *)
(* children's H by the aggregation formula of __call__ gives back H.       *)
(* With one fresh pair of atoms per internal node (paths are injective,    *)
(* BrownianImpl) this is the induction step for the law on every tree.     *)
(*                                                                         *)
(* Part 2 -- the covariance the ANSWERS must have, defined without any     *)
(* tree: on the grid of sub-units every unit cell c carries an independent *)
(* pair (w_c, u_c) with Var w = 1, Cov(w,u) = 1/2, Var u = 1/3, and by     *)
(* Chen's relation the answer over [a,b] is                                *)
(*    W(a,b) = sum_c w_c,    U(a,b) = sum_c (u_c + (b - c - 1) w_c).       *)
(* CovTable prints Cov(W,W), Cov(W,U), Cov(U,U) for every pair of grid     *)
(* intervals; the harness compares the Gram matrix of the linear map the   *)
(* real code realises (labelled noise) against it.                         *)
(***************************************************************************)
EXTENDS Rational, FiniteSets, TLC, Json, SplitPolys

CONSTANTS LMax,     \* single-split lemma for all l, r in 1..LMax
          GridT     \* covariance table for all intervals with end points in 0..GridT

(* ------------------------------- Part 1 ---------------------------------------------------- *)
\* a linear form is a 4-tuple of rationals over atoms (W, H, vX1, (v/sqrt3) X2)
\* The coefficient formulas with h (the parent's length) and S (= l^3 + r^3, the denominator of v^2) as
\* parameters: Forms / Gram below instantiate them with h = l + r, S = l^3 + r^3; ClearedLink uses them with
\* h and S FREE to tie the polynomials of SplitPolys.tla (proved by TLAPS for all l, r) to these formulas.
GramG(l, r, h, S) == <<RInt(h), R(h, 12), R(l * r, 4 * S), R(l * r, 12 * S)>>
FormsG(l, r, h, S) ==
  LET a     == R(l * l, h)                       \* a / v
      b     == R(r * r, h)                       \* b / v
      third == R(2 * S, h * h)
      fl    == R(l, h)
      fr    == R(r, h)
      sl    == R(6 * l * r, h * h)
  IN [Wl |-> <<fl, sl, third, RZero>>,
      Hl |-> <<RZero, RMul(fl, fl), RNeg(a), RInt(r)>>,
      Wr |-> <<fr, RNeg(sl), RNeg(third), RZero>>,
      Hr |-> <<RZero, RMul(fr, fr), RNeg(b), RInt(-l)>>]
Gram(l, r) == GramG(l, r, l + r, l * l * l + r * r * r)
Forms(l, r) == FormsG(l, r, l + r, l * l * l + r * r * r)
Dot(x, y, G) == RAdd(RAdd(RMul(RMul(x[1], y[1]), G[1]), RMul(RMul(x[2], y[2]), G[2])),
                     RAdd(RMul(RMul(x[3], y[3]), G[3]), RMul(RMul(x[4], y[4]), G[4])))
\* (Dot(Forms_a, Forms_b, Gram) - target) * D  =  P - Q   with h, S free
Link(x, y, G, tgt, D, PQ) == RMul(RSub(Dot(x, y, G), tgt), RInt(D)) = RInt(PQ)
ClearedLinkAt(l, r, h, S) ==
  LET F == FormsG(l, r, h, S)
      G == GramG(l, r, h, S)
  IN /\ Link(F.Wl, F.Wl, G, RInt(l), D_WlWl(l, r, h, S), P_WlWl(l, r, h, S) - Q_WlWl(l, r, h, S))
     /\ Link(F.Wr, F.Wr, G, RInt(r), D_WrWr(l, r, h, S), P_WrWr(l, r, h, S) - Q_WrWr(l, r, h, S))
     /\ Link(F.Wl, F.Wr, G, RZero, D_WlWr(l, r, h, S), P_WlWr(l, r, h, S) - Q_WlWr(l, r, h, S))
     /\ Link(F.Hl, F.Hl, G, R(l, 12), D_HlHl(l, r, h, S), P_HlHl(l, r, h, S) - Q_HlHl(l, r, h, S))
     /\ Link(F.Hr, F.Hr, G, R(r, 12), D_HrHr(l, r, h, S), P_HrHr(l, r, h, S) - Q_HrHr(l, r, h, S))
     /\ Link(F.Hl, F.Hr, G, RZero, D_HlHr(l, r, h, S), P_HlHr(l, r, h, S) - Q_HlHr(l, r, h, S))
     /\ Link(F.Wl, F.Hl, G, RZero, D_WlHl(l, r, h, S), P_WlHl(l, r, h, S) - Q_WlHl(l, r, h, S))
     /\ Link(F.Wr, F.Hr, G, RZero, D_WrHr(l, r, h, S), P_WrHr(l, r, h, S) - Q_WrHr(l, r, h, S))
     /\ Link(F.Wl, F.Hr, G, RZero, D_WlHr(l, r, h, S), P_WlHr(l, r, h, S) - Q_WlHr(l, r, h, S))
     /\ Link(F.Wr, F.Hl, G, RZero, D_WrHl(l, r, h, S), P_WrHl(l, r, h, S) - Q_WrHl(l, r, h, S))
     \* H merge of __call__, H-component: (r (r^2/h^2 + 3 l r/h^2) + l (l^2/h^2 + 3 l r/h^2)) / h = 1  <=>  P_MergeH = Q_MergeH
     /\ RMul(RSub(RMul(R(1, h), RAdd(RMul(RInt(r), RAdd(F.Hr[2], RMul(RHalf, F.Wl[2]))),
                                     RMul(RInt(l), RSub(F.Hl[2], RMul(RHalf, F.Wr[2]))))), ROne), RInt(h * h * h))
          = RInt(P_MergeH(l, r, h, S) - Q_MergeH(l, r, h, S))
     \* ... X1-component: (r (-r^2/h + S/h^2) + l (-l^2/h + S/h^2)) / h = 0 once S = l^3 + r^3, h = l + r;
     \* with h, S free it equals (S (l + r) - h (l^3 + r^3)) / h^3
     /\ RMul(RMul(R(1, h), RAdd(RMul(RInt(r), RAdd(F.Hr[3], RMul(RHalf, F.Wl[3]))),
                                RMul(RInt(l), RSub(F.Hl[3], RMul(RHalf, F.Wr[3]))))), RInt(h * h * h))
          = RInt(P_MergeX1(l, r, h, S) - h * (l * l * l + r * r * r))
     \* child sum, W-component: l/h + r/h - 1 = (P_ChildSum - Q_ChildSum) / h
     /\ RMul(RSub(RAdd(F.Wl[1], F.Wr[1]), ROne), RInt(h)) = RInt(P_ChildSum(l, r, h, S) - Q_ChildSum(l, r, h, S))
\* all (l, r, h, S) on a grid of side LinkK; both sides are generally non-zero there
\* (the identities have degree <= 7 in l and r, <= 5 in h and <= 2 in S after clearing denominators: a grid of
\* 8 x 8 x 6 x 3 points forces them; TLC's 32-bit rationals bound the side)
ClearedLink(K) == \A l \in 1..(K + 3) : \A r \in 1..(K + 3) : \A h \in 1..(K + 1) : \A S \in 1..(K - 2) : ClearedLinkAt(l, r, h, S)
\* a wrong polynomial must break the link (non-vacuity)
ClearedLinkNotVacuous ==
  LET F == FormsG(1, 2, 4, 5)
      G == GramG(1, 2, 4, 5)
  IN /\ RSub(Dot(F.Wl, F.Wl, G), RInt(1)) # RZero
     /\ ~Link(F.Wl, F.Wl, G, RInt(1), D_WlWl(1, 2, 4, 5), P_WlWl(1, 2, 4, 5) - Q_WlWl(1, 2, 4, 5) + 1)
SplitLemma(l, r) ==
  LET F == Forms(l, r)
      G == Gram(l, r)
      h == l + r
  IN /\ Dot(F.Wl, F.Wl, G) = RInt(l) /\ Dot(F.Wr, F.Wr, G) = RInt(r) /\ Dot(F.Wl, F.Wr, G) = RZero
     /\ Dot(F.Hl, F.Hl, G) = R(l, 12) /\ Dot(F.Hr, F.Hr, G) = R(r, 12) /\ Dot(F.Hl, F.Hr, G) = RZero
     /\ Dot(F.Wl, F.Hl, G) = RZero /\ Dot(F.Wr, F.Hr, G) = RZero
     /\ Dot(F.Wl, F.Hr, G) = RZero /\ Dot(F.Wr, F.Hl, G) = RZero
     \* child sum
     /\ [i \in 1..4 |-> RAdd(F.Wl[i], F.Wr[i])] = [i \in 1..4 |-> IF i = 1 THEN ROne ELSE RZero]
     \* H merge of __call__:  H = (r (H_r + W_l / 2) + l (H_l - W_r / 2)) / h
     /\ [i \in 1..4 |-> RMul(R(1, h), RAdd(RMul(RInt(r), RAdd(F.Hr[i], RMul(RHalf, F.Wl[i]))),
                                           RMul(RInt(l), RSub(F.Hl[i], RMul(RHalf, F.Wr[i])))))]
          = [i \in 1..4 |-> IF i = 2 THEN ROne ELSE RZero]
\* without space-time Levy area: W_l = (l/h) W + sqrt(l r/h) X, atom 2 = sqrt(l r / h) X
SplitLemmaNoH(l, r) ==
  LET h == l + r
      varX == R(l * r, h)
      Wl == <<R(l, h), ROne>>
      Wr == <<R(r, h), RInt(-1)>>
      D(x, y) == RAdd(RMul(RMul(x[1], y[1]), RInt(h)), RMul(RMul(x[2], y[2]), varX))
  IN D(Wl, Wl) = RInt(l) /\ D(Wr, Wr) = RInt(r) /\ D(Wl, Wr) = RZero

LemmaHolds == \A l \in 1..LMax : \A r \in 1..LMax : SplitLemma(l, r) /\ SplitLemmaNoH(l, r)
\* a deliberately wrong coefficient must be rejected (the lemma is not vacuous)
WrongForms(l, r) == [Forms(l, r) EXCEPT !.Wl = <<R(l, l + r), R(5 * l * r, (l + r) * (l + r)),
                                                 R(2 * (l * l * l + r * r * r), (l + r) * (l + r)), RZero>>]
LemmaNotVacuous == Dot(WrongForms(1, 1).Wl, WrongForms(1, 1).Wl, Gram(1, 1)) # RInt(1)

(* ------------------------------- Part 2 ---------------------------------------------------- *)
Max2(a, b) == IF a > b THEN a ELSE b
Min2(a, b) == IF a < b THEN a ELSE b
RECURSIVE SumCells(_, _, _, _)
\* sum over c in lo..hi-1 of T(c) where T is given as one of three kinds
Term(kind, c, b1, b2) ==
  CASE kind = "WW" -> ROne
    [] kind = "WU" -> RAdd(RHalf, RInt(b2 - c - 1))
    [] kind = "UW" -> RAdd(RHalf, RInt(b1 - c - 1))
    [] kind = "UU" -> RAdd(RAdd(R(1, 3), RAdd(RMul(RHalf, RInt(b1 - c - 1)), RMul(RHalf, RInt(b2 - c - 1)))),
                           RInt((b1 - c - 1) * (b2 - c - 1)))
SumCells(kind, lo, hi, bb) ==
  IF lo >= hi THEN RZero ELSE RAdd(Term(kind, lo, bb[1], bb[2]), SumCells(kind, lo + 1, hi, bb))
Cov(kind, q1, q2) == SumCells(kind, Max2(q1[1], q2[1]), Min2(q1[2], q2[2]), <<q1[2], q2[2]>>)

Intervals == {<<a, b>> : a \in 0..GridT, b \in 0..GridT} \cap {q \in (0..GridT) \X (0..GridT) : q[1] < q[2]}
\* sanity of the definition itself: the single-interval statistics of Brownian motion
SelfStats == \A q \in Intervals :
   LET h == q[2] - q[1] IN
   /\ Cov("WW", q, q) = RInt(h)
   /\ Cov("WU", q, q) = R(h * h, 2)
   /\ Cov("UU", q, q) = R(h * h * h, 3)
   \* H = U/h - W/2 :  Var H = h/12, Cov(W, H) = 0
   /\ RAdd(RSub(RMul(R(1, h * h), Cov("UU", q, q)), RMul(R(1, h), Cov("WU", q, q))), R(h, 4)) = R(h, 12)
   /\ RSub(RMul(R(1, h), Cov("WU", q, q)), RMul(RHalf, Cov("WW", q, q))) = RZero
\* Chen's relation is built in: Cov(U(a,c), X) = Cov(U(a,b) + U(b,c) + (c-b) W(a,b), X) for every X
ChenStats == \A a, b, c \in 0..GridT : (a < b /\ b < c) =>
   \A q \in Intervals :
      /\ Cov("UU", <<a, c>>, q) = RAdd(RAdd(Cov("UU", <<a, b>>, q), Cov("UU", <<b, c>>, q)),
                                       RMul(RInt(c - b), Cov("WU", <<a, b>>, q)))
      /\ Cov("WW", <<a, c>>, q) = RAdd(Cov("WW", <<a, b>>, q), Cov("WW", <<b, c>>, q))
      /\ Cov("UW", <<a, c>>, q) = RAdd(RAdd(Cov("UW", <<a, b>>, q), Cov("UW", <<b, c>>, q)),
                                       RMul(RInt(c - b), Cov("WW", <<a, b>>, q)))

CovTable == [q1 \in Intervals |-> [q2 \in Intervals |->
               [ww |-> Cov("WW", q1, q2), wu |-> Cov("WU", q1, q2), uu |-> Cov("UU", q1, q2)]]]
TableRows == {[q1 |-> q1, q2 |-> q2, ww |-> Cov("WW", q1, q2), wu |-> Cov("WU", q1, q2),
               uu |-> Cov("UU", q1, q2)] : q1 \in Intervals, q2 \in Intervals}

(* Levy-area approximations: the conditional variance the schemes prescribe, as rational functions *)
DavieVar(h) == R(h * h, 12)
FosterVar(h, Hi2, Hj2) == RAdd(R(h * h, 20), RMul(R(h, 5), RAdd(Hi2, Hj2)))
\* unconditional consistency: E[FosterVar] over H_i, H_j ~ N(0, h/12) equals DavieVar, and the total
\* variance of the Levy area A_ij = H_i W_j - W_i H_j + residual is h^2 / 4
LevyConsistent == \A h \in 1..8 :
   /\ FosterVar(h, R(h, 12), R(h, 12)) = DavieVar(h)
   /\ RAdd(RMul(RInt(2), RMul(R(h, 12), RInt(h))), DavieVar(h)) = R(h * h, 4)
LevyTable == {[h |-> h, hi2 |-> x, hj2 |-> y, davie |-> DavieVar(h), foster |-> FosterVar(h, x, y)] :
                 h \in 1..4, x \in {R(1, 4), R(1, 1), R(9, 4)}, y \in {RZero, R(1, 16)}}

VARIABLE phase
Init == phase = "lemma"
Next == \/ phase = "lemma" /\ phase' = "stats"
        \/ phase = "stats" /\ phase' = "table"
        \/ phase = "table" /\ phase' = "done"
Spec == Init /\ [][Next]_phase
InvLemma == phase = "lemma" => (LemmaHolds /\ LemmaNotVacuous)
CONSTANT LinkK
InvLink == phase = "lemma" => (ClearedLink(LinkK) /\ ClearedLinkNotVacuous)
InvStats == phase = "stats" => (SelfStats /\ ChenStats /\ LevyConsistent)
InvTable == phase = "table" =>
   /\ PrintT("@@" \o ToJson([kind |-> "cov", rows |-> TableRows]))
   /\ PrintT("@@" \o ToJson([kind |-> "levy", rows |-> LevyTable]))
=============================================================================
