--------------------------- MODULE BrownianWork ---------------------------
(***************************************************************************)
(* The WORK of one call of BrownianInterval.__call__, measured in tree      *)
(* nodes created by that call, on the machine of BrownianImpl.              *)
(*                                                                         *)
(* Property C07 asks that every call returns normally.  A call whose work   *)
(* is not bounded by anything the caller did so far - but by                *)
(* (t1 - t0) / (length of THIS query) - does not: with dt = None the code   *)
(* re-shapes the whole tree when the running average of the query lengths   *)
(* (counted from the end of the warm-up) falls below half of _tree_dt, and  *)
(* it shapes it with the length of the CURRENT query                        *)
(*     _create_dependency_tree(dt),  dt = tb - ta                           *)
(* (BrownianImpl:  tdt == IF fire THEN Min(treeDt, b - a)), not with the    *)
(* average.  One short query right after the warm-up therefore creates      *)
(* about 2 (t1 - t0) / (0.8 min(cache_size, 100) (tb - ta)) nodes:          *)
(* known finding K9.                                                       *)
(*                                                                         *)
(* TLC shows it as a family: at resolution R (N = R ticks, the shortest     *)
(* query one tick) `CallWork` with WorkCap = 2 R is violated by the single  *)
(* call Query(a, a + 1 tick), and holds with WorkCap = 4 R: the work of one *)
(* call grows linearly with (t1 - t0) / (tb - ta), whatever the history.    *)
(* (With a dt hint or a dyadic tree a call never re-shapes the tree; that   *)
(* side is observed on the real object only: one or two splits per call.)   *)
(*                                                                         *)
(* Binding: harness/brownian_props.work_per_call counts _split_exact calls  *)
(* of the real object for the same histories (2 nodes per split) and        *)
(* compares with NodesOf below.                                            *)
(***************************************************************************)
EXTENDS BrownianImpl

CONSTANT WorkCap

NewNodes == Cardinality(DOMAIN tree') - Cardinality(DOMAIN tree)
CallWork == [][NewNodes <= WorkCap]_vars

\* the same as a state predicate for depth-one exploration (the tree before the first call is the root alone,
\* or the constructor's shape): every state's tree has at most WorkCap nodes more than the initial tree
WorkInv == Cardinality(DOMAIN tree) <= Cardinality(DOMAIN InitSP.tr) + WorkCap

\* the environment restricted to the shortest queries (one QStep long): the family scales to finer resolutions
ShortNext == err = "" /\ \E a \in Times : a + QStep \in Times /\ Query(a, a + QStep)
ShortSpec == Init /\ [][ShortNext]_vars
=============================================================================
