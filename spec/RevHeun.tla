------------------------------ MODULE RevHeun -------------------------------
(***************************************************************************)
(* Reversible Heun (Kidger, Foster, Li, Lyons 2021): reference semantics.  *)
(*                                                                         *)
(* PART I  (property C15) -- the scheme over LINEAR FORMS whose atoms are  *)
(*   uninterpreted vector-field evaluations, i.e. symbolic in f and g:     *)
(*     <<"y0">>                the initial state                           *)
(*     <<"F",   ti, z>>        F(t_ti, z)            (a drift value)       *)
(*     <<"G",   ti, z>>        G(t_ti, z)            (a diffusion value)   *)
(*     <<"Fdt", ti, z, k>>     F(t_ti, z) * h_k      h_k = t_k - t_(k-1)   *)
(*     <<"GdW", ti, z, k>>     prod(G(t_ti, z), dW_k) dW_k = W(t_(k-1),t_k)*)
(*   z is itself a linear form (the ARGUMENT the field was evaluated at),   *)
(*   so two evaluations are the same atom iff they have the same argument;  *)
(*   h_k and dW_k are symbols (k = index of the grid cell), multiplication  *)
(*   by h_k and `prod(., dW_k)` are only assumed (bi)linear.  Identities    *)
(*   established over these forms therefore hold for ALL f, g, all step     *)
(*   sizes, all Brownian increments and all noise types.                   *)
(*   Machine Sym*: k forward steps, turn round (negate the carried (f,g)), *)
(*   then k steps of THE SAME step operator on the time-reversed negated    *)
(*   SDE  F~(s, z) = -F(-s, z),  G~(s, z) = -G(-s, z)  driven by the         *)
(*   reversed Brownian motion  B~(sa, sb) = B(-sb, -sa).                    *)
(*                                                                         *)
(* PART II (property C10) -- the scheme and its discrete adjoint over      *)
(*   Rational on linear SDEs  f(t,y) = A y + (1+t) c,                       *)
(*   g_j(t,y) = B_j y + (1+t) e_j  (column j of the diffusion), where       *)
(*   everything stays rational.  Machine Adj*: forward steps, then the      *)
(*   hand-derived reverse step (reconstruct the state by the inverse step   *)
(*   and accumulate cotangents), cotangent injection at output times; the   *)
(*   result must equal the derivative obtained independently by forward     *)
(*   mode (dual numbers) through the forward steps, i.e. reverse step =     *)
(*   transpose of forward step.                                             *)
(***************************************************************************)
EXTENDS LinForm, Json

CONSTANTS MaxK,        \* Part I: largest number of steps (unused by Part II)
          AdjTier      \* 0 = small scenario sets, 1 = full sets (Part II scenarios and the enumerated inputs of the
                       \* floating-point runs: ReconScenarios, SmoothScenarios)

VARIABLES pc, k, st, hist, adj, scn, aux
vars == <<pc, k, st, hist, adj, scn, aux>>

RTwo == <<2, 1>>

(***************************************************************************)
(* PART I -- symbolic                                                       *)
(***************************************************************************)
Y0 == LAtom(<<"y0">>)

\* field forms: linear forms over "F"/"G" atoms;  * h_k  and  prod(., dW_k)
MulDt(ff, c) == [a \in {<<"Fdt", b[2], b[3], c>> : b \in DOMAIN ff} |-> ff[<<"F", a[2], a[3]>>]]
ProdDW(gf, c) == [a \in {<<"GdW", b[2], b[3], c>> : b \in DOMAIN gf} |-> gf[<<"G", a[2], a[3]>>]]

\* an SDE is a record [rev |-> BOOLEAN]: FALSE = the user's SDE (F, G, B);
\* TRUE = the time-reversed negated SDE with the reversed Brownian motion.
\* Solver times are grid indices: 0..n forward; the reversed solve runs over
\* solver times -n .. 0 (solver time s stands for the real time -t_(-s)).
FwdSDE == [rev |-> FALSE]
RevSDE == [rev |-> TRUE]
FieldF(sde, s, z) == IF sde.rev THEN LNeg(LAtom(<<"F", -s, z>>)) ELSE LAtom(<<"F", s, z>>)
FieldG(sde, s, z) == IF sde.rev THEN LNeg(LAtom(<<"G", -s, z>>)) ELSE LAtom(<<"G", s, z>>)
\* the grid cell whose length (dt) and Brownian increment a step s0 -> s0+1 sees:
\* forward: t_(s0+1) - t_s0 = h_(s0+1), B(s0, s0+1) = dW_(s0+1);
\* reversed: (-t_(-s0-1)) - (-t_(-s0)) = h_(-s0),  B~(s0, s0+1) = B(-s0-1, -s0) = dW_(-s0)
Cell(sde, s0) == IF sde.rev THEN -s0 ELSE s0 + 1

\* THE forward step (one definition, used for both SDEs)
Step(sde, s0, s) ==
  LET c  == Cell(sde, s0)
      z1 == LAdd(LSub(LScale(RTwo, s.y), s.z), LAdd(MulDt(s.f, c), ProdDW(s.g, c)))
      f1 == FieldF(sde, s0 + 1, z1)
      g1 == FieldG(sde, s0 + 1, z1)
      y1 == LAdd(s.y, LScale(RHalf, LAdd(MulDt(LAdd(s.f, f1), c), ProdDW(LAdd(s.g, g1), c))))
  IN [y |-> y1, z |-> z1, f |-> f1, g |-> g1]

\* The algebraic inverse of a step of the user's SDE, written down directly
\* (solve the two step equations for (z0, y0)):
InvStep(s0, s1) ==
  LET c  == s0 + 1
      z0 == LSub(LSub(LScale(RTwo, s1.y), s1.z), LAdd(MulDt(s1.f, c), ProdDW(s1.g, c)))
      f0 == FieldF(FwdSDE, s0, z0)
      g0 == FieldG(FwdSDE, s0, z0)
      y0 == LSub(s1.y, LScale(RHalf, LAdd(MulDt(LAdd(f0, s1.f), c), ProdDW(LAdd(g0, s1.g), c))))
  IN [y |-> y0, z |-> z0, f |-> f0, g |-> g0]

NegExtras(s) == [y |-> s.y, z |-> s.z, f |-> LNeg(s.f), g |-> LNeg(s.g)]
SymStart == [y |-> Y0, z |-> Y0, f |-> FieldF(FwdSDE, 0, Y0), g |-> FieldG(FwdSDE, 0, Y0)]

SymInit == /\ pc = "fwd" /\ k = 0 /\ st = SymStart /\ hist = <<SymStart>>
           /\ adj = <<>> /\ scn = <<>> /\ aux = <<>>
SymFwd  == /\ pc = "fwd" /\ k < MaxK
           /\ st' = Step(FwdSDE, k, st) /\ k' = k + 1 /\ hist' = Append(hist, st')
           /\ UNCHANGED <<pc, adj, scn, aux>>
SymTurn == /\ pc = "fwd" /\ k >= 1
           /\ pc' = "rev" /\ st' = NegExtras(st)
           /\ UNCHANGED <<k, hist, adj, scn, aux>>
SymRev  == /\ pc = "rev" /\ k > 0
           /\ st' = Step(RevSDE, -k, st) /\ k' = k - 1
           /\ UNCHANGED <<pc, hist, adj, scn, aux>>
SymNext == SymFwd \/ SymTurn \/ SymRev
SymSpec == SymInit /\ [][SymNext]_vars

\* "the carried (f, g) are the vector fields at z" (of the SDE being solved, at the current time)
SymCarriedAtZ ==
  /\ pc = "fwd" => st.f = FieldF(FwdSDE, k, st.z) /\ st.g = FieldG(FwdSDE, k, st.z)
  /\ pc = "rev" => st.f = FieldF(RevSDE, -k, st.z) /\ st.g = FieldG(RevSDE, -k, st.z)
\* every state of the forward trajectory is reconstructed exactly
SymReconstructs == pc = "rev" => st = NegExtras(hist[k + 1])
SymReturns      == (pc = "rev" /\ k = 0) => (st.y = Y0 /\ st.z = Y0)
\* the reverse step is the exact inverse of the forward step
SymInverse      == (pc = "fwd" /\ k >= 1) => InvStep(k - 1, st) = hist[k]
\* ... and a step of the reversed negated SDE IS that inverse (up to the sign of the extras)
SymRevIsInverse == (pc = "rev" /\ k >= 1) => NegExtras(Step(RevSDE, -k, st)) = InvStep(k - 1, NegExtras(st))
\* y and z never leave the span of y0, Fdt, GdW atoms with unit coefficient on y0
SymAffine == LGet(st.y, <<"y0">>) = ROne /\ LGet(st.z, <<"y0">>) = ROne

\* ---- export of forms for the conformance binding (JSON friendly) ----
RECURSIVE SetToSeq(_)
SetToSeq(S) == IF S = {} THEN <<>> ELSE LET x == CHOOSE y \in S : TRUE IN <<x>> \o SetToSeq(S \ {x})
RECURSIVE FormJ(_)
AtomJ(a) == IF Len(a) = 1 THEN <<a[1]>>
            ELSE IF Len(a) = 3 THEN <<a[1], a[2], FormJ(a[3])>>
            ELSE <<a[1], a[2], FormJ(a[3]), a[4]>>
FormJ(f) == LET as == SetToSeq(DOMAIN f) IN [i \in 1..Len(as) |-> <<f[as[i]][1], f[as[i]][2], AtomJ(as[i])>>]
StateJ(s) == [y |-> FormJ(s.y), z |-> FormJ(s.z), f |-> FormJ(s.f), g |-> FormJ(s.g)]
\* printed once per forward state (k = 0..MaxK) when the export configuration is used
SymExport == pc = "fwd" => PrintT("@@" \o ToJson([kind |-> "sym", k |-> k, st |-> StateJ(st)]))

\* Inputs for the floating-point reconstruction runs on the real solver (forward n steps, then n steps
\* of the reversed negated SDE): noise type, (batch, d, m), 1/dt, number of steps.  ReconTier 0/1.
ReconShapes(noise) == CASE noise = "diagonal" -> {<<1, 1, 1>>, <<3, 2, 2>>, <<2, 4, 4>>}
                        [] noise = "scalar"   -> {<<1, 1, 1>>, <<3, 2, 1>>, <<2, 4, 1>>}
                        [] OTHER              -> {<<1, 1, 1>>, <<3, 2, 3>>, <<2, 4, 2>>}
ReconScenarios(tier) ==
  {[noise |-> nz, batch |-> sh[1], d |-> sh[2], m |-> sh[3], hden |-> hd, n |-> nn] :
     nz \in {"diagonal", "scalar", "additive", "general"},
     sh \in UNION {ReconShapes(x) : x \in {"diagonal", "scalar", "additive", "general"}},
     hd \in (IF tier = 0 THEN {8, 10} ELSE {4, 8, 10, 64}),
     nn \in (IF tier = 0 THEN {1, 3, 8, 16} ELSE {1, 2, 3, 8, 16, 64})}
ReconValid(s) == <<s.batch, s.d, s.m>> \in ReconShapes(s.noise)
ReconExport == (pc = "fwd" /\ k = 0) =>
   PrintT("@@" \o ToJson([kind |-> "recon", scns |-> SetToSeq({s \in ReconScenarios(AdjTier) : ReconValid(s)})]))

(***************************************************************************)
(* PART II -- rational, linear SDEs, discrete adjoint                      *)
(***************************************************************************)
\* ---------- strict (eagerly evaluated) vector operations ----------
\* TLC keeps [i \in S |-> e] as an unevaluated lambda and re-evaluates e at every application; nested
\* vector expressions then cost exponential time.  TLCEval forces the value once.
XAdd(u, v)   == TLCEval([i \in 1..Len(u) |-> RAdd(u[i], v[i])])
XSub(u, v)   == TLCEval([i \in 1..Len(u) |-> RSub(u[i], v[i])])
XScale(c, u) == TLCEval([i \in 1..Len(u) |-> RMul(c, u[i])])
XMVec(mm, v) == TLCEval([i \in 1..Len(mm) |-> VDot(mm[i], v)])

\* ---------- dual numbers <<value, tangent>> over Rational ----------
DC(r)      == <<r, RZero>>
DAdd(x, y) == <<RAdd(x[1], y[1]), RAdd(x[2], y[2])>>
DSub(x, y) == <<RSub(x[1], y[1]), RSub(x[2], y[2])>>
DMul(x, y) == <<RMul(x[1], y[1]), RAdd(RMul(x[1], y[2]), RMul(x[2], y[1]))>>
DZero      == DC(RZero)
RECURSIVE DSumSeq(_)
DSumSeq(s) == IF s = <<>> THEN DZero ELSE DAdd(Head(s), DSumSeq(Tail(s)))
DVAdd(u, v)   == TLCEval([i \in 1..Len(u) |-> DAdd(u[i], v[i])])
DVSub(u, v)   == TLCEval([i \in 1..Len(u) |-> DSub(u[i], v[i])])
DVScale(c, u) == TLCEval([i \in 1..Len(u) |-> DMul(c, u[i])])
DVDot(u, v)   == DSumSeq([i \in 1..Len(u) |-> DMul(u[i], v[i])])
DMVec(mm, v)  == TLCEval([i \in 1..Len(mm) |-> DVDot(mm[i], v)])
DVZero(n)     == [i \in 1..n |-> DZero]
RECURSIVE DVSumSeq(_, _)
DVSumSeq(s, n) == IF s = <<>> THEN DVZero(n) ELSE DVAdd(Head(s), DVSumSeq(Tail(s), n))
Val(v)  == [i \in 1..Len(v) |-> v[i][1]]
Tan(v)  == [i \in 1..Len(v) |-> v[i][2]]

\* ---------- scenario data (small dyadic numbers; 32-bit safe) ----------
\* a scenario: [noise, d, m, n, outs (grid indices of the output times, first 0, last n), wpat (subset of
\* 1..Len(outs) carrying loss weight), hden (dt = 1/hden)]
Q(n, dd) == R(n, dd)
AllY0 == << Q(1,1), Q(-1,2) >>
AllA  == << << Q(1,2), Q(-1,1) >>, << Q(1,1), Q(1,2) >> >>
AllC  == << Q(1,2), Q(-1,1) >>
\* B_j (d x d) and e_j (d) for column j
AllB  == << << << Q(1,2), Q(1,1) >>, << Q(-1,1), Q(1,2) >> >>,
            << << Q(-1,2), Q(1,2) >>, << Q(1,1), Q(1,1) >> >> >>
AllE  == << << Q(1,1), Q(-1,2) >>, << Q(1,2), Q(1,1) >> >>
\* Brownian increments per grid cell and channel (cells 1..3, channels 1..2)
AllDW == << << Q(1,2), Q(-1,1) >>, << Q(-1,2), Q(1,2) >>, << Q(1,1), Q(1,2) >> >>
\* loss weights per output position (up to 3 outputs) and state component
AllW  == << << Q(1,1), Q(-1,2) >>, << Q(1,2), Q(1,1) >>, << Q(-1,1), Q(2,1) >> >>
T0 == Q(0, 1)

Sub(s, n) == [i \in 1..n |-> s[i]]
SubM(mm, r, c) == [i \in 1..r |-> Sub(mm[i], c)]

\* the diffusion of every noise type in "general" coordinates: column j is  B_j y + (1+t) e_j
\*  diagonal: B_j = b_j * E_jj, e_j = e_j * unit_j ;  additive: B_j = 0 ;  scalar: m = 1
UnitM(dd, j, v) == [r \in 1..dd |-> [c \in 1..dd |-> IF r = j /\ c = j THEN v ELSE RZero]]
UnitV(dd, j, v) == [r \in 1..dd |-> IF r = j THEN v ELSE RZero]
ParamsOf(s) ==
  [A |-> SubM(AllA, s.d, s.d), c |-> Sub(AllC, s.d),
   B |-> [j \in 1..s.m |-> CASE s.noise = "diagonal" -> UnitM(s.d, j, AllB[j][j][j])
                             [] s.noise = "additive" -> [r \in 1..s.d |-> VZero(s.d)]
                             [] OTHER -> SubM(AllB[j], s.d, s.d)],
   e |-> [j \in 1..s.m |-> IF s.noise = "diagonal" THEN UnitV(s.d, j, AllE[j][j]) ELSE Sub(AllE[j], s.d)]]
\* parameter slots (what the user's nn.Module holds), as <<name, indices...>>
Slots(s) ==
  {<<"y0", i>> : i \in 1..s.d} \cup {<<"A", i, l>> : i, l \in 1..s.d} \cup {<<"c", i>> : i \in 1..s.d}
  \cup (CASE s.noise = "diagonal" -> {<<"B", j, j, j>> : j \in 1..s.m} \cup {<<"e", j, j>> : j \in 1..s.m}
          [] s.noise = "additive" -> {<<"e", j, i>> : j \in 1..s.m, i \in 1..s.d}
          [] OTHER -> {<<"B", j, i, l>> : j \in 1..s.m, i \in 1..s.d, l \in 1..s.d}
                      \cup {<<"e", j, i>> : j \in 1..s.m, i \in 1..s.d})
H(s)      == R(1, s.hden)
TimeAt(s, i) == RAdd(T0, RMul(RInt(i), H(s)))
DWAt(s, c) == Sub(AllDW[c], s.m)

\* ---------- the forward step in dual numbers ----------
\* P: [A, c, B, e] with dual entries; state [y, z, f, g] (g = sequence of m columns)
DField(P, t, z, m) ==
  LET tt == DC(RAdd(ROne, t))
  IN [f |-> DVAdd(DMVec(P.A, z), DVScale(tt, P.c)),
      g |-> TLCEval([j \in 1..m |-> DVAdd(DMVec(P.B[j], z), DVScale(tt, P.e[j]))])]
DProd(g, dw, dd) == DVSumSeq([j \in 1..Len(g) |-> DVScale(DC(dw[j]), g[j])], dd)
DStep(P, s, c, sc) ==
  LET h  == H(sc)
      dw == DWAt(sc, c)
      dd == sc.d
      z1 == DVAdd(DVSub(DVScale(DC(RTwo), s.y), s.z), DVAdd(DVScale(DC(h), s.f), DProd(s.g, dw, dd)))
      fg == DField(P, TimeAt(sc, c), z1, sc.m)
      gs == TLCEval([j \in 1..sc.m |-> DVAdd(s.g[j], fg.g[j])])
      y1 == DVAdd(s.y, DVAdd(DVScale(DC(RMul(RHalf, h)), DVAdd(s.f, fg.f)),
                             DProd(gs, [j \in 1..sc.m |-> RMul(RHalf, dw[j])], dd)))
  IN TLCEval([y |-> y1, z |-> z1, f |-> fg.f, g |-> fg.g])
DStart(P, y0, sc) == LET fg == DField(P, T0, y0, sc.m) IN [y |-> y0, z |-> y0, f |-> fg.f, g |-> fg.g]
\* trajectory: sequence of n+1 states
RECURSIVE DTraj(_, _, _, _)
DTraj(P, s, c, sc) == IF c > sc.n THEN <<s>> ELSE <<s>> \o DTraj(P, DStep(P, s, c, sc), c + 1, sc)

\* seed a tangent 1 on one slot
Seed(x, on) == <<x, IF on THEN ROne ELSE RZero>>
DParams(sc, slot) ==
  LET p == ParamsOf(sc)
  IN [A |-> [i \in 1..sc.d |-> [l \in 1..sc.d |-> Seed(p.A[i][l], slot = <<"A", i, l>>)]],
      c |-> [i \in 1..sc.d |-> Seed(p.c[i], slot = <<"c", i>>)],
      B |-> [j \in 1..sc.m |-> [i \in 1..sc.d |-> [l \in 1..sc.d |-> Seed(p.B[j][i][l], slot = <<"B", j, i, l>>)]]],
      e |-> [j \in 1..sc.m |-> [i \in 1..sc.d |-> Seed(p.e[j][i], slot = <<"e", j, i>>)]]]
DY0(sc, slot) == [i \in 1..sc.d |-> Seed(AllY0[i], slot = <<"y0", i>>)]
TrajDual(sc, slot) == DTraj(DParams(sc, slot), DStart(DParams(sc, slot), DY0(sc, slot), sc), 1, sc)

\* loss  L = sum over output positions o in wpat of  <W_o, y(t_outs[o])>
WAt(sc, o) == IF o \in sc.wpat THEN Sub(AllW[o], sc.d) ELSE VZero(sc.d)
LossTangent(sc, slot) ==
  LET tr == TrajDual(sc, slot)
  IN RSumSeq([o \in 1..Len(sc.outs) |-> VDot(WAt(sc, o), Tan(tr[sc.outs[o] + 1].y))])
GradDual(sc) == [slot \in Slots(sc) |-> LossTangent(sc, slot)]

\* plain values of the forward trajectory
ValState(s) == [y |-> Val(s.y), z |-> Val(s.z), f |-> Val(s.f), g |-> [j \in 1..Len(s.g) |-> Val(s.g[j])]]
NoSlot == <<"none">>
TrajVal(sc) == LET tr == TrajDual(sc, NoSlot) IN [i \in 1..Len(tr) |-> ValState(tr[i])]

\* ---------- the hand-derived reverse step (plain rationals) ----------
VOuter(u, v) == TLCEval([i \in 1..Len(u) |-> [l \in 1..Len(v) |-> RMul(u[i], v[l])]])
MAdd(a, b)   == TLCEval([i \in 1..Len(a) |-> XAdd(a[i], b[i])])
MTVec(mm, v) == TLCEval([l \in 1..Len(mm[1]) |-> RSumSeq([i \in 1..Len(mm) |-> RMul(mm[i][l], v[i])])])
RECURSIVE VSumSeq(_, _)
VSumSeq(s, n) == IF s = <<>> THEN VZero(n) ELSE XAdd(Head(s), VSumSeq(Tail(s), n))
PField(p, t, z, m) ==
  LET tt == RAdd(ROne, t)
  IN [f |-> XAdd(XMVec(p.A, z), XScale(tt, p.c)),
      g |-> TLCEval([j \in 1..m |-> XAdd(XMVec(p.B[j], z), XScale(tt, p.e[j]))])]
PProd(g, dw, dd) == VSumSeq([j \in 1..Len(g) |-> XScale(dw[j], g[j])], dd)

\* cotangent bundle: [y, z, f, g (m columns), A, c, B, e]
ZeroM(dd) == [i \in 1..dd |-> VZero(dd)]
AdjZero(sc) == [y |-> VZero(sc.d), z |-> VZero(sc.d), f |-> VZero(sc.d), g |-> [j \in 1..sc.m |-> VZero(sc.d)],
                A |-> ZeroM(sc.d), c |-> VZero(sc.d),
                B |-> [j \in 1..sc.m |-> ZeroM(sc.d)], e |-> [j \in 1..sc.m |-> VZero(sc.d)]]

\* pull the cotangents of (f, g) = Field(t, z) back to z and the parameters
VjpField(p, t, z, a, sc) ==
  LET tt == RAdd(ROne, t)
      zb == XAdd(MTVec(p.A, a.f), VSumSeq([j \in 1..sc.m |-> MTVec(p.B[j], a.g[j])], sc.d))
  IN [a EXCEPT !.z = XAdd(a.z, zb),
               !.A = MAdd(a.A, VOuter(a.f, z)),
               !.c = XAdd(a.c, XScale(tt, a.f)),
               !.B = [j \in 1..sc.m |-> MAdd(a.B[j], VOuter(a.g[j], z))],
               !.e = [j \in 1..sc.m |-> XAdd(a.e[j], XScale(tt, a.g[j]))]]

\* One reverse step over grid cell c (from index c to c-1): returns the reconstructed
\* state at c-1 and the cotangents with respect to (y, z, f, g) at c-1.
\* s1, a1: state and cotangents at index c.
RevStep(p, s1, a1, c, sc) ==
  LET h   == H(sc)
      dw  == DWAt(sc, c)
      hh  == RMul(RHalf, h)
      \* y1 = y0 + (f0 + f1) h/2 + prod(g0 + g1, dW/2)
      yh  == XScale(hh, a1.y)
      yw  == [j \in 1..sc.m |-> XScale(RMul(RHalf, dw[j]), a1.y)]
      a2  == [a1 EXCEPT !.f = XAdd(a1.f, yh), !.g = [j \in 1..sc.m |-> XAdd(a1.g[j], yw[j])]]
      \* (f1, g1) = Field(t_c, z1)
      a3  == VjpField(p, TimeAt(sc, c), s1.z, a2, sc)
      \* z1 = 2 y0 - z0 + f0 h + prod(g0, dW)
      a0  == [a3 EXCEPT !.y = XAdd(a1.y, XScale(RTwo, a3.z)),
                        !.z = XScale(<<-1, 1>>, a3.z),
                        !.f = XAdd(yh, XScale(h, a3.z)),
                        !.g = [j \in 1..sc.m |-> XAdd(yw[j], XScale(dw[j], a3.z))]]
      \* reconstruction (the inverse step)
      z0  == XSub(XSub(XScale(RTwo, s1.y), s1.z), XAdd(XScale(h, s1.f), PProd(s1.g, dw, sc.d)))
      fg0 == PField(p, TimeAt(sc, c - 1), z0, sc.m)
      y0  == XSub(s1.y, XAdd(XScale(hh, XAdd(fg0.f, s1.f)),
                             PProd([j \in 1..sc.m |-> XAdd(fg0.g[j], s1.g[j])],
                                   [j \in 1..sc.m |-> RMul(RHalf, dw[j])], sc.d)))
  IN [s |-> [y |-> y0, z |-> z0, f |-> fg0.f, g |-> fg0.g], a |-> a0]

\* the initial extras are (f, g, z) = (Field(t0, y0), y0): fold their cotangents into y0's
Finish(p, s0, a0, sc) ==
  LET a1 == VjpField(p, T0, s0.z, a0, sc)
  IN [a1 EXCEPT !.y = XAdd(a1.y, a1.z)]

GradOfAdj(a, sc) ==
  [slot \in Slots(sc) |->
     CASE slot[1] = "y0" -> a.y[slot[2]]
       [] slot[1] = "A"  -> a.A[slot[2]][slot[3]]
       [] slot[1] = "c"  -> a.c[slot[2]]
       [] slot[1] = "B"  -> a.B[slot[2]][slot[3]][slot[4]]
       [] slot[1] = "e"  -> a.e[slot[2]][slot[3]]]

\* ---------- scenario enumeration ----------
NoiseDims == {<<"diagonal", 1, 1>>, <<"diagonal", 2, 2>>, <<"scalar", 1, 1>>, <<"scalar", 2, 1>>,
              <<"additive", 1, 1>>, <<"additive", 1, 2>>, <<"additive", 2, 1>>, <<"additive", 2, 2>>,
              <<"general", 1, 1>>, <<"general", 1, 2>>, <<"general", 2, 1>>, <<"general", 2, 2>>}
NoiseDimsSmall == {<<"diagonal", 2, 2>>, <<"scalar", 2, 1>>, <<"additive", 2, 2>>, <<"additive", 1, 2>>,
                   <<"general", 2, 2>>, <<"general", 2, 1>>}
\* output layouts <<n, grid indices of the output times>>: 2-3 outputs aligned with the step grid
Layouts == {<<1, <<0, 1>>>>, <<2, <<0, 2>>>>, <<2, <<0, 1, 2>>>>,
            <<3, <<0, 3>>>>, <<3, <<0, 1, 3>>>>, <<3, <<0, 2, 3>>>>}
MaxN == 3
\* base scenarios (SDE + step size); the number of steps, the layout and the loss-weight pattern are
\* chosen nondeterministically by the machine (AdjTurn), so that the forward-mode Jacobian, which is the
\* expensive part, is evaluated once per base scenario
AdjBase ==
  {[noise |-> nd[1], d |-> nd[2], m |-> nd[3], hden |-> hd, n |-> 0, outs |-> <<>>, wpat |-> {}] :
     nd \in (IF AdjTier = 0 THEN NoiseDimsSmall ELSE NoiseDims), hd \in (IF AdjTier = 0 THEN {2} ELSE {2, 4})}

\* forward-mode Jacobian of the MaxN-step trajectory: slot |-> <<d y_0/d slot, ..., d y_MaxN/d slot>>
Jacobian(sc) ==
  LET scN == [sc EXCEPT !.n = MaxN]
  IN [slot \in Slots(sc) |-> LET tr == TrajDual(scN, slot) IN [i \in 1..MaxN + 1 |-> Tan(tr[i].y)]]
GradFromJac(jac, sc) ==
  [slot \in Slots(sc) |-> RSumSeq([o \in 1..Len(sc.outs) |-> VDot(WAt(sc, o), jac[slot][sc.outs[o] + 1])])]

\* ---------- the machine ----------
\* pc: "afwd" -> ("ainj" -> "aback")* -> "afin" -> "adone";  k: current grid index;  st: current plain state;
\* hist: forward states (for the reconstruction lemma);  adj: cotangents;  aux: the forward-mode Jacobian
OutPos(sc, i) == {o \in 1..Len(sc.outs) : sc.outs[o] = i}
AdjInit == /\ scn \in AdjBase
           /\ pc = "afwd" /\ k = 0
           /\ hist = <<TrajVal([scn EXCEPT !.n = 0])[1]>> /\ st = hist[1]
           /\ adj = AdjZero(scn)
           /\ aux = Jacobian(scn)
\* forward step, by the dual-number step operator with zero tangents
AdjFwd == /\ pc = "afwd" /\ k < MaxN
          /\ LET P  == DParams(scn, NoSlot)
                 ds == [y |-> [i \in 1..scn.d |-> DC(st.y[i])], z |-> [i \in 1..scn.d |-> DC(st.z[i])],
                        f |-> [i \in 1..scn.d |-> DC(st.f[i])],
                        g |-> [j \in 1..scn.m |-> [i \in 1..scn.d |-> DC(st.g[j][i])]]]
             IN st' = ValState(DStep(P, ds, k + 1, scn))
          /\ k' = k + 1 /\ hist' = Append(hist, st')
          /\ UNCHANGED <<pc, adj, scn, aux>>
\* stop after k steps, choose the output layout and which outputs carry loss weight; start the backward pass
AdjTurn == /\ pc = "afwd" /\ k >= 1
           /\ \E lay \in Layouts : \E wp \in (SUBSET (1..Len(lay[2]))) \ {{}} :
                 /\ lay[1] = k
                 /\ scn' = [scn EXCEPT !.n = k, !.outs = lay[2], !.wpat = wp]
           /\ pc' = "ainj"
           /\ UNCHANGED <<k, st, hist, adj, aux>>
\* inject the loss cotangent of the output at the current grid index
AdjInject == /\ pc = "ainj"
             /\ LET o == CHOOSE o \in OutPos(scn, k) : TRUE
                IN adj' = [adj EXCEPT !.y = XAdd(adj.y, WAt(scn, o))]
             /\ pc' = IF k = 0 THEN "afin" ELSE "aback"
             /\ UNCHANGED <<k, st, hist, scn, aux>>
AdjRev == /\ pc = "aback" /\ k > 0
          /\ LET r == RevStep(ParamsOf(scn), st, adj, k, scn)
             IN st' = r.s /\ adj' = r.a
          /\ k' = k - 1
          /\ pc' = IF OutPos(scn, k - 1) # {} THEN "ainj" ELSE "aback"
          /\ UNCHANGED <<hist, scn, aux>>
AdjFinish == /\ pc = "afin"
             /\ adj' = Finish(ParamsOf(scn), st, adj, scn)
             /\ pc' = "adone"
             /\ UNCHANGED <<k, st, hist, scn, aux>>
AdjNext == AdjFwd \/ AdjTurn \/ AdjInject \/ AdjRev \/ AdjFinish
AdjSpec == AdjInit /\ [][AdjNext]_vars

\* THEOREM (checked by TLC): reverse accumulation with reconstruction = forward-mode derivative,
\* i.e. the hand-derived reverse step is the transpose of the forward step
AdjTranspose == pc = "adone" => GradOfAdj(adj, scn) = GradFromJac(aux, scn)
\* the reverse pass reconstructs the forward states exactly (C15 on numbers)
AdjReconstructs == pc \in {"aback", "ainj", "afin"} => st = hist[k + 1]
\* each output's cotangent is injected exactly once: the y-cotangent ... (see AdjointDriver.InjectOrder)
\* the forward machine agrees with the recursive trajectory operator (value part of a dual pass)
AdjForwardOK == (pc = "afwd" /\ k = MaxN) =>
                  LET tv == TrajVal([scn EXCEPT !.n = MaxN]) IN \A i \in 1..MaxN + 1 : hist[i] = tv[i]

\* Inputs for the floating-point comparison adjoint-vs-backprop on smooth non-polynomial SDEs: noise type,
\* (batch, d, m), 1/dt, output times as whole multiples of dt (the property's precondition), loss kind.
SmoothLayouts(tier) == {<<0, 1>>, <<0, 4>>, <<0, 2, 3>>, <<0, 1, 5, 8>>, <<0, 3, 6, 9, 12>>}
                       \cup (IF tier = 0 THEN {} ELSE {<<0, 16>>, <<0, 1, 2, 3, 4, 5, 6, 7, 8>>, <<0, 5, 6>>})
SmoothScenarios(tier) ==
  {[noise |-> nz, batch |-> sh[1], d |-> sh[2], m |-> sh[3], hden |-> hd, outs |-> lay, loss |-> ls] :
     nz \in {"diagonal", "scalar", "additive", "general"},
     sh \in UNION {ReconShapes(x) : x \in {"diagonal", "scalar", "additive", "general"}},
     hd \in (IF tier = 0 THEN {8, 10} ELSE {4, 32, 10, 1000}),
     lay \in SmoothLayouts(tier),
     ls \in {"all", "last", "first_mid", "square"}}
SmoothExport == (pc = "afwd" /\ k = 0 /\ scn = CHOOSE b \in AdjBase : TRUE) =>
   PrintT("@@" \o ToJson([kind |-> "smooth", scns |-> SetToSeq({s \in SmoothScenarios(AdjTier) : ReconValid(s)})]))

GradJ(gr) == LET ss == SetToSeq(DOMAIN gr) IN [i \in 1..Len(ss) |-> <<ss[i], gr[ss[i]]>>]
AdjExport == pc = "adone" =>
   PrintT("@@" \o ToJson([kind |-> "adj", scn |-> [noise |-> scn.noise, d |-> scn.d, m |-> scn.m, n |-> scn.n,
                                                    outs |-> scn.outs, wpat |-> SetToSeq(scn.wpat), hden |-> scn.hden],
                          grad |-> GradJ(GradOfAdj(adj, scn)),
                          ys |-> [o \in 1..Len(scn.outs) |-> hist[scn.outs[o] + 1].y],
                          params |-> ParamsOf(scn),
                          y0 |-> Sub(AllY0, scn.d),
                          dw |-> [c \in 1..scn.n |-> DWAt(scn, c)],
                          w |-> [o \in 1..Len(scn.outs) |-> WAt(scn, o)]]))
=============================================================================
