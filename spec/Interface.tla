------------------------------ MODULE Interface ------------------------------
(* C16 -- equivalent SDE interfaces give identical solutions; derived operators are exact.   *)
(*                                                                                           *)
(* Part 1 (state machine).  The user supplies any subset S of {f, g, f_and_g, g_prod,        *)
(* f_and_g_prod}, some of them stored under other names (R) and announced through the       *)
(* `names` argument (N).  RenameMethodsSDE makes a set V of canonical names visible,         *)
(* check_contract wants a drift and a diffusion, ForwardSDE registers the eight solver       *)
(* operations, and the chosen solver calls some of them in a fixed order.  For every         *)
(* operation the spec gives (a) the user callables it reaches, (b) its DENOTATION as a term  *)
(* over the mathematical drift F and diffusion G (each user method denotes what its          *)
(* contract says), or (c) the explicit error naming the missing method.                      *)
(* Invariant SameSemantics: whenever an operation is defined, its denotation is the          *)
(* reference term -- a function of (F, G) only, whatever was supplied.                       *)
(*                                                                                           *)
(* Part 2 (evaluator).  Exact values of the derived operators (g v, the Milstein term        *)
(* sum g dg v, the Levy-area term sum dg (g A)) for polynomial diffusions, computed from the *)
(* mathematical definitions on rationals (polynomials as coefficient tables, differentiated  *)
(* here), printed as JSON for comparison with ForwardSDE.* at 1e-12.                         *)
EXTENDS Rational, FiniteSets, TLC, Json

UserMethods == {"f", "g", "f_and_g", "g_prod", "f_and_g_prod"}
\* sdeint.py:119-120 forwards the keys drift, diffusion, drift_and_diffusion, drift_and_diffusion_prod
\* (and prior_drift) to RenameMethodsSDE; g_prod cannot be renamed through sdeint.
Renamable   == {"f", "g", "f_and_g", "f_and_g_prod"}
Ops == {"f", "g", "f_and_g", "g_prod", "f_and_g_prod", "prod", "g_prod_and_gdg_prod", "dg_ga_jvp_column_sum"}
SdeTypes   == {"ito", "stratonovich"}
NoiseTypes == {"scalar", "additive", "diagonal", "general"}

-----------------------------------------------------------------------------
(* Denotations: terms over F, G.  Every component after the tag is itself a term.            *)
F    == <<"F">>
G    == <<"G">>
Zero == <<"0">>
V0   == <<"v">>
V1   == <<"v1">>
V2   == <<"v2">>
AA   == <<"A">>
Pair(a, b)  == <<"pair", a, b>>
App(g, v)   == <<"app", g, v>>            \* the diffusion-vector product  g v
GdG(g, v)   == <<"gdg", g, v>>            \* sum_{j,l} d g_{i,l}/d x_j  g_{j,l} v_l
DgGa(g, a)  == <<"dgga", g, a>>           \* sum_{j,k,l} d g_{i,l}/d x_j  g_{j,k} a_{k,l}
Bad         == <<"error">>

\* what each user-supplied method denotes BY CONTRACT (DOCUMENTATION.md "Providing specialised methods")
UserDen == [f |-> F, g |-> G, f_and_g |-> Pair(F, G), g_prod |-> App(G, V0),
            f_and_g_prod |-> Pair(F, App(G, V0))]

\* the reference: what each operation means mathematically, as a function of (F, G) only
MathDen(op, nt) ==
    CASE op = "f"            -> F
      [] op = "g"            -> G
      [] op = "f_and_g"      -> Pair(F, G)
      [] op = "g_prod"       -> App(G, V0)
      [] op = "f_and_g_prod" -> Pair(F, App(G, V0))
      [] op = "prod"         -> App(<<"arg">>, V0)          \* prod(g, v) of a GIVEN matrix
      [] op = "g_prod_and_gdg_prod" ->
             Pair(App(G, V1), IF nt = "additive" THEN Zero ELSE GdG(G, V2))   \* dg = 0 for additive noise
      [] op = "dg_ga_jvp_column_sum" ->
             IF nt = "general" THEN DgGa(G, AA) ELSE Zero    \* vanishes for commutative noise

-----------------------------------------------------------------------------
(* The registration table of ForwardSDE (base_sde.py:42-76 and the defaults 91-121),         *)
(* as resolution results  [ok, den, calls, missing].                                        *)
Ok(den, calls) == [ok |-> TRUE, den |-> den, calls |-> calls, missing |-> ""]
Err(name)      == [ok |-> FALSE, den |-> Bad, calls |-> {}, missing |-> name]
\* evaluate a then b (in this order); the first failure wins
Both(a, b, den(_, _)) == IF ~a.ok THEN a ELSE IF ~b.ok THEN b ELSE Ok(den(a.den, b.den), a.calls \cup b.calls)
Then(a, den(_)) == IF ~a.ok THEN a ELSE Ok(den(a.den), a.calls)

Fst(p) == p[2]
Snd(p) == p[3]

RF(V) == IF "f" \in V THEN Ok(UserDen.f, {"f"}) ELSE Err("f")                 \* f_default raises
RG(V) == IF "g" \in V THEN Ok(UserDen.g, {"g"}) ELSE Err("g")                 \* g_default raises
RFG(V) == IF "f_and_g" \in V THEN Ok(UserDen.f_and_g, {"f_and_g"})
          ELSE Both(RF(V), RG(V), Pair)                                        \* f_and_g_default
RGProd(V) == IF "g_prod" \in V THEN Ok(UserDen.g_prod, {"g_prod"})
             ELSE Then(RG(V), LAMBDA g : App(g, V0))                           \* g_prod_default
RFGProd(V) ==
    IF "f_and_g_prod" \in V THEN Ok(UserDen.f_and_g_prod, {"f_and_g_prod"})
    ELSE IF "f" \in V /\ "g_prod" \in V THEN Both(RF(V), RGProd(V), Pair)      \* f_and_g_prod_default1
    ELSE Then(RFG(V), LAMBDA p : Pair(Fst(p), App(Snd(p), V0)))                \* f_and_g_prod_default2
\* substitute the vector of a g_prod denotation
WithVec(t, v) == <<t[1], t[2], v>>
RGdg(V, nt) ==
    IF nt = "additive" THEN Then(RGProd(V), LAMBDA gp : Pair(WithVec(gp, V1), Zero))
    ELSE Then(RG(V), LAMBDA g : Pair(App(g, V1), GdG(g, V2)))
RDgGa(V, nt) == IF nt = "general" THEN Then(RG(V), LAMBDA g : DgGa(g, AA)) ELSE Ok(Zero, {})

Resolve(V, op, nt) ==
    CASE op = "f"            -> RF(V)
      [] op = "g"            -> RG(V)
      [] op = "f_and_g"      -> RFG(V)
      [] op = "g_prod"       -> RGProd(V)
      [] op = "f_and_g_prod" -> RFGProd(V)
      [] op = "prod"         -> Ok(App(<<"arg">>, V0), {})
      [] op = "g_prod_and_gdg_prod"  -> RGdg(V, nt)
      [] op = "dg_ga_jvp_column_sum" -> RDgGa(V, nt)

-----------------------------------------------------------------------------
(* Solvers: documented (SDE type, noise type) and the operations a step calls, in call order *)
Solvers == {"euler", "milstein", "srk", "midpoint", "reversible_heun", "heun", "log_ode", "euler_heun"}
SolverSde(s) == CASE s \in {"euler", "srk"} -> {"ito"}
                  [] s = "milstein"         -> SdeTypes
                  [] OTHER                  -> {"stratonovich"}
SolverNoise(s) == IF s \in {"milstein", "srk"} THEN NoiseTypes \ {"general"} ELSE NoiseTypes

\* read from methods/*.py (step / init_extra_solver_state), first occurrence order
SolverOps(s, nt, gf) ==
    CASE s \in {"euler", "midpoint", "heun"} -> <<"f_and_g_prod">>
      [] s = "euler_heun"      -> <<"f_and_g_prod", "g_prod">>
      [] s = "log_ode"         -> <<"f_and_g_prod", "dg_ga_jvp_column_sum">>
      [] s = "reversible_heun" -> <<"f_and_g", "prod">>
      [] s = "milstein"        -> IF gf /\ nt # "additive" THEN <<"f_and_g", "g", "prod">>
                                  ELSE <<"f", "g_prod_and_gdg_prod">>
      [] s = "srk"             -> IF nt = "additive" THEN <<"f", "g_prod">> ELSE <<"f", "g_prod", "g">>

-----------------------------------------------------------------------------
(* State machine                                                                             *)
VARIABLES cfg, pc, visible, k, outcome, missing, used
vars == <<cfg, pc, visible, k, outcome, missing, used>>

SymDiff(A, B) == (A \ B) \cup (B \ A)
NamesChoices(Rn) == {Rn} \cup {SymDiff(Rn, {x}) : x \in Renamable}     \* proper renaming, or one mistake

Init == /\ \E S \in SUBSET UserMethods, s \in Solvers, st \in SdeTypes, nt \in NoiseTypes, gf \in BOOLEAN :
              \E Rn \in SUBSET (S \cap Renamable) :
                \E N \in NamesChoices(Rn) :
                   /\ st \in SolverSde(s) /\ nt \in SolverNoise(s)
                   /\ (gf => s = "milstein")
                   /\ cfg = [S |-> S, R |-> Rn, N |-> N, solver |-> s, gf |-> gf, st |-> st, nt |-> nt]
        /\ pc = "Rename" /\ visible = {} /\ k = 0 /\ outcome = "running" /\ missing = "" /\ used = {}

\* base_sde.py:212-224  a method is visible under its canonical name iff it is stored where `names`
\* (or the default) points; a key pointing to a missing attribute is silently skipped
Visible(S, Rn, N) == {m \in S : IF m \in Renamable THEN (m \in Rn) = (m \in N) ELSE TRUE}
Rename == /\ pc = "Rename"
          /\ visible' = Visible(cfg.S, cfg.R, cfg.N)
          /\ pc' = "Contract"
          /\ UNCHANGED <<cfg, k, outcome, missing, used>>

\* sdeint.py:238-243
HasF(V) == V \cap {"f", "f_and_g", "f_and_g_prod"} # {}
HasG(V) == V \cap {"g", "f_and_g", "g_prod", "f_and_g_prod"} # {}
Contract == /\ pc = "Contract"
            /\ IF ~HasF(visible) THEN /\ pc' = "done" /\ outcome' = "contract" /\ missing' = "f"
               ELSE IF ~HasG(visible) THEN /\ pc' = "done" /\ outcome' = "contract" /\ missing' = "g"
               ELSE /\ pc' = "Register" /\ UNCHANGED <<outcome, missing>>
            /\ UNCHANGED <<cfg, visible, k, used>>

Register == /\ pc = "Register" /\ pc' = "Ops" /\ k' = 1
            /\ UNCHANGED <<cfg, visible, outcome, missing, used>>

OpsOf(c) == SolverOps(c.solver, c.nt, c.gf)
CallOp == /\ pc = "Ops"
          /\ LET ops == OpsOf(cfg)
             IN IF k > Len(ops)
                THEN /\ pc' = "done" /\ outcome' = "solves" /\ UNCHANGED <<k, missing, used>>
                ELSE LET r == Resolve(visible, ops[k], cfg.nt)
                     IN IF r.ok THEN /\ k' = k + 1 /\ used' = used \cup r.calls
                                     /\ UNCHANGED <<pc, outcome, missing>>
                        ELSE /\ pc' = "done" /\ outcome' = "error" /\ missing' = r.missing
                             /\ UNCHANGED <<k, used>>
          /\ UNCHANGED <<cfg, visible>>

Next == Rename \/ Contract \/ Register \/ CallOp
Spec == Init /\ [][Next]_vars

-----------------------------------------------------------------------------
(* Invariants                                                                                *)
TypeOK == /\ pc \in {"Rename", "Contract", "Register", "Ops", "done"}
          /\ outcome \in {"running", "solves", "error", "contract"}
          /\ visible \subseteq cfg.S
          /\ used \subseteq visible
          /\ missing \in {"", "f", "g"}

\* whenever an operation is defined its denotation is the reference term
SameSemanticsAt(V, nt) == \A op \in Ops : Resolve(V, op, nt).ok => Resolve(V, op, nt).den = MathDen(op, nt)
SameSemantics == pc # "Rename" => SameSemanticsAt(visible, cfg.nt)

\* an error names a method that is indeed not available, never a silent fall-back
ErrorIsHonest == outcome \in {"error", "contract"} => (missing \in {"f", "g"} /\ missing \notin visible)
ContractIffNothingToUse ==
    pc = "done" => ((outcome = "contract") = (~HasF(visible) \/ ~HasG(visible)))
\* a run that solves used only defined operations, all with the reference meaning
SolvesMeansDefined ==
    outcome = "solves" => \A i \in 1..Len(OpsOf(cfg)) :
        LET r == Resolve(visible, OpsOf(cfg)[i], cfg.nt)
        IN r.ok /\ r.den = MathDen(OpsOf(cfg)[i], cfg.nt)
\* the explicit error happens iff some needed operation is undefined
ErrorIffUndefined ==
    (pc = "done" /\ outcome # "contract") =>
        ((outcome = "error") = (\E i \in 1..Len(OpsOf(cfg)) : ~Resolve(visible, OpsOf(cfg)[i], cfg.nt).ok))
\* supplied methods are preferred ("if present they will be used if possible")
PrefersSupplied ==
    outcome = "solves" =>
        /\ ("f_and_g_prod" \in visible /\ OpsOf(cfg)[1] = "f_and_g_prod") => "f_and_g_prod" \in used
        /\ ("g_prod" \in visible /\ "f_and_g_prod" \notin visible /\ "f" \in visible
              /\ OpsOf(cfg)[1] = "f_and_g_prod") => "g_prod" \in used

(* Lemmas over ALL subsets (checked by TLC when the module is loaded)                        *)
AllV == SUBSET UserMethods
ASSUME SameSemanticsAll == \A V \in AllV, nt \in NoiseTypes : SameSemanticsAt(V, nt)
\* two supplied subsets never disagree on an operation both define
ASSUME PairwiseAgreement ==
    \A V \in AllV, W \in AllV, nt \in NoiseTypes, op \in Ops :
        (Resolve(V, op, nt).ok /\ Resolve(W, op, nt).ok) => Resolve(V, op, nt).den = Resolve(W, op, nt).den
\* supplying more never breaks an operation
ASSUME Monotone ==
    \A V \in AllV, W \in AllV, nt \in NoiseTypes, op \in Ops :
        (V \subseteq W /\ Resolve(V, op, nt).ok) => Resolve(W, op, nt).ok
\* f and g together define everything
ASSUME FGSuffices == \A nt \in NoiseTypes, op \in Ops : Resolve({"f", "g"}, op, nt).ok

Emit == pc = "done" =>
          PrintT("@@" \o ToJson([S |-> cfg.S, R |-> cfg.R, N |-> cfg.N, solver |-> cfg.solver, gf |-> cfg.gf,
                                 st |-> cfg.st, nt |-> cfg.nt, visible |-> visible, outcome |-> outcome,
                                 missing |-> missing, used |-> used]))

-----------------------------------------------------------------------------
(* Part 2: exact derived operators for polynomial diffusions                                 *)
(* A bivariate polynomial is a 3x3 table p[a][b] = coefficient of y1^(a-1) y2^(b-1).        *)

SumN(n, f(_)) == IF n = 1 THEN f(1)
                 ELSE IF n = 2 THEN RAdd(f(1), f(2))
                 ELSE RAdd(RAdd(f(1), f(2)), f(3))

PEval(p, y) == SumN(3, LAMBDA a : SumN(3, LAMBDA b :
                   RMul(p[a][b], RMul(RPow(y[1], a - 1), RPow(y[2], b - 1)))))
\* d/dy1 and d/dy2 on coefficient tables
PD1(p) == [a \in 1..3 |-> [b \in 1..3 |-> IF a = 3 THEN RZero ELSE RMul(RInt(a), p[a + 1][b])]]
PD2(p) == [a \in 1..3 |-> [b \in 1..3 |-> IF b = 3 THEN RZero ELSE RMul(RInt(b), p[a][b + 1])]]
PD(p, j) == IF j = 1 THEN PD1(p) ELSE PD2(p)

\* Gm: d x m matrix of polynomials (d = 2), y in Q^2, v in Q^m, A in Q^{m x m}
GProdDef(Gm, m, y, v) == [i \in 1..2 |-> SumN(m, LAMBDA l : RMul(PEval(Gm[i][l], y), v[l]))]
GdGDef(Gm, m, y, v) ==
    [i \in 1..2 |-> SumN(2, LAMBDA j : SumN(m, LAMBDA l :
        RMul(RMul(PEval(PD(Gm[i][l], j), y), PEval(Gm[j][l], y)), v[l])))]
DgGaDef(Gm, m, y, A) ==
    [i \in 1..2 |-> SumN(2, LAMBDA j : SumN(m, LAMBDA kk : SumN(m, LAMBDA l :
        RMul(RMul(PEval(PD(Gm[i][l], j), y), PEval(Gm[j][kk], y)), A[kk][l]))))]

\* univariate polynomials (diagonal noise: g_i depends on y_i only), q[a] = coefficient of x^(a-1), degree <= 3
QEval(q, x) == RAdd(RAdd(q[1], RMul(q[2], x)), RAdd(RMul(q[3], RPow(x, 2)), RMul(q[4], RPow(x, 3))))
QD(q) == <<q[2], RMul(RInt(2), q[3]), RMul(RInt(3), q[4]), RZero>>
DiagGProd(qs, y, v) == [i \in 1..Len(qs) |-> RMul(QEval(qs[i], y[i]), v[i])]
DiagGdG(qs, y, v)   == [i \in 1..Len(qs) |-> RMul(RMul(QEval(qs[i], y[i]), QEval(QD(qs[i]), y[i])), v[i])]

Q(n, d) == R(n, d)
Z == RZero
\* coefficient tables: rows a = power of y1 (0,1,2), columns b = power of y2 (0,1,2)
P(c00, c01, c02, c10, c11, c12, c20, c21, c22) == <<<<c00, c01, c02>>, <<c10, c11, c12>>, <<c20, c21, c22>>>>

\* three non-commuting general diffusions (d = m = 2)
GenA == << <<P(Q(1,2), Z, Z,  Z, Q(1,1), Z,  Z, Z, Z),            \* 1/2 + y1 y2
             P(Z, Z, Q(1,1),  Q(-1,4), Z, Z,  Z, Z, Z)>>,          \* y2^2 - y1/4
           <<P(Q(1,4), Z, Z,  Z, Z, Z,  Q(1,2), Z, Z),            \* 1/4 + y1^2/2
             P(Q(3,4), Q(1,1), Z,  Z, Q(-1,2), Z,  Z, Z, Z)>> >>   \* 3/4 + y2 - y1 y2/2
GenB == << <<P(Z, Q(1,1), Z,  Q(1,2), Z, Z,  Z, Z, Z),            \* y2 + y1/2
             P(Q(-1,2), Z, Z,  Z, Z, Q(1,4),  Z, Z, Z)>>,          \* -1/2 + y1 y2^2/4
           <<P(Z, Z, Z,  Q(1,1), Q(1,2), Z,  Z, Q(-1,4), Z),      \* y1 + y1 y2/2 - y1^2 y2/4
             P(Q(1,1), Z, Q(1,2),  Z, Z, Z,  Q(-1,4), Z, Z)>> >>   \* 1 + y2^2/2 - y1^2/4
GenC == << <<P(Q(1,1), Q(-1,2), Z,  Z, Z, Z,  Z, Z, Q(1,8)),      \* 1 - y2/2 + y1^2 y2^2/8
             P(Z, Z, Z,  Q(3,4), Z, Z,  Z, Q(1,2), Z)>>,           \* 3 y1/4 + y1^2 y2/2
           <<P(Z, Q(1,4), Z,  Z, Z, Q(-1,2),  Q(1,1), Z, Z),      \* y2/4 - y1 y2^2/2 + y1^2
             P(Q(-1,4), Z, Z,  Q(1,1), Q(1,1), Z,  Z, Z, Z)>> >>   \* -1/4 + y1 + y1 y2
\* scalar noise (d = 2, m = 1): one column
ScaA == << <<P(Q(1,2), Q(1,1), Z,  Z, Q(1,2), Z,  Q(-1,4), Z, Z)>>,   \* 1/2 + y2 + y1 y2/2 - y1^2/4
           <<P(Q(1,1), Z, Q(-1,2),  Q(3,4), Z, Z,  Z, Z, Z)>> >>      \* 1 - y2^2/2 + 3 y1/4
\* additive noise is constant in y
AddA == << <<P(Q(1,2), Z, Z, Z, Z, Z, Z, Z, Z), P(Q(-1,4), Z, Z, Z, Z, Z, Z, Z, Z)>>,
           <<P(Q(3,4), Z, Z, Z, Z, Z, Z, Z, Z), P(Q(1,1), Z, Z, Z, Z, Z, Z, Z, Z)>> >>

Ys  == << <<Q(1,2), Q(-1,4)>>, <<Q(3,4), Q(1,2)>>, <<Q(-1,2), Q(1,4)>>, <<Q(1,4), Q(3,4)>>, <<Q(-3,4), Q(-1,2)>> >>
Vs  == << <<Q(1,1), Q(-1,2)>>, <<Q(1,2), Q(3,2)>>, <<Q(-3,4), Q(1,4)>> >>
As  == << << <<Z, Q(1,2)>>, <<Q(-1,2), Z>> >>, << <<Q(1,4), Q(1,1)>>, <<Q(-3,4), Q(1,2)>> >> >>

Idx(s) == 1..Len(s)
GenScenario(name, Gm, nt, m) ==
    [name |-> name, nt |-> nt, m |-> m, G |-> Gm,
     cases |-> [yi \in Idx(Ys) |-> [vi \in Idx(Vs) |-> [ai \in Idx(As) |->
        LET y == Ys[yi]
            v == [l \in 1..m |-> Vs[vi][l]]
            A == [kk \in 1..m |-> [l \in 1..m |-> As[ai][kk][l]]]
        IN [y |-> y, v |-> v, A |-> A,
            gprod |-> GProdDef(Gm, m, y, v),
            gdg   |-> IF nt = "additive" THEN <<Z, Z>> ELSE GdGDef(Gm, m, y, v),
            dgga  |-> IF nt = "general" THEN DgGaDef(Gm, m, y, A) ELSE <<Z, Z>>]]]]]

\* diagonal noise, d = 3
DiagQ == << <<Q(1,2), Q(1,1), Q(-1,4), Z>>, <<Q(1,1), Q(-1,2), Z, Q(1,4)>>, <<Q(-1,4), Q(3,4), Q(1,2), Q(-1,8)>> >>
DiagYs == << <<Q(1,2), Q(-1,4), Q(3,4)>>, <<Q(-3,4), Q(1,2), Q(1,4)>>, <<Q(1,4), Q(3,2), Q(-1,2)>> >>
DiagVs == << <<Q(1,1), Q(-1,2), Q(3,4)>>, <<Q(1,4), Q(3,2), Q(-1,1)>> >>
DiagScenario ==
    [name |-> "diag", nt |-> "diagonal", q |-> DiagQ,
     cases |-> [yi \in Idx(DiagYs) |-> [vi \in Idx(DiagVs) |->
        [y |-> DiagYs[yi], v |-> DiagVs[vi],
         gprod |-> DiagGProd(DiagQ, DiagYs[yi], DiagVs[vi]),
         gdg   |-> DiagGdG(DiagQ, DiagYs[yi], DiagVs[vi])]]]]

Scenarios == [general |-> <<GenScenario("GenA", GenA, "general", 2), GenScenario("GenB", GenB, "general", 2),
                            GenScenario("GenC", GenC, "general", 2)>>,
              scalar  |-> <<GenScenario("ScaA", ScaA, "scalar", 1)>>,
              additive |-> <<GenScenario("AddA", AddA, "additive", 2)>>,
              diagonal |-> <<DiagScenario>>]

\* sanity lemmas on the evaluator itself
ASSUME PolyLemmas ==
    /\ PEval(GenA[1][1], <<Q(1,2), Q(-1,4)>>) = Q(3,8)                  \* 1/2 + (1/2)(-1/4)
    /\ PEval(PD1(GenA[1][1]), <<Q(1,2), Q(-1,4)>>) = Q(-1,4)            \* d/dy1 (y1 y2) = y2
    /\ PEval(PD2(GenA[1][2]), <<Q(1,2), Q(-1,4)>>) = Q(-1,2)            \* d/dy2 y2^2 = 2 y2
    /\ QEval(QD(DiagQ[2]), Q(1,2)) = Q(-5,16)                            \* -1/2 + 3/4 * 1/4
    \* product rule on tables: d(pq) = p dq + q dp at a point, for p = GenA11, q = GenA22
    /\ LET p == GenA[1][1]  q == GenA[2][2]  y == <<Q(3,4), Q(1,2)>>
           pq == [a \in 1..3 |-> [b \in 1..3 |->
                    SumN(3, LAMBDA i : SumN(3, LAMBDA j :
                        IF i <= a /\ j <= b THEN RMul(p[i][j], q[a - i + 1][b - j + 1]) ELSE RZero))]]
       IN PEval(PD1(pq), y) = RAdd(RMul(PEval(p, y), PEval(PD1(q), y)), RMul(PEval(q, y), PEval(PD1(p), y)))
    \* the Levy-area term with a symmetric A built from v v^T / the Milstein term: for A = diag(v),
    \* sum dg (g A) reduces to sum g dg v
    /\ \A yi \in Idx(Ys), vi \in Idx(Vs) :
          LET v == Vs[vi]
              D == << <<v[1], Z>>, <<Z, v[2]>> >>
          IN DgGaDef(GenB, 2, Ys[yi], D) = GdGDef(GenB, 2, Ys[yi], v)

EmitScenarios == PrintT("@@" \o ToJson([scenarios |-> Scenarios]))
ASSUME EmitScenarios
=============================================================================
