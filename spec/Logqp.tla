-------------------------------- MODULE Logqp -------------------------------
(* C18.  sdeint(..., logqp=True) as a transformation of SDEs composed with the  *)
(* fixed-step loop of Schemes (exact rational arithmetic):                      *)
(*                                                                              *)
(*   state    (y, l) of dimension d + 1, l(t0) = 0                              *)
(*   drift    (f, 1/2 |u|^2),  u = g^+ (f - h)   (h = prior drift)              *)
(*              diagonal noise: u_i = (f_i - h_i) / g_i                         *)
(*              otherwise     : u = (g^T g)^-1 g^T (f - h)  (full column rank;    *)
(*                              = g^-1 (f - h) when g is square)                *)
(*   diffusion  (g, 0): a zero row for l (diagonal: a zero entry)               *)
(*   outputs  the first d components, and  l(ts[i+1]) - l(ts[i]),              *)
(*            i = 1..len(ts)-1                                                  *)
(*                                                                              *)
(* TLC enumerates noise type x solver x shape x constant vector c x time layout *)
(* with h = f - g c (so u = c exactly) - including a badly scaled g of full     *)
(* column rank (columns of size 1 and 2^-22, condition number > 1e6): "exact    *)
(* for all full-column-rank g" - and checks, for every scenario:                *)
(*   Shape            len(ts) - 1 increments                                    *)
(*   ExactValue       increment i = 1/2 |c|^2 (ts[i+1] - ts[i])   (printed)     *)
(*   NonNegative      every increment >= 0                                      *)
(*   Additive         the increments over a refinement of ts (every interval    *)
(*                    halved) sum to the coarse increments                      *)
(*   StateUndisturbed the first d components equal the solution of the          *)
(*                    un-augmented SDE under the same noise                     *)
(*   ZeroRow          the diffusion of the extra component is 0 at every        *)
(*                    visited output                                            *)
(* and, on a scenario where f - h is NOT of the form g c, that the increments   *)
(* are still additive and non-negative (NonConstWitness).                       *)
EXTENDS Rational, FiniteSets, TLC, Json

CONSTANT Tier
VARIABLES stage, sc
vars == <<stage, sc>>

RId(x) == x
S == INSTANCE Schemes WITH NAdd <- RAdd, NMul <- RMul, NInv <- RInv, NRat <- RId, NVal <- RId

-----------------------------------------------------------------------------
(* the augmentation, on expression trees *)
ESum2(a, b) == S!EAdd(a, b)
RECURSIVE ESumSeq(_)
ESumSeq(s) == IF Len(s) = 0 THEN S!E0 ELSE S!EAdd(Head(s), ESumSeq(Tail(s)))

Resid(sde) == TLCEval([i \in 1..sde.d |-> S!ESub(sde.f[i], sde.h[i])])          \* f - h
(* u = g^+ (f - h) *)
UDiag(sde)  == LET r == Resid(sde) IN TLCEval([i \in 1..sde.d |-> S!EDiv(r[i], sde.g[i])])
UCol1(sde)  ==      \* m = 1:  g^T r / g^T g
   LET r == Resid(sde)
       gtr == ESumSeq(TLCEval([i \in 1..sde.d |-> S!EMul(sde.g[i][1], r[i])]))
       gtg == ESumSeq(TLCEval([i \in 1..sde.d |-> S!EMul(sde.g[i][1], sde.g[i][1])]))
   IN <<S!EDiv(gtr, gtg)>>
UCol2(sde)  ==      \* m = 2:  (g^T g)^-1 g^T r  by the adjugate
   LET r == Resid(sde)
       M(a, b) == ESumSeq(TLCEval([i \in 1..sde.d |-> S!EMul(sde.g[i][a], sde.g[i][b])]))
       B(a) == ESumSeq(TLCEval([i \in 1..sde.d |-> S!EMul(sde.g[i][a], r[i])]))
       det == S!ESub(S!EMul(M(1, 1), M(2, 2)), S!EMul(M(1, 2), M(1, 2)))
   IN <<S!EDiv(S!ESub(S!EMul(M(2, 2), B(1)), S!EMul(M(1, 2), B(2))), det),
        S!EDiv(S!ESub(S!EMul(M(1, 1), B(2)), S!EMul(M(1, 2), B(1))), det)>>
USquare2(sde) ==    \* d = m = 2, full rank: the pseudo-inverse is the inverse (adjugate / determinant); unlike the
                    \* normal equations this does not square the condition number, so badly scaled g stays in 32 bits
   LET r == Resid(sde)
       g == sde.g
       det == S!ESub(S!EMul(g[1][1], g[2][2]), S!EMul(g[1][2], g[2][1]))
   IN <<S!EDiv(S!ESub(S!EMul(g[2][2], r[1]), S!EMul(g[1][2], r[2])), det),
        S!EDiv(S!ESub(S!EMul(g[1][1], r[2]), S!EMul(g[2][1], r[1])), det)>>
UExpr(sde) == IF sde.nt = "diagonal" THEN UDiag(sde) ELSE IF sde.m = 1 THEN UCol1(sde)
              ELSE IF sde.d = 2 THEN USquare2(sde) ELSE UCol2(sde)
KLDrift(sde) == LET u == UExpr(sde)
                IN S!EMul(S!EC(RHalf), ESumSeq(TLCEval([k \in 1..Len(u) |-> S!EMul(u[k], u[k])])))

Augment(sde) ==
   [nt |-> sde.nt, cal |-> sde.cal, d |-> sde.d + 1, m |-> IF sde.nt = "diagonal" THEN sde.d + 1 ELSE sde.m,
    f |-> sde.f \o <<KLDrift(sde)>>,
    g |-> IF sde.nt = "diagonal" THEN sde.g \o <<S!E0>>
          ELSE sde.g \o <<TLCEval([j \in 1..sde.m |-> S!E0])>>]
Base(sde) == [nt |-> sde.nt, cal |-> sde.cal, d |-> sde.d, m |-> sde.m, f |-> sde.f, g |-> sde.g]

(* the Brownian motion of the augmented diagonal SDE has one more (irrelevant) channel *)
PadNoise(nz, pad) == TLCEval([k \in 1..Len(nz) |->
                        [w |-> nz[k].w \o <<pad>>, u |-> nz[k].u \o <<pad>>,
                         a |-> [i \in 1..(Len(nz[k].w) + 1) |-> [j \in 1..(Len(nz[k].w) + 1) |->
                                  IF i <= Len(nz[k].w) /\ j <= Len(nz[k].w) THEN nz[k].a[i][j] ELSE RZero]]]])
AugCase(c) ==
   [c EXCEPT !.sde = Augment(c.sde), !.y0 = c.y0 \o <<RZero>>,
             !.nz = IF c.sde.nt = "diagonal" THEN PadNoise(c.nz, R(3, 2)) ELSE c.nz]
BaseCase(c) == [c EXCEPT !.sde = Base(c.sde)]

(* what sdeint(logqp=True) returns: (ys, increments) *)
LogqpRun(c) ==
   LET d == c.sde.d
       za == S!SolveVal(AugCase(c))
   IN [ys  |-> TLCEval([i \in 1..Len(za) |-> TLCEval([k \in 1..d |-> za[i][k]])]),
       inc |-> TLCEval([i \in 1..(Len(za) - 1) |-> RSub(za[i + 1][d + 1], za[i][d + 1])])]

-----------------------------------------------------------------------------
(* problems: full-column-rank g with small dyadic entries, h = f - g c *)
Q(a, b) == R(a, b)
GC(sde, cvec) ==      \* the vector g c as expressions
   IF sde.nt = "diagonal" THEN TLCEval([i \in 1..sde.d |-> S!EMul(S!EC(cvec[i]), sde.g[i])])
   ELSE TLCEval([i \in 1..sde.d |-> ESumSeq(TLCEval([j \in 1..sde.m |-> S!EMul(S!EC(cvec[j]), sde.g[i][j])]))])
WithPrior(pr, cvec) ==
   [pr EXCEPT !.sde = pr.sde @@ [h |-> TLCEval([i \in 1..pr.sde.d |-> S!ESub(pr.sde.f[i], GC(pr.sde, cvec)[i])])]]

LProb(nt, cal, d) ==
   LET Y(i) == S!EY(i)
       P(k) == S!EP(k)
       f1 == <<S!EAdd(S!P1(1, Y(1)), S!ET)>>
       f2 == <<S!EAdd(S!P1(1, Y(1)), S!EMul(P(3), Y(2))), S!EAdd(S!EMul(P(4), Y(1)), S!ET)>>
       th == <<Q(1,2), Q(-1,2), Q(1,2), Q(1,1), Q(1,1), Q(1,2), Q(2,1), Q(1,2)>>
   IN IF d = 1
      THEN S!Mk(nt, cal, 1, 1, f1,
                IF nt = "diagonal" THEN <<S!EAdd(P(5), S!EMul(P(6), Y(1)))>>
                ELSE IF nt = "additive" THEN <<<<S!EAdd(P(5), S!ET)>>>>
                ELSE <<<<S!EAdd(P(5), S!EMul(P(6), Y(1)))>>>>, th, <<Q(1,2)>>)
      ELSE CASE nt = "diagonal" -> S!Mk(nt, cal, 2, 2, f2, <<S!EAdd(P(5), S!EMul(P(6), Y(1))), S!EAdd(P(7), S!EMul(P(6), Y(2)))>>,
                                        th, <<Q(1,2), Q(1,1)>>)
             [] nt = "scalar"   -> S!Mk(nt, cal, 2, 1, f2, <<<<S!EAdd(P(5), S!EMul(P(6), Y(2)))>>, <<P(8)>>>>, th, <<Q(1,2), Q(1,1)>>)
             [] nt = "additive" -> S!Mk(nt, cal, 2, 2, f2, <<<<S!EAdd(P(5), S!ET), P(6)>>, <<S!E0, P(7)>>>>, th, <<Q(1,2), Q(1,1)>>)
             [] nt = "general"  -> S!Mk(nt, cal, 2, 2, f2, <<<<S!EAdd(P(5), S!EMul(P(6), Y(1))), P(8)>>, <<S!E0, S!EAdd(P(7), Y(2))>>>>,
                                        th, <<Q(1,2), Q(1,1)>>)
(* d = 3, m = 2: a rectangular (tall) diffusion, pseudo-inverse is not an inverse *)
LProb32(nt, cal) ==
   LET Y(i) == S!EY(i)
       P(k) == S!EP(k)
   IN S!Mk(nt, cal, 3, 2,
           <<S!P1(1, Y(1)), S!EMul(P(3), Y(3)), S!EAdd(S!EMul(P(4), Y(2)), S!ET)>>,
           IF nt = "additive" THEN <<<<P(5), S!E0>>, <<P(6), P(5)>>, <<S!E0, S!EAdd(P(7), S!ET)>>>>
           ELSE <<<<P(5), S!E0>>, <<S!EMul(P(6), Y(1)), P(5)>>, <<S!E0, S!EAdd(P(7), Y(2))>>>>,
           <<Q(1,2), Q(-1,2), Q(1,2), Q(1,1), Q(1,1), Q(1,2), Q(2,1)>>, <<Q(1,2), Q(1,1), Q(-1,2)>>)

(* badly scaled but full-column-rank g (condition number about 2^22 > 1e6): second column 2^-22 *)
Tiny == R(1, 4194304)
LProbBad(nt, cal) ==
   LET Y(i) == S!EY(i)
       P(k) == S!EP(k)
   IN S!Mk(nt, cal, 2, 2, <<S!P1(1, Y(1)), S!EAdd(S!EMul(P(4), Y(1)), S!ET)>>,
           IF nt = "additive" THEN <<<<S!EAdd(P(5), S!ET), S!E0>>, <<P(6), S!EC(Tiny)>>>>
           ELSE <<<<S!EAdd(P(5), S!EMul(P(6), Y(1))), S!E0>>, <<P(8), S!EC(Tiny)>>>>,
           <<Q(1,2), Q(-1,2), Q(1,2), Q(1,1), Q(1,1), Q(1,2), Q(2,1), Q(1,2)>>, <<Q(1,2), Q(1,1)>>)

CVecs(k) == IF k = 1 THEN {<<Q(1,1)>>, <<Q(-3,2)>>} ELSE {<<Q(1,1), Q(-1,2)>>, <<Q(0,1), Q(2,1)>>}
CFor(sde) == CVecs(IF sde.nt = "diagonal" THEN sde.d ELSE sde.m)
HalfNormSq(sde, cv) == LET k == IF sde.nt = "diagonal" THEN sde.d ELSE sde.m
                       IN RMul(RHalf, RSumSeq(TLCEval([j \in 1..k |-> RMul(cv[j], cv[j])])))

Cals == {"ito", "stratonovich"}
Shapes(nt) == CASE nt = "diagonal" -> {<<1, 1>>, <<2, 2>>}
                [] nt = "scalar"   -> {<<1, 1>>, <<2, 1>>}
                [] nt = "additive" -> {<<1, 1>>, <<2, 2>>, <<3, 2>>, <<2, 2, "bad">>}
                [] nt = "general"  -> {<<1, 1>>, <<2, 2>>, <<3, 2>>, <<2, 2, "bad">>}
(* a shape is <<d, m>> or <<d, m, "bad">> (badly scaled columns; additive and general noise) *)
IsBad(dm) == Len(dm) = 3
ProbFor(nt, cal, dm) == IF IsBad(dm) THEN LProbBad(nt, cal) ELSE IF dm = <<3, 2>> THEN LProb32(nt, cal) ELSE LProb(nt, cal, dm[1])
LLayouts == IF Tier = "quick" THEN {<<1, "inner">>, <<2, "clip">>} ELSE {<<1, "inner">>, <<1, "quarter">>, <<2, "clip">>, <<2, "grid">>, <<3, "end">>}
(* exact rationals of these combinations leave 32 bits *)
Feasible(me, dm, n) == (me = "srk" => n = 1) /\ (dm = <<3, 2>> => n = 1) /\ (n = 3 => dm = <<1, 1>>) /\ (IsBad(dm) => n = 1)

Init == stage = "noise" /\ sc = <<>>
ChooseNoise  == /\ stage = "noise"
                /\ \E nt \in S!NoiseTypes : sc' = [nt |-> nt]
                /\ stage' = "solver"
ChooseSolver == /\ stage = "solver"
                /\ \E me \in S!Methods, cal \in Cals : /\ S!Accepts(me, cal, sc.nt)
                                                       /\ sc' = [nt |-> sc.nt, method |-> me, cal |-> cal]
                /\ stage' = "shape"
ChooseShape  == /\ stage = "shape"
                /\ \E dm \in Shapes(sc.nt) : sc' = sc @@ [dm |-> dm]
                /\ stage' = "c"
ChooseC      == /\ stage = "c"
                /\ \E cv \in CFor(ProbFor(sc.nt, sc.cal, sc.dm).sde) : sc' = sc @@ [c |-> cv]
                /\ stage' = "layout"
ChooseLayout == /\ stage = "layout"
                /\ \E nl \in LLayouts : Feasible(sc.method, sc.dm, nl[1]) /\ sc' = sc @@ [n |-> nl[1], lay |-> nl[2]]
                /\ stage' = "check"
Witness      == /\ stage = "noise"
                /\ \E nt \in {"diagonal", "general"} : sc' = [nt |-> nt]
                /\ stage' = "witness"
Next == ChooseNoise \/ ChooseSolver \/ ChooseShape \/ ChooseC \/ ChooseLayout \/ Witness
Spec == Init /\ [][Next]_vars

-----------------------------------------------------------------------------
TheCase == S!Case(WithPrior(ProbFor(sc.nt, sc.cal, sc.dm), sc.c), sc.method, FALSE, sc.n, sc.lay)
(* every output interval halved *)
Refine(ts) == TLCEval([i \in 1..(2 * Len(ts) - 1) |->
                 IF i % 2 = 1 THEN ts[(i + 1) \div 2] ELSE RMul(RHalf, RAdd(ts[i \div 2], ts[i \div 2 + 1]))])
PairSums(x) == TLCEval([i \in 1..(Len(x) \div 2) |-> RAdd(x[2 * i - 1], x[2 * i])])
Key == [nt |-> sc.nt, method |-> sc.method, cal |-> sc.cal, d |-> sc.dm[1], m |-> sc.dm[2], n |-> sc.n, lay |-> sc.lay,
        bad |-> IsBad(sc.dm)]

LogqpOK ==
   stage = "check" =>
      LET c  == TheCase
          r  == LogqpRun(c)
          rr == LogqpRun([c EXCEPT !.ts = Refine(c.ts)])
          yb == S!SolveVal(BaseCase(c))
          k2 == HalfNormSq(c.sde, sc.c)
          expect == TLCEval([i \in 1..(Len(c.ts) - 1) |-> RMul(k2, RSub(c.ts[i + 1], c.ts[i]))])
          ac == AugCase(c)
          zrow == S!GEval(ac.sde, c.t0, ac.y0, c.th)[c.sde.d + 1]
      IN /\ PrintT("@@" \o ToJson([kind |-> "c18", key |-> Key, c |-> sc.c, case |-> c, expect |-> expect,
                                   ys |-> r.ys, refined_ts |-> Refine(c.ts)]))
         /\ S!NSteps(c) = sc.n
         /\ Len(r.inc) = Len(c.ts) - 1                                   \* Shape
         /\ r.inc = expect                                               \* ExactValue
         /\ \A i \in 1..Len(r.inc) : RLe(RZero, r.inc[i])                \* NonNegative
         /\ PairSums(rr.inc) = r.inc                                     \* Additive
         /\ r.ys = yb                                                    \* StateUndisturbed
         /\ (IF c.sde.nt = "diagonal" THEN zrow = RZero ELSE \A j \in 1..c.sde.m : zrow[j] = RZero)   \* ZeroRow
(* f - h not of the form g c: h = 0; increments additive and non-negative, state undisturbed *)
NonConstWitness ==
   stage = "witness" =>
      LET pr == LProb(sc.nt, "ito", 2)
          p0 == [pr EXCEPT !.sde = pr.sde @@ [h |-> <<S!E0, S!EC(RHalf)>>]]
          c  == S!Case(p0, "euler", FALSE, 2, "grid")
          r  == LogqpRun(c)
          rr == LogqpRun([c EXCEPT !.ts = Refine(c.ts)])
      IN /\ PairSums(rr.inc) = r.inc
         /\ \A i \in 1..Len(r.inc) : RLt(RZero, r.inc[i])
         /\ r.ys = S!SolveVal(BaseCase(c))
         /\ \E i \in 1..Len(r.inc) : r.inc[i] # RMul(r.inc[1], RDiv(RSub(c.ts[i + 1], c.ts[i]), RSub(c.ts[2], c.ts[1])))
=============================================================================
