----------------------------- MODULE BrownianCtor -----------------------------
(***************************************************************************)
(* The constructor of BrownianInterval as a decision pipeline (a second,    *)
(* small "Dispatch"): which option combinations the documentation allows,   *)
(* and that exactly those are accepted.  Two formulations:                   *)
(*   Documented(c)  declarative, from the docstring of BrownianInterval      *)
(*   the pipeline   one action per check, in source order                    *)
(* TLC checks they agree on the whole product and emits every configuration  *)
(* with its expected outcome; the harness constructs the real object for     *)
(* each one (C07: every documented configuration answers in-range queries;   *)
(* every other one is refused with ValueError).                              *)
(***************************************************************************)
EXTENDS Integers, Sequences, FiniteSets, TLC, Json

TimeOrder == {"lt", "eq", "gt"}                \* t0 vs t1
Tols == {"neg", "zero", "pos"}
Dts == {"none", "pos"}
Caches == {"none", "zero", "one", "many"}
Levies == {"none", "space-time", "davie", "foster", "bogus"}
SizeSrc == {"size", "W", "WH", "size+W", "mismatch", "nothing", "intW"}
Shapes == {"scalar", "batch", "matrix", "cube"}
Ends == {"on", "off"}                          \* t0, t1 multiples of the tolerance, or not (then they straddle zero too)

VARIABLES cfg, stage, outcome
vars == <<cfg, stage, outcome>>

Configs == [order : TimeOrder, tol : Tols, dt : Dts, cache : Caches, levy : Levies, halfway : BOOLEAN,
            src : SizeSrc, shape : Shapes, ends : Ends]

\* ---- declarative: what the docstring allows
Documented(c) ==
  /\ c.order # "gt"                                             \* "Initial time ... less than terminal time"
  /\ (c.halfway => c.tol = "pos" /\ c.dt = "none")              \* dyadic tree needs tol > 0, dt unused
  /\ c.tol # "neg"                                              \* "Must be non-negative"
  /\ c.src \in {"size", "W", "WH", "size+W"}                    \* size given, or implied consistently by W / H
  /\ c.levy # "bogus"
  \* (c.ends is unconstrained: the end points need not lie on the tolerance grid)

\* ---- operational: checks in source order
Init == cfg \in Configs /\ stage = "order" /\ outcome = "running"
Fail(s) == stage' = "done" /\ outcome' = s /\ UNCHANGED cfg
Go(s) == stage' = s /\ UNCHANGED <<cfg, outcome>>
CheckOrder == stage = "order" /\ IF cfg.order = "gt" THEN Fail("ValueError") ELSE Go("tol")
CheckTol == stage = "tol" /\
   IF cfg.halfway THEN (IF cfg.tol # "pos" THEN Fail("ValueError")
                        ELSE IF cfg.dt # "none" THEN Fail("ValueError") ELSE Go("size"))
   ELSE (IF cfg.tol = "neg" THEN Fail("ValueError") ELSE Go("size"))
CheckSize == stage = "size" /\
   IF cfg.src \in {"nothing", "mismatch"} THEN Fail("ValueError") ELSE Go("levy")
CheckLevy == stage = "levy" /\ IF cfg.levy = "bogus" THEN Fail("ValueError") ELSE Go("float")
CheckFloat == stage = "float" /\ IF cfg.src = "intW" THEN Fail("ValueError") ELSE Go("build")
Build == stage = "build" /\ stage' = "done" /\ outcome' = "ok" /\ UNCHANGED cfg
Next == CheckOrder \/ CheckTol \/ CheckSize \/ CheckLevy \/ CheckFloat \/ Build
Spec == Init /\ [][Next]_vars /\ WF_vars(Next)

AcceptsExactlyDocumented == stage = "done" => (outcome = "ok" <=> Documented(cfg))
RefusalsAreValueErrors == (stage = "done" /\ outcome # "ok") => outcome = "ValueError"
Terminates == <>(stage = "done")
Emit == stage = "done" => PrintT("@@" \o ToJson([cfg |-> cfg, outcome |-> outcome]))
=============================================================================
