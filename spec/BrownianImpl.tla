---------------------------- MODULE BrownianImpl ----------------------------
(***************************************************************************)
(* Implementation-shaped model of torchsde._brownian.brownian_interval     *)
(* (class BrownianInterval / _Interval), one action per public call.       *)
(*                                                                         *)
(* Times are integers in "sub-units"; the interval is [0, N*Sub].  The     *)
(* real object this models is BrownianInterval(t0=0, t1=N, ...) with real  *)
(* time = x / Sub (Sub a power of two, so all midpoints the code computes  *)
(* are exact in float64).  Tol = 0 models tol=0 (no rounding); Tol = Sub   *)
(* models tol=1.0 (ndigits = 0: Python's round-half-even to whole ticks).  *)
(*                                                                         *)
(* A node of the binary tree is identified by its path from the root, a    *)
(* sequence over {0,1} (0 = left): spawn_key = the binary number the path  *)
(* spells, depth = Len(path) -- exactly the (spawn_key, depth) address the *)
(* code feeds to numpy's SeedSequence, so "one seed set per node" is       *)
(* injectivity of paths.                                                   *)
(*                                                                         *)
(* Recursions of the code that consume Python stack (_set_points, dyadic   *)
(* _split) carry a depth counter and fuel: running out of fuel is          *)
(* recorded in `diverged`, the maximal depths in spDepth / splitDepth, so  *)
(* non-termination and stack growth are state the invariants can bound.    *)
(***************************************************************************)
EXTENDS Integers, Sequences, FiniteSets, TLC

CONSTANTS N,          \* ticks
          Sub,        \* sub-units per tick (power of two)
          Tol,        \* 0 = no rounding, otherwise round-half-even to multiples of Tol
          CacheSize,  \* Unlimited (-1), 0, or a positive bound
          Halfway,    \* BOOLEAN: dyadic tree mode (halfway_tree=True)
          DtHint,     \* 0 = dt=None, otherwise the constructor's dt in sub-units
          WarmUp,     \* 100 in the code
          QStep,      \* query end points are multiples of QStep sub-units
          ZeroLen,    \* BOOLEAN: environment may ask zero-length queries a = b
          Fuel,       \* bound on recursion depth explored
          MaxEval,    \* exploration bound on _num_evaluations (state constraint)
          MaxNodes,   \* exploration bound on the number of tree nodes (state constraint)
          Legacy      \* BOOLEAN: model the code BEFORE the fix: commits of known_findings.json (D1, D2, D3/D7, D9)

Unlimited == -1
T == N * Sub

VARIABLES tree,       \* [path -> [s, e, mid]]   mid = -1 for a leaf
          cache,      \* sequence of paths, oldest first (the _LRUDict is FIFO by write)
          last,       \* path of _last_interval
          nEval,      \* _num_evaluations
          sumDt,      \* nEval * _average_dt  (sum of the query lengths counted so far)
          treeDt,     \* _tree_dt
          lastQ,      \* <<a, b>> of the last query (after clamping, before rounding)
          lastOut,    \* pieces returned for the last query (paths, in order)
          spDepth,    \* max recursion depth of _set_points in the last action
          splitDepth, \* max recursion depth of dyadic _split in the last action
          diverged,   \* some recursion ran out of fuel (non-termination / RecursionError)
          err         \* "" or the exception the code would raise

vars == <<tree, cache, last, nEval, sumDt, treeDt, lastQ, lastOut, spDepth, splitDepth, diverged, err>>

Root == <<>>
Max(a, b) == IF a > b THEN a ELSE b
Min(a, b) == IF a < b THEN a ELSE b
Parent(p) == SubSeq(p, 1, Len(p) - 1)
LC(p) == Append(p, 0)
RC(p) == Append(p, 1)

(* round-half-even to multiples of Tol (Python's round(x, 0) on exactly representable halves) *)
Round(x) == IF Tol = 0 THEN x
            ELSE LET k == x \div Tol
                     r == x % Tol
                 IN IF 2 * r < Tol THEN k * Tol
                    ELSE IF 2 * r > Tol THEN (k + 1) * Tol
                    ELSE IF k % 2 = 0 THEN k * Tol ELSE (k + 1) * Tol

Leaf(s, e) == [s |-> s, e |-> e, mid |-> -1]

(* _split_exact: children get rounded end points (the _Interval constructor rounds) *)
SplitExact(tr, cur, m) ==
  LET n  == tr[cur]
      rm == Round(m)
  IN TLCEval([p \in (DOMAIN tr) \cup {LC(cur), RC(cur)} |->
        IF p = cur THEN [n EXCEPT !.mid = rm]
        ELSE IF p = LC(cur) THEN Leaf(n.s, rm)
        ELSE IF p = RC(cur) THEN Leaf(rm, n.e)
        ELSE tr[p]])

(* _split in dyadic mode: plain Python recursion, one frame per level.  m is already rounded. *)
RECURSIVE SplitH(_, _, _, _)
SplitH(tr, cur, m, depth) ==
  IF depth > Fuel THEN [tr |-> tr, depth |-> depth, div |-> TRUE, oob |-> FALSE]
  ELSE LET n == tr[cur] IN
       IF (n.s + n.e) % 2 # 0 THEN [tr |-> tr, depth |-> depth, div |-> FALSE, oob |-> TRUE]
       ELSE LET tr2 == SplitExact(tr, cur, (n.s + n.e) \div 2)
                h   == tr2[cur].mid
            IN IF m > h THEN SplitH(tr2, RC(cur), m, depth + 1)
               ELSE IF m < h THEN SplitH(tr2, LC(cur), m, depth + 1)
               ELSE [tr |-> tr2, depth |-> depth, div |-> FALSE, oob |-> FALSE]

Split(tr, cur, m) == IF Halfway THEN SplitH(tr, cur, m, 1)
                     ELSE [tr |-> SplitExact(tr, cur, m), depth |-> 0, div |-> FALSE, oob |-> FALSE]

(* _loc_inner, trampolined in the code (constant Python stack); `steps` is fuel against cycling.  *)
(* a, b are rounded.  Result: [tr, out, bad, sd, oob]; bad = "" or the exception raised.          *)
RECURSIVE LocIn(_, _, _, _, _, _)
LocIn(tr, cur, a, b, out, steps) ==
  LET n == tr[cur]
      R(t, o, bad, sd, oob) == [tr |-> t, out |-> o, bad |-> bad, sd |-> sd, oob |-> oob]
  IN
  IF steps = 0 THEN R(tr, out, "diverged", 0, FALSE)
  ELSE IF a < n.s \/ b > n.e THEN
         IF cur = Root THEN R(tr, out, "AttributeError", 0, FALSE)
         ELSE LocIn(tr, Parent(cur), a, b, out, steps - 1)
  ELSE IF a = n.s /\ b = n.e THEN R(tr, Append(out, cur), "", 0, FALSE)
  ELSE IF n.mid = -1 THEN
         LET m  == IF a = n.s THEN b ELSE a
             sp == Split(tr, cur, m)
             nx == IF a = n.s THEN LC(cur) ELSE RC(cur)
         IN IF sp.div THEN R(sp.tr, out, "diverged", sp.depth, FALSE)
            ELSE IF sp.oob THEN R(sp.tr, out, "", sp.depth, TRUE)
            ELSE LET r == LocIn(sp.tr, nx, a, b, out, steps - 1)
                 IN R(r.tr, r.out, r.bad, Max(sp.depth, r.sd), r.oob)
  ELSE IF b <= n.mid THEN LocIn(tr, LC(cur), a, b, out, steps - 1)
  ELSE IF a >= n.mid THEN LocIn(tr, RC(cur), a, b, out, steps - 1)
  ELSE LET l == LocIn(tr, LC(cur), a, n.mid, out, steps - 1)
       IN IF l.bad # "" \/ l.oob THEN l
          ELSE LET r == LocIn(l.tr, RC(cur), n.mid, b, l.out, steps - 1)
               IN R(r.tr, r.out, r.bad, Max(l.sd, r.sd), r.oob)

LocSteps == 8 * (Fuel + T + 4)
Loc(tr, cur, a, b) == LocIn(tr, cur, Round(a), Round(b), <<>>, LocSteps)

(* ---- the value cache ---------------------------------------------------------------------- *)
InCache(c, x) == \E i \in 1..Len(c) : c[i] = x
Remove(c, x) == SelectSeq(c, LAMBDA y : y # x)
Insert(c, x) == IF CacheSize = 0 THEN c
                ELSE IF InCache(c, x) THEN Append(Remove(c, x), x)
                ELSE IF CacheSize > 0 /\ Len(c) >= CacheSize THEN Append(Tail(c), x)
                ELSE Append(c, x)
(* nodes to compute for x, top-most first: walk up to the nearest cached ancestor or the root *)
RECURSIVE Chain(_, _)
Chain(c, x) == IF x = Root \/ InCache(c, x) THEN <<>> ELSE Append(Chain(c, Parent(x)), x)
RECURSIVE InsertAll(_, _)
InsertAll(c, xs) == IF xs = <<>> THEN c ELSE InsertAll(Insert(c, Head(xs)), Tail(xs))
RECURSIVE Compute(_, _)
Compute(c, ps) == IF ps = <<>> THEN c ELSE Compute(InsertAll(c, Chain(c, Head(ps))), Tail(ps))

(* ---- _create_dependency_tree / _set_points ------------------------------------------------- *)
CS == IF CacheSize = Unlimited THEN 100
      ELSE IF Legacy THEN Min(CacheSize, 100) ELSE Max(Min(CacheSize, 100), 1)
(* piece_length = tree_dt * CS * 0.8 ;  (e - s) > piece_length  <=>  5 (e - s) > 4 tree_dt CS  *)
(* The code visits: an interval, then everything in its left child, then everything in its right  *)
(* child -- since fix D1 with an explicit stack (no Python recursion), before it recursively.      *)
(* `depth` is the nesting level: fuel for the model in both cases, Python stack depth in Legacy.   *)
(* Float-level note: with piece length 0 (Legacy, cache_size = 0) the halving only stops at the    *)
(* resolution of float64 and then recurses on a child with its parent's span; the model reports    *)
(* that divergence directly instead of pretending its sub-unit were an ulp.                         *)
RECURSIVE SetPoints(_, _, _, _)
SetPoints(tr, cur, tdt, depth) ==
  LET n == tr[cur]
      R(t, d, dv, bad, oob) == [tr |-> t, d |-> d, div |-> dv, bad |-> bad, oob |-> oob]
  IN
  IF depth > Fuel THEN R(tr, depth, TRUE, "", FALSE)
  ELSE IF 5 * (n.e - n.s) > 4 * tdt * CS THEN
     IF tdt * CS = 0 THEN R(tr, depth, TRUE, "", FALSE)
     ELSE IF (n.e + n.s) % 2 # 0 THEN R(tr, depth, FALSE, "", TRUE)
     ELSE LET m  == (n.e + n.s) \div 2
              rm == Round(m)
          IN IF ~Legacy /\ ~(n.s < rm /\ rm < n.e) THEN R(tr, depth, FALSE, "", FALSE)   \* fix D9
             ELSE
             LET r0 == Loc(tr, cur, n.s, m) IN
             IF r0.bad # "" THEN R(r0.tr, depth, r0.bad = "diverged", r0.bad, FALSE)
             ELSE IF r0.oob THEN R(r0.tr, depth, FALSE, "", TRUE)
             ELSE IF LC(cur) \notin DOMAIN r0.tr THEN R(r0.tr, depth, FALSE, "AttributeError", FALSE)
             ELSE LET rl == SetPoints(r0.tr, LC(cur), tdt, depth + 1)
                  IN IF rl.div \/ rl.oob \/ rl.bad # "" THEN rl
                     ELSE LET rr == SetPoints(rl.tr, RC(cur), tdt, depth + 1)
                          IN R(rr.tr, Max(rl.d, rr.d), rr.div, rr.bad, rr.oob)
  ELSE R(tr, depth, FALSE, "", FALSE)

NoSP(tr) == [tr |-> tr, d |-> 0, div |-> FALSE, bad |-> "", oob |-> FALSE]

(* ---- initial state: the constructor (with dt given it pre-shapes the tree) ------------------ *)
Tree0 == (Root :> Leaf(Round(0), Round(T)))
InitSP == IF DtHint > 0 /\ ~Halfway THEN SetPoints(Tree0, Root, Min(T, DtHint), 1) ELSE NoSP(Tree0)

Init == /\ tree = InitSP.tr
        /\ cache = <<>>
        /\ last = Root
        /\ nEval = -WarmUp
        /\ sumDt = 0
        /\ treeDt = IF DtHint > 0 /\ ~Halfway THEN Min(T, DtHint) ELSE T
        /\ lastQ = <<0, 0>>
        /\ lastOut = <<>>
        /\ spDepth = InitSP.d
        /\ splitDepth = 0
        /\ diverged = InitSP.div
        /\ err = InitSP.bad

(* ---- __call__(ta, tb) -------------------------------------------------------------------------
   a <= b in range (clamping is identity).  oob (a midpoint not representable at this resolution)
   is a modelling bound, not a behaviour: such steps are disabled.                               *)
Counting == DtHint = 0 /\ ~Halfway
Query(a, b) ==
  IF (IF Legacy THEN a = b ELSE Round(a) = Round(b)) THEN
     \* zero-length shortcut: touches nothing.  Legacy: taken on the raw end points (D3/D7);
     \* since the fix on the rounded ones.
     /\ lastQ' = <<a, b>> /\ lastOut' = <<>> /\ spDepth' = 0 /\ splitDepth' = 0
     /\ UNCHANGED <<tree, cache, last, nEval, sumDt, treeDt, diverged, err>>
  ELSE
  LET ne   == IF Counting THEN nEval + 1 ELSE nEval
      sd   == IF Counting /\ ne > 0 THEN sumDt + (b - a) ELSE sumDt
      fire == Counting /\ ne > 0 /\ 2 * sd < ne * treeDt
      tdt  == IF fire THEN Min(treeDt, b - a) ELSE treeDt
      sp   == IF fire THEN SetPoints(tree, Root, tdt, 1) ELSE NoSP(tree)
      r    == IF sp.div \/ sp.bad # "" \/ sp.oob
              THEN [tr |-> sp.tr, out |-> <<>>, bad |-> sp.bad, sd |-> 0, oob |-> sp.oob]
              ELSE Loc(sp.tr, last, a, b)
      fail == sp.div \/ r.bad # ""
  IN /\ ~r.oob
     /\ tree' = r.tr
     /\ nEval' = ne /\ sumDt' = sd /\ treeDt' = tdt
     /\ lastQ' = <<a, b>>
     /\ spDepth' = sp.d /\ splitDepth' = r.sd
     /\ diverged' = (diverged \/ sp.div \/ r.bad = "diverged")
     /\ err' = IF err # "" THEN err ELSE IF sp.div \/ r.bad = "diverged" THEN "RecursionError" ELSE r.bad
     /\ IF fail THEN lastOut' = <<>> /\ UNCHANGED <<cache, last>>
        ELSE /\ lastOut' = r.out
             /\ last' = r.out[Len(r.out)]
             /\ cache' = Compute(cache, r.out)

Times == {k * QStep : k \in 0..(T \div QStep)}
Next == err = "" /\ \E a \in Times : \E b \in Times :
            /\ (a < b \/ (ZeroLen /\ a = b))
            /\ Query(a, b)
Spec == Init /\ [][Next]_vars

(* =============================== invariants ================================================= *)
Paths == DOMAIN tree
IsInternal(p) == tree[p].mid # -1

TypeOK == /\ \A p \in Paths : tree[p].s \in 0..T /\ tree[p].e \in 0..T
          /\ last \in Paths
          /\ \A i \in 1..Len(cache) : cache[i] \in Paths

(* C03: children partition the parent *)
Partition == \A p \in Paths :
   /\ tree[p].s <= tree[p].e
   /\ IsInternal(p) =>
        /\ LC(p) \in Paths /\ RC(p) \in Paths
        /\ tree[LC(p)].s = tree[p].s /\ tree[LC(p)].e = tree[p].mid
        /\ tree[RC(p)].s = tree[p].mid /\ tree[RC(p)].e = tree[p].e
        /\ tree[p].s <= tree[p].mid /\ tree[p].mid <= tree[p].e
   /\ (p # Root => Parent(p) \in Paths /\ IsInternal(Parent(p)))
(* stronger: no same-span child (a child that coincides with its parent makes repeated
   queries ambiguous: C05 / D7) *)
NoSameSpanChild == \A p \in Paths : p # Root =>
   ~(tree[p].s = tree[Parent(p)].s /\ tree[p].e = tree[Parent(p)].e)

(* C03: the returned pieces tile the rounded query, in order *)
Tiles == (lastOut # <<>>) =>
   /\ \A i \in 1..Len(lastOut) : lastOut[i] \in Paths
   /\ tree[lastOut[1]].s = Round(lastQ[1])
   /\ tree[lastOut[Len(lastOut)]].e = Round(lastQ[2])
   /\ \A i \in 1..Len(lastOut) - 1 : tree[lastOut[i]].e = tree[lastOut[i + 1]].s

(* C05: refinement only -- an existing node never changes its span; mid is set once *)
RefineOnly == [][\A p \in DOMAIN tree :
                    /\ p \in DOMAIN tree'
                    /\ tree'[p].s = tree[p].s /\ tree'[p].e = tree[p].e
                    /\ (tree[p].mid # -1 => tree'[p].mid = tree[p].mid)]_vars

(* C07 *)
CacheBound == CacheSize >= 0 => Len(cache) <= CacheSize
CacheNoDup == \A i, j \in 1..Len(cache) : cache[i] = cache[j] => i = j
RECURSIVE Log2Ceil(_)
Log2Ceil(x) == IF x <= 1 THEN 0 ELSE 1 + Log2Ceil((x + 1) \div 2)
DepthBound == Log2Ceil(T) + 2
\* Python stack: dyadic _split always recurses; _set_points only before fix D1
StackBound == splitDepth <= DepthBound /\ (Legacy => spDepth <= DepthBound)
Terminates == ~diverged
NoError == err = ""

(* C06 (design level): the decomposition does not depend on where the search starts *)
CursorFree == \A a \in Times : \A b \in Times : Round(a) < Round(b) =>
   LET r1 == Loc(tree, last, a, b)
       r2 == Loc(tree, Root, a, b)
   IN (r1.bad = "" /\ ~r1.oob) => (r1.tr = r2.tr /\ r1.out = r2.out)


(* C06, dyadic mode: the decomposition of a query -- the PATHS of the pieces, hence their seeds --   *)
(* is the one a fresh object would produce: it does not depend on the history.                      *)
Canonical == Halfway => \A a \in Times : \A b \in Times : Round(a) < Round(b) =>
   LET r1 == Loc(tree, last, a, b)
       r0 == Loc(Tree0, Root, a, b)
   IN (r1.bad = "" /\ ~r1.oob /\ r0.bad = "" /\ ~r0.oob) =>
        /\ r1.out = r0.out
        /\ \A i \in 1..Len(r1.out) : r1.tr[r1.out[i]].s = r0.tr[r0.out[i]].s /\ r1.tr[r1.out[i]].e = r0.tr[r0.out[i]].e

(* dyadic mode: every internal node is split at the rounded midpoint of its span *)
Dyadic == Halfway => \A p \in Paths : IsInternal(p) =>
             (tree[p].s + tree[p].e) % 2 = 0 /\ tree[p].mid = Round((tree[p].s + tree[p].e) \div 2)

Bounded == nEval <= MaxEval /\ Cardinality(DOMAIN tree) <= MaxNodes
View == <<tree, cache, last, nEval, sumDt, treeDt, diverged, err>>
TreeView == <<tree, nEval, sumDt, treeDt, diverged, err>>
=============================================================================
