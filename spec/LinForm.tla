------------------------------ MODULE LinForm -------------------------------
(* Linear forms with rational coefficients over arbitrary atoms:             *)
(* a finite function  atom |-> non-zero rational.  Atoms must be mutually      *)
(* comparable in TLC: use tuples whose first element is a string tag.        *)
EXTENDS Rational, FiniteSets, TLC

LZero        == <<>>                         \* the empty function
LAtom(a)     == (a :> ROne)
LGet(f, a)   == IF a \in DOMAIN f THEN f[a] ELSE RZero
LClean(f)    == [a \in {b \in DOMAIN f : f[b] # RZero} |-> f[a]]
LAdd(f, g)   == LClean([a \in (DOMAIN f) \cup (DOMAIN g) |-> RAdd(LGet(f, a), LGet(g, a))])
LScale(c, f) == LClean([a \in DOMAIN f |-> RMul(c, f[a])])
LNeg(f)      == LScale(<<-1, 1>>, f)
LSub(f, g)   == LAdd(f, LNeg(g))
LEq(f, g)    == LClean(LSub(f, g)) = LClean(LZero)
LIsZero(f)   == DOMAIN LClean(f) = {}

\* sum of a finite function's values (function from a finite set to rationals)
RECURSIVE LSumFn(_)
LSumFn(fn) == IF DOMAIN fn = {} THEN RZero
              ELSE LET x == CHOOSE y \in DOMAIN fn : TRUE
                   IN RAdd(fn[x], LSumFn([z \in (DOMAIN fn) \ {x} |-> fn[z]]))

\* inner product of two forms given the variance of each atom (orthogonal atoms:
\* Var(a) = the squared norm of atom a; distinct atoms are independent)
LDotOrth(f, g, Var(_)) ==
   LSumFn([a \in (DOMAIN f) \cap (DOMAIN g) |-> RMul(RMul(f[a], g[a]), Var(a))])
=============================================================================
