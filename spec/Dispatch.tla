------------------------------ MODULE Dispatch ------------------------------
(* C19 -- unsupported combinations and malformed inputs are rejected up-front.             *)
(*                                                                                          *)
(* The configuration product of sdeint / sdeint_adjoint, with TWO INDEPENDENT formulations  *)
(* of "what is integrated":                                                                 *)
(*   (i)  a declarative table  DocForward / DocAdjoint  written from DOCUMENTATION.md and   *)
(*        the docstrings, organised the way the documentation is (lists of Ito and          *)
(*        Stratonovich solvers, "Milstein and SRK don't support general noise", which Levy   *)
(*        area a solver needs, what an adjoint SDE offers, the defaults);                   *)
(*   (ii) the operational pipeline: one action per check, in source order, organised the    *)
(*        way the code is (select -> solver class -> class attributes -> __init__ checks).  *)
(* TLC checks on the whole product that they agree (invariants below) and prints, for       *)
(* every configuration, the expected outcome class, which the harness then demands from the *)
(* real torchsde.sdeint / sdeint_adjoint.                                                   *)
(*                                                                                          *)
(* The pipeline is the INTENDED design: where the property demands a refusal that the       *)
(* source does not perform as a check (marked REQUIRED-BY-PROPERTY below) the spec still    *)
(* has the check, so that the binding exposes the real code.                                *)
EXTENDS Integers, Sequences, FiniteSets, TLC, Json

SdeTypes   == {"ito", "stratonovich"}
NoiseTypes == {"scalar", "additive", "diagonal", "general"}
Methods    == {"euler", "milstein", "srk", "midpoint", "reversible_heun",
               "adjoint_reversible_heun", "heun", "log_ode", "euler_heun"}
Levys      == {"none", "space-time", "davie", "foster"}

SdeTypeVals == SdeTypes \cup {"bad"}
NoiseVals   == NoiseTypes \cup {"bad"}
MethodVals  == Methods \cup {"None", "blah"}          \* "None": argument not passed
AdjVals     == Methods \cup {"None"}

Malformed == {"none", "ts_not_increasing", "ts_equal", "y0_1d", "y0_not_tensor", "batch_mismatch",
              "state_mismatch", "noise_mismatch", "scalar_multi", "no_drift", "no_diffusion",
              "ts_requires_grad", "dt_requires_grad", "ts_wrong_type", "logqp_no_h"}

(* The property lists these classes with "raise ValueError"; logqp_no_h is not listed      *)
(* (any error before integration is accepted for it, its type is reported).                *)
TypeUnspecified == {"logqp_no_h"}

-----------------------------------------------------------------------------
(* Configurations                                                                           *)
(* api: "sdeint" | "sdeint_adjoint" (the latter followed by a backward pass)                *)
(* gf / agf: options / adjoint_options = dict(grad_free=True); only meaningful for Milstein *)
(* bm: "given" (a Brownian object with Levy-area approximation `levy`) | "None"             *)

Cfg(api, st, nt, m, gf, bm, levy, ad, lq, adj, agf, mal) ==
    [api |-> api, st |-> st, nt |-> nt, method |-> m, gf |-> gf, bm |-> bm, levy |-> levy,
     adaptive |-> ad, logqp |-> lq, adj |-> adj, agf |-> agf, mal |-> mal]

BmChoices  == {<<"given", l>> : l \in Levys} \cup {<<"None", "none">>}
GfChoices(m) == IF m = "milstein" THEN BOOLEAN ELSE {FALSE}
(* adjoint_options grad_free matters when the adjoint method is, or may default to, Milstein *)
ApiChoices == {<<"sdeint", "NA", FALSE>>}
              \cup {<<"sdeint_adjoint", a, FALSE>> : a \in AdjVals}
              \cup {<<"sdeint_adjoint", a, TRUE>> : a \in {"milstein", "None"}}

(* The product is enumerated by existential quantification in Init (IsConfig(c) is the       *)
(* predicate "c is one of the configurations"; TLC enumerates the bound variables).           *)
WellTypedCfg(P(_)) ==
    \E st \in SdeTypeVals, nt \in NoiseVals, m \in MethodVals, b \in BmChoices,
       ad \in BOOLEAN, lq \in BOOLEAN, x \in ApiChoices :
        \E gf \in GfChoices(m) :
            P(Cfg(x[1], st, nt, m, gf, b[1], b[2], ad, lq, x[2], x[3], "none"))

(* Malformed-argument classes, crossed with a covering subset of the well-typed product.    *)
MalApplicable(mal, nt, bm, lq) ==
    /\ (mal = "scalar_multi"   => nt = "scalar")
    /\ (mal = "logqp_no_h"     => lq)
    /\ (mal = "noise_mismatch" => bm = "given")   \* Brownian channels vs diffusion channels
MalBm  == {<<"given", "none">>, <<"given", "space-time">>, <<"None", "none">>}
MalApi == {<<"sdeint", "NA", FALSE>>, <<"sdeint_adjoint", "None", FALSE>>}
MalformedCfg(P(_)) ==
    \E st \in SdeTypes, nt \in NoiseTypes, m \in MethodVals, b \in MalBm, lq \in BOOLEAN,
       x \in MalApi, mal \in Malformed \ {"none"} :
        /\ MalApplicable(mal, nt, b[1], lq)
        /\ P(Cfg(x[1], st, nt, m, FALSE, b[1], b[2], FALSE, lq, x[2], x[3], mal))
(* ... and a thin slice with a bad type attribute, an adaptive run and explicit adjoint methods *)
MalformedExtraCfg(P(_)) ==
    \/ \E st \in SdeTypeVals, nt \in NoiseVals, mal \in Malformed \ {"none"} :
        /\ MalApplicable(mal, nt, "None", FALSE)
        /\ P(Cfg("sdeint", st, nt, "None", FALSE, "None", "none", TRUE, FALSE, "NA", FALSE, mal))
    \/ \E st \in SdeTypes, a \in Methods, mal \in Malformed \ {"none"} :
        /\ MalApplicable(mal, "diagonal", "given", FALSE)
        /\ P(Cfg("sdeint_adjoint", st, "diagonal", "None", FALSE, "given", "none", FALSE, FALSE, a, FALSE, mal))

AnyConfig(P(_)) == WellTypedCfg(P) \/ MalformedCfg(P) \/ MalformedExtraCfg(P)

-----------------------------------------------------------------------------
(* (i) DECLARATIVE: what the documentation says is supported                                *)

\* DOCUMENTATION.md "List of SDE solvers"; log_ode is not in that list but is an accepted
\* method name (settings.METHODS) whose module docstring describes a Stratonovich scheme
\* "constructed by combining Lie-Trotter splitting with the explicit midpoint method".
ItoSolvers   == {"euler", "milstein", "srk"}
StratSolvers == {"euler_heun", "heun", "midpoint", "milstein", "reversible_heun", "log_ode"}
\* "adjoint_reversible_heun: A special method: pass this as part of
\*  sdeint_adjoint(..., method="reversible_heun", adjoint_method="adjoint_reversible_heun")"
AdjointOnly  == {"adjoint_reversible_heun"}
\* "Note that Milstein and SRK don't support general noise."
NoGeneralNoise == {"milstein", "srk"}
\* "space-time Levy area is used in the stochastic Runge--Kutta solver"; Davie's and Foster's
\* approximations contain the space-time area; the log-ODE scheme "uses Levy area approximations"
\* (davie / foster give an area, "none" and "space-time" do not).
LevyAccepted(m) == CASE m = "srk"     -> {"space-time", "davie", "foster"}
                     [] m = "log_ode" -> {"davie", "foster"}
                     [] OTHER         -> Levys

\* Defaults ("If not passed then a sensible default is used"; "Defaults to BrownianInterval").
DocDefaultMethod(st, nt) ==
    IF st = "ito" THEN (IF nt = "general" THEN "euler" ELSE "srk") ELSE "midpoint"
DocDefaultAdjoint(st, nt, m) ==
    IF m = "reversible_heun" THEN "adjoint_reversible_heun"
    ELSE IF st = "ito" THEN (IF nt = "diagonal" THEN "milstein" ELSE "euler") ELSE "midpoint"
\* the default Brownian motion must carry what the chosen solver needs
DocDefaultLevy(m) == CASE m = "srk" -> "space-time" [] m = "log_ode" -> "foster" [] OTHER -> "none"

DocMethod(c) == IF c.method = "None" THEN DocDefaultMethod(c.st, c.nt) ELSE c.method
DocLevy(c)   == IF c.bm = "None" THEN DocDefaultLevy(DocMethod(c)) ELSE c.levy
DocAdjMethod(c) == IF c.adj = "None" THEN DocDefaultAdjoint(c.st, c.nt, DocMethod(c)) ELSE c.adj

DocForward(c) ==
    /\ c.mal = "none"
    /\ c.st \in SdeTypes
    /\ c.nt \in NoiseTypes
    /\ DocMethod(c) \in (IF c.st = "ito" THEN ItoSolvers ELSE StratSolvers)
    /\ (c.nt = "general" => DocMethod(c) \notin NoGeneralNoise)
    /\ DocLevy(c) \in LevyAccepted(DocMethod(c))

\* The adjoint SDE: same SDE type; its diffusion is linear in the adjoint variable, so additive
\* forward noise gives a general-noise adjoint SDE (adjoint_sde.py).  It offers the drift and the
\* diffusion-VECTOR PRODUCT only (never the diffusion matrix itself), and the g dg v term only
\* for diagonal noise.  Solvers that need the diffusion itself cannot be used for it:
\* srk, log_ode, derivative-free Milstein (their error messages say so) and reversible_heun
\* (needs f_and_g and prod).
AdjointNoise(nt) == IF nt = "additive" THEN "general" ELSE nt
NeedsDiffusion(agf) == {"srk", "log_ode", "reversible_heun"} \cup (IF agf THEN {"milstein"} ELSE {})

DocAdjoint(c) ==
    LET am == DocAdjMethod(c)
        an == AdjointNoise(c.nt)
    IN /\ am \in (IF c.st = "ito" THEN ItoSolvers ELSE StratSolvers \cup AdjointOnly)
       /\ am \notin NeedsDiffusion(c.agf)
       /\ (am = "milstein" => an = "diagonal")
       /\ (an = "general" => am \notin NoGeneralNoise)
       /\ DocLevy(c) \in LevyAccepted(am)
       /\ (am = "adjoint_reversible_heun" => DocMethod(c) = "reversible_heun")

Documented(c) == DocForward(c) /\ (c.api = "sdeint_adjoint" => DocAdjoint(c))

\* expected outcome class, declaratively
DocOutcome(c) ==
    IF ~DocForward(c) THEN (IF c.mal \in TypeUnspecified THEN "Error" ELSE "ValueError")
    ELSE IF c.api = "sdeint" \/ DocAdjoint(c) THEN "ok" ELSE "BackwardError"

-----------------------------------------------------------------------------
(* (ii) OPERATIONAL: the pipeline, one action per check in source order                     *)

VARIABLES cfg, stage, outcome, queriedBm, sel, failedAt
vars == <<cfg, stage, outcome, queriedBm, sel, failedAt>>

Stages == <<"Rename", "CheckTypes", "CheckY0", "WrapLogqp", "DefaultMethod", "CheckMethod", "CheckTs",
            "ProbeShapes", "CheckSizes", "CheckScalar", "Wrap", "DefaultBm", "AssertNoGrad",
            "DefaultAdjoint", "Select", "SolverInit", "Integrate",
            "BackwardSelect", "BackwardSolverInit", "BackwardIntegrate", "done">>
StageSet == {Stages[i] : i \in 1..Len(Stages)}
StageNo == [s \in StageSet |-> CHOOSE i \in 1..Len(Stages) : Stages[i] = s]
Before(s, t) == StageNo[s] < StageNo[t]

Outcomes == {"running", "ok", "ValueError", "Error", "BackwardError"}
\* queriedBm: "no" | "forward" (queried during the forward solve) | "backward"
Queried == {"no", "forward", "backward"}

Unset == "unset"
InitWith(c) == cfg = c
Init == /\ AnyConfig(InitWith)
        /\ stage = "Rename"
        /\ outcome = "running"
        /\ queriedBm = "no"
        /\ sel = [method |-> Unset, levy |-> Unset, adjm |-> Unset, solver |-> Unset, adjsolver |-> Unset]
        /\ failedAt = "none"

Go(s)   == /\ stage' = s
           /\ UNCHANGED <<cfg, outcome, queriedBm, sel, failedAt>>
GoSel(s, newsel) == /\ stage' = s /\ sel' = newsel
                    /\ UNCHANGED <<cfg, outcome, queriedBm, failedAt>>
Fail(kind) == /\ stage' = "done" /\ outcome' = kind /\ failedAt' = stage
              /\ UNCHANGED <<cfg, queriedBm, sel>>
At(s) == stage = s /\ outcome = "running"

\* sdeint.py:116-122  names -> RenameMethodsSDE; no check
Rename == At("Rename") /\ Go("CheckTypes")

\* sdeint.py:124-134  noise_type first, then sde_type
CheckTypes == /\ At("CheckTypes")
              /\ IF cfg.nt \notin NoiseTypes THEN Fail("ValueError")
                 ELSE IF cfg.st \notin SdeTypes THEN Fail("ValueError")
                 ELSE Go("CheckY0")

\* sdeint.py:136-139
CheckY0 == /\ At("CheckY0")
           /\ IF cfg.mal = "y0_not_tensor" THEN Fail("ValueError")
              ELSE IF cfg.mal = "y0_1d" THEN Fail("ValueError")
              ELSE Go("WrapLogqp")

\* sdeint.py:142-144 / base_sde.py SDELogqp: needs f, g and h as such.  A missing drift or
\* diffusion is a class the property lists with ValueError; a missing prior drift is not listed.
WrapLogqp == /\ At("WrapLogqp")
             /\ IF cfg.logqp /\ cfg.mal \in {"no_drift", "no_diffusion"} THEN Fail("ValueError")
                ELSE IF cfg.logqp /\ cfg.mal = "logqp_no_h" THEN Fail("Error")
                ELSE Go("DefaultMethod")

\* sdeint.py:147-156 (code-shaped: a dict of dicts)
DefaultMethodTable ==
    [ito |-> [diagonal |-> "srk", additive |-> "srk", scalar |-> "srk", general |-> "euler"],
     stratonovich |-> [diagonal |-> "midpoint", additive |-> "midpoint", scalar |-> "midpoint",
                       general |-> "midpoint"]]
DefaultMethod == /\ At("DefaultMethod")
                 /\ GoSel("CheckMethod",
                          [sel EXCEPT !.method = IF cfg.method = "None"
                                                 THEN DefaultMethodTable[cfg.st][cfg.nt]
                                                 ELSE cfg.method])

\* sdeint.py:158-159
CheckMethod == /\ At("CheckMethod")
               /\ IF sel.method \notin Methods THEN Fail("ValueError") ELSE Go("CheckTs")

\* sdeint.py:161-166
CheckTs == /\ At("CheckTs")
           /\ IF cfg.mal = "ts_wrong_type" THEN Fail("ValueError")
              ELSE IF cfg.mal \in {"ts_not_increasing", "ts_equal"} THEN Fail("ValueError")
              ELSE Go("ProbeShapes")

\* sdeint.py:199-243  f / g / f_and_g / g_prod / f_and_g_prod are probed at (ts[0], y0)
ProbeShapes == /\ At("ProbeShapes")
               /\ IF cfg.mal = "no_drift" THEN Fail("ValueError")
                  ELSE IF cfg.mal = "no_diffusion" THEN Fail("ValueError")
                  ELSE Go("CheckSizes")

\* sdeint.py:245-253  batch, then state, then noise sizes
CheckSizes == /\ At("CheckSizes")
              /\ IF cfg.mal = "batch_mismatch" THEN Fail("ValueError")
                 ELSE IF cfg.mal = "state_mismatch" THEN Fail("ValueError")
                 ELSE IF cfg.mal = "noise_mismatch" THEN Fail("ValueError")
                 ELSE Go("CheckScalar")

\* sdeint.py:255-258
CheckScalar == /\ At("CheckScalar")
               /\ IF cfg.nt = "scalar" /\ cfg.mal = "scalar_multi" THEN Fail("ValueError") ELSE Go("Wrap")

\* sdeint.py:260  ForwardSDE registration; no check
Wrap == At("Wrap") /\ Go("DefaultBm")

\* sdeint.py:262-270
DefaultBm == /\ At("DefaultBm")
             /\ GoSel("AssertNoGrad",
                      [sel EXCEPT !.levy = IF cfg.bm = "None"
                                           THEN (IF sel.method = "srk" THEN "space-time"
                                                 ELSE IF sel.method = "log_ode" THEN "foster"
                                                 ELSE "none")
                                           ELSE cfg.levy])

\* sdeint.py:94-95 / adjoint.py:234-235
AssertNoGrad == /\ At("AssertNoGrad")
                /\ IF cfg.mal \in {"ts_requires_grad", "dt_requires_grad"} THEN Fail("ValueError")
                   ELSE Go(IF cfg.api = "sdeint_adjoint" THEN "DefaultAdjoint" ELSE "Select")

\* adjoint.py:281-296
DefaultAdjointTable ==
    [ito |-> [diagonal |-> "milstein", additive |-> "euler", scalar |-> "euler", general |-> "euler"],
     stratonovich |-> [diagonal |-> "midpoint", additive |-> "midpoint", scalar |-> "midpoint",
                       general |-> "midpoint"]]
DefaultAdjoint == /\ At("DefaultAdjoint")
                  /\ GoSel("Select",
                           [sel EXCEPT !.adjm = IF cfg.adj # "None" THEN cfg.adj
                                                ELSE IF sel.method = "reversible_heun"
                                                     THEN "adjoint_reversible_heun"
                                                ELSE DefaultAdjointTable[cfg.st][cfg.nt]])

\* methods/__init__.py:26-48 (the if-chain, in order)
SelectClass(m, st) ==
    IF m = "euler" THEN "Euler"
    ELSE IF m = "milstein" /\ st = "ito" THEN "MilsteinIto"
    ELSE IF m = "srk" THEN "SRK"
    ELSE IF m = "midpoint" THEN "Midpoint"
    ELSE IF m = "reversible_heun" THEN "ReversibleHeun"
    ELSE IF m = "adjoint_reversible_heun" THEN "AdjointReversibleHeun"
    ELSE IF m = "heun" THEN "Heun"
    ELSE IF m = "milstein" /\ st = "stratonovich" THEN "MilsteinStratonovich"
    ELSE IF m = "log_ode" THEN "LogODEMidpoint"
    ELSE IF m = "euler_heun" THEN "EulerHeun"
    ELSE "NoMatch"

\* class attributes of the solver classes (methods/*.py)
All3 == {"additive", "diagonal", "scalar"}
ClassAttr ==
    [Euler                 |-> [sde_type |-> "ito",          noise_types |-> NoiseTypes, levys |-> Levys],
     MilsteinIto           |-> [sde_type |-> "ito",          noise_types |-> All3,       levys |-> Levys],
     MilsteinStratonovich  |-> [sde_type |-> "stratonovich", noise_types |-> All3,       levys |-> Levys],
     SRK                   |-> [sde_type |-> "ito",          noise_types |-> All3,
                                levys |-> {"space-time", "davie", "foster"}],
     Midpoint              |-> [sde_type |-> "stratonovich", noise_types |-> NoiseTypes, levys |-> Levys],
     ReversibleHeun        |-> [sde_type |-> "stratonovich", noise_types |-> NoiseTypes, levys |-> Levys],
     AdjointReversibleHeun |-> [sde_type |-> "stratonovich", noise_types |-> NoiseTypes, levys |-> Levys],
     Heun                  |-> [sde_type |-> "stratonovich", noise_types |-> NoiseTypes, levys |-> Levys],
     LogODEMidpoint        |-> [sde_type |-> "stratonovich", noise_types |-> NoiseTypes,
                                levys |-> {"davie", "foster"}],
     EulerHeun             |-> [sde_type |-> "stratonovich", noise_types |-> NoiseTypes, levys |-> Levys]]

Select == /\ At("Select")
          /\ LET k == SelectClass(sel.method, cfg.st)
             IN IF k = "NoMatch" THEN Fail("ValueError")
                ELSE GoSel("SolverInit", [sel EXCEPT !.solver = k])

\* Solver __init__: class-specific checks first, then base_solver.py:49-58 in order.
\* Result "pass" or the error kind.
MilsteinClasses == {"MilsteinIto", "MilsteinStratonovich"}
\* REQUIRED-BY-PROPERTY: an adjoint SDE offers g_prod_and_gdg_prod only for diagonal noise
\* (adjoint_sde.py: g_prod_and_gdg_prod_default raises NotImplementedError).  The property
\* demands that an unsupported adjoint method is refused when the backward pass starts, so
\* the refusal belongs to solver construction.  (The source has no such check at the time of
\* writing: it fails inside the first backward step, after a Brownian query.)
ClassSpecific(k, isAdjoint, noise, gradFree) ==
    IF k = "SRK" /\ isAdjoint THEN "ValueError"
    ELSE IF k = "LogODEMidpoint" /\ isAdjoint THEN "ValueError"
    ELSE IF k \in MilsteinClasses /\ gradFree /\ noise # "additive" /\ isAdjoint THEN "ValueError"
    ELSE IF k \in MilsteinClasses /\ isAdjoint /\ noise # "diagonal" THEN "ValueError"
    ELSE IF k = "AdjointReversibleHeun" /\ ~isAdjoint THEN "ValueError"
    ELSE "pass"
BaseChecks(k, st, noise, levy) ==
    IF st # ClassAttr[k].sde_type THEN "ValueError"
    ELSE IF noise \notin ClassAttr[k].noise_types THEN "ValueError"
    ELSE IF levy \notin ClassAttr[k].levys THEN "ValueError"
    ELSE "pass"
\* init_extra_solver_state on an adjoint SDE (adjoint.py:94-95): ReversibleHeun asks the adjoint SDE
\* for f_and_g, which it refuses to define; AdjointReversibleHeun needs the state saved by a
\* reversible_heun forward pass (saved only for that pair, adjoint.py:54-60).
ExtraState(k, isAdjoint, pairSaved) ==
    IF isAdjoint /\ k = "ReversibleHeun" THEN "Error"
    ELSE IF isAdjoint /\ k = "AdjointReversibleHeun" /\ ~pairSaved THEN "Error"
    ELSE "pass"
InitResult(k, isAdjoint, st, noise, levy, gradFree, pairSaved) ==
    LET a == ClassSpecific(k, isAdjoint, noise, gradFree)
        b == BaseChecks(k, st, noise, levy)
        e == ExtraState(k, isAdjoint, pairSaved)
    IN IF a # "pass" THEN a ELSE IF b # "pass" THEN b ELSE e

SolverInit == /\ At("SolverInit")
              /\ LET r == InitResult(sel.solver, FALSE, cfg.st, cfg.nt, sel.levy, cfg.gf, FALSE)
                 IN IF r # "pass" THEN Fail(r) ELSE Go("Integrate")

\* the forward solve: the first thing a step does is query the Brownian motion
Integrate == /\ At("Integrate")
             /\ queriedBm' = "forward"
             /\ IF cfg.api = "sdeint"
                THEN /\ stage' = "done" /\ outcome' = "ok" /\ UNCHANGED <<cfg, sel, failedAt>>
                ELSE /\ stage' = "BackwardSelect" /\ UNCHANGED <<cfg, outcome, sel, failedAt>>

\* adjoint.py:80-83  AdjointSDE (noise-type map), ReverseBrownian (same Levy approximation), select
AdjNoiseMap == [general |-> "general", additive |-> "general", scalar |-> "scalar", diagonal |-> "diagonal"]
BackwardSelect == /\ At("BackwardSelect")
                  /\ LET k == SelectClass(sel.adjm, cfg.st)
                     IN IF k = "NoMatch" THEN Fail("BackwardError")
                        ELSE GoSel("BackwardSolverInit", [sel EXCEPT !.adjsolver = k])

BackwardSolverInit ==
    /\ At("BackwardSolverInit")
    /\ LET pair == sel.method = "reversible_heun" /\ sel.adjm = "adjoint_reversible_heun"
           r == InitResult(sel.adjsolver, TRUE, cfg.st, AdjNoiseMap[cfg.nt], sel.levy, cfg.agf, pair)
       IN IF r # "pass" THEN Fail("BackwardError") ELSE Go("BackwardIntegrate")

BackwardIntegrate == /\ At("BackwardIntegrate")
                     /\ queriedBm' = "backward"
                     /\ stage' = "done" /\ outcome' = "ok"
                     /\ UNCHANGED <<cfg, sel, failedAt>>

Next == \/ Rename \/ CheckTypes \/ CheckY0 \/ WrapLogqp \/ DefaultMethod \/ CheckMethod \/ CheckTs
        \/ ProbeShapes \/ CheckSizes \/ CheckScalar \/ Wrap \/ DefaultBm \/ AssertNoGrad
        \/ DefaultAdjoint \/ Select \/ SolverInit \/ Integrate
        \/ BackwardSelect \/ BackwardSolverInit \/ BackwardIntegrate

Spec == Init /\ [][Next]_vars

-----------------------------------------------------------------------------
(* Properties checked by TLC on the whole product                                           *)

TypeOK == /\ DOMAIN cfg = DOMAIN Cfg("sdeint", "ito", "general", "None", FALSE, "None", "none", FALSE, FALSE, "NA", FALSE, "none")
          /\ stage \in StageSet
          /\ outcome \in Outcomes
          /\ queriedBm \in Queried
          /\ failedAt \in StageSet \cup {"none"}
          /\ (outcome = "running") = (stage # "done")

Done == stage = "done"
ForwardErrors == {"ValueError", "Error"}

\* nothing undocumented ever reaches the forward solve
IntegrateImpliesDocumented ==
    (stage = "Integrate" \/ queriedBm # "no") => DocForward(cfg)

\* every undocumented forward configuration is an error raised before any Brownian query, ...
UndocumentedRejectedUpFront ==
    (Done /\ ~DocForward(cfg)) => (outcome \in ForwardErrors /\ queriedBm = "no")
\* ... a ValueError for every class the property lists
ListedClassesRaiseValueError ==
    (Done /\ ~DocForward(cfg) /\ cfg.mal \notin TypeUnspecified) => outcome = "ValueError"
\* (conversely) everything documented is integrated
DocumentedForwardIntegrated ==
    (Done /\ DocForward(cfg)) => queriedBm # "no"

\* the defaults are the documented ones
DefaultsAreDocumented ==
    /\ (sel.method # Unset /\ cfg.method = "None") => sel.method = DocDefaultMethod(cfg.st, cfg.nt)
    /\ (sel.method # Unset /\ cfg.method # "None") => sel.method = cfg.method
    /\ (sel.levy # Unset /\ cfg.bm = "None") => sel.levy = DocDefaultLevy(sel.method)
    /\ (sel.adjm # Unset /\ cfg.adj = "None") => sel.adjm = DocDefaultAdjoint(cfg.st, cfg.nt, sel.method)
    /\ (sel.adjm # Unset /\ cfg.adj # "None") => sel.adjm = cfg.adj

\* an unsupported adjoint method is refused exactly when the backward pass starts:
\* after the forward solve, before any backward Brownian query, at select / solver construction
BackwardRefusedAtStart ==
    (Done /\ DocForward(cfg) /\ cfg.api = "sdeint_adjoint" /\ ~DocAdjoint(cfg))
        => /\ outcome = "BackwardError"
           /\ queriedBm = "forward"
           /\ failedAt \in {"BackwardSelect", "BackwardSolverInit"}
BackwardIntegrateImpliesDocumented ==
    (stage = "BackwardIntegrate" \/ queriedBm = "backward") => Documented(cfg)
BackwardErrorOnlyThen ==
    outcome = "BackwardError" => (DocForward(cfg) /\ cfg.api = "sdeint_adjoint" /\ ~DocAdjoint(cfg))

\* the two formulations give the same outcome class for every configuration
OutcomeMatchesTable == Done => outcome = DocOutcome(cfg)
OkIffDocumented     == Done => ((outcome = "ok") = Documented(cfg))

\* errors are terminal and happen before the side effect they guard; queries only grow
StepShape == [][/\ (outcome # "running" => UNCHANGED vars)
                /\ Before(stage, stage')
                /\ (queriedBm = "forward" => queriedBm' # "no")
                /\ cfg' = cfg]_vars

\* every behaviour terminates (the pipeline has no loops)
Terminates == <>[](stage = "done")
FairSpec == Spec /\ WF_vars(Next)

\* emitted for the harness: one line per configuration with what the spec expects
Emit == Done => PrintT("@@" \o ToJson([cfg |-> cfg, outcome |-> outcome, failedAt |-> failedAt,
                                       queried |-> queriedBm, sel |-> sel,
                                       docfwd |-> DocForward(cfg), doc |-> Documented(cfg)]))
=============================================================================
