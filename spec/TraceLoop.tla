------------------------------ MODULE TraceLoop ------------------------------
(***************************************************************************)
(* Trace validation for the stepping loop (C12, C14): a monitor whose      *)
(* clauses are the properties of SolverLoop.tla (Tiling, MinStep,          *)
(* AcceptRule, RetrySmaller, HalfStepValue, RejectKeepsState/AcceptedOnly,  *)
(* OutputForm, Terminates) stated                                            *)
(* per recorded event.  Every behaviour of SolverLoop, written as events,   *)
(* is accepted (checked by checks/c14.py on all generated behaviours).      *)
(*                                                                         *)
(* Times and step sizes are order-abstracted: the recorder ranks all        *)
(* distinct times (resp. step sizes, together with dt and dt_min) of a run  *)
(* and logs the ranks; the monitor only compares and copies them.           *)
(* Arithmetic facts that need the floating point values (the midpoint, the  *)
(* clipped end of a trial, the error norm, interpolation values) are        *)
(* evaluated by the recorder against the definition and logged as booleans. *)
(*                                                                         *)
(* Input: an ndjson file, one trace per line:                               *)
(*   [tid, hdr |-> [mode, T, ts, dt, mn], ev |-> << events >>]              *)
(* events:                                                                  *)
(*   [k |-> "fstep", a, b, q, lenOK, yin]                fixed step         *)
(*   [k |-> "trial", a, m, b, q, midOK, lenOK, s, le1, normOK, argsOK,      *)
(*                   raw, nxt, acc, yin, xin]            adaptive trial     *)
(*   [k |-> "out", idx, t, a, b, kind, valOK]            one output         *)
(*   [k |-> "end", wdOK, shapeOK, reexecOK]              integrate returned *)
(*   [k |-> "abort"]                                     watchdog expired   *)
(*   [k |-> "cut"]                                       rest of a long     *)
(*                                                       trace not shown    *)
(* A trace is accepted iff every event satisfies all clauses and the last   *)
(* event is "end"; otherwise the index of the first bad event and the names *)
(* of the failing clauses are printed.                                      *)
(***************************************************************************)
EXTENDS Integers, Sequences, FiniteSets, TLC, TLCExt, Json, IOUtils

Log == ndJsonDeserialize(IOEnv.TRACE_FILE)

VARIABLES tid, i, cur, lastStep, stepExp, prevKind, nout, ntrial, status
vars == <<tid, i, cur, lastStep, stepExp, prevKind, nout, ntrial, status>>

Hdr == Log[tid].hdr
Ev == Log[tid].ev
T == Hdr.T
SeqSet(s) == {s[j] : j \in 1..Len(s)}
RECURSIVE SetToSeq(_)
SetToSeq(S) == IF S = {} THEN <<>> ELSE LET x == CHOOSE y \in S : TRUE IN <<x>> \o SetToSeq(S \ {x})

Init ==
  /\ TLCSet(1, 0)                      \* register 1 counts accepted traces (workers = 1)
  /\ tid \in 1..Len(Log)
  /\ i = 1
  /\ cur = Log[tid].hdr.ts[1]
  /\ lastStep = <<-1, -1>>
  /\ stepExp = Log[tid].hdr.dt
  /\ prevKind = "first"
  /\ nout = 0 /\ ntrial = 0
  /\ status = "run"

(* ---- clauses: sets of <<name, holds>> ---- *)
FStepClauses(e) ==
  { <<"Tiling", e.a = cur /\ e.a < e.b /\ e.b <= T>>,
    <<"StepLen", e.lenOK>>,
    <<"Queries", e.q = << <<e.a, e.b>> >> >>,
    <<"ValueFlow", e.yin = (IF prevKind = "first" THEN "y0" ELSE "prev")>>,
    <<"Mode", Hdr.mode = "fixed">> }

Clamped(e) == IF e.raw < Hdr.mn THEN Hdr.mn ELSE e.raw
MustAccept(e) == e.le1 \/ Clamped(e) <= Hdr.mn
TrialClauses(e) ==
  { <<"Tiling", e.a = cur /\ e.a < e.b /\ e.b <= T>>,
    <<"Midpoint", e.a < e.m /\ e.m < e.b /\ e.midOK>>,
    <<"Queries", Len(e.q) = 3 /\ SeqSet(e.q) = {<<e.a, e.b>>, <<e.a, e.m>>, <<e.m, e.b>>}>>,
    <<"StepLen", e.lenOK>>,                                   \* b = min(a + step, T)
    <<"StepCarried", e.s = stepExp>>,                         \* the trial uses the step size decided last
    <<"MinStep", e.s >= Hdr.mn>>,                             \* hence length >= dt_min unless clipped at T
    <<"ErrorArgs", e.argsOK>>,                                \* estimate = full step versus two half steps
    <<"ErrorNorm", e.normOK>>,                                \* mixed rtol/atol RMS norm
    <<"Clamp", e.nxt = -1 \/ e.nxt = Clamped(e)>>,            \* next step never below dt_min
    <<"AcceptRule", e.acc <=> MustAccept(e)>>,
    <<"RetrySmaller", (~e.acc) => (Clamped(e) < e.s /\ Clamped(e) >= Hdr.mn)>>,
    <<"HalfStepValue", e.yin = (CASE prevKind = "first" -> "y0" [] prevKind = "acc" -> "half"
                                  [] OTHER -> "same")>>,
    \* ... and from the extra solver state that goes with it: a rejected trial must not advance it
    <<"ExtraState", e.xin = (CASE prevKind = "first" -> "x0" [] prevKind = "acc" -> "half"
                               [] OTHER -> "same")>>,
    <<"Mode", Hdr.mode = "adaptive">> }

OutClauses(e) ==
  { <<"OutOrder", e.idx = nout + 1 /\ e.idx <= Len(Hdr.ts) /\ e.t = Hdr.ts[e.idx]>>,
    <<"OutReady", e.t <= cur>>,
    <<"OutBracket", IF e.idx = 1 THEN e.kind = "y0"
                    ELSE /\ <<e.a, e.b>> = lastStep
                         /\ e.a < e.t /\ e.t <= e.b
                         /\ e.kind = (IF e.t = e.b THEN "grid" ELSE "interp")>>,
    <<"OutValue", e.valOK>> }

EndClauses(e) ==
  { <<"Complete", cur = T /\ nout = Len(Hdr.ts)>>,
    <<"Watchdog", e.wdOK>>,
    <<"Shape", e.shapeOK>>,
    \* re-executing solver.step along the accepted half steps alone, from (y0, extra0), reproduces every
    \* accepted state and the returned extra state bit for bit
    <<"AcceptedOnly", e.reexecOK>>,
    <<"Last", i = Len(Ev)>> }

Clauses(e) == CASE e.k = "fstep" -> FStepClauses(e)
                [] e.k = "trial" -> TrialClauses(e)
                [] e.k = "out"   -> OutClauses(e)
                [] e.k = "end"   -> EndClauses(e)
                [] e.k = "cut"   -> { <<"Last", i = Len(Ev)>> }     \* long trace: validated up to here
                [] OTHER         -> { <<"Terminates", FALSE>> }
Bad(e) == {c[1] : c \in {x \in Clauses(e) : ~x[2]}}

Advance(e) ==
  CASE e.k = "fstep" -> /\ cur' = e.b /\ lastStep' = <<e.a, e.b>> /\ prevKind' = "acc"
                        /\ UNCHANGED <<stepExp, nout, ntrial>>
    [] e.k = "trial" -> /\ cur' = IF e.acc THEN e.b ELSE cur
                        /\ lastStep' = IF e.acc THEN <<e.a, e.b>> ELSE lastStep
                        /\ prevKind' = IF e.acc THEN "acc" ELSE "rej"
                        /\ stepExp' = Clamped(e)
                        /\ ntrial' = ntrial + 1
                        /\ UNCHANGED nout
    [] e.k = "out"   -> /\ nout' = nout + 1 /\ UNCHANGED <<cur, lastStep, prevKind, stepExp, ntrial>>
    [] OTHER         -> UNCHANGED <<cur, lastStep, prevKind, stepExp, nout, ntrial>>

Consume ==
  /\ status = "run" /\ i <= Len(Ev)
  /\ LET e == Ev[i]
         bad == Bad(e)
     IN IF bad = {}
          THEN /\ Advance(e) /\ i' = i + 1
               /\ status' = IF e.k \in {"end", "cut"} THEN "ok" ELSE "run"
               /\ (e.k \in {"end", "cut"}) => /\ TLCSet(1, TLCGet(1) + 1)
                                   /\ PrintT("@@" \o ToJson([tid |-> Log[tid].tid, ok |-> TRUE, at |-> i, bad |-> <<>>]))
          ELSE /\ status' = "bad" /\ i' = i
               /\ PrintT("@@" \o ToJson([tid |-> Log[tid].tid, ok |-> FALSE, at |-> i, bad |-> SetToSeq(bad)]))
               /\ UNCHANGED <<cur, lastStep, prevKind, stepExp, nout, ntrial>>
  /\ UNCHANGED tid

Truncated ==
  /\ status = "run" /\ i > Len(Ev)
  /\ status' = "bad"
  /\ PrintT("@@" \o ToJson([tid |-> Log[tid].tid, ok |-> FALSE, at |-> i, bad |-> <<"Terminates">>]))
  /\ UNCHANGED <<tid, i, cur, lastStep, prevKind, stepExp, nout, ntrial>>

Next == Consume \/ Truncated
Spec == Init /\ [][Next]_vars

\* POSTCONDITION: every trace was consumed up to and including its "end" event
AllAccepted == TLCGet(1) = Len(Log)
=============================================================================
