---------------------------- MODULE LoopAdaptive ----------------------------
(***************************************************************************)
(* The time / step-size bookkeeping of BaseSDESolver.integrate with        *)
(* adaptive=True, reduced to integers (micro-ticks), for ALL end times T,   *)
(* initial steps D and floors Mn (not only TLC's small instances).  The     *)
(* controller is an adversary bound only by the contract of C14: after a    *)
(* rejection the proposed step is strictly smaller; every proposal is       *)
(* clamped to the floor Mn.                                                 *)
(*                                                                         *)
(* Proved with TLAPS:                                                       *)
(*   TypeOK /\ Floor    0 <= t <= T, the step size never drops below Mn    *)
(*   MinStep            every trial [t, b] has b - t >= Mn or ends at T     *)
(*                      (C14: "no trial step is shorter than dt_min except  *)
(*                      one clipped to end at ts[-1]")                      *)
(*   Advance            an accepted trial strictly advances t, stays <= T,  *)
(*                      a rejected one leaves t and strictly shrinks s      *)
(*   Measure            the pair <<T - t, s>> decreases lexicographically   *)
(*                      on every step: termination (both components are     *)
(*                      naturals, s >= Mn >= 1)                             *)
(* SolverLoop.tla (adaptive mode) refines this module under t <- currT,     *)
(* s <- step between trials; its liveness property Terminates is checked    *)
(* by TLC under fairness on small instances, Measure is the unbounded       *)
(* argument behind it.                                                      *)
(***************************************************************************)
EXTENDS Integers, TLAPS

CONSTANTS T, D, Mn
ASSUME ConstAssm == T \in Nat /\ D \in Nat /\ Mn \in Nat /\ T >= 1 /\ Mn >= 1 /\ D >= Mn

VARIABLES t, s
vars == <<t, s>>

Min(a, b) == IF a <= b THEN a ELSE b
Max(a, b) == IF a >= b THEN a ELSE b

Init == t = 0 /\ s = D
\* a trial over [t, Min(t + s, T)] is accepted: any proposal p, clamped to the floor
Accept == /\ t < T
          /\ t' = Min(t + s, T)
          /\ \E p \in Nat : s' = Max(p, Mn)
\* ... or rejected: a strictly smaller proposal, clamped; only possible above the floor
\* (at the floor the loop accepts whatever the estimate is)
Reject == /\ t < T
          /\ s > Mn
          /\ t' = t
          /\ \E p \in Nat : p < s /\ s' = Max(p, Mn)
Next == Accept \/ Reject
Spec == Init /\ [][Next]_vars

TypeOK == t \in Nat /\ s \in Nat /\ t <= T
Floor == s >= Mn
Inv == TypeOK /\ Floor
\* the trial the loop would take next
TrialEnd == Min(t + s, T)
MinStep == t < T => (TrialEnd - t >= Mn \/ TrialEnd = T)

LEMMA InitInv == Init => Inv
  BY ConstAssm DEF Init, Inv, TypeOK, Floor

LEMMA StepInv == Inv /\ [Next]_vars => Inv'
  <1> SUFFICES ASSUME Inv, [Next]_vars PROVE Inv'
    OBVIOUS
  <1>1. CASE UNCHANGED vars
    BY <1>1 DEF Inv, TypeOK, Floor, vars
  <1>2. CASE Accept
    <2>1. PICK p \in Nat : s' = Max(p, Mn)
      BY <1>2 DEF Accept
    <2>2. t' = Min(t + s, T) /\ t < T
      BY <1>2 DEF Accept
    <2> QED
      BY <2>1, <2>2, ConstAssm, Z3 DEF Inv, TypeOK, Floor, Min, Max
  <1>3. CASE Reject
    <2>1. PICK p \in Nat : p < s /\ s' = Max(p, Mn)
      BY <1>3 DEF Reject
    <2>2. t' = t
      BY <1>3 DEF Reject
    <2> QED
      BY <2>1, <2>2, ConstAssm, Z3 DEF Inv, TypeOK, Floor, Max
  <1> QED
    BY <1>1, <1>2, <1>3 DEF Next

THEOREM Safety == Spec => []Inv
  BY InitInv, StepInv, PTL DEF Spec

THEOREM MinStepHolds == Inv => MinStep
  BY ConstAssm, Z3 DEF Inv, TypeOK, Floor, MinStep, TrialEnd, Min

THEOREM Advance == Inv /\ Next => \/ (t' > t /\ t' <= T)
                                  \/ (t' = t /\ s' < s /\ s' >= Mn)
  <1> SUFFICES ASSUME Inv, Next PROVE (t' > t /\ t' <= T) \/ (t' = t /\ s' < s /\ s' >= Mn)
    OBVIOUS
  <1>1. CASE Accept
    BY <1>1, ConstAssm, Z3 DEF Accept, Inv, TypeOK, Floor, Min
  <1>2. CASE Reject
    <2>1. PICK p \in Nat : p < s /\ s' = Max(p, Mn)
      BY <1>2 DEF Reject
    <2> QED
      BY <1>2, <2>1, ConstAssm, Z3 DEF Reject, Inv, TypeOK, Floor, Max
  <1> QED
    BY <1>1, <1>2 DEF Next

\* lexicographic decrease of <<T - t, s>>
THEOREM Measure == Inv /\ Next => \/ T - t' < T - t
                                  \/ (T - t' = T - t /\ s' < s)
  <1> SUFFICES ASSUME Inv, Next PROVE (T - t' < T - t) \/ (T - t' = T - t /\ s' < s)
    OBVIOUS
  <1>1. CASE Accept
    <2>1. t' = Min(t + s, T) /\ t < T
      BY <1>1 DEF Accept
    <2> QED
      BY <2>1, ConstAssm, Z3 DEF Inv, TypeOK, Floor, Min
  <1>2. CASE Reject
    <2>1. PICK p \in Nat : p < s /\ s' = Max(p, Mn)
      BY <1>2 DEF Reject
    <2>2. t' = t /\ s > Mn
      BY <1>2 DEF Reject
    <2> QED
      BY <2>1, <2>2, ConstAssm, Z3 DEF Inv, TypeOK, Floor, Max
  <1> QED
    BY <1>1, <1>2 DEF Next
=============================================================================
