---- MODULE KitTest ----
EXTENDS LinForm
ASSUME RAdd(R(1,2), R(1,3)) = R(5,6)
ASSUME RMul(R(2,3), R(9,4)) = R(3,2)
ASSUME RDiv(R(1,2), R(-1,4)) = R(-2,1)
ASSUME LEq(LAdd(LAtom(<<"x">>), LNeg(LAtom(<<"x">>))), LZero)
ASSUME LAdd(LScale(R(1,2), LAtom(<<"x">>)), LAtom(<<"y",1>>)) = LAdd(LAtom(<<"y",1>>), LScale(R(1,2), LAtom(<<"x">>)))
ASSUME LDotOrth(LAdd(LAtom(<<"x">>), LAtom(<<"y">>)), LAdd(LAtom(<<"x">>), LScale(R(2,1),LAtom(<<"y">>))), LAMBDA a : IF a = <<"x">> THEN R(1,2) ELSE R(1,3)) = R(7,6)
ASSUME PrintT("kit ok")
VARIABLE x
Init == x = 0
Next == x' = x
====
