---------------------------- MODULE AdjointDriver ----------------------------
(***************************************************************************)
(* The driver of sdeint_adjoint (properties C09, C10).                     *)
(*                                                                         *)
(* Time is measured in integer ticks.  A scenario fixes the step D (ticks), *)
(* the output times ts (strictly increasing ticks), the loss weights w      *)
(* (L = sum_i w_i * <V, y(ts_i)>, w_i = 0: the loss ignores that output),   *)
(* which tensors require gradients / which adjoint parameters are asked     *)
(* for, and whether the (reversible_heun, adjoint_reversible_heun) pair is  *)
(* used.                                                                   *)
(*                                                                         *)
(* Forward  = the fixed-step loop of sdeint: from ts[1] in steps of D,      *)
(*            the last step clipped to ts[N]; one Brownian query per step;  *)
(*            outputs by interpolation.                                     *)
(* Backward = for i = N .. 2:  Segment(i): one integration of the adjoint   *)
(*            SDE over [-ts[i], -ts[i-1]] (same loop, step D) driven by the *)
(*            reversed Brownian motion B~(s, t) = B(-t, -s);                *)
(*            Inject(i): the state part is reset to ys[i-1], the adjoint    *)
(*            part += dL/dys[i-1].                                          *)
(*                                                                         *)
(* Gradient bookkeeping is carried for the exactly solvable family f == a,  *)
(* g == b (any noise type): the adjoint state lam is piecewise constant,    *)
(* d(grad a) = lam dt, d(grad b) = lam dW, and every consistent solver is   *)
(* exact on it.  The Brownian path is prescribed by per-tick increments     *)
(* Inc[j] * U (U a fixed tensor), so gradients are rationals times fixed     *)
(* tensors:  dL/dy0 = lam0 * V,  dL/da = ga * tick * colsum(V),             *)
(* dL/db = gb * V^T U.                                                      *)
(*                                                                         *)
(* A second family makes the vector fields depend on time, non-evenly:      *)
(* f == a (1 + t), g == b (1 + t) (real time t = (tick + TOff) / TickDen).   *)
(* The adjoint state is still piecewise constant.  A consistent one-step    *)
(* solver adds, per backward step over the forward-time cell [lo, hi],      *)
(* lam (1 + ta) (hi - lo) to grad a and lam (1 + tb) W(lo, hi) to grad b,    *)
(* with nodes ta, tb inside the cell (or convex combinations of such).      *)
(* `lin` carries the values for the midpoint node and the error budget      *)
(* |node - mid| <= (hi - lo)/2:  whatever nodes a solver uses, the real      *)
(* gradient must lie within  lin.ea / lin.eb  of  lin.ga / lin.gb -- and it  *)
(* cannot if a field is evaluated at the wrong (e.g. un-negated) time.       *)
(***************************************************************************)
EXTENDS Rational, FiniteSets, TLC, Json

CONSTANTS Layouts,     \* set of <<D, ts>>
          ReqPatterns, \* set of indices into AllReq
          PairClasses  \* subset of {"revheun", "rh_other", "other"}

VARIABLES scn,    \* the scenario (constant along a behaviour)
          pc,     \* "start" | "fwd" | "seg" | "segstep" | "done"
          cur,    \* current solver time (ticks; negative in the backward pass)
          oi,     \* forward: index of the next output time
          seg,    \* backward: current segment index i (integrating from ts[i] down to ts[i-1])
          fq, bq, \* base-Brownian intervals <<a, b>> queried by the forward / backward pass, in order
          calls,  \* integrate calls: sequence of ts arguments
          inj,    \* injections so far: sequence of [idx, t]
          lam,    \* adjoint state (coefficient of V)
          ga, gb, \* accumulated gradient coefficients for a and b
          out,    \* gradient slots returned: function slot -> "grad" (value elsewhere) ; set at the end
          saved,  \* whether the forward pass saved the solver's extra state for the backward pass
          lin     \* time-dependent family: [ga, gb: midpoint-node values; ea, eb: budgets]
dvars == <<scn, pc, cur, oi, seg, fq, bq, calls, inj, lam, ga, gb, out, saved, lin>>

\* ---------- tables ----------
\* per-tick Brownian increments (coefficients), ticks 1..16
Inc == << <<1,1>>, <<-1,2>>, <<2,1>>, <<1,2>>, <<-1,1>>, <<3,2>>, <<1,4>>, <<-2,1>>,
          <<1,1>>, <<1,2>>, <<-3,2>>, <<1,1>>, <<-1,4>>, <<2,1>>, <<-1,1>>, <<1,2>> >>
\* loss weights by output position
Wt == << <<1,1>>, <<-2,1>>, <<3,1>>, <<1,2>>, <<-1,1>>, <<2,1>>, <<1,4>>, <<-3,1>>, <<1,1>>, <<-1,2>> >>
\* requires-grad / asked-for patterns.  Parameters of the SDE: a (drift), b (diffusion), u (unused).
\* ask = {"*"}: adjoint_params not passed (all parameters of the module);  otherwise the explicit set.
AllReq == <<
  [y0 |-> TRUE,  a |-> TRUE,  b |-> TRUE,  u |-> TRUE,  ask |-> {"*"}],
  [y0 |-> TRUE,  a |-> FALSE, b |-> FALSE, u |-> FALSE, ask |-> {"*"}],
  [y0 |-> FALSE, a |-> TRUE,  b |-> FALSE, u |-> FALSE, ask |-> {"*"}],
  [y0 |-> FALSE, a |-> FALSE, b |-> TRUE,  u |-> TRUE,  ask |-> {"*"}],
  [y0 |-> TRUE,  a |-> TRUE,  b |-> TRUE,  u |-> TRUE,  ask |-> {"a"}],
  [y0 |-> TRUE,  a |-> TRUE,  b |-> TRUE,  u |-> TRUE,  ask |-> {"b", "u"}],
  [y0 |-> TRUE,  a |-> TRUE,  b |-> FALSE, u |-> TRUE,  ask |-> {"*"}],
  [y0 |-> TRUE,  a |-> TRUE,  b |-> TRUE,  u |-> TRUE,  ask |-> {}],
  [y0 |-> FALSE, a |-> TRUE,  b |-> TRUE,  u |-> FALSE, ask |-> {"a", "b", "u"}],
  [y0 |-> TRUE,  a |-> FALSE, b |-> TRUE,  u |-> FALSE, ask |-> {"a", "b"}] >>
Params == {"a", "b", "u"}

\* real time of tick x (a rational number of ticks) for the time-dependent family
TickDen == 8
TOff    == 16
TimeOf(x) == RDiv(RAdd(x, RInt(TOff)), RInt(TickDen))
RatAbs(x) == IF x[1] < 0 THEN RNeg(x) ELSE x
LinZero == [ga |-> RZero, gb |-> RZero, ea |-> RZero, eb |-> RZero]
N(s) == Len(s.ts)
Min(x, y) == IF x <= y THEN x ELSE y
Aligned(s) == \A i \in 1..N(s) : (s.ts[i] - s.ts[1]) % s.D = 0
RECURSIVE IncSum(_, _)
IncSum(a, b) == IF a >= b THEN RZero ELSE RAdd(Inc[b], IncSum(a, b - 1))    \* W coefficient over ticks (a, b]
W(s, i) == IF i \in s.wset THEN Wt[i] ELSE RZero
\* one backward step over the forward-time cell [lo, hi] (ticks) with adjoint state l
LinStep(a, l, lo, hi) ==
  LET len  == R(hi - lo, TickDen)
      phi  == RAdd(ROne, TimeOf(R(lo + hi, 2)))          \* 1 + t at the midpoint
      half == RMul(RHalf, len)                            \* max distance of any node in the cell from it
      w    == IncSum(lo, hi)
  IN [ga |-> RAdd(a.ga, RMul(l, RMul(len, phi))),
      ea |-> RAdd(a.ea, RMul(RatAbs(l), RMul(len, half))),
      gb |-> RAdd(a.gb, RMul(l, RMul(phi, w))),
      eb |-> RAdd(a.eb, RMul(RatAbs(l), RMul(half, RatAbs(w))))]


\* what the caller asked for: y0 if it requires grad; the adjoint parameters = those of (the explicit list, or
\* all parameters of the module) that require grad
Asked(s)     == IF "*" \in s.req.ask THEN Params ELSE s.req.ask
AdjParams(s) == {p \in Asked(s) : s.req[p]}
Requested(s) == (IF s.req.y0 THEN {"y0"} ELSE {}) \cup AdjParams(s)

Scenarios ==
  {[D |-> lay[1], ts |-> lay[2], wset |-> ws, req |-> AllReq[r], rid |-> r, pair |-> pcl] :
      lay \in Layouts, ws \in (SUBSET (1..4)) \ {{}}, r \in ReqPatterns, pcl \in PairClasses}
ValidScn(s) == s.wset \subseteq 1..N(s) /\ Requested(s) # {}

\* ---------- the machine ----------
Init == /\ scn \in {s \in Scenarios : ValidScn(s)}
        /\ pc = "start" /\ cur = scn.ts[1] /\ oi = 2 /\ seg = 0
        /\ fq = <<>> /\ bq = <<>> /\ calls = <<>> /\ inj = <<>>
        /\ lam = RZero /\ ga = RZero /\ gb = RZero /\ out = <<>> /\ saved = FALSE /\ lin = LinZero

\* sdeint_adjoint: the forward pass is ONE integrate call with the user's ts -- the same call sdeint makes
FwdCall == /\ pc = "start"
           /\ calls' = Append(calls, scn.ts)
           /\ pc' = "fwd"
           /\ saved' = (scn.pair = "revheun")
           /\ UNCHANGED <<scn, cur, oi, seg, fq, bq, inj, lam, ga, gb, out, lin>>
FwdStep == /\ pc = "fwd" /\ oi <= N(scn) /\ cur < scn.ts[oi]
           /\ LET nxt == Min(cur + scn.D, scn.ts[N(scn)])
              IN fq' = Append(fq, <<cur, nxt>>) /\ cur' = nxt
           /\ UNCHANGED <<scn, pc, oi, seg, bq, calls, inj, lam, ga, gb, out, saved, lin>>
FwdOut  == /\ pc = "fwd" /\ oi <= N(scn) /\ cur >= scn.ts[oi]
           /\ oi' = oi + 1
           /\ UNCHANGED <<scn, pc, cur, seg, fq, bq, calls, inj, lam, ga, gb, out, saved, lin>>
\* backward starts from the last output: adjoint state = dL/dys[N]
BwdStart == /\ pc = "fwd" /\ oi = N(scn) + 1
            /\ seg' = N(scn)
            /\ lam' = W(scn, N(scn))
            /\ inj' = <<[idx |-> N(scn), t |-> scn.ts[N(scn)]]>>
            /\ pc' = "seg"
            /\ UNCHANGED <<scn, cur, oi, fq, bq, calls, ga, gb, out, saved, lin>>
\* Segment(i): one integrate call over [-ts[i], -ts[i-1]]
SegBegin == /\ pc = "seg" /\ seg >= 2
            /\ calls' = Append(calls, <<-scn.ts[seg], -scn.ts[seg - 1]>>)
            /\ cur' = -scn.ts[seg]
            /\ pc' = "segstep"
            /\ UNCHANGED <<scn, oi, seg, fq, bq, inj, lam, ga, gb, out, saved, lin>>
SegStep == /\ pc = "segstep" /\ cur < -scn.ts[seg - 1]
           /\ LET nxt == Min(cur + scn.D, -scn.ts[seg - 1])
              IN /\ bq' = Append(bq, <<-nxt, -cur>>)           \* B~(cur, nxt) = B(-nxt, -cur)
                 /\ ga' = RAdd(ga, RMul(lam, RInt(nxt - cur)))
                 /\ gb' = RAdd(gb, RMul(lam, IncSum(-nxt, -cur)))
                 /\ lin' = LinStep(lin, lam, -nxt, -cur)
                 /\ cur' = nxt
           /\ UNCHANGED <<scn, pc, oi, seg, fq, calls, inj, lam, out, saved>>
\* Inject(i): at time ts[i-1]: state part := ys[i-1]; adjoint part += dL/dys[i-1]
Inject == /\ pc = "segstep" /\ cur >= -scn.ts[seg - 1]
          /\ inj' = Append(inj, [idx |-> seg - 1, t |-> -cur])
          /\ lam' = RAdd(lam, W(scn, seg - 1))
          /\ seg' = seg - 1
          /\ pc' = IF seg - 1 = 1 THEN "fin" ELSE "seg"
          /\ UNCHANGED <<scn, cur, oi, fq, bq, calls, ga, gb, out, saved, lin>>
\* gradients are handed back for y0 and the adjoint parameters only
Finish == /\ pc = "fin"
          /\ out' = [x \in Requested(scn) |-> "grad"]
          /\ pc' = "done"
          /\ UNCHANGED <<scn, cur, oi, seg, fq, bq, calls, inj, lam, ga, gb, saved, lin>>
Next == FwdCall \/ FwdStep \/ FwdOut \/ BwdStart \/ SegBegin \/ SegStep \/ Inject \/ Finish
Spec == Init /\ [][Next]_dvars

\* ---------- properties ----------
Reverse(s) == [i \in 1..Len(s) |-> s[Len(s) - i + 1]]
\* each output time's cotangent is injected exactly once, at its own time, last first
InjectOrder ==
  /\ \A j \in 1..Len(inj) : inj[j].idx = N(scn) - j + 1 /\ inj[j].t = scn.ts[inj[j].idx]
  /\ pc = "done" => Len(inj) = N(scn)
\* aligned fixed steps: the backward pass queries exactly the forward base intervals, reversed
SameNoise == (pc = "done" /\ Aligned(scn)) => bq = Reverse(fq)
\* in any case both passes tile [ts[1], ts[N]] (so W(t0, t_i) is what both see)
Tiles(q, lo, hi) == /\ Len(q) > 0 /\ q[1][1] = lo /\ q[Len(q)][2] = hi
                    /\ \A j \in 1..Len(q) - 1 : q[j][2] = q[j + 1][1]
                    /\ \A j \in 1..Len(q) : q[j][1] < q[j][2]
BothTile == pc = "done" => /\ Tiles(fq, scn.ts[1], scn.ts[N(scn)])
                           /\ Tiles(Reverse(bq), scn.ts[1], scn.ts[N(scn)])
\* one integrate call forward (the user's ts), one per segment backward, over [-ts[i], -ts[i-1]], i = N..2
SegmentCalls == pc = "done" =>
   /\ Len(calls) = N(scn) /\ calls[1] = scn.ts
   /\ \A j \in 2..N(scn) : calls[j] = <<-scn.ts[N(scn) - j + 2], -scn.ts[N(scn) - j + 1]>>
\* gradient slots exist exactly for y0 (when it requires grad) and the requires-grad adjoint parameters
OnlyRequested == pc = "done" => DOMAIN out = Requested(scn)
\* extra solver state is saved for the backward pass iff the reversible pair is used
\* ("rh_other": reversible_heun forward with another adjoint method; "other": any other accepted pair)
ExtrasOnlyForPair == pc # "start" => (saved <=> scn.pair = "revheun")
\* closed form on the constant family: y(t_i) = y0 + a (t_i - t0) + b W(t0, t_i)
ClosedLam(s) == RSumSeq([i \in 1..N(s) |-> W(s, i)])
ClosedGa(s)  == RSumSeq([i \in 1..N(s) |-> RMul(W(s, i), RInt(s.ts[i] - s.ts[1]))])
ClosedGb(s)  == RSumSeq([i \in 1..N(s) |-> RMul(W(s, i), IncSum(s.ts[1], s.ts[i]))])
ClosedForm == pc = "done" => lam = ClosedLam(scn) /\ ga = ClosedGa(scn) /\ gb = ClosedGb(scn)
\* time-dependent family: y(t_i) = y0 + a int_{t0}^{t_i} (1+t) dt + b int (1+t) dW; the midpoint rule is exact
\* on the drift integral, so the driver's value must be the closed form; budgets are non-negative and vanish
\* only with the weights
ClosedLinGa(s) == RSumSeq([i \in 1..N(s) |->
                    LET Ti == TimeOf(RInt(s.ts[i]))
                        T1 == TimeOf(RInt(s.ts[1]))
                    IN RMul(W(s, i), RAdd(RSub(Ti, T1), RMul(RHalf, RSub(RMul(Ti, Ti), RMul(T1, T1)))))])
LinearFamily == pc = "done" => /\ lin.ga = ClosedLinGa(scn)
                               /\ RLe(RZero, lin.ea) /\ RLe(RZero, lin.eb)

\* ---------- export for the conformance binding ----------
RECURSIVE SetToSeq(_)
SetToSeq(S) == IF S = {} THEN <<>> ELSE LET x == CHOOSE y \in S : TRUE IN <<x>> \o SetToSeq(S \ {x})
ScnJ(s) == [D |-> s.D, ts |-> s.ts, wset |-> SetToSeq(s.wset), w |-> [i \in 1..N(s) |-> W(s, i)], rid |-> s.rid,
            req |-> [y0 |-> s.req.y0, a |-> s.req.a, b |-> s.req.b, u |-> s.req.u,
                     ask |-> SetToSeq(s.req.ask)],
            pair |-> s.pair, aligned |-> Aligned(s)]
Export == pc = "done" =>
  PrintT("@@" \o ToJson([kind |-> "drv", scn |-> ScnJ(scn), fq |-> fq, bq |-> bq, calls |-> calls,
                         inj |-> inj, lam |-> lam, ga |-> ga, gb |-> gb, lin |-> lin,
                         toff |-> TOff, tickden |-> TickDen,
                         slots |-> SetToSeq(DOMAIN out), extras |-> saved,
                         inc |-> [j \in 1..scn.ts[N(scn)] |-> Inc[j]]]))

\* ---------- which (sde_type, noise_type, method, adjoint_method) the library accepts ----------
Noises == {"diagonal", "scalar", "additive", "general"}
FwdMethods(ty, nz) ==
  IF ty = "ito" THEN {"euler"} \cup (IF nz # "general" THEN {"milstein", "srk"} ELSE {})
  ELSE {"midpoint", "heun", "euler_heun", "reversible_heun", "log_ode"} \cup (IF nz # "general" THEN {"milstein"} ELSE {})
\* noise type of the adjoint SDE
AdjNoise(nz) == IF nz \in {"general", "additive"} THEN "general" ELSE nz
\* solvers usable backwards: they may only use f, g_prod, f_and_g_prod (and gdg_prod for diagonal noise)
AdjMethods(ty, nz, me) ==
  (IF ty = "ito" THEN {"euler"} ELSE {"midpoint", "heun", "euler_heun"})
  \cup (IF AdjNoise(nz) = "diagonal" THEN {"milstein"} ELSE {})
  \cup (IF me = "reversible_heun" THEN {"adjoint_reversible_heun"} ELSE {})
DefaultAdj(ty, nz, me) ==
  IF me = "reversible_heun" THEN "adjoint_reversible_heun"
  ELSE IF ty = "stratonovich" THEN "midpoint"
  ELSE IF nz = "diagonal" THEN "milstein" ELSE "euler"
Accepted == {<<ty, nz, me, am>> : ty \in {"ito", "stratonovich"}, nz \in Noises,
                                  me \in {"euler", "milstein", "srk", "midpoint", "heun", "euler_heun",
                                          "reversible_heun", "log_ode"},
                                  am \in {"euler", "milstein", "midpoint", "heun", "euler_heun",
                                          "adjoint_reversible_heun"}}
AcceptedOK == {c \in Accepted : c[3] \in FwdMethods(c[1], c[2]) /\ c[4] \in AdjMethods(c[1], c[2], c[3])}
ASSUME DefaultsAccepted == \A ty \in {"ito", "stratonovich"}, nz \in Noises : \A me \in FwdMethods(ty, nz) :
                       DefaultAdj(ty, nz, me) \in AdjMethods(ty, nz, me)
PairClassOf(c) == IF c[3] = "reversible_heun" THEN (IF c[4] = "adjoint_reversible_heun" THEN "revheun" ELSE "rh_other")
                  ELSE "other"
FirstScn == /\ <<scn.D, scn.ts>> = (CHOOSE l \in Layouts : TRUE) /\ scn.wset = {1}
            /\ scn.rid = (CHOOSE r \in ReqPatterns : TRUE) /\ scn.pair = (CHOOSE q \in PairClasses : TRUE)
ExportAccepted == (pc = "start" /\ FirstScn) =>
  PrintT("@@" \o ToJson([kind |-> "accepted",
                         combos |-> SetToSeq({<<c[1], c[2], c[3], c[4], PairClassOf(c), DefaultAdj(c[1], c[2], c[3]) = c[4]>> :
                                               c \in AcceptedOK})]))
=============================================================================
