-------------------------------- MODULE Poly --------------------------------
(* Sparse multivariate polynomials with exact rational coefficients.          *)
(*                                                                            *)
(* A monomial is a tuple of naturals (the exponents of the NV variables, all  *)
(* tuples of one polynomial have the same length).  A polynomial is a finite  *)
(* function  monomial |-> non-zero rational;  the zero polynomial is the      *)
(* empty function <<>>.  Vector- and matrix-valued polynomials are sequences  *)
(* (of sequences) of polynomials.  Everything is exact: differentiation,      *)
(* products, evaluation at a rational point.  Used for the Ito operators      *)
(* L0, Lj (Taylor.tla), Jacobians, vector-Jacobian products and the           *)
(* Stratonovich <-> Ito conversion (AdjointField.tla).                        *)
EXTENDS Rational, FiniteSets, TLC, SequencesExt

PZero         == <<>>
MZero(n)      == [i \in 1..n |-> 0]
MUnit(n, i)   == [k \in 1..n |-> IF k = i THEN 1 ELSE 0]
MAdd(a, b)    == [i \in 1..Len(a) |-> a[i] + b[i]]
MSub(a, b)    == [i \in 1..Len(a) |-> a[i] - b[i]]
MDeg(a)       == LET RECURSIVE S(_)
                     S(i) == IF i > Len(a) THEN 0 ELSE a[i] + S(i + 1)
                 IN S(1)

PGet(p, m)    == IF m \in DOMAIN p THEN p[m] ELSE RZero
PClean(p)     == [m \in {k \in DOMAIN p : p[k] # RZero} |-> p[m]]
PMono(m, c)   == IF c = RZero THEN PZero ELSE (m :> c)
PConst(n, c)  == PMono(MZero(n), c)
PVar(n, i)    == PMono(MUnit(n, i), ROne)
PAdd(p, q)    == PClean([m \in (DOMAIN p) \cup (DOMAIN q) |-> RAdd(PGet(p, m), PGet(q, m))])
PScale(c, p)  == IF c = RZero THEN PZero ELSE [m \in DOMAIN p |-> RMul(c, p[m])]
PNeg(p)       == [m \in DOMAIN p |-> RNeg(p[m])]
PSub(p, q)    == PAdd(p, PNeg(q))
PIsZero(p)    == DOMAIN p = {}

\* sum of a sequence of polynomials
RECURSIVE PSumSeq(_)
PSumSeq(s) == IF s = <<>> THEN PZero ELSE PAdd(Head(s), PSumSeq(Tail(s)))

\* c * x^a * q
PShift(c, a, q) == [m \in {MAdd(a, b) : b \in DOMAIN q} |-> RMul(c, q[MSub(m, a)])]
PMul(p, q) == IF PIsZero(p) \/ PIsZero(q) THEN PZero
              ELSE LET ms == SetToSeq(DOMAIN p)
                   IN PSumSeq([k \in 1..Len(ms) |-> PShift(p[ms[k]], ms[k], q)])

\* partial derivative with respect to variable i
PDer(p, i) == LET S == {m \in DOMAIN p : m[i] > 0}
                  dec(m) == [k \in 1..Len(m) |-> IF k = i THEN m[k] - 1 ELSE m[k]]
                  inc(m) == [k \in 1..Len(m) |-> IF k = i THEN m[k] + 1 ELSE m[k]]
              IN [k \in {dec(m) : m \in S} |-> RMul(RInt(k[i] + 1), p[inc(k)])]

\* value at the rational point x (a tuple of rationals, one per variable)
MEval(m, x) == LET RECURSIVE Pr(_)
                   Pr(i) == IF i > Len(m) THEN ROne
                            ELSE IF m[i] = 0 THEN Pr(i + 1) ELSE RMul(RPow(x[i], m[i]), Pr(i + 1))
               IN Pr(1)
PEval(p, x) == LET ms == SetToSeq(DOMAIN p)
               IN RSumSeq([k \in 1..Len(ms) |-> RMul(p[ms[k]], MEval(ms[k], x))])

\* linear combination  sum_k cs[k] * x^(ms[k])  (cs: rationals, ms: monomials; repeated monomials add up)
PLin(cs, ms) == PSumSeq([k \in 1..Len(cs) |-> PMono(ms[k], cs[k])])

\* a polynomial as a sequence of <<monomial, <<num, den>> >> (for printing)
PTerms(p) == LET ms == SetToSeq(DOMAIN p) IN [k \in 1..Len(ms) |-> <<ms[k], p[ms[k]]>>]

\* ---- vectors / matrices of polynomials -------------------------------------------------
PVAdd(u, v)    == [i \in 1..Len(u) |-> PAdd(u[i], v[i])]
PVSub(u, v)    == [i \in 1..Len(u) |-> PSub(u[i], v[i])]
PVScale(c, u)  == [i \in 1..Len(u) |-> PScale(c, u[i])]
PVNeg(u)       == [i \in 1..Len(u) |-> PNeg(u[i])]
PVEval(u, x)   == [i \in 1..Len(u) |-> PEval(u[i], x)]
PVDot(u, v)    == PSumSeq([i \in 1..Len(u) |-> PMul(u[i], v[i])])
PVZero(n)      == [i \in 1..n |-> PZero]
PVTerms(u)     == [i \in 1..Len(u) |-> PTerms(u[i])]
\* directional derivative of the vector field u along the vector field w, over the variables vars:
\*   ((D u) w)_i = sum_k  d u_i / d x_(vars[k]) * w_k
PJacVec(u, vars, w) == [i \in 1..Len(u) |-> PSumSeq([k \in 1..Len(vars) |-> PMul(PDer(u[i], vars[k]), w[k])])]
\* vector-Jacobian product  (a . D u)_k = sum_i a_i * d u_i / d x_(vars[k])
PVecJac(a, u, vars) == [k \in 1..Len(vars) |-> PSumSeq([i \in 1..Len(u) |-> PMul(a[i], PDer(u[i], vars[k]))])]

\* ---- self-test lemmas (evaluated by TLC when the module is loaded) ----------------------
LOCAL X2 == PVar(2, 1)
LOCAL Y2 == PVar(2, 2)
ASSUME PMul(PAdd(X2, Y2), PSub(X2, Y2)) = PSub(PMul(X2, X2), PMul(Y2, Y2))
ASSUME PDer(PMul(PMul(X2, X2), Y2), 1) = PScale(RInt(2), PMul(X2, Y2))
ASSUME PEval(PAdd(PMul(X2, Y2), PConst(2, R(1, 2))), <<R(1, 2), R(-3, 4)>>) = R(1, 8)
ASSUME PIsZero(PSub(X2, X2)) /\ PIsZero(PDer(PConst(2, ROne), 1))
=============================================================================
