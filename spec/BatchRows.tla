----------------------------- MODULE BatchRows -----------------------------
(***************************************************************************)
(* Dependency-footprint model for property C20 (batch rows are independent *)
(* samples).  Values are abstracted to the SET OF INPUT ROWS they depend    *)
(* on.  Every operation of the solve is classified by its batch footprint:  *)
(*   - Brownian sample: element (b, j) of W and H is driven by its own      *)
(*     noise atom (b, j); the Levy area A[b] combines W[b], H[b] and the    *)
(*     atoms (b, j, k) of the same row only;                                *)
(*   - f, g of a row-wise SDE, prod (batched matrix-vector product),        *)
(*     element-wise arithmetic and interpolation: row -> same row;          *)
(*   - the adaptive controller: the error norm is an RMS over the WHOLE     *)
(*     batch, so the next step size depends on every row.                   *)
(* RowLocal: with fixed steps the state of row i depends on row i only --   *)
(* for every number of steps, every method class and every batch size.      *)
(* AdaptiveCouples (checked to be REACHABLE): with adaptive steps it does   *)
(* not, which is why the property is stated for fixed steps.                *)
(* The module also enumerates the scenarios replayed on the real code:      *)
(* (method, noise type, batch size, perturbed row set, permutation).        *)
(***************************************************************************)
EXTENDS Integers, Sequences, FiniteSets, TLC, Json

CONSTANTS B,          \* batch size
          MaxSteps,
          Adaptive    \* BOOLEAN

Rows == 1..B
VARIABLES dep,        \* dep[i]: input rows (of y0 and of the Brownian sample) row i of the state depends on
          stepDep,    \* input rows the current step size depends on
          k           \* steps taken
vars == <<dep, stepDep, k>>

\* footprint of the Brownian sample handed to row i: its own atoms only (W, H, and A of that row)
BmDep(i) == {i}
\* one solver step on a row-wise SDE: every stage is f/g/prod/element-wise on (y[i], bm[i], t, dt)
StepRow(d, i, sd) == d[i] \cup BmDep(i) \cup sd

Init == dep = [i \in Rows |-> {i}] /\ stepDep = {} /\ k = 0
FixedStep == /\ ~Adaptive /\ k < MaxSteps
             /\ dep' = [i \in Rows |-> StepRow(dep, i, stepDep)]
             /\ UNCHANGED stepDep /\ k' = k + 1
\* trial step, error estimate (RMS over the batch), step-size update, accept/reject
AdaptiveStep == /\ Adaptive /\ k < MaxSteps
                /\ LET trial == [i \in Rows |-> StepRow(dep, i, stepDep)]
                       est   == UNION {trial[i] : i \in Rows}
                   IN /\ stepDep' = stepDep \cup est
                      /\ \/ dep' = trial          \* accepted
                         \/ dep' = dep            \* rejected
                /\ k' = k + 1
Interp == /\ k > 0 /\ UNCHANGED vars      \* outputs interpolate two states of the same row: no new dependence
Next == FixedStep \/ AdaptiveStep
Spec == Init /\ [][Next]_vars

RowLocal == ~Adaptive => \A i \in Rows : dep[i] = {i}
\* reachable counterexample wanted: used with Adaptive = TRUE to show the precondition is necessary
NeverCoupled == \A i \in Rows : dep[i] \subseteq {i}

(* ---- scenario enumeration for the replay --------------------------------------------------- *)
Methods == {<<"ito", "euler">>, <<"ito", "milstein">>, <<"ito", "milstein_gf">>, <<"ito", "srk">>,
            <<"stratonovich", "midpoint">>, <<"stratonovich", "heun">>, <<"stratonovich", "euler_heun">>,
            <<"stratonovich", "milstein">>, <<"stratonovich", "milstein_gf">>, <<"stratonovich", "log_ode">>,
            <<"stratonovich", "reversible_heun">>}
Accepts(m, nt) == IF m \in {"milstein", "milstein_gf", "srk"} THEN nt # "general" ELSE TRUE
NoiseTypes == {"diagonal", "scalar", "additive", "general"}
Perms(n) == {p \in [1..n -> 1..n] : \A i, j \in 1..n : p[i] = p[j] => i = j}
Pairs == {<<mm, nt>> \in Methods \X NoiseTypes : Accepts(mm[2], nt)}
RowSets == {<<i, S>> \in Rows \X (SUBSET Rows) : S # {} /\ i \notin S}
Scenarios == {[sde_type |-> x[1][1], method |-> x[1][2], noise |-> x[2], batch |-> B, keep |-> rs[1],
               perturb |-> rs[2], perm |-> p] :
                 x \in Pairs, rs \in RowSets, p \in {q \in Perms(B) : \E j \in Rows : q[j] # j}}
EmitOnce == (k = 0) => PrintT("@@" \o ToJson([n |-> Cardinality(Scenarios), rows |-> Scenarios]))
=============================================================================
