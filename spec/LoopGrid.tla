------------------------------ MODULE LoopGrid ------------------------------
(***************************************************************************)
(* The time bookkeeping of BaseSDESolver.integrate, fixed steps, reduced   *)
(* to integers:  next_t = min(curr_t + dt, ts[-1]).  Proved with TLAPS for *)
(* ALL end times T and step sizes D (not only TLC's small instances):       *)
(*   GridInv   the k-th grid time is min(k D, T): the solver advances on   *)
(*             the grid ts[0] + k dt with the last step clipped (C12),      *)
(*             whatever the output times are (they do not occur here);      *)
(*   Advance   every step strictly advances time and stays inside [0, T];   *)
(*   Bounded   no step is taken after reaching T, and k D < T + D, i.e.     *)
(*             at most ceil(T / D) steps (termination of the fixed loop).   *)
(* SolverLoop.tla refines this module under t <- currT, k <- gi (checked    *)
(* by TLC as PROPERTY GridRefinement on every fixed-mode configuration).    *)
(***************************************************************************)
EXTENDS Integers, TLAPS

CONSTANTS T, D
ASSUME ConstAssm == T \in Nat /\ D \in Nat /\ T >= 1 /\ D >= 1

VARIABLES t, k
vars == <<t, k>>

Min(a, b) == IF a <= b THEN a ELSE b

Init == t = 0 /\ k = 0
Step == /\ t < T
        /\ t' = Min(t + D, T)
        /\ k' = k + 1
Next == Step
Spec == Init /\ [][Next]_vars

TypeOK == t \in Nat /\ k \in Nat
GridInv == t = Min(k * D, T)
Bounded == k * D < T + D
Inv == TypeOK /\ GridInv /\ Bounded

Advance == [][t' > t /\ t' <= T]_vars

LEMMA InitInv == Init => Inv
  BY ConstAssm, Z3 DEF Init, Inv, TypeOK, GridInv, Bounded, Min

LEMMA StepInv == Inv /\ [Next]_vars => Inv'
  <1> SUFFICES ASSUME Inv, [Next]_vars PROVE Inv'
    OBVIOUS
  <1>1. CASE UNCHANGED vars
    BY <1>1 DEF Inv, TypeOK, GridInv, Bounded, vars
  <1>2. CASE Step
    <2>1. t < T /\ t' = Min(t + D, T) /\ k' = k + 1
      BY <1>2 DEF Step
    <2>2. t = k * D
      BY <2>1, ConstAssm DEF Inv, GridInv, TypeOK, Min
    <2>3. (k + 1) * D = k * D + D
      BY ConstAssm, Z3 DEF Inv, TypeOK
    <2>4. t' = Min((k + 1) * D, T)
      BY <2>1, <2>2, <2>3
    <2>5. (k + 1) * D < T + D
      BY <2>1, <2>2, <2>3, ConstAssm, Z3 DEF Inv, TypeOK
    <2>6. t' \in Nat /\ k' \in Nat
      BY <2>1, ConstAssm, Z3 DEF Inv, TypeOK, Min
    <2> QED
      BY <2>1, <2>4, <2>5, <2>6 DEF Inv, TypeOK, GridInv, Bounded
  <1> QED
    BY <1>1, <1>2 DEF Next

THEOREM Safety == Spec => []Inv
  BY InitInv, StepInv, PTL DEF Spec

THEOREM StepAdvances == Inv /\ [Next]_vars => (t' > t /\ t' <= T) \/ UNCHANGED vars
  <1> SUFFICES ASSUME Inv, Step PROVE t' > t /\ t' <= T
    BY DEF Next
  <1> QED
    BY ConstAssm, Z3 DEF Step, Inv, TypeOK, Min
=============================================================================
