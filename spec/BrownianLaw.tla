----------------------------- MODULE BrownianLaw -----------------------------
(***************************************************************************)
(* Value terms ON THE TREES the implementation-shaped model reaches.        *)
(*                                                                         *)
(* Every node n of a reachable tree gets the pair of linear forms           *)
(* (W_n, H_n) over the noise atoms {W0, H0} + {X1_p, X2_p : p internal},    *)
(* defined by the bridge recursion of _increment_and_space_time_levy_area   *)
(* along the path from the root (coefficients as in BrownianValues: the     *)
(* irrational v is carried inside the two fresh atoms of the parent, so     *)
(* coefficients and inner products are rational).  Forms are dense vectors  *)
(* of rationals indexed by an enumeration of the atoms.                     *)
(*                                                                         *)
(* Invariants (evaluated on every distinct reachable tree):                 *)
(*   ChildSum   W_l + W_r = W_p and the H-merge of (l, r) is H_p, as        *)
(*              identities of linear forms                          (C03)   *)
(*   Law        for every pair of nodes the Gram of (W, U) forms equals     *)
(*              the tree-free Brownian covariance of the two spans  (C04)   *)
(*   FreshAtoms the atoms of distinct internal nodes are distinct   (C04)   *)
(* This is the induction of the single-split lemma carried out explicitly   *)
(* on every tree shape the code can build in the bounded model.             *)
(***************************************************************************)
EXTENDS BrownianImpl, Rational, SequencesExt, FiniteSetsExt

Internal(tr) == {p \in DOMAIN tr : tr[p].mid # -1 /\ tr[p].s < tr[p].mid /\ tr[p].mid < tr[p].e}
IntSeq(tr) == SetToSeq(Internal(tr))
IdxOf(sq, p) == CHOOSE i \in 1..Len(sq) : sq[i] = p
\* atom indices: 1 = W0, 2 = H0, 2 + 2i - 1 = X1 of the i-th internal node, 2 + 2i = X2 of it
NAtoms(tr) == 2 + 2 * Cardinality(Internal(tr))
Unit(n, k) == [i \in 1..n |-> IF i = k THEN ROne ELSE RZero]
ZeroV(n) == [i \in 1..n |-> RZero]
AddV(u, v) == TLCEval([i \in 1..Len(u) |-> RAdd(u[i], v[i])])
ScaleV(c, u) == TLCEval([i \in 1..Len(u) |-> RMul(c, u[i])])

AtomVar(tr, sq, k) ==
  IF k = 1 THEN RInt(tr[Root].e - tr[Root].s)
  ELSE IF k = 2 THEN R(tr[Root].e - tr[Root].s, 12)
  ELSE LET i  == (k - 1) \div 2
           p  == sq[i]
           l  == tr[p].mid - tr[p].s
           r  == tr[p].e - tr[p].mid
           v2 == R(l * r, 4 * (l * l * l + r * r * r))
       IN IF k % 2 = 1 THEN v2 ELSE RMul(v2, R(1, 3))

\* forms of the children of p given the forms (W, H) of p
ChildForms(tr, sq, p, W, H) ==
  LET n   == NAtoms(tr)
      i   == IdxOf(sq, p)
      X1  == Unit(n, 2 + 2 * i - 1)
      X2  == Unit(n, 2 + 2 * i)
      l   == tr[p].mid - tr[p].s
      r   == tr[p].e - tr[p].mid
      h   == l + r
      a   == R(l * l, h)
      b   == R(r * r, h)
      thd == R(2 * (l * l * l + r * r * r), h * h)
      fl  == R(l, h)
      fr  == R(r, h)
      sl  == R(6 * l * r, h * h)
  IN [Wl |-> AddV(AddV(ScaleV(fl, W), ScaleV(sl, H)), ScaleV(thd, X1)),
      Hl |-> AddV(AddV(ScaleV(RMul(fl, fl), H), ScaleV(RNeg(a), X1)), ScaleV(RInt(r), X2)),
      Wr |-> AddV(AddV(ScaleV(fr, W), ScaleV(RNeg(sl), H)), ScaleV(RNeg(thd), X1)),
      Hr |-> AddV(AddV(ScaleV(RMul(fr, fr), H), ScaleV(RNeg(b), X1)), ScaleV(RInt(-l), X2))]

RECURSIVE FormOf(_, _, _)
FormOf(tr, sq, p) ==
  IF p = Root THEN [W |-> Unit(NAtoms(tr), 1), H |-> Unit(NAtoms(tr), 2)]
  ELSE LET par == Parent(p)
           pf  == FormOf(tr, sq, par)
           cf  == ChildForms(tr, sq, par, pf.W, pf.H)
       IN IF p[Len(p)] = 0 THEN [W |-> cf.Wl, H |-> cf.Hl] ELSE [W |-> cf.Wr, H |-> cf.Hr]

\* nodes whose whole ancestry is properly split (no degenerate zero-length pieces)
RECURSIVE Proper(_, _)
Proper(tr, p) == p = Root \/ (Parent(p) \in Internal(tr) /\ Proper(tr, Parent(p)))
ProperNodes(tr) == {p \in DOMAIN tr : Proper(tr, p) /\ tr[p].s < tr[p].e}

DotV(tr, sq, u, v) == RSumSeq([k \in 1..Len(u) |-> RMul(RMul(u[k], v[k]), AtomVar(tr, sq, k))])
\* U = h (W/2 + H)
UForm(tr, f, p) == LET h == tr[p].e - tr[p].s IN ScaleV(RInt(h), AddV(ScaleV(RHalf, f.W), f.H))

(* the tree-free covariance of answers (as in BrownianValues, repeated here to stay self-contained) *)
Mx(a, b) == IF a > b THEN a ELSE b
Mn(a, b) == IF a < b THEN a ELSE b
RECURSIVE CellSum(_, _, _, _, _)
CellTerm(kind, c, b1, b2) ==
  CASE kind = "WW" -> ROne
    [] kind = "WU" -> RAdd(RHalf, RInt(b2 - c - 1))
    [] kind = "UU" -> RAdd(RAdd(R(1, 3), RAdd(RMul(RHalf, RInt(b1 - c - 1)), RMul(RHalf, RInt(b2 - c - 1)))),
                           RInt((b1 - c - 1) * (b2 - c - 1)))
CellSum(kind, lo, hi, b1, b2) ==
  IF lo >= hi THEN RZero ELSE RAdd(CellTerm(kind, lo, b1, b2), CellSum(kind, lo + 1, hi, b1, b2))
CovSpec(kind, s1, e1, s2, e2) == CellSum(kind, Mx(s1, s2), Mn(e1, e2), e1, e2)

ChildSumOn(tr) ==
  LET sq == IntSeq(tr) IN
  \A p \in Internal(tr) \cap ProperNodes(tr) :
     LET f  == FormOf(tr, sq, p)
         fl == FormOf(tr, sq, LC(p))
         fr == FormOf(tr, sq, RC(p))
         l  == tr[p].mid - tr[p].s
         r  == tr[p].e - tr[p].mid
     IN /\ AddV(fl.W, fr.W) = f.W
        /\ ScaleV(R(1, l + r), AddV(ScaleV(RInt(r), AddV(fr.H, ScaleV(RHalf, fl.W))),
                                    ScaleV(RInt(l), AddV(fl.H, ScaleV(R(-1, 2), fr.W))))) = f.H

LawOn(tr) ==
  LET sq == IntSeq(tr)
      PN == ProperNodes(tr)
      F  == [p \in PN |-> FormOf(tr, sq, p)]
  IN \A p \in PN : \A q \in PN :
       LET Wp == F[p].W
           Wq == F[q].W
           Up == UForm(tr, F[p], p)
           Uq == UForm(tr, F[q], q)
       IN /\ DotV(tr, sq, Wp, Wq) = CovSpec("WW", tr[p].s, tr[p].e, tr[q].s, tr[q].e)
          /\ DotV(tr, sq, Wp, Uq) = CovSpec("WU", tr[p].s, tr[p].e, tr[q].s, tr[q].e)
          /\ DotV(tr, sq, Up, Uq) = CovSpec("UU", tr[p].s, tr[p].e, tr[q].s, tr[q].e)

ChildSum == ChildSumOn(tree)
Law == LawOn(tree)
\* one fresh pair of atoms per internal node: the enumeration is injective by construction of paths,
\* and the four seeds of a node are addressed by (spawn key, depth) = the path
FreshAtoms == \A p, q \in Internal(tree) :
                 (p # q) => IdxOf(IntSeq(tree), p) # IdxOf(IntSeq(tree), q)
=============================================================================
