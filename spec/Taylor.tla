------------------------------- MODULE Taylor -------------------------------
(* Reference semantics for property C02: the truncated Ito- and Stratonovich- *)
(* Taylor expansions of a polynomial SDE                                      *)
(*        dY = f(t, Y) dt + sum_j g_j(t, Y) (o) dW_j ,   Y in R^d, j = 1..m    *)
(* about a base point (t0, y0), as polynomials in the increments              *)
(*        h, dW_j, U_j = int (W_j(s) - W_j(t0)) ds, A = A_12 (Levy area)      *)
(* with weights  h:1  dW:1/2  U:3/2  A:1  (doubled below: 2, 1, 3, 2).        *)
(*                                                                            *)
(* The expansion is GENERATED from the differential operators                 *)
(*   L0 = d/dt + sum_i f_i d_i + 1/2 sum_ik (g g^T)_ik d_i d_k   (Ito)        *)
(*   L0 = d/dt + sum_i f_i d_i                                  (Stratonovich)*)
(*   Lj = sum_i g_ij d_i                                                      *)
(* by exact polynomial differentiation (module Poly) over the hierarchical    *)
(* set {alpha : weight(alpha) <= W}:                                          *)
(*   Y(t0+h) = y0 + sum_alpha (L^a1 ... L^a(k-1) c_ak)(t0, y0) * I_alpha      *)
(* with c_0 = f, c_j = g_j (Kloeden-Platen, Thm 5.5.1 / 5.6.1).  No solver    *)
(* formula or tableau appears anywhere in this module.                        *)
(*                                                                            *)
(* Multiple integrals that are polynomials in (h, dW, U, A) are substituted   *)
(* exactly.  The others (mixed triples, I_(j,k,0), ...) are NOT measurable    *)
(* with respect to the increments; they are listed in `nr` with their weight. *)
(* Invariant NonRepOnlyAtTop shows that, for every family and every order p   *)
(* a solver can advertise for it, they only occur at weight p + 1/2 where the *)
(* property only speaks about the expectation - and there their mean is zero  *)
(* (Ito integrals with a non-zero index; odd-weight Stratonovich integrals).  *)
(* This is why the Stratonovich expansion is limited to weight 3/2.           *)
(*                                                                            *)
(* TLC enumerates scenarios = (family member) x (base point) and prints one   *)
(* JSON object per scenario with the coefficient of every monomial            *)
(* h^i dW1^j1 dW2^j2 U1^k1 U2^k2 A^l of every component: the harness          *)
(* truncates by monomial weight (T_p, T_(p+1/2)) and substitutes numbers.     *)
(* TLC never evaluates anything at a small h.                                 *)
EXTENDS Poly, Json

CONSTANTS Members,     \* set of family members [fam |-> string, cf |-> <<rationals>>, cg |-> <<rationals>>]
          Points1,     \* base points <<t0, <<y0>>>> for d = 1
          Points2      \* base points <<t0, <<y01, y02>>>> for d = 2

ItoW2   == 4          \* Ito expansion up to weight 2
StratW2 == 3          \* Stratonovich expansion up to weight 3/2

--------------------------------------------------------------------------------
(* Families of polynomial SDEs.  Variables of the coefficient polynomials:    *)
(* (t, y) for d = 1 and (t, y1, y2) for d = 2.                                *)
PLinB(cs, basis) == PLin(cs, SubSeq(basis, 1, Len(cs)))
Seg(s, a, b) == SubSeq(s, a, b)

SB   == << <<0,0>>, <<0,1>>, <<0,2>>, <<1,0>>, <<1,1>>, <<0,3>> >>         \* 1, y, y^2, t, t y, y^3
SAB  == << <<0,0>>, <<1,0>> >>                                              \* 1, t
FB1  == << <<0,0,0>>, <<0,1,0>>, <<0,0,1>>, <<0,1,1>>, <<1,0,0>>, <<0,2,0>> >>  \* 1, y1, y2, y1 y2, t, y1^2
FB2  == << <<0,0,0>>, <<0,1,0>>, <<0,0,1>>, <<0,1,1>>, <<1,0,1>>, <<0,0,2>> >>  \* 1, y1, y2, y1 y2, t y2, y2^2
DG1  == << <<0,0,0>>, <<0,1,0>>, <<0,2,0>>, <<1,0,0>> >>                    \* 1, y1, y1^2, t
DG2  == << <<0,0,0>>, <<0,0,1>>, <<0,0,2>>, <<1,0,1>> >>                    \* 1, y2, y2^2, t y2
AB2  == << <<0,0,0>>, <<1,0,0>> >>                                          \* 1, t
SG1  == << <<0,0,0>>, <<0,1,0>>, <<0,0,1>>, <<0,1,1>>, <<1,0,0>> >>         \* 1, y1, y2, y1 y2, t
SG2  == << <<0,0,0>>, <<0,1,0>>, <<0,0,1>>, <<0,0,2>>, <<1,1,0>> >>         \* 1, y1, y2, y2^2, t y1
GB2  == << <<0,1,0>>, <<0,0,1>>, <<0,0,0>> >>                               \* y1, y2, 1

Fam2F(cf) == << PLinB(Seg(cf, 1, 6), FB1), PLinB(Seg(cf, 7, 12), FB2) >>

FamDim(fam) == IF fam \in {"scalar", "scalar_add"} THEN 1 ELSE 2

\* the SDE of a family member: f[i], g[i][j]
Coeffs(mb) ==
  CASE mb.fam = "scalar"     -> [d |-> 1, m |-> 1, f |-> << PLinB(mb.cf, SB) >>, g |-> << << PLinB(mb.cg, SB) >> >>]
    [] mb.fam = "scalar_add" -> [d |-> 1, m |-> 1, f |-> << PLinB(mb.cf, SB) >>, g |-> << << PLinB(mb.cg, SAB) >> >>]
    [] mb.fam = "diag2"      -> [d |-> 2, m |-> 2, f |-> Fam2F(mb.cf),
                                 g |-> << << PLinB(Seg(mb.cg, 1, 4), DG1), PZero >>,
                                          << PZero, PLinB(Seg(mb.cg, 5, 8), DG2) >> >>]
    [] mb.fam = "add2"       -> [d |-> 2, m |-> 2, f |-> Fam2F(mb.cf),
                                 g |-> << << PLinB(Seg(mb.cg, 1, 2), AB2), PLinB(Seg(mb.cg, 3, 4), AB2) >>,
                                          << PLinB(Seg(mb.cg, 5, 6), AB2), PLinB(Seg(mb.cg, 7, 8), AB2) >> >>]
    [] mb.fam = "scalar2"    -> [d |-> 2, m |-> 1, f |-> Fam2F(mb.cf),
                                 g |-> << << PLinB(Seg(mb.cg, 1, 5), SG1) >>, << PLinB(Seg(mb.cg, 6, 10), SG2) >> >>]
    [] mb.fam = "gen2"       -> \* g_j(y) = B_j y + c_j ; cg = (row 1 of B1, c1[1], row 2 of B1, c1[2], the same for j = 2)
                                [d |-> 2, m |-> 2, f |-> Fam2F(mb.cf),
                                 g |-> << << PLinB(Seg(mb.cg, 1, 3), GB2), PLinB(Seg(mb.cg, 7, 9), GB2) >>,
                                          << PLinB(Seg(mb.cg, 4, 6), GB2), PLinB(Seg(mb.cg, 10, 12), GB2) >> >>]

\* add the entries of g g^T (used by the Ito L0), computed once per SDE
WithGG(S) == [d |-> S.d, m |-> S.m, f |-> S.f, g |-> S.g,
              gg |-> [i \in 1..S.d |-> [k \in 1..S.d |-> PSumSeq([j \in 1..S.m |-> PMul(S.g[i][j], S.g[k][j])])]]]
Build(mb) == WithGG(Coeffs(mb))

Col(S, j) == [i \in 1..S.d |-> S.g[i][j]]

--------------------------------------------------------------------------------
(* The operators.                                                             *)
Lj(S, j, phi) == PSumSeq([i \in 1..S.d |-> PMul(S.g[i][j], PDer(phi, 1 + i))])
L0(S, calc, phi) ==
  LET first  == PAdd(PDer(phi, 1), PSumSeq([i \in 1..S.d |-> PMul(S.f[i], PDer(phi, 1 + i))]))
      second == PSumSeq([i \in 1..S.d |-> PSumSeq([k \in 1..S.d |->
                    PMul(S.gg[i][k], PDer(PDer(phi, 1 + i), 1 + k))])])
  IN IF calc = "ito" THEN PAdd(first, PScale(RHalf, second)) ELSE first
LopV(S, calc, j, vec) == [i \in 1..Len(vec) |-> IF j = 0 THEN L0(S, calc, vec[i]) ELSE Lj(S, j, vec[i])]

\* Ito drift -> Stratonovich drift of the same process:  f - 1/2 sum_j (D g_j) g_j
StratDrift(S) == [i \in 1..S.d |-> PSub(S.f[i], PScale(RHalf, PSumSeq([j \in 1..S.m |-> Lj(S, j, S.g[i][j])])))]
AsStrat(S)    == [d |-> S.d, m |-> S.m, f |-> StratDrift(S), g |-> S.g, gg |-> S.gg]

--------------------------------------------------------------------------------
(* Multi-indices, weights, the hierarchical set with its coefficient          *)
(* functions.                                                                 *)
RECURSIVE Wt2(_)
Wt2(alpha) == IF alpha = <<>> THEN 0 ELSE (IF Head(alpha) = 0 THEN 2 ELSE 1) + Wt2(Tail(alpha))

RECURSIVE Concat(_)
Concat(ss) == IF ss = <<>> THEN <<>> ELSE Head(ss) \o Concat(Tail(ss))

\* all alpha = gamma \o beta of weight <= W2, each with its coefficient function
\*    f_alpha = L^(gamma_1) ... L^(gamma_n) f_beta   (vec = f_beta); every operator is applied once
RECURSIVE Grow(_, _, _, _, _)
Grow(S, calc, W2, beta, vec) ==
  << [alpha |-> beta, pv |-> vec] >> \o
  Concat([jj \in 1..(S.m + 1) |->
            LET j == jj - 1 IN
            IF Wt2(<<j>> \o beta) <= W2 THEN Grow(S, calc, W2, <<j>> \o beta, LopV(S, calc, j, vec)) ELSE <<>>])

Hier(S, calc, W2) ==
  Concat([jj \in 1..(S.m + 1) |->
            LET j == jj - 1 IN
            IF Wt2(<<j>>) <= W2 THEN Grow(S, calc, W2, <<j>>, IF j = 0 THEN S.f ELSE Col(S, j)) ELSE <<>>])

--------------------------------------------------------------------------------
(* Multiple stochastic integrals over [t0, t0+h] as polynomials in            *)
(* Z = (h, dW1, dW2, U1, U2, A).  I_alpha integrates alpha_1 innermost:       *)
(* I_(j,0) = int int dW_j ds = U_j.   A = A_12 is the antisymmetric part of   *)
(* I_(1,2):  I_(1,2) = dW1 dW2 / 2 + A,  I_(2,1) = dW1 dW2 / 2 - A.           *)
NZ       == 6
zH       == MUnit(NZ, 1)
zW(j)    == MUnit(NZ, 1 + j)
zU(j)    == MUnit(NZ, 3 + j)
zA       == MUnit(NZ, 6)
RECURSIVE MTimes(_, _)
MTimes(n, mono) == IF n = 0 THEN MZero(NZ) ELSE MAdd(mono, MTimes(n - 1, mono))
ZWt2(mono) == 2 * mono[1] + mono[2] + mono[3] + 3 * mono[4] + 3 * mono[5] + 2 * mono[6]

AllEq(alpha) == \A i \in 1..Len(alpha) : alpha[i] = alpha[1]
Rep(alpha) == \/ Len(alpha) <= 2
              \/ Len(alpha) \in {3, 4} /\ AllEq(alpha) /\ alpha[1] # 0

MInt(calc, alpha) ==
  LET j   == alpha[1]
      n   == Len(alpha)
      ito == calc = "ito"
  IN IF n = 1 THEN (IF j = 0 THEN PMono(zH, ROne) ELSE PMono(zW(j), ROne))
     ELSE IF n = 2 THEN
        LET k == alpha[2] IN
        IF j = 0 /\ k = 0 THEN PMono(MTimes(2, zH), RHalf)
        ELSE IF k = 0 THEN PMono(zU(j), ROne)
        ELSE IF j = 0 THEN PAdd(PMono(MAdd(zH, zW(k)), ROne), PMono(zU(k), R(-1, 1)))
        ELSE IF j = k THEN PAdd(PMono(MTimes(2, zW(j)), RHalf), IF ito THEN PMono(zH, R(-1, 2)) ELSE PZero)
        ELSE PAdd(PMono(MAdd(zW(j), zW(k)), RHalf), PMono(zA, IF j < k THEN ROne ELSE R(-1, 1)))
     ELSE IF n = 3 THEN PAdd(PMono(MTimes(3, zW(j)), R(1, 6)),
                             IF ito THEN PMono(MAdd(zH, zW(j)), R(-1, 2)) ELSE PZero)
     ELSE PAdd(PMono(MTimes(4, zW(j)), R(1, 24)),
               IF ito THEN PAdd(PMono(MAdd(zH, MTimes(2, zW(j))), R(-1, 4)), PMono(MTimes(2, zH), R(1, 8)))
               ELSE PZero)

PTrunc(p, W2) == [mo \in {k \in DOMAIN p : ZWt2(k) <= W2} |-> p[mo]]
PVTrunc(v, W2) == [i \in 1..Len(v) |-> PTrunc(v[i], W2)]
PVEq(u, v) == \A i \in 1..Len(u) : PIsZero(PSub(u[i], v[i]))

\* the truncated expansion (vector of Z-polynomials) and the list of non-representable alpha with a
\* non-zero coefficient at the base point x0 = <<t0, y0...>>; hs = Hier(S, calc, W2) does not depend on x0
Expansion(S, calc, hs, x0) ==
  LET cs  == [k \in 1..Len(hs) |-> PVEval(hs[k].pv, x0)]
      y0  == Tail(x0)
  IN [T  |-> [i \in 1..S.d |->
                 PAdd(PConst(NZ, y0[i]),
                      PSumSeq([k \in 1..Len(hs) |-> IF Rep(hs[k].alpha) THEN PScale(cs[k][i], MInt(calc, hs[k].alpha))
                                                   ELSE PZero]))],
      nr |-> LET idx == SelectSeq([k \in 1..Len(hs) |-> k],
                                  LAMBDA k : ~Rep(hs[k].alpha) /\ cs[k] # VZero(S.d))
             IN [n \in 1..Len(idx) |-> <<hs[idx[n]].alpha, Wt2(hs[idx[n]].alpha)>>]]

--------------------------------------------------------------------------------
(* Textbook one-step maps the property names explicitly (written directly,    *)
(* not through the hierarchical set).                                         *)
EulerMap(S, x0) ==
  LET y0 == Tail(x0) IN
  [i \in 1..S.d |-> PAdd(PConst(NZ, y0[i]),
                         PAdd(PMono(zH, PEval(S.f[i], x0)),
                              PSumSeq([j \in 1..S.m |-> PMono(zW(j), PEval(S.g[i][j], x0))])))]
\* Milstein for noise without mixed terms (diagonal, scalar, additive):
\*   + 1/2 sum_j ((D g_j) g_j)_i (dW_j^2 - h)   (Ito)      + 1/2 sum_j ((D g_j) g_j)_i dW_j^2   (Stratonovich)
MilsteinMap(S, calc, x0) ==
  LET e == EulerMap(S, x0) IN
  [i \in 1..S.d |-> PAdd(e[i], PSumSeq([j \in 1..S.m |->
       LET c == PEval(PSumSeq([k \in 1..S.d |-> PMul(S.g[k][j], PDer(S.g[i][j], 1 + k))]), x0)
       IN PAdd(PMono(MTimes(2, zW(j)), RMul(RHalf, c)),
               IF calc = "ito" THEN PMono(zH, RMul(R(-1, 2), c)) ELSE PZero)]))]

--------------------------------------------------------------------------------
(* Scenario enumeration: TLC picks a family member, generates the three        *)
(* hierarchies once (they do not depend on the base point) and evaluates them *)
(* at every base point: one scenario = (member, point).                       *)
PointsFor(mb) == IF FamDim(mb.fam) = 1 THEN Points1 ELSE Points2

TablesAt(S, hI, hS, hC, x0) ==
  LET EI == Expansion(S, "ito", hI, x0)
      ES == Expansion(S, "stratonovich", hS, x0)
      EC == Expansion(S, "stratonovich", hC, x0)     \* hC belongs to AsStrat(S): same g, converted drift
  IN [ito |-> EI.T, itoNR |-> EI.nr, strat |-> ES.T, stratNR |-> ES.nr, conv |-> EC.T, convNR |-> EC.nr,
      euler |-> EulerMap(S, x0), milI |-> MilsteinMap(S, "ito", x0), milS |-> MilsteinMap(S, "stratonovich", x0)]

Tables(mb) ==
  LET S  == Build(mb)
      hI == Hier(S, "ito", ItoW2)
      hS == Hier(S, "stratonovich", StratW2)
      hC == Hier(AsStrat(S), "stratonovich", StratW2)
  IN [d |-> S.d, m |-> S.m, f |-> PVTerms(S.f), g |-> [i \in 1..S.d |-> PVTerms(S.g[i])],
      \* Lie bracket [g_1, g_2] (its value is the coefficient of A in the weight-1 term), as a polynomial vector
      bracket |-> IF S.m = 2 THEN PVSub(LopV(S, "ito", 1, Col(S, 2)), LopV(S, "ito", 2, Col(S, 1))) ELSE PVZero(S.d),
      at |-> [pt \in PointsFor(mb) |-> TablesAt(S, hI, hS, hC, <<pt[1]>> \o pt[2])]]

Emitted(mb, tb, pt) ==
  LET e == tb.at[pt] IN
  [fam |-> mb.fam, cf |-> mb.cf, cg |-> mb.cg, t0 |-> pt[1], y0 |-> pt[2], d |-> tb.d, m |-> tb.m,
   f |-> tb.f, g |-> tb.g,
   ito |-> PVTerms(e.ito), itoNR |-> e.itoNR, strat |-> PVTerms(e.strat), stratNR |-> e.stratNR,
   euler |-> PVTerms(e.euler), milI |-> PVTerms(e.milI), milS |-> PVTerms(e.milS)]

VARIABLES phase, mem, tab
vars == <<phase, mem, tab>>
None == [none |-> TRUE]

Init == phase = "start" /\ mem = None /\ tab = None
Pick == /\ phase = "start"
        /\ \E mb \in Members : mem' = mb
        /\ phase' = "picked" /\ tab' = None
Emit == /\ phase = "picked"
        /\ tab' = Tables(mem)
        /\ \A pt \in PointsFor(mem) : PrintT("@@" \o ToJson(Emitted(mem, tab', pt)))
        /\ phase' = "done" /\ mem' = mem
Next == Pick \/ Emit
Spec == Init /\ [][Next]_vars

--------------------------------------------------------------------------------
(* Lemmas checked by TLC on every scenario.                                   *)
Done == phase = "done"
Pts  == PointsFor(mem)

\* is some multiple integral with a non-zero coefficient and weight <= W2 not representable?
NRBelow(nr, W2) == \E n \in 1..Len(nr) : nr[n][2] <= W2

\* (1) The Ito expansion of (f, g) and the Stratonovich expansion of (f - 1/2 sum (Dg_j) g_j, g) are the same
\*     polynomial in the increments (up to the weight where everything is representable).
ItoStratAgree ==
  Done => \A pt \in Pts :
            LET e == tab.at[pt]
                W == IF NRBelow(e.itoNR, 3) \/ NRBelow(e.convNR, 3) THEN 2 ELSE 3
            IN PVEq(PVTrunc(e.ito, W), PVTrunc(e.conv, W))

\* (2) Non-representable integrals only occur strictly above every order p that a solver may advertise for
\*     the family: p <= 3/2 without mixed terms (they then sit at weight 2, Ito only), p = 1/2 for general
\*     noise (they then sit at weight >= 3/2).
NonRepOnlyAtTop ==
  Done => \A pt \in Pts :
            LET e == tab.at[pt] IN
            IF mem.fam = "gen2"
            THEN ~NRBelow(e.itoNR, 2) /\ ~NRBelow(e.stratNR, 2)
            ELSE ~NRBelow(e.itoNR, 3) /\ e.stratNR = <<>>

\* (3) Euler-Maruyama is the weight-1/2 truncation plus the drift term; Milstein is the weight-1 truncation
\*     for noise without mixed terms.
EulerIsTruncation ==
  Done => \A pt \in Pts :
            LET e == tab.at[pt] IN
            /\ PVEq(PVTrunc(e.euler, 1), PVTrunc(e.ito, 1)) /\ PVEq(PVTrunc(e.euler, 1), PVTrunc(e.strat, 1))
            \* a Stratonovich double integral J_(j,j) = dW_j^2 / 2 has no h-part: the h-coefficient there is f itself
            /\ \A i \in 1..tab.d : PGet(e.euler[i], zH) = PGet(e.strat[i], zH)
            /\ \A i \in 1..tab.d : \A mo \in DOMAIN e.euler[i] : ZWt2(mo) <= 2
MilsteinIsTruncation ==
  Done /\ mem.fam # "gen2" =>
     \A pt \in Pts : LET e == tab.at[pt] IN PVEq(e.milI, PVTrunc(e.ito, 2)) /\ PVEq(e.milS, PVTrunc(e.strat, 2))

\* (4) preconditions of the families: general noise is really non-commutative; the others have no mixed term
FamilyPreconditions ==
  Done => IF mem.fam = "gen2" THEN \E i \in 1..2 : ~PIsZero(tab.bracket[i])
          ELSE \A i \in 1..tab.d : PIsZero(tab.bracket[i])

\* (5) the expansion starts at the base point and every monomial is within the requested weight
Graded ==
  Done => \A pt \in Pts :
            LET e == tab.at[pt] IN
            /\ \A i \in 1..tab.d : PGet(e.ito[i], MZero(NZ)) = pt[2][i] /\ PGet(e.strat[i], MZero(NZ)) = pt[2][i]
            /\ \A i \in 1..tab.d : (\A mo \in DOMAIN e.ito[i] : ZWt2(mo) <= ItoW2)
                                    /\ (\A mo \in DOMAIN e.strat[i] : ZWt2(mo) <= StratW2)

--------------------------------------------------------------------------------
(* Built-in members / points (used when no generated pool is supplied).       *)
Q(n)  == R(n, 4)
DefaultMembers ==
  { [fam |-> "scalar", cf |-> <<Q(1), Q(2), Q(-1), Q(2), Q(-2)>>, cg |-> <<Q(2), Q(1), Q(1), Q(-1), Q(2)>>],
    [fam |-> "scalar", cf |-> <<Q(-2), Q(1), Q(2), Q(1), Q(4)>>, cg |-> <<Q(3), Q(-2), Q(1), Q(2), Q(-1)>>],
    [fam |-> "scalar_add", cf |-> <<Q(2), Q(-3), Q(1), Q(1), Q(2)>>, cg |-> <<Q(3), Q(-2)>>],
    [fam |-> "diag2", cf |-> <<Q(1), Q(-2), Q(2), Q(1), Q(2), Q(-1), Q(2), Q(1), Q(-1), Q(2), Q(-2), Q(1)>>,
                      cg |-> <<Q(2), Q(1), Q(-1), Q(2), Q(3), Q(-1), Q(1), Q(-2)>>],
    [fam |-> "add2", cf |-> <<Q(1), Q(-2), Q(2), Q(1), Q(2), Q(-1), Q(2), Q(1), Q(-1), Q(2), Q(-2), Q(1)>>,
                     cg |-> <<Q(2), Q(1), Q(-1), Q(2), Q(1), Q(-2), Q(3), Q(1)>>],
    [fam |-> "scalar2", cf |-> <<Q(1), Q(-2), Q(2), Q(1), Q(2), Q(-1), Q(2), Q(1), Q(-1), Q(2), Q(-2), Q(1)>>,
                        cg |-> <<Q(1), Q(2), Q(-3), Q(1), Q(2), Q(-1), Q(3), Q(1), Q(-2), Q(2)>>],
    [fam |-> "gen2", cf |-> <<Q(1), Q(-2), Q(2), Q(1), Q(2), Q(-1), Q(2), Q(1), Q(-1), Q(2), Q(-2), Q(1)>>,
                     cg |-> <<Q(1), Q(2), Q(1), Q(-3), Q(1), Q(2), Q(2), Q(-1), Q(-1), Q(1), Q(3), Q(1)>>] }
DefaultPoints1 == { <<Q(1), <<Q(3)>>>>, <<Q(-2), <<Q(-2)>>>> }
DefaultPoints2 == { <<Q(1), <<Q(3), Q(-2)>>>>, <<Q(-2), <<Q(-1), Q(2)>>>> }
=============================================================================
