-------------------------- MODULE BrownianDerived --------------------------
(***************************************************************************)
(* The wrappers of torchsde/_brownian/derived.py over a base Brownian      *)
(* object, at the level of VALUES (linear forms over noise atoms), from    *)
(* the DEFINITION of the path each wrapper represents (C03: "equally       *)
(* through BrownianPath, BrownianTree and ReverseBrownian"; C04 through    *)
(* the wrappers).                                                          *)
(*                                                                         *)
(* Base path B on the ticks of [-N, 0] (for the reversal) resp. [0, N]:    *)
(* every unit cell c carries two atoms  w_c = B(c+1) - B(c)  and           *)
(* u_c = int_c^{c+1} (B(r) - B(c)) dr  with Gram  <w,w> = 1, <w,u> = 1/2,  *)
(* <u,u> = 1/3, different cells orthogonal (the tree-free reference of     *)
(* BrownianValues, Part 2).  Answers of the base object over [a, b]:       *)
(*     W(a,b) = sum_c w_c        U(a,b) = sum_c (u_c + (b - c - 1) w_c)    *)
(*                                                                         *)
(* ReverseBrownian(bm)(s, t) asks bm(-t, -s) and returns the increment     *)
(* unchanged: it is the path  X(t) = -B(-t).  From that definition the     *)
(* cells of X are  w^X_k = w_{-k-1},  u^X_k = w_{-k-1} - u_{-k-1}, and the *)
(* answers X owes its user are W^X, U^X built from ITS cells.  The lemma   *)
(* ReverseIsPath says the wrapper's formulas (W unchanged, U -> h W - U)   *)
(* return exactly those; LegacyReverse (U passed through unconverted, the  *)
(* code before fix c91d90c) must not.                                      *)
(*                                                                         *)
(* BrownianPath / BrownianTree with offset w0: a POINT evaluation bm(t)    *)
(* is w0 + W(t0, t), interval queries do not see w0: differences of point  *)
(* evaluations are the interval answers (PointsArePath), and w0 never      *)
(* enters an interval answer (OffsetOnlyOnPoints).                         *)
(***************************************************************************)
EXTENDS LinForm, Integers, TLC

CONSTANT N          \* ticks

W(c) == <<"w", c>>
Uc(c) == <<"u", c>>
RECURSIVE SumW(_, _), SumU(_, _, _)
SumW(a, b) == IF a >= b THEN LZero ELSE LAdd(LAtom(W(a)), SumW(a + 1, b))
\* sum over cells c in a..b-1 of (u_c + (e - c - 1) w_c)
SumU(a, b, e) == IF a >= b THEN LZero
                 ELSE LAdd(LAdd(LAtom(Uc(a)), LScale(RInt(e - a - 1), LAtom(W(a)))), SumU(a + 1, b, e))
BaseW(a, b) == SumW(a, b)
BaseU(a, b) == SumU(a, b, b)

(* ---- the reversed path X(t) = -B(-t), t in [0, N], from its own cells ---- *)
XW(k) == LAtom(W(-k - 1))                                   \* w^X_k
XU(k) == LSub(LAtom(W(-k - 1)), LAtom(Uc(-k - 1)))          \* u^X_k
RECURSIVE XSumW(_, _), XSumU(_, _, _)
XSumW(s, t) == IF s >= t THEN LZero ELSE LAdd(XW(s), XSumW(s + 1, t))
XSumU(s, t, e) == IF s >= t THEN LZero
                  ELSE LAdd(LAdd(XU(s), LScale(RInt(e - s - 1), XW(s))), XSumU(s + 1, t, e))
DefW(s, t) == XSumW(s, t)
DefU(s, t) == XSumU(s, t, t)

(* ---- what the wrapper computes ---- *)
WrapW(s, t) == BaseW(-t, -s)
WrapU(s, t) == LSub(LScale(RInt(t - s), BaseW(-t, -s)), BaseU(-t, -s))      \* U -> h W - U
LegacyWrapU(s, t) == BaseU(-t, -s)

ReverseIsPath == \A s \in 0..N : \A t \in 0..N : s < t =>
                    /\ LEq(WrapW(s, t), DefW(s, t))
                    /\ LEq(WrapU(s, t), DefU(s, t))
\* ... hence Chen's relation through the wrapper (it holds for DefW / DefU by construction; restated on the wrapper)
ReverseChen == \A s \in 0..N : \A u \in 0..N : \A t \in 0..N : (s < u /\ u < t) =>
                    /\ LEq(WrapW(s, t), LAdd(WrapW(s, u), WrapW(u, t)))
                    /\ LEq(WrapU(s, t), LAdd(LAdd(WrapU(s, u), WrapU(u, t)), LScale(RInt(t - u), WrapW(s, u))))
LegacyReverseBreaksChen == \E s \in 0..N : \E u \in 0..N : \E t \in 0..N :
                    /\ s < u /\ u < t
                    /\ ~LEq(LegacyWrapU(s, t), LAdd(LAdd(LegacyWrapU(s, u), LegacyWrapU(u, t)),
                                                    LScale(RInt(t - u), WrapW(s, u))))

(* ---- offset wrappers (BrownianPath, BrownianTree): base on [0, N], t0 = 0 ---- *)
W0 == LAtom(<<"w0">>)
Point(t) == LAdd(W0, BaseW(0, t))
PointsArePath == \A s \in 0..N : \A t \in 0..N : s < t => LEq(LSub(Point(t), Point(s)), BaseW(s, t))
HasW0(f) == <<"w0">> \in DOMAIN f
OffsetOnlyOnPoints == /\ \A s \in 0..N : \A t \in 0..N : s < t => ~HasW0(BaseW(s, t)) /\ ~HasW0(BaseU(s, t))
                      /\ \A t \in 0..N : HasW0(Point(t))
\* the buggy in-place variant adds w0 INTO the stored increment of a node: later interval answers carry w0
InPlaceBreaks == HasW0(LAdd(BaseW(0, N), W0))

ASSUME ReverseIsPath
ASSUME ReverseChen
ASSUME LegacyReverseBreaksChen
ASSUME PointsArePath
ASSUME OffsetOnlyOnPoints
ASSUME InPlaceBreaks

VARIABLE done
Init == done = FALSE
Next == done' = TRUE
Spec == Init /\ [][Next]_done
=============================================================================
