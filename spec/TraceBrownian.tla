---------------------------- MODULE TraceBrownian ----------------------------
(***************************************************************************)
(* Property-level specification of a Brownian object's tree ("Brownian" of *)
(* DESIGN 3.2) in the form used to validate traces recorded from the REAL  *)
(* code.  It keeps only what a user can rely on and leaves free everything *)
(* the implementation may choose (where it splits, what it caches, where   *)
(* the search starts, when it pre-shapes the tree):                        *)
(*                                                                         *)
(*   RefineOnly  an existing node keeps its span for ever; its split point *)
(*               is set at most once; new nodes are the two children of a  *)
(*               node whose split point has just been set, and partition   *)
(*               it (C03, C05)                                             *)
(*   NoSameSpan  no child has the span of its parent (C05)                 *)
(*   Tiles       the pieces returned for a query are nodes, in order,      *)
(*               contiguous, covering exactly the rounded query (C03)      *)
(*   CacheBound  at most CacheSize entries are cached (C07)                *)
(*   Dyadic      in dyadic mode every split point is the rounded midpoint  *)
(*               of its node (C06)                                         *)
(*   Repeat      a query asked before is answered with the same piece      *)
(*               spans unless those pieces have been refined (C05)         *)
(*                                                                         *)
(* Every trace gets a verdict: the step relation is total and records the  *)
(* name of the first failing clause in `bad`.                              *)
(* Traces is supplied by a generated module TraceData:                     *)
(*   [tol, cacheSize (-1 = unlimited), dyadic,                             *)
(*    events: << [q, pieces, newNodes, newMids, cacheLen] >>]              *)
(* with q = <<a,b>> already rounded, pieces = << <<s,e>> >>,               *)
(* newNodes = << <<path,s,e>> >>, newMids = << <<path,mid>> >>.            *)
(***************************************************************************)
EXTENDS Integers, Sequences, FiniteSets, TLC, Json, TraceData

VARIABLES tid, l, tree, bad
tvars == <<tid, l, tree, bad>>

Tr == Traces[tid]
Ev == Tr.events[l]
Parent(p) == SubSeq(p, 1, Len(p) - 1)
LC(p) == Append(p, 0)
RC(p) == Append(p, 1)

RoundTo(x, tol) == IF tol = 0 THEN x
                   ELSE LET k == x \div tol
                            r == x % tol
                        IN IF 2 * r < tol THEN k * tol
                           ELSE IF 2 * r > tol THEN (k + 1) * tol
                           ELSE IF k % 2 = 0 THEN k * tol ELSE (k + 1) * tol

NewTree(tr, ev) ==
  LET nn == {ev.newNodes[i][1] : i \in 1..Len(ev.newNodes)}
      nodeOf(p) == CHOOSE i \in 1..Len(ev.newNodes) : ev.newNodes[i][1] = p
      midOf(p) == IF \E i \in 1..Len(ev.newMids) : ev.newMids[i][1] = p
                  THEN ev.newMids[CHOOSE i \in 1..Len(ev.newMids) : ev.newMids[i][1] = p][2]
                  ELSE -1
  IN TLCEval([p \in (DOMAIN tr) \cup nn |->
        IF p \in DOMAIN tr THEN (IF tr[p].mid = -1 THEN [tr[p] EXCEPT !.mid = midOf(p)] ELSE tr[p])
        ELSE [s |-> ev.newNodes[nodeOf(p)][2], e |-> ev.newNodes[nodeOf(p)][3], mid |-> midOf(p)]])

RefineOK(tr, ev, nt) ==
  /\ \A i \in 1..Len(ev.newMids) :
        LET p == ev.newMids[i][1] IN
        /\ p \in DOMAIN nt
        /\ (p \in DOMAIN tr => tr[p].mid = -1)            \* a split point is set once
  /\ \A i \in 1..Len(ev.newNodes) :
        LET p == ev.newNodes[i][1] IN
        /\ p \notin DOMAIN tr                              \* existing nodes are never re-created
        /\ p # <<>>
        /\ Parent(p) \in DOMAIN nt
        /\ nt[Parent(p)].mid # -1
        /\ (Parent(p) \in DOMAIN tr => tr[Parent(p)].mid = -1)
PartitionOK(nt) ==
  \A p \in DOMAIN nt : nt[p].mid # -1 =>
     /\ LC(p) \in DOMAIN nt /\ RC(p) \in DOMAIN nt
     /\ nt[LC(p)].s = nt[p].s /\ nt[LC(p)].e = nt[p].mid
     /\ nt[RC(p)].s = nt[p].mid /\ nt[RC(p)].e = nt[p].e
     /\ nt[p].s <= nt[p].mid /\ nt[p].mid <= nt[p].e
NoSameSpanOK(nt) ==
  \A p \in DOMAIN nt : p # <<>> => ~(nt[p].s = nt[Parent(p)].s /\ nt[p].e = nt[Parent(p)].e)
Spans(nt) == {<<nt[p].s, nt[p].e>> : p \in DOMAIN nt}
TilesOK(nt, ev) ==
  IF ev.q[1] = ev.q[2] THEN Len(ev.pieces) = 0
  ELSE /\ Len(ev.pieces) >= 1
       /\ \A i \in 1..Len(ev.pieces) : ev.pieces[i] \in Spans(nt)
       /\ ev.pieces[1][1] = ev.q[1]
       /\ ev.pieces[Len(ev.pieces)][2] = ev.q[2]
       /\ \A i \in 1..Len(ev.pieces) - 1 : ev.pieces[i][2] = ev.pieces[i + 1][1]
       /\ \A i \in 1..Len(ev.pieces) : ev.pieces[i][1] < ev.pieces[i][2]
CacheOK(ev) == Tr.cacheSize < 0 \/ ev.cacheLen <= Tr.cacheSize
DyadicOK(nt) ==
  Tr.dyadic => \A p \in DOMAIN nt : nt[p].mid # -1 =>
                 /\ (nt[p].s + nt[p].e) % 2 = 0
                 /\ nt[p].mid = RoundTo((nt[p].s + nt[p].e) \div 2, Tr.tol)
\* an earlier identical query returned the same pieces, unless one of them was split since
RepeatOK(nt, ev) ==
  \A k \in 1..(l - 1) :
     (Tr.events[k].q = ev.q /\ ev.q[1] # ev.q[2]) =>
        \/ Tr.events[k].pieces = ev.pieces
        \/ \E i \in 1..Len(Tr.events[k].pieces) :
              \E p \in DOMAIN nt : /\ <<nt[p].s, nt[p].e>> = Tr.events[k].pieces[i]
                                   /\ nt[p].mid # -1

Verdict(tr, ev, nt) ==
  IF ~RefineOK(tr, ev, nt) THEN "RefineOnly"
  ELSE IF ~PartitionOK(nt) THEN "Partition"
  ELSE IF ~NoSameSpanOK(nt) THEN "NoSameSpanChild"
  ELSE IF ~TilesOK(nt, ev) THEN "Tiles"
  ELSE IF ~CacheOK(ev) THEN "CacheBound"
  ELSE IF ~DyadicOK(nt) THEN "Dyadic"
  ELSE IF ~RepeatOK(nt, ev) THEN "Repeat"
  ELSE ""

Init == /\ tid \in 1..Len(Traces)
        /\ l = 1
        /\ tree = (<<>> :> [s |-> Traces[tid].root[1], e |-> Traces[tid].root[2], mid |-> -1])
        /\ bad = ""
Step == /\ bad = ""
        /\ l <= Len(Tr.events)
        /\ LET nt == NewTree(tree, Ev) IN
           /\ tree' = nt
           /\ bad' = Verdict(tree, Ev, nt)
        /\ l' = l + 1
        /\ tid' = tid
Spec == Init /\ [][Step]_tvars

Finished == bad # "" \/ l > Len(Tr.events)
\* one verdict line per trace
Report == Finished => PrintT("@@" \o ToJson([tid |-> tid, bad |-> bad, at |-> l - 1, n |-> Len(Tr.events)]))
=============================================================================
