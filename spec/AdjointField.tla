---------------------------- MODULE AdjointField ----------------------------
(* Reference semantics for property C11: the vector fields of the adjoint     *)
(* (reverse-time, augmented) SDE, from their DEFINITION.                      *)
(*                                                                            *)
(* Forward SDE on R^D with parameters theta in R^P, polynomial in (t,y,theta):*)
(*      dY = f(t, Y; theta) dt + sum_j g_j(t, Y; theta) (o) dW_j              *)
(* 1. Stratonovich drift of the same process:                                 *)
(*      f_S = f - 1/2 sum_j (D_y g_j) g_j   for an Ito SDE,  f_S = f otherwise*)
(*    (for additive noise D_y g_j = 0, so f_S = f).                           *)
(* 2. Run time backwards, s = -t, and augment by a = dL/dY and a_theta =      *)
(*    dL/dtheta.  In Stratonovich form (ordinary chain rule) the augmented    *)
(*    state Z = (Y, a, a_theta) follows                                       *)
(*      dZ = F_S(s, Z) ds + sum_j G_j(s, Z) o dV_j                            *)
(*      F_S = ( -f_S(-s,Y),  a . D_y f_S(-s,Y),  a . D_theta f_S(-s,Y) )      *)
(*      G_j = ( -g_j(-s,Y),  a . D_y g_j(-s,Y),  a . D_theta g_j(-s,Y) )      *)
(*    where V is the Brownian motion read backwards (increments of V over     *)
(*    [s1,s2] are W(-s1) - W(-s2)).                                           *)
(* 3. If the forward SDE is Ito the adjoint is integrated by an Ito solver,   *)
(*    so the augmented system is converted with the generic rule              *)
(*      F = F_S + 1/2 sum_j (D_Z G_j) G_j                                     *)
(*    (D_Z: Jacobian with respect to the whole augmented state), obtained     *)
(*    here by polynomial differentiation of G_j - not from any formula of     *)
(*    the implementation.                                                     *)
(* 4. Diffusion-vector product: sum_j G_j v_j.  Milstein correction for       *)
(*    diagonal noise: sum_j (D_Z G_j) G_j v2_j.                               *)
(*                                                                            *)
(* TLC evaluates all of this exactly at dyadic (s, y, a, v, v2, theta) for    *)
(* the 2 x 4 (sde_type, noise_type) combinations and prints the values, plus  *)
(* the derivatives of w . F, w . (G v), w . Milstein with respect to y, a     *)
(* and theta (what autograd must return when gradients are enabled).         *)
EXTENDS Poly, Json

CONSTANTS Settings,   \* set of <<s, theta>>: adjoint time and the P parameter values (rationals)
          Rows        \* set of [y, a, v, v2, w]: state, adjoint, vectors (length 2) and output weights (length 2D+P)

D  == 2
P  == 8               \* theta_1..theta_4 <-> a 2x2 matrix parameter, theta_5, theta_6 <-> an UNUSED parameter,
                      \* theta_7, theta_8 <-> the parameter of a sub-module
NV == 1 + 2 * D + P
vY(i)  == 1 + i
vA(i)  == 1 + D + i
vTh(p) == 1 + 2 * D + p
T      == PVar(NV, 1)
Y(i)   == PVar(NV, vY(i))
A(i)   == PVar(NV, vA(i))
TH(p)  == PVar(NV, vTh(p))
C(n, d) == PConst(NV, R(n, d))
RECURSIVE Prod(_)
Prod(s) == IF Len(s) = 1 THEN s[1] ELSE PMul(Head(s), Prod(Tail(s)))
Sum(s)  == PSumSeq(s)

--------------------------------------------------------------------------------
(* Forward SDEs: two drifts x four diffusions.                                *)
DriftA == << Sum(<< Prod(<<TH(1), Y(1)>>), Prod(<<TH(2), Y(2), Y(2)>>), Prod(<<TH(7), T>>), Prod(<<C(1, 2), Y(1), Y(2)>>) >>),
             Sum(<< Prod(<<TH(3), Y(1), Y(2)>>), Prod(<<TH(4), Y(2)>>), Prod(<<TH(8), Y(1), Y(1)>>), Prod(<<C(-1, 4), T>>) >>) >>
DriftB == << Sum(<< Prod(<<TH(1), TH(2), Y(1), Y(1)>>), Prod(<<TH(7), T, Y(2)>>), C(1, 2) >>),
             Sum(<< Prod(<<TH(3), Y(1)>>), Prod(<<TH(4), TH(8), Y(2), Y(2)>>), Prod(<<C(1, 2), T, Y(1), Y(2)>>) >>) >>
Z0 == PZero
Diffusion(noise) ==
  CASE noise = "diagonal" ->   \* g_i depends on (t, y_i) only
         << << Sum(<< TH(7), Prod(<<TH(2), Y(1)>>), Prod(<<C(1, 2), Y(1), Y(1)>>) >>), Z0 >>,
            << Z0, Sum(<< Prod(<<TH(8), Y(2)>>), Prod(<<TH(3), T>>), Prod(<<C(1, 4), Y(2), Y(2)>>) >>) >> >>
    [] noise = "additive" ->   \* g depends on t only
         << << Sum(<< TH(1), Prod(<<TH(7), T>>) >>), TH(2) >>,
            << Prod(<<TH(3), T>>), Sum(<< Prod(<<TH(4), TH(8)>>), C(1, 2) >>) >> >>
    [] noise = "scalar" ->
         << << Sum(<< Prod(<<TH(1), Y(2)>>), Prod(<<TH(7), Y(1), Y(2)>>), C(1, 2) >>) >>,
            << Sum(<< Prod(<<TH(4), Y(1)>>), Prod(<<TH(8), T>>), Prod(<<C(-1, 4), Y(2), Y(2)>>) >>) >> >>
    [] noise = "general" ->
         << << Sum(<< Prod(<<TH(1), Y(1)>>), C(1, 2) >>), Sum(<< Prod(<<TH(2), Y(2)>>), TH(7) >>) >>,
            << Prod(<<TH(3), Y(1), Y(2)>>), Sum(<< TH(4), Prod(<<TH(8), Y(1), Y(1)>>), Prod(<<C(1, 4), T, Y(2)>>) >>) >> >>
NoiseDim(noise) == IF noise = "scalar" THEN 1 ELSE 2

Members == { [calc |-> c, noise |-> n, drift |-> dr] :
               c \in {"ito", "stratonovich"}, n \in {"diagonal", "additive", "scalar", "general"}, dr \in {"A", "B"} }

--------------------------------------------------------------------------------
(* The definition.                                                            *)
YVars  == [i \in 1..D |-> vY(i)]
ThVars == [p \in 1..P |-> vTh(p)]
ZVars  == [k \in 1..(2 * D) |-> IF k <= D THEN vY(k) ELSE vA(k - D)]     \* a_theta never enters F or G
AVec   == [i \in 1..D |-> A(i)]

Col(g, j) == [i \in 1..D |-> g[i][j]]

StratDrift(calc, f, g, m) ==
  IF calc = "ito" THEN PVSub(f, PVScale(RHalf, [i \in 1..D |-> PSumSeq([j \in 1..m |-> PJacVec(Col(g, j), YVars, Col(g, j))[i]])]))
  ELSE f

\* ( -u, a . D_y u, a . D_theta u ) for a forward vector field u
Augment(u) == PVNeg(u) \o PVecJac(AVec, u, YVars) \o PVecJac(AVec, u, ThVars)

\* (D_Z G) G for an augmented diffusion column G (length 2D + P)
ConvTerm(G) == PJacVec(G, ZVars, SubSeq(G, 1, 2 * D))

Fields(mb) ==
  LET f  == IF mb.drift = "A" THEN DriftA ELSE DriftB
      g  == Diffusion(mb.noise)
      m  == NoiseDim(mb.noise)
      fS == StratDrift(mb.calc, f, g, m)
      FS == Augment(fS)
      G  == [j \in 1..m |-> Augment(Col(g, j))]
      H  == [j \in 1..m |-> ConvTerm(G[j])]
      F  == IF mb.calc = "ito"
            THEN PVAdd(FS, PVScale(RHalf, [c \in 1..(2 * D + P) |-> PSumSeq([j \in 1..m |-> H[j][c]])]))
            ELSE FS
  IN [m |-> m, f |-> f, g |-> g, fS |-> fS, FS |-> FS, G |-> G, H |-> H, F |-> F]

\* numbers at one point
Point(st, row) == <<RNeg(st[1])>> \o row.y \o row.a \o st[2]          \* forward time is -s
WDot(w, vec)   == PSumSeq([c \in 1..Len(vec) |-> PScale(w[c], vec[c])])
Grad(phi, x)   == [dy  |-> [k \in 1..D |-> PEval(PDer(phi, vY(k)), x)],
                   da  |-> [k \in 1..D |-> PEval(PDer(phi, vA(k)), x)],
                   dth |-> [p \in 1..P |-> PEval(PDer(phi, vTh(p)), x)]]

At(fl, mb, st, row) ==
  LET x    == Point(st, row)
      GP   == [c \in 1..(2 * D + P) |-> PSumSeq([j \in 1..fl.m |-> PScale(row.v[j], fl.G[j][c])])]
      MIL  == [c \in 1..(2 * D + P) |-> PSumSeq([j \in 1..fl.m |-> PScale(row.v2[j], fl.H[j][c])])]
  IN [calc |-> mb.calc, noise |-> mb.noise, drift |-> mb.drift, m |-> fl.m,
      s |-> st[1], theta |-> st[2], y |-> row.y, a |-> row.a, v |-> SubSeq(row.v, 1, fl.m),
      v2 |-> SubSeq(row.v2, 1, fl.m), w |-> row.w,
      f |-> PVTerms(fl.f), g |-> [i \in 1..D |-> PVTerms(fl.g[i])],
      F |-> PVEval(fl.F, x), GP |-> PVEval(GP, x), MIL |-> PVEval(MIL, x),
      dF |-> Grad(WDot(row.w, fl.F), x), dGP |-> Grad(WDot(row.w, GP), x), dMIL |-> Grad(WDot(row.w, MIL), x)]

--------------------------------------------------------------------------------
VARIABLES phase, mem, fld
vars == <<phase, mem, fld>>
None == [none |-> TRUE]

Init == phase = "start" /\ mem = None /\ fld = None
Pick == /\ phase = "start"
        /\ \E mb \in Members : mem' = mb
        /\ phase' = "picked" /\ fld' = None
Emit == /\ phase = "picked"
        /\ fld' = Fields(mem)
        /\ \A st \in Settings : \A row \in Rows : PrintT("@@" \o ToJson(At(fld', mem, st, row)))
        /\ phase' = "done" /\ mem' = mem
Next == Pick \/ Emit
Spec == Init /\ [][Next]_vars

--------------------------------------------------------------------------------
(* Lemmas on the symbolic fields (checked by TLC for every member).           *)
Done  == phase = "done"
PVIsZero(v) == \A c \in 1..Len(v) : PIsZero(v[c])
PVSame(u, v) == PVIsZero(PVSub(u, v))
SumCols(f(_), m) == [i \in 1..D |-> PSumSeq([j \in 1..m |-> f(j)[i]])]

\* the state part of the adjoint drift is minus the forward drift, with the DOUBLE Stratonovich correction
\* sum_j (D g_j) g_j (not one half of it) when the SDE is Ito; nothing is added for Stratonovich SDEs
StatePartDrift ==
  Done => LET corr == SumCols(LAMBDA j : PJacVec(Col(fld.g, j), YVars, Col(fld.g, j)), fld.m)
          IN PVSame(SubSeq(fld.F, 1, D),
                    IF mem.calc = "ito" THEN PVAdd(PVNeg(fld.f), corr) ELSE PVNeg(fld.f))
\* the state part of the diffusion is minus the forward diffusion
StatePartDiffusion == Done => \A j \in 1..fld.m : PVSame(SubSeq(fld.G[j], 1, D), PVNeg(Col(fld.g, j)))
\* additive noise / Stratonovich: no correction at all
NoCorrectionWhenNotNeeded ==
  Done /\ (mem.noise = "additive" \/ mem.calc = "stratonovich") => PVSame(fld.F, Augment(fld.f))
AdditiveHasNoMilstein ==
  Done /\ mem.noise = "additive" => \A j \in 1..fld.m : PVIsZero(fld.H[j])
\* a parameter the SDE does not use receives identically zero drift, diffusion and Milstein term
UnusedParameterZero ==
  Done => \A p \in {5, 6} : /\ PIsZero(fld.F[2 * D + p])
                            /\ \A j \in 1..fld.m : PIsZero(fld.G[j][2 * D + p]) /\ PIsZero(fld.H[j][2 * D + p])
\* the adjoint and parameter parts are linear in a; the state part does not contain a
ADeg(mo) == mo[vA(1)] + mo[vA(2)]
LinearInAdjoint ==
  Done => \A c \in 1..(2 * D + P) : \A mo \in DOMAIN fld.F[c] : ADeg(mo) = (IF c <= D THEN 0 ELSE 1)
\* the Ito parameter part is  a . D_theta f - sum_j a . (D_theta D_y g_j) g_j  (the symmetric pieces cancel)
ItoParameterPart ==
  Done /\ mem.calc = "ito" =>
     LET second(j) == [p \in 1..P |-> PSumSeq([i \in 1..D |-> PSumSeq([l \in 1..D |->
                          PMul(PMul(A(i), PDer(PDer(fld.g[i][j], vY(l)), vTh(p))), fld.g[l][j])])])]
         want == [p \in 1..P |-> PSub(PVecJac(AVec, fld.f, ThVars)[p], PSumSeq([j \in 1..fld.m |-> second(j)[p]]))]
     IN PVSame(SubSeq(fld.F, 2 * D + 1, 2 * D + P), want)

--------------------------------------------------------------------------------
(* Built-in evaluation points.                                                *)
Hf(n) == R(n, 2)
DefaultSettings == { << Hf(1), << Hf(1), Hf(-1), Hf(2), Hf(1), Hf(3), Hf(-2), Hf(-1), Hf(3) >> >>,
                     << Hf(-2), << Hf(-2), Hf(1), Hf(1), Hf(3), Hf(1), Hf(1), Hf(2), Hf(-1) >> >> }
DefaultRows ==
  { [y |-> <<Hf(1), Hf(-3)>>, a |-> <<Hf(2), Hf(1)>>, v |-> <<Hf(-1), Hf(3)>>, v2 |-> <<Hf(1), Hf(-2)>>,
     w |-> <<Hf(1), Hf(-2), Hf(2), Hf(1), Hf(-1), Hf(1), Hf(2), Hf(-2), Hf(1), Hf(3), Hf(-1), Hf(2)>>],
    [y |-> <<Hf(-2), Hf(1)>>, a |-> <<Hf(-1), Hf(3)>>, v |-> <<Hf(2), Hf(1)>>, v2 |-> <<Hf(-3), Hf(1)>>,
     w |-> <<Hf(2), Hf(1), Hf(-1), Hf(2), Hf(1), Hf(-1), Hf(1), Hf(1), Hf(-2), Hf(1), Hf(2), Hf(-1)>>] }
=============================================================================
