#!/usr/bin/env python3
"""Confirm and file one seeded change:  seed_eval.py <id> <src_dir> <property> [--checks C03,C05] [--skip-suite]

<src_dir> holds patch.diff, demo.py, notes.md as delivered by an independent sub-agent that saw only the text of
the property.  Steps (everything is recorded in /verif/seeded/<id>/meta.json):
  1. scratch worktree of /repo (under /tmp), patch applies, package imports;
  2. demo fails with the change, passes without it;
  3. the repository's full test-suite passes with the change (same command as BASELINE, -n 16);
  4. the change is applied to /repo itself (git -C /repo apply), the quick checks of the named properties are run
     (evidence/replays redirected so that the committed evidence is untouched), and it is undone straight afterwards
     (git -C /repo checkout -- .);
  5. the worktree is removed.
"""
import argparse
import json
import os
import re
import shutil
import subprocess
import sys
import time

VERIF = os.path.dirname(os.path.dirname(os.path.abspath(__file__)))
PY = "/venv/bin/python"


def sh(cmd, timeout=None, **kw):
    return subprocess.run(cmd, shell=True, capture_output=True, text=True, timeout=timeout, **kw)


def main():
    ap = argparse.ArgumentParser()
    ap.add_argument("id")
    ap.add_argument("src")
    ap.add_argument("property")
    ap.add_argument("--checks", default=None)
    ap.add_argument("--skip-suite", action="store_true", help="keep the test-suite result already recorded in meta.json")
    ap.add_argument("--needs", default="")
    ap.add_argument("--tier", default="quick")
    ap.add_argument("--mode", default="worktree", choices=["worktree", "repo"])
    a = ap.parse_args()
    checks = (a.checks or a.property).split(",")
    dst = os.path.join(VERIF, "seeded", a.id)
    os.makedirs(dst, exist_ok=True)
    for fn in ("patch.diff", "demo.py", "notes.md"):
        if os.path.exists(os.path.join(a.src, fn)) and os.path.abspath(a.src) != os.path.abspath(dst):
            shutil.copy(os.path.join(a.src, fn), dst)
    patch = os.path.join(dst, "patch.diff")
    meta_path = os.path.join(dst, "meta.json")
    meta = json.load(open(meta_path)) if os.path.exists(meta_path) else {}
    meta.update(id=a.id, breaks_property=a.property, origin="independent sub-agent given only the text of the property "
                "and a scratch worktree of /repo", repo_commit=sh("git -C /repo rev-parse --short HEAD").stdout.strip())
    if a.needs:
        meta["needs_to_manifest"] = a.needs
    wt = f"/tmp/sv/{a.id}"
    sh(f"git -C /repo worktree remove --force {wt}")
    os.makedirs("/tmp/sv", exist_ok=True)
    r = sh(f"git -C /repo worktree add --detach {wt} HEAD")
    assert r.returncode == 0, r.stderr
    try:
        ran = meta.setdefault("ran", {})
        env = f"cd {wt} && PYTHONPATH={wt} "
        r0 = sh(env + f"{PY} {dst}/demo.py", timeout=1800)
        ran["demo_without_change"] = dict(rc=r0.returncode, tail=(r0.stdout + r0.stderr)[-400:])
        r = sh(f"git -C {wt} apply {patch}")
        ran["patch_applies"] = r.returncode == 0
        assert r.returncode == 0, r.stderr
        r = sh(env + f"{PY} -c 'import torchsde; print(torchsde.__file__)'")
        ran["imports"] = r.returncode == 0 and wt in r.stdout
        r1 = sh(env + f"{PY} {dst}/demo.py", timeout=1800)
        ran["demo_with_change"] = dict(rc=r1.returncode, tail=(r1.stdout + r1.stderr)[-600:])
        print("demo without:", r0.returncode, " with:", r1.returncode, flush=True)
        if not a.skip_suite:
            t0 = time.time()
            r = sh(env + f"{PY} -m pytest -q -p no:cacheprovider --timeout=900 --continue-on-collection-errors -n 16 tests",
                   timeout=7200)
            tail = r.stdout.strip().splitlines()[-1] if r.stdout.strip() else ""
            ran["test_suite_with_change"] = dict(rc=r.returncode, summary=tail, wall_s=round(time.time() - t0))
            print("suite:", r.returncode, tail, flush=True)
        # ---- the registered checks against the change ---------------------------------------------------
        # mode "worktree" (default): the checks run with PYTHONPATH / VERIF_REPO pointing at the patched scratch
        # worktree, so that nothing else that is running against /repo is disturbed; mode "repo": the change is
        # applied to /repo itself (git -C /repo apply), the checks are run, and it is undone straight afterwards.
        scratch = f"/tmp/sv_ev/{a.id}"
        shutil.rmtree(scratch, ignore_errors=True)
        os.makedirs(scratch)
        results = meta.setdefault("checks", {})
        if a.mode == "repo":
            assert sh("git -C /repo status --porcelain").stdout.strip() == "", "/repo is not clean"
            r = sh(f"git -C /repo apply {patch}")
            assert r.returncode == 0, r.stderr
            envp = ""
        else:
            envp = f"PYTHONPATH={wt} VERIF_REPO={wt} "
        try:
            for c in checks:
                t0 = time.time()
                r = sh(f"cd {VERIF} && {envp}VERIF_EVIDENCE_DIR={scratch} VERIF_REPLAY_DIR={scratch} VERIF_TIER={a.tier} {PY} "
                       f"-m checks.check --property {c} --tier {a.tier}", timeout=7200)
                out = r.stdout + r.stderr
                viol = [l for l in out.splitlines() if l.startswith("VIOLATION")]
                detail = [l.strip() for l in out.splitlines() if l.startswith("  ")][:3]
                prev = results.get(f"{c}:{a.tier}")
                results[f"{c}:{a.tier}"] = dict(rc=r.returncode, violations=len(viol), first=detail, wall_s=round(time.time() - t0),
                                              mode=a.mode, machinery_failure="MACHINERY-FAILURE" in out,
                                              tail=out[-600:] if r.returncode == 2 else "")
                if prev is not None:      # an earlier evaluation (older /verif): kept, so that a miss that was repaired stays visible
                    results[f"{c}:{a.tier}"]["earlier"] = prev.pop("earlier", []) + [dict(rc=prev["rc"], verif=prev.get("verif", ""))]
                results[f"{c}:{a.tier}"]["verif"] = sh(f"git -C {VERIF} rev-parse --short HEAD").stdout.strip()
                print(f"check {c} {a.tier} [{a.mode}]: rc={r.returncode} violations={len(viol)} {detail[:1]}", flush=True)
        finally:
            if a.mode == "repo":
                sh("git -C /repo checkout -- .")
                assert sh("git -C /repo status --porcelain").stdout.strip() == ""
            shutil.rmtree(scratch, ignore_errors=True)
    finally:
        sh(f"git -C /repo worktree remove --force {wt}")
    ok_demo = meta["ran"]["demo_without_change"]["rc"] == 0 and meta["ran"]["demo_with_change"]["rc"] != 0
    ok_suite = a.skip_suite and meta["ran"].get("test_suite_with_change", {}).get("rc") == 0 or \
        meta["ran"].get("test_suite_with_change", {}).get("rc") == 0
    meta["confirmed"] = bool(ok_demo and ok_suite)
    meta["detected_by"] = sorted(k for k, v in results.items() if v["rc"] == 1)
    with open(meta_path, "w") as fh:
        json.dump(meta, fh, indent=1)
    print(json.dumps(dict(id=a.id, confirmed=meta["confirmed"], detected_by=meta["detected_by"]), indent=1))


if __name__ == "__main__":
    main()
