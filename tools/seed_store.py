#!/usr/bin/env python3
"""Store a confirmed seeded change under /verif/seeded/<id>/ (patch.diff, demo.py, notes.txt, meta.json).

usage: seed_store.py <seed_out_dir> <property> <needs (one line)> <detected_by json> [also_breaks ...]
The confirmation itself (demo fails with / passes without, tests pass, checks run) is done by
tools/seed_confirm.sh; this script only files the artefacts and the record of what was run.
"""
import json
import os
import shutil
import sys

HERE = os.path.dirname(os.path.dirname(os.path.abspath(__file__)))


def main():
    src, prop, needs, detected = sys.argv[1:5]
    also = sys.argv[5:]
    sid = os.path.basename(src.rstrip("/"))
    dst = os.path.join(HERE, "seeded", sid)
    os.makedirs(dst, exist_ok=True)
    for fn in ("patch.diff", "demo.py", "notes.txt"):
        if os.path.exists(os.path.join(src, fn)):
            shutil.copy(os.path.join(src, fn), os.path.join(dst, fn))
    meta = dict(id=sid, property=prop, also_breaks=also, needs_to_manifest=needs,
                confirmed=json.loads(detected).get("confirmed", {}),
                checks=json.loads(detected).get("checks", {}),
                how_to_rerun=[f"git -C /repo apply /verif/seeded/{sid}/patch.diff",
                              f"cd /verif && /venv/bin/python -m checks.check --property {prop} --tier quick",
                              "git -C /repo checkout -- ."])
    with open(os.path.join(dst, "meta.json"), "w") as fh:
        json.dump(meta, fh, indent=1)
    print("stored", dst)


if __name__ == "__main__":
    main()
