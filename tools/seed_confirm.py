#!/usr/bin/env python3
"""Phase B of confirming a seeded change: apply it to /repo, run the registered quick checks, undo it
straight afterwards, and file the artefacts under /verif/seeded/<id>/ with meta.json.

usage: seed_confirm.py <seed_out_dir> [<seed_out_dir> ...]
Needs /tmp/seed_eval/<id>/{tests.log,demo_with.log,demo_without.log} from the earlier phases.
"""
import json
import os
import re
import shutil
import subprocess
import sys
import time

VERIF = os.path.dirname(os.path.dirname(os.path.abspath(__file__)))
PY = "/venv/bin/python"

PLAN = {
    "C03_1": (["C03"], "davie/foster, shape (B,m) m>=2, return_A=True and a query answered from >= 3 stored pieces"),
    "C03_2": (["C03"], "tol>0 (any BrownianTree / BrownianInterval(tol=...)) and a query exactly one tolerance wide between two different grid points"),
    "C04_1": (["C04"], "cache_size=None (or large), dt hint with > 65 steps per pre-shaped piece, sequential steps in more than one piece: nodes at equal depth > 64 share seeds"),
    "C05_1": (["C05", "C03"], "BrownianTree with w0 != 0 and a point evaluation bm(t) where [t0,t] is a single tree node (t1 or a dyadic point)"),
    "C07_1": (["C07"], "cache_size=0 and any non-trivial query (AttributeError from the cache stand-in)"),
    "C07_2": (["C07", "C03"], "size=(), davie/foster and an empty query (ta==tb, bm(t0), or end points equal after rounding)"),
    "C12_1": (["C12", "C13"], "ts[-1]-ts[0] not a multiple of dt (steps spread evenly instead of a clipped last step)"),
    "C12_2": (["C12"], "ts given as a list and y0 dtype different from the process default dtype"),
    "C13_1": (["C13"], "srk, end time off the dt grid, last chunk consisting only of the clipped step (stale cached 1/dt, sqrt(dt))"),
    "C13_2": (["C13", "C12"], "output exactly at a grid time: y0 + w (y1 - y0) differs from y1 in the last bit, only torch.equal sees it"),
    "C14_1": (["C14"], "stiff input whose error stays > 1 down to dt_min: the forced accept compares the tried length (1 ulp above dt_min) and never fires"),
    "C14_2": (["C14"], "adaptive=True, reversible_heun (extra state) and at least one rejected trial"),
    "C16_1": (["C16"], "diffusion supplied only through f_and_g, a solver asking for g alone (milstein/srk/euler_heun/log_ode), diagonal noise"),
    "C16_2": (["C16"], "ForwardSDE(fast_dg_ga_jvp_column_sum=True) with batch > 1 and m > 1"),
    "C19_1": (["C19"], "repeated times in ts (>= instead of >)"),
    "C19_2": (["C19"], "sdeint_adjoint with dt a tensor requiring grad (dropped from assert_no_grad by a silent zip truncation)"),
    "C09_1": (["C09", "C11"], "Stratonovich SDE, non-default adjoint_method='euler_heun', diffusion depending on time non-evenly"),
    "C09_2": (["C09"], "nn.Module SDE and an explicit adjoint_params that is a strict subset or ()"),
    "C10_1": (["C10"], "reversible pair, >= 3 output times, loss with exactly zero weight on the last output time(s)"),
    "C11_1": (["C11"], "Ito SDE, general noise, >= 2 Brownian channels, state-dependent diffusion"),
    "C11_2": (["C11"], "diagonal noise, Milstein adjoint, g' != 0 (value of the adjoint Milstein term)"),
    "C15_1": (["C15", "C12"], "process default dtype float32, float64 solve, dt not representable in float32 (0.1, 0.05)"),
    "C20_1": (["C20", "C04"], "davie/foster, batch dimension, m >= 2, return_A=True: all batch rows share the Levy noise"),
    "C02_1": (["C02"], "srk with additive noise whose diffusion depends on t"),
    "C02_2": (["C02"], "srk with diagonal/scalar noise whose diffusion depends on t (one stage time for f and g)"),
    "C08_1": (["C08"], "derivative-based Milstein, gradients w.r.t. diffusion parameters, y0 NOT requiring grad, few large steps"),
    "C08_2": (["C08"], "log_ode, general non-commutative noise, m >= 2, plain autograd backprop"),
    "C17_1": (["C17"], "euler_heun with additive noise whose diffusion depends on t"),
    "C17_2": (["C17"], "adaptive=True, solver whose strong_order depends on the noise declaration, query-independent Brownian path"),
    "C18_1": (["C18"], "logqp=True, general/additive noise, full-column-rank g with condition number > 1e6"),
    "C18_2": (["C18"], "logqp=True with len(ts) == 2 or batch size 1 (squeeze removes an axis)"),
    "C06_1": (["C06", "C05"], "BrownianTree with non-zero w0 and a point query at a tree node (t1, midpoint)"),
    "C06_2": (["C06"], "entropy == 0 exactly (falsy, silently replaced by a random entropy)"),
}


def sh(cmd, **kw):
    return subprocess.run(cmd, shell=True, capture_output=True, text=True, **kw)


def main():
    for src in sys.argv[1:]:
        sid = os.path.basename(src.rstrip("/"))
        props, needs = PLAN[sid]
        ev = f"/tmp/seed_eval/{sid}"
        assert sh("git -C /repo status --porcelain").stdout.strip() == "", "/repo not clean"
        r = sh(f"git -C /repo apply {src}/patch.diff")
        if r.returncode != 0:
            print(sid, "APPLY FAILED", r.stderr)
            continue
        checks = {}
        try:
            for p in props:
                t0 = time.time()
                c = sh(f"cd {VERIF} && {PY} -m checks.check --property {p} --tier quick", timeout=3600)
                viol = [l for l in c.stdout.splitlines() if l.startswith("VIOLATION")]
                first = ""
                for i, l in enumerate(c.stdout.splitlines()):
                    if l.startswith("VIOLATION") and i + 1 < len(c.stdout.splitlines()):
                        first = c.stdout.splitlines()[i + 1].strip()[:300]
                        break
                checks[p] = dict(cmd=f"cd /verif && {PY} -m checks.check --property {p} --tier quick", exit=c.returncode,
                                 violation_lines=len(viol), first_violation=first, wall_s=round(time.time() - t0, 1))
        finally:
            sh("git -C /repo checkout -- .")
        assert sh("git -C /repo status --porcelain").stdout.strip() == "", "/repo not restored"
        tests_line = ""
        if os.path.exists(f"{ev}/tests.log"):
            lines = open(f"{ev}/tests.log").read().strip().splitlines()
            tests_line = lines[-1][:200] if lines else ""
        trow = ""
        if os.path.exists("/tmp/seed_eval/tests.txt"):
            for l in open("/tmp/seed_eval/tests.txt"):
                if l.startswith(sid + " "):
                    trow = l.strip()[:400]
        drow = ""
        for l in open("/tmp/seed_eval/results.txt"):
            if l.startswith(sid + " "):
                drow = l.strip()
        m = re.search(r"demo_with=(\d+) demo_without=(\d+)", drow)
        dst = os.path.join(VERIF, "seeded", sid)
        os.makedirs(dst, exist_ok=True)
        for fn in ("patch.diff", "demo.py", "notes.txt"):
            if os.path.exists(os.path.join(src, fn)):
                shutil.copy(os.path.join(src, fn), os.path.join(dst, fn))
        meta = dict(
            id=sid, property=props[0], also_run=props[1:], needs_to_manifest=needs,
            author="independent sub-agent given only the property text and a scratch worktree (nothing from /verif)",
            confirmed=dict(
                demo_exit_with_change=int(m.group(1)) if m else None, demo_exit_without=int(m.group(2)) if m else None,
                demo_cmd="PYTHONPATH=<patched worktree> /venv/bin/python demo.py  (exit != 0 with the change, 0 without)",
                library_tests=trow or tests_line,
                library_tests_cmd="OMP_NUM_THREADS=1 PYTHONPATH=<patched worktree> /venv/bin/python -m pytest -q -n 6 <relevant test files>"),
            checks_on_repo_with_change_applied=checks,
            detected=any(v["exit"] == 1 and v["violation_lines"] > 0 for v in checks.values()),
            how_to_rerun=[f"git -C /repo apply /verif/seeded/{sid}/patch.diff",
                          f"cd /verif && {PY} -m checks.check --property {props[0]} --tier quick",
                          "git -C /repo checkout -- ."])
        json.dump(meta, open(os.path.join(dst, "meta.json"), "w"), indent=1)
        print(sid, {p: (v["exit"], v["violation_lines"]) for p, v in checks.items()}, flush=True)


if __name__ == "__main__":
    main()
