#!/bin/bash
# usage: tools/evalq.sh [--skip-suite] < queue.txt   with lines "<id>|<property>|<checks,comma>|<needs to manifest>" (runs serially; logs in /tmp/seedlog_<id>.log)
export OMP_NUM_THREADS=1 MKL_NUM_THREADS=1
cd /verif
EXTRA=""; [ "$1" = "--skip-suite" ] && EXTRA="--skip-suite"
while IFS='|' read -r id prop checks needs; do
  [ -z "$id" ] && continue
  /venv/bin/python tools/seed_eval.py "$id" "seeded/$id" "$prop" --checks "$checks" --needs "$needs" $EXTRA > /tmp/seedlog_$id.log 2>&1
done
