#!/usr/bin/env python3
"""Rewrites the table of DESIGN.md section 12 from /verif/seeded/*/meta.json."""
import glob
import json
import os
import re

HERE = os.path.dirname(os.path.dirname(os.path.abspath(__file__)))
BEGIN, END = "<!-- seeded-table:begin -->", "<!-- seeded-table:end -->"


def main():
    hist_extra = json.load(open(os.path.join(HERE, "tools", "seed_history.json")))
    summ = json.load(open(os.path.join(HERE, "tools", "seed_summary.json")))
    rows = []
    for mp in sorted(glob.glob(os.path.join(HERE, "seeded", "*", "meta.json"))):
        m = json.load(open(mp))
        det = ", ".join(m.get("detected_by", [])) or "-"
        missed = ", ".join(k for k, v in m.get("checks", {}).items() if v.get("rc") == 0) or "-"
        earlier = [f"{k} silent at {e.get('verif') or 'an earlier commit'}" for k, v in m.get("checks", {}).items()
                   for e in v.get("earlier", []) if e.get("rc") == 0 and v.get("rc") == 1]
        hist = "; ".join(m.get("history", []) + hist_extra.get(m["id"], []) + earlier)
        rows.append(f"| {m['id']} | {m['breaks_property']} | {m.get('summary') or summ.get(m['id'], '')} | {m.get('needs_to_manifest', '')} | "
                    f"{'yes' if m.get('confirmed') else 'NO'} | {det} | {missed} | {hist} |")
    table = ("| id | property | change | needs, to manifest | confirmed | detected by (exit 1) | run but silent | history |\n"
             "|---|---|---|---|---|---|---|---|\n" + "\n".join(rows))
    p = os.path.join(HERE, "DESIGN.md")
    s = open(p).read()
    if BEGIN in s:
        s = re.sub(re.escape(BEGIN) + ".*?" + re.escape(END), BEGIN + "\n" + table + "\n" + END, s, flags=re.S)
    else:
        s = s.replace("(see the table at the end of this section; filled as changes are confirmed)",
                      "(see the table at the end of this section; filled as changes are confirmed)\n\n" + BEGIN + "\n" + table + "\n" + END)
    open(p, "w").write(s)
    print(len(rows), "rows")


if __name__ == "__main__":
    main()
