#!/bin/bash
# Runs every registered check of one tier on /repo as it is and prints one line per property.
#   tools/run_all.sh quick|thorough [C02 C03 ...]
# Evidence goes to /verif/evidence (the committed evidence must come from such a run on the unchanged tree).
tier=${1:-quick}; shift
props=${@:-C02 C03 C04 C05 C06 C07 C08 C09 C10 C11 C12 C13 C14 C15 C16 C17 C18 C19 C20}
cd "$(dirname "$0")/.." || exit 2
for p in $props; do
  s=$(date +%s)
  out=$(VERIF_TIER=$tier /venv/bin/python -m checks.check --property $p --tier $tier 2>&1)
  rc=$?
  echo "$p rc=$rc $(( $(date +%s) - s ))s  $(echo "$out" | grep -E "^$p $tier:" | tail -1)"
  echo "$out" | grep -E "^VIOLATION|^MACHINERY" | head -3
done
