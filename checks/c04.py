"""C04 - Brownian samples have exactly the law of Brownian motion.

TLC (BrownianValues.tla): (i) the single-split lemma for all l, r <= LMax -- the Gram matrix of the children's
(W, H) built from the bridge coefficients is the Brownian one (with one fresh pair of atoms per node this is
the induction step for every tree; BrownianImpl shows node addresses (spawn key, depth) are injective);
(ii) the covariance the answers must have, defined WITHOUT a tree from i.i.d. unit cells and Chen's relation,
with its own sanity lemmas (Var H = h/12, Cov(W,H) = 0); (iii) the Davie / Foster conditional variances as
rational functions, and their consistency (E[Foster] = Davie, total Levy-area variance h^2/4).
Binding (labelled noise): brownian_interval._randn is substituted so that the k-th distinct seed yields the k-th
unit vector; the tensors the real object returns then ARE the coefficient vectors of the answers over the
noise atoms, and their Gram matrix must equal the covariance table TLC printed (1e-12) -- a deterministic
check of the law for every history, free or conditioned on user-supplied W / (W, H) (bridge).  Supplied
end-to-end values are returned bit-for-bit.  Levy areas: conditional mean with the Levy noise zeroed, and
conditional variance = squared norm of the response to one-hot Levy noise, against TLC's rationals.
"""
import random

from harness import brownian as B
from harness import brownian_props as P
from harness import brownian_run as BR
from harness import tlc

LEVEL = "model_checking"


def run(ctx):
    quick = ctx.tier == "quick"
    cat = BR.catalogue(ctx.tier)
    rnd = random.Random(f"{ctx.seed}:C04")
    ctx.rule = ("labelled-noise replay of TLC-generated histories: case = (configuration, history, Levy mode, supplied "
                "W/H mode); non-trivial = the history creates >= 1 split so that bridge coefficients are exercised; "
                "every pair of asked/probe intervals contributes 1-3 Gram entries compared with TLC's rationals")
    ctx.assumptions = ["Gaussianity itself follows from linearity in i.i.d. standard normal atoms (torch.randn), "
                       "which is trusted", "exact covariance compared at relative 2e-12",
                       "numpy SeedSequence treated as injective: distinct (entropy, spawn key, depth) give distinct seeds"]
    gridT = 8
    res = tlc.run("BrownianValues", timeout=900, workers=2, cfg_text=(
        f"SPECIFICATION Spec\nCONSTANTS LMax = {16 if quick else 28} GridT = {gridT}\n"
        "CONSTANT LinkK = 5\n"
        "INVARIANT InvLemma\nINVARIANT InvLink\nINVARIANT InvStats\nINVARIANT InvTable\nCHECK_DEADLOCK FALSE\n"))
    ctx.add_tlc(res, "BrownianValues: split lemma, link to the cleared-denominator polynomials (h, S free), covariance "
                     "definition, Levy variances; prints tables")
    if not res.ok:
        ctx.violation(dict(kind="spec", invariant=res.violated), "law lemma violated in the specification")
        return
    # the single-split lemma for ALL l, r (not only TLC's grid): TLAPS proves the cleared-denominator identities
    # that InvLink ties to the coefficient formulas; a wrong coefficient must make a proof obligation fail
    # (thorough tier: tlapm needs 20-70 s)
    if not quick:
        from harness import tlaps
        pr = tlaps.run("SplitLemmaProof", timeout=900)
        ctx.notes["tlaps_split_lemma"] = pr.summary()
        if not pr.ok:
            raise tlc.TLCMachineryError(f"SplitLemmaProof: {pr.failed}/{pr.obligations} obligations failed\n{pr.output[-1500:]}")
        import os as _os
        src = open(_os.path.join(tlc.SPEC_DIR, "SplitPolys.tla")).read()
        assert "3*h*l*l*r*r" in src
        mut = src.replace("P_WlWl(l, r, h, S) == h*h*h*l*l + 3*h*l*l*r*r", "P_WlWl(l, r, h, S) == h*h*h*l*l + 5*h*l*l*r*r")
        prm = tlaps.run("SplitLemmaProof", extra_modules={"SplitPolys": mut}, timeout=900)
        ctx.notes["tlaps_split_lemma_wrong_coefficient"] = prm.summary()
        if prm.failed == 0:
            raise tlc.TLCMachineryError("SplitLemmaProof with a wrong coefficient was proved: the proof is vacuous")
    res_d = tlc.run("BrownianDerived", timeout=600, workers=1, cfg_text=f"SPECIFICATION Spec\nCONSTANT N = {5 if quick else 7}\nCHECK_DEADLOCK FALSE\n")
    ctx.add_tlc(res_d, "BrownianDerived: ReverseBrownian is the path -B(-t) (W, U from its own cells; Chen), legacy U breaks it; "
                       "offset wrappers: points are the path, w0 only on points")
    if not res_d.ok:
        ctx.violation(dict(kind="spec", invariant=res_d.violated or "assumption"), "wrapper lemma violated in the specification")
    cov = levytab = None
    for p in res.printed:
        if p["kind"] == "cov":
            cov = P.cov_lookup(p["rows"])
        elif p["kind"] == "levy":
            levytab = p["rows"]
    ctx.notes["cov_table_entries"] = len(cov)

    # node addresses are injective / one seed set per node: structural invariants of the model
    for name in (["A"] if quick else ["A", "A3", "F", "D"]):
        r2 = BR.exhaustive(ctx, name, cat[name], ["TypeOK", "Partition", "CacheNoDup"], props=["RefineOnly"])
        if not r2.ok:
            ctx.drift(f"{name}: model invariant {r2.violated} violated")

    # the law on every reachable tree of the implementation-shaped model (BrownianLaw.tla): thorough tier
    if not quick:
        import os
        for name in ("A", "A3"):
            cfg = cat[name]
            c = ("SPECIFICATION Spec\n" + cfg.constants_cfg() + "INVARIANT ChildSum\nINVARIANT Law\nINVARIANT FreshAtoms\n"
                 "CONSTRAINT Bounded\nVIEW TreeView\nCHECK_DEADLOCK FALSE\n")
            r3 = tlc.run("BrownianLaw", cfg_text=c, timeout=1800, workers=8)
            ctx.add_tlc(r3, f"BrownianLaw {name}: ChildSum, Law, FreshAtoms on every reachable tree")
            if not r3.ok:
                ctx.violation(dict(kind="spec", invariant=r3.violated, cfg=name), "law violated on a reachable tree of the model")
        # non-vacuity: a wrong bridge coefficient in the spec must be rejected by Law
        src = open(os.path.join(tlc.SPEC_DIR, "BrownianLaw.tla")).read()
        mut = src.replace("MODULE BrownianLaw", "MODULE BrownianLawMut").replace("sl  == R(6 * l * r, h * h)", "sl  == R(5 * l * r, h * h)")
        c = ("SPECIFICATION Spec\n" + cat["A"].constants_cfg() + "INVARIANT Law\nCONSTRAINT Bounded\nVIEW TreeView\n"
             "CHECK_DEADLOCK FALSE\n")
        r4 = tlc.run("BrownianLawMut", cfg_text=c, timeout=900, workers=8, extra_modules={"BrownianLawMut": mut})
        ctx.add_tlc(r4, "BrownianLaw with a wrong coefficient (must violate Law)")
        ctx.notes["law_spec_mutant_rejected"] = r4.violated == "Law"
        if r4.violated != "Law":
            ctx.drift("non-vacuity control: BrownianLaw with a wrong bridge coefficient was not rejected")

    names = ["A", "D", "C2", "H6"] if quick else ["A", "A1", "A3", "D", "E", "F", "C2", "C", "B", "G", "H6"]
    modes = [(lv, sup) for lv in ("none", "space-time", "davie") for sup in ("none", "W", "WH")]
    k = 0
    for name in names:
        cfg = cat[name]
        if cfg.N > gridT:
            continue
        behs, _ = BR.behaviours(ctx, name, cfg, 3 if cfg.T // cfg.QStep <= 4 else 2, 60 if quick else 400, ctx.seed)
        probes_all = [(a, b) for a in range(0, cfg.T + 1, cfg.Sub) for b in range(a + cfg.Sub, cfg.T + 1, cfg.Sub)]
        for beh in behs:
            qs = BR.history(beh)
            lv, sup = modes[k % len(modes)]
            k += 1
            probes = rnd.sample(probes_all, min(6, len(probes_all)))
            # every fourth case through ReverseBrownian (the path X(t) = -B(-t) of BrownianDerived.tla)
            wr = "reverse" if (k % 4 == 0 and sup == "none") else "interval"
            fails = P.check_law(cfg, qs, probes, cov, lv, supplied=sup, wrapper=wr)
            if any(f[0] == "machinery_label_overflow" for f in fails):
                raise RuntimeError("label overflow")
            ctx.case((name, str(qs), lv, sup, wr), nontrivial=any(h["nn"] > 1 for h in beh["hist"]), trace=True,
                     sample=dict(cfg=name, history=qs, probes=probes, levy=lv, supplied=sup, wrapper=wr))
            for kind, det in fails[:2]:
                ctx.violation(dict(cfg=name, kind=kind, levy=lv, supplied=sup, entry=det.get("kind"), wrapper=wr),
                              f"Gram entry {det} after history {qs}" + (" (through ReverseBrownian)" if wr == "reverse" else ""),
                              replay=dict(cfg=cfg.as_dict(), queries=qs, probes=probes, levy=lv, supplied=sup))
            if k % 5 == 0:
                for lv2 in ("none", "space-time", "foster"):
                    for kind, det in P.check_supplied_exact(cfg, qs, lv2, supply_H=(k % 2 == 0)):
                        ctx.violation(dict(cfg=name, kind=kind, levy=lv2), f"{kind}: {det} after {qs}",
                                      replay=dict(cfg=cfg.as_dict(), queries=qs, levy=lv2))
                    ctx.case((name, "supplied", str(qs), lv2))

    # ---- long, irregular histories (simulation-sized): N = 8 ticks, 40 random grid queries ---------
    big = B.Cfg(8, 8, 0, 3, False, 0, 5, 8, False)
    for rep in range(4 if quick else 40):
        r = random.Random(f"{ctx.seed}:big{rep}")
        qs = []
        for _ in range(40):
            a, b = sorted(r.sample(range(0, 9), 2))
            qs.append((a * 8, b * 8))
        lv, sup = modes[rep % len(modes)]
        big.CacheSize = [0, 1, 3, 45, -1][rep % 5]
        probes = [(a * 8, b * 8) for a in range(0, 9) for b in range(a + 1, 9)]
        fails = P.check_law(big, qs, r.sample(probes, 8), cov, lv, supplied=sup, K=400)
        if any(f[0] == "machinery_label_overflow" for f in fails):
            raise RuntimeError("label overflow")
        ctx.case(("big", rep, lv, sup), sample=dict(long_history=rep, levy=lv, supplied=sup, cache=big.CacheSize))
        for kind, det in fails[:2]:
            ctx.violation(dict(cfg="big", kind=kind, levy=lv, supplied=sup), f"Gram entry {det}",
                          replay=dict(cfg=big.as_dict(), queries=qs, levy=lv, supplied=sup))

    # ---- deep trees: solver-shaped histories with the real warm-up (chains deeper than 64, pre-shaped pieces) ---
    deep = [(150, 45, False), (624, None, True), (300, None, False)] if quick else \
           [(150, 45, False), (624, None, True), (300, None, False), (1000, 45, True), (700, 1, False), (900, 0, True)]
    for (n, cs, hint) in deep:
        fails, info = P.deep_law(n, cs, hint, backward=not quick)
        if any(f[0] == "machinery_label_overflow" for f in fails):
            raise RuntimeError(f"label overflow {fails}")
        ctx.case(("deep", n, cs, hint), sample=dict(deep=dict(n=n, cache_size=cs, dt_hint=hint), info=info))
        for kind, det in fails[:2]:
            ctx.violation(dict(kind=kind, cache_size=cs, dt_hint=hint), f"{kind}: {det}", replay=dict(n=n, cache_size=cs, dt_hint=hint))

    # ---- Levy-area approximations ---------------------------------------------------------------------
    # fresh atoms: the Levy-area noise of every node is independent of every increment / space-time noise and of
    # the Levy-area noise of every other node (W, H not supplied; whole-interval query included)
    cfgA = cat["A"]
    hists = [[(0, cfgA.T)], [(0, 4), (2, 6), (0, cfgA.T)], [(2, 4), (4, 8), (0, 2), (0, 6)]]
    for levy in ("davie", "foster"):
        for hi, qs in enumerate(hists):
            for size in ((8, 2), (1, 2), (2, 3, 3)):
                fails, info = P.check_fresh_atoms(cfgA.shifted(cfgA.offsets()[hi % len(cfgA.offsets())]), qs, size, levy)
                ctx.case(("fresh-atoms", levy, hi, str(size)), sample=dict(fresh_atoms=dict(levy=levy, history=qs, size=size), info=info))
                for kind, det in fails[:2]:
                    ctx.violation(dict(kind=kind, levy=levy), f"{kind}: {det} after history {qs}, size {size}",
                                  replay=dict(fresh=dict(levy=levy, queries=qs, size=list(size))))
    for levy in ("davie", "foster"):
        fails, worst = P.check_levy(levy, levytab)
        ctx.notes[f"levy_{levy}_worst_rel_err"] = worst
        ctx.case(("levy", levy), sample=dict(levy=levy, rows=len(levytab), worst=worst))
        for kind, det in fails[:3]:
            ctx.violation(dict(kind=kind, levy=levy), f"{kind}: {det}", replay=det)
    ctx.exhaustive = False


def replay(path):
    import json
    r = json.load(open(path))["replay"]
    if isinstance(r, dict) and "fresh" in r:
        f = r["fresh"]
        fails, info = P.check_fresh_atoms(BR.catalogue("quick")["A"], [tuple(q) for q in f["queries"]], tuple(f["size"]), f["levy"])
        print(fails, info)
        return 1 if fails else 0
    print("re-run the check; replay data:", json.dumps(r)[:500])
    return 0
