"""C15 -- reversible Heun is algebraically reversible.

Spec: spec/RevHeun.tla, machine Sym* (linear forms over uninterpreted field evaluations, symbolic in f, g,
step sizes and Brownian increments).  TLC checks, for k <= 4 steps: forward k steps, negate the carried
(f, g), k steps of the SAME step operator on the time-reversed negated SDE with the reversed Brownian motion
give back every forward state (SymReconstructs, SymReturns); the directly written inverse step inverts the
step (SymInverse) and is what the reversed solve computes (SymRevIsInverse); the carried (f, g) are the fields
at z (SymCarriedAtZ).

Binding:
 (A) atom-valued stub SDE through the REAL ReversibleHeun.step / sdeint: the tensors the real code produces are
     coefficient vectors over atoms; they must equal the spec's forms (exact rationals) for 1-3 steps, and the
     real reverse solve must return the forward states exactly (dyadic arithmetic is exact).
 (B) real forward / reverse solves on smooth SDEs over TLC-enumerated (noise, sizes, dt, #steps): every state
     reconstructed to (#steps) * 8 ulp * scale.
"""
import math

import torch
import torchsde
from torchsde import ReverseBrownian
from torchsde._core import base_sde, methods

from harness import tlc
from harness import adjoint as H
from harness.common import rng

LEVEL = "model_checking"
F64 = torch.float64
EPS = torch.finfo(F64).eps

SYM_INVS = ["SymCarriedAtZ", "SymReconstructs", "SymReturns", "SymInverse", "SymRevIsInverse", "SymAffine"]


def _cfg(maxk, invs, tier):
    return ("SPECIFICATION SymSpec\nCONSTANTS\n  MaxK = %d\n  AdjTier = %d\n" % (maxk, tier)
            + "".join(f"INVARIANT {i}\n" for i in invs) + "CHECK_DEADLOCK FALSE\n")


def run_tlc(ctx):
    tier = 0 if ctx.tier == "quick" else 1
    # the theorem, k <= 4, with coverage (every action must be taken)
    res = tlc.run("RevHeun", cfg_text=_cfg(4, SYM_INVS, tier), workers=2, timeout=600, coverage=True)
    ctx.add_tlc(res, "RevHeun Sym k<=4: reversibility identity over uninterpreted f, g")
    if not res.ok:
        raise tlc.TLCMachineryError(f"the specification itself violates {res.violated}:\n{res.output[-1500:]}")
    never = [a for a, (d, _t) in res.coverage.items() if a.startswith("Sym") and d == 0]
    if never or not any(a.startswith("Sym") for a in res.coverage):
        raise tlc.TLCMachineryError(f"actions never taken: {never} / coverage {res.coverage}")
    # export of the forward forms for k = 0..3 and of the floating-point scenarios
    exp = tlc.run("RevHeun", cfg_text=_cfg(3, SYM_INVS + ["SymExport", "ReconExport"], tier), workers=1, timeout=600)
    ctx.add_tlc(exp, "RevHeun Sym k<=3: export of forward forms + reconstruction scenarios")
    forms = {p["k"]: p["st"] for p in exp.printed if p.get("kind") == "sym"}
    recon = [p for p in exp.printed if p.get("kind") == "recon"][0]["scns"]
    assert sorted(forms) == [0, 1, 2, 3], sorted(forms)
    return forms, recon


# ------------------------------------------------------------------------------------------------
# (A) atom-valued stub
# ------------------------------------------------------------------------------------------------
def _dyadic(r, lo=-8, hi=8, den=8.0):
    v = 0
    while v == 0:
        v = r.randint(lo, hi)
    return v / den


def _make_solver(sde, bm, dt):
    fn = methods.select(method="reversible_heun", sde_type="stratonovich")
    return fn(sde=base_sde.ForwardSDE(sde), bm=bm, dt=dt, adaptive=False, rtol=0.0, atol=0.0, dt_min=0.0, options={})


def atom_case(ctx, forms, noise, n, variant, m, cells, corrupt=None):
    """cells: list of cell lengths in ticks (tick = 1/8).  variant 'step': direct .step calls (non-uniform grid
    allowed); 'sdeint': through the public API (uniform grid)."""
    r = rng(ctx.seed, "c15atom", noise, n, variant, m, tuple(cells))
    mm = 1 if noise == "diagonal" else m
    D = 1 + 2 * (n + 1) * (1 + mm) + 2
    bm_m = D if noise == "diagonal" else m
    tick = 0.125
    t0 = 0.25
    nticks = sum(cells)
    incs = torch.tensor([[[_dyadic(r) for _ in range(bm_m)]] for _ in range(nticks)], dtype=F64)   # (ticks, 1, m)
    bm = H.GridBrownian(t0, tick, incs)
    edges = [0]
    for c in cells:
        edges.append(edges[-1] + c)
    times = [t0 + e * tick for e in edges]
    hs = {c + 1: times[c + 1] - times[c] for c in range(n)}
    dws = {c + 1: (bm.cum[edges[c + 1]] - bm.cum[edges[c]])[0] for c in range(n)}
    stub = H.AtomSDE(noise, D, m)
    y0 = torch.zeros(1, D, dtype=F64)
    y0[0, 0] = 1.0
    key = dict(part="atom", noise=noise, n=n, variant=variant, m=m)
    tt = [torch.tensor(t, dtype=F64) for t in times]

    # ---- the real code, forward ----
    try:
        with torch.no_grad(), H.quiet():
            if variant == "step":
                solver = _make_solver(stub, bm, hs[1])
                extra = solver.init_extra_solver_state(tt[0], y0)
                states = [(y0, extra)]
                y = y0
                for c in range(n):
                    y, extra = solver.step(tt[c], tt[c + 1], y, extra)
                    states.append((y, extra))
            else:
                ts = torch.stack(tt)
                # one public call per prefix so that every intermediate (f, g, z) is observed, too
                states = [(y0, _make_solver(stub, bm, hs[1]).init_extra_solver_state(tt[0], y0))]
                for c in range(1, n + 1):
                    ys, extra = torchsde.sdeint(stub, y0, ts[:c + 1], bm=bm, method="reversible_heun", dt=hs[1],
                                                extra=True)
                    states.append((ys[-1], extra))
                ys_full = torchsde.sdeint(stub, y0, ts, bm=bm, method="reversible_heun", dt=hs[1])
                for c in range(n + 1):
                    if not torch.equal(ys_full[c], states[c][0]):
                        H.violation_once(ctx, dict(key, clause="prefix"), f"sdeint output {c} differs between prefixes")
    except H.AtomOverflow as e:
        H.violation_once(ctx, dict(key, clause="forward_forms"), f"forward solve: {e}")
        return
    except Exception as e:
        H.violation_once(ctx, dict(key, clause="valid_call_raised"), f"forward solve raised {type(e).__name__}: {str(e)[:200]}")
        return
    if corrupt == "state":
        states[-1] = (states[-1][0], (states[-1][1][0], states[-1][1][1], states[-1][1][2] * 3.0))

    # ---- the specification's forms in the same coordinates ----
    ev = H.FormEvaluator(stub, times, hs, dws)
    forms_ok = True
    why = ""
    try:
        for c in range(n + 1):
            sj = forms[c]
            y, (f, g, z) = states[c]
            for name, real, kind in (("y", y[0], "state"), ("z", z[0], "state"), ("f", f[0], "F"), ("g", g[0], "G")):
                want = ev.form(sj[name], kind)
                if want.shape != real.shape or not torch.equal(want, real):
                    forms_ok = False
                    why = f"{name} after {c} step(s): code {real.tolist()} spec {want.tolist()}"
                    break
            if not forms_ok:
                break
    except H.MissingAtom as e:
        forms_ok = False
        why = str(e)
    if forms_ok and variant == "step":
        extra_calls = set(stub.atoms) - ev.used
        if extra_calls:
            forms_ok = False
            why = f"the code evaluated the fields at {len(extra_calls)} point(s) the specification does not"

    # ---- the real code, reverse solve on the negated time-reversed SDE ----
    rev_ok = True
    rwhy = ""
    yN, (fN, gN, zN) = states[n]
    neg = H.NegReversed(stub)
    rbm = ReverseBrownian(bm)
    try:
        with torch.no_grad(), H.quiet():
            if variant == "step":
                solver = _make_solver(neg, rbm, hs[1])
                y, extra = yN, (-fN, -gN, zN)
                rec = [(y, extra)]
                for c in range(n, 0, -1):
                    y, extra = solver.step(-tt[c], -tt[c - 1], y, extra)
                    rec.append((y, extra))
                for j in range(n + 1):
                    fy, (ff, fg, fz) = states[n - j]
                    ry, (rf, rg, rz) = rec[j]
                    if not (torch.equal(ry, fy) and torch.equal(rz, fz) and torch.equal(rf, -ff) and torch.equal(rg, -fg)):
                        rev_ok = False
                        rwhy = f"state {n - j} not reconstructed exactly: y {ry[0].tolist()} vs {fy[0].tolist()}"
                        break
            else:
                ts = torch.stack(tt)
                ysr, (rf, rg, rz) = torchsde.sdeint(neg, yN, -ts.flip(0), bm=rbm, method="reversible_heun", dt=hs[1],
                                                    extra=True, extra_solver_state=(-fN, -gN, zN))
                for j in range(n + 1):
                    if not torch.equal(ysr[j], states[n - j][0]):
                        rev_ok = False
                        rwhy = f"state {n - j} not reconstructed exactly: {ysr[j][0].tolist()} vs {states[n - j][0][0].tolist()}"
                        break
                f0, g0, z0 = states[0][1]
                if rev_ok and not (torch.equal(rz, z0) and torch.equal(rf, -f0) and torch.equal(rg, -g0)):
                    rev_ok = False
                    rwhy = "final extra state is not the negated initial extra state"
    except H.AtomOverflow as e:
        rev_ok = False
        rwhy = f"reverse solve keeps evaluating the fields at new points (no reconstruction): {e}"
    except Exception as e:
        rev_ok = False
        rwhy = f"reverse solve raised {type(e).__name__}: {str(e)[:200]}"
    ctx.case(("atom", noise, n, variant, m, tuple(cells)), sample=dict(key, atoms=len(stub.atoms), forms_ok=forms_ok, rev_ok=rev_ok),
             trace=True)
    if not rev_ok:
        H.violation_once(ctx, dict(key, clause="reverse_is_inverse"),
                      f"reverse solve on the negated time-reversed SDE does not invert the forward solve "
                      f"(symbolic in f, g): {rwhy}" + ("" if forms_ok else f"; forward forms also differ: {why}"),
                      replay=dict(key, cells=cells, seed=ctx.seed))
    elif not forms_ok:
        ctx.drift(f"C15 {key}: real ReversibleHeun forms differ from spec/RevHeun.tla although the reverse solve "
                  f"inverts the forward solve exactly: {why}")
    return forms_ok, rev_ok


# ------------------------------------------------------------------------------------------------
# (B) floating point reconstruction
# ------------------------------------------------------------------------------------------------
def recon_case(ctx, s, idx, bmkind="grid", adaptive=False):
    """adaptive=True: the same reconstruction with adaptive=True and the controller pinned to dt_min = dt: the error
    estimate is scripted (always 2: "too large"), so every trial is rejected down to dt_min and then accepted, and the
    forward and the reverse solve both walk the uniform grid of half steps dt/2 (the property is not restricted to fixed
    steps).  (Unmeetable tolerances alone do not pin the controller: a trial whose full step and half steps agree bit
    for bit has estimate 0 and lets the step grow.)"""
    noise, b, d, m, hden, n = s["noise"], s["batch"], s["d"], s["m"], s["hden"], s["n"]
    dyadic = hden & (hden - 1) == 0
    dt = 1.0 / hden
    # dyadic grids: the time origin rotates, including time axes far from zero relative to the step (all exact)
    t0 = [0.25, 16384.0, -4096.0][idx % 3] if dyadic else 0.0
    gen = torch.Generator().manual_seed((ctx.seed * 7919 + idx * 104729 + 17) % (2 ** 31))
    sde = H.SmoothSDE(noise, d, m, seed=ctx.seed * 31 + idx)
    y0 = torch.randn(b, d, generator=gen, dtype=F64)
    ts = torch.tensor([t0 + j * dt for j in range(n + 1)], dtype=F64)
    akw = dict(adaptive=True, dt_min=dt, rtol=1e-3, atol=1e-3) if adaptive else {}
    if bmkind == "grid":
        if adaptive:             # the adaptive loop asks for full steps and half steps: a grid of half steps
            incs = torch.randn(2 * n, b, m, generator=gen, dtype=F64) * math.sqrt(dt / 2)
            base = H.GridBrownian(t0, dt / 2, incs)
        else:
            incs = torch.randn(n, b, m, generator=gen, dtype=F64) * math.sqrt(dt)
            base = H.GridBrownian(t0, dt, incs)
    else:
        base = torchsde.BrownianInterval(t0=float(ts[0]), t1=float(ts[-1]), size=(b, m), dtype=F64,
                                         entropy=ctx.seed * 1000 + idx)
    bm = H.RecordingBrownian(base)
    key = dict(part="recon" if not adaptive else "recon_adaptive", noise=noise, grid="dyadic" if dyadic else "nondyadic", bm=bmkind)
    from torchsde._core import adaptive_stepping as _as
    orig_err = _as.compute_error
    if adaptive:
        _as.compute_error = lambda *a, **k: 2.0
    try:
        with torch.no_grad(), H.quiet():
            # every fourth case takes the forward solve (and its final extra state) from sdeint_adjoint: the property
            # speaks of "a forward solve followed by the reverse solve", whichever entry point made the forward solve
            fwd = torchsde.sdeint_adjoint if idx % 4 == 1 else torchsde.sdeint
            ys, (f, g, z) = fwd(sde, y0, ts, bm=bm, method="reversible_heun", dt=dt, extra=True, **akw)
            nq_f = len(bm.log)
            ysr, (fr, gr, zr) = torchsde.sdeint(H.NegReversed(sde), ys[-1], -ts.flip(0), bm=ReverseBrownian(bm),
                                                method="reversible_heun", dt=dt, extra=True,
                                                extra_solver_state=(-f, -g, z), **akw)
    except Exception as e:
        H.violation_once(ctx, dict(key, clause="valid_call_raised"),
                         f"forward/reverse solve raised {type(e).__name__}: {str(e)[:200]}",
                         replay=dict(s, seed=ctx.seed, idx=idx, bm=bmkind))
        return 0.0, 1.0, False
    finally:
        _as.compute_error = orig_err
    scale = float(ys.abs().max())
    err = float((ysr.flip(0) - ys).abs().max())
    err_extra = float((zr - y0).abs().max())
    budget = (2 if adaptive else 1) * n * 8 * EPS * scale
    ctx.case(("recon", noise, b, d, m, hden, n, bmkind, adaptive),
             sample=dict(key, batch=b, d=d, m=m, hden=hden, n=n, err=err, budget=budget))
    sliver = nq_f != (3 * n if adaptive else n)
    if err > budget or err_extra > budget or not bool(torch.isfinite(ysr).all()):
        if not dyadic:
            key["effect"] = "sliver_step" if sliver else "other"
        H.violation_once(ctx, key, f"forward/reverse reversible_heun solves do not reconstruct the trajectory: max error "
                           f"{err:.3e} (z: {err_extra:.3e}) > {n}*8 ulp*{scale:.3g} = {budget:.3e}; batch={b} d={d} m={m} "
                           f"dt=1/{hden} steps={n}; forward made {nq_f} Brownian queries for {n} steps",
                      replay=dict(s, seed=ctx.seed, idx=idx, bm=bmkind))
    return err, budget, sliver


def run(ctx):
    torch.set_num_threads(1)
    forms, recon = run_tlc(ctx)
    # ---- (A) ----
    n_forms_bad = 0
    for noise in H.NOISES:
        ms = (1,) if noise == "scalar" else ((2,) if ctx.tier == "quick" else (1, 2, 3))
        for m in ms:
            for n in (1, 2, 3):
                for variant, cells in (("step", [2, 1, 4][:n]), ("step", [1, 1, 1][:n]), ("sdeint", [2, 2, 2][:n])):
                    out = atom_case(ctx, forms, noise, n, variant, m, cells)
                    if out is not None and not out[0]:
                        n_forms_bad += 1
    # self-check of the binding: a corrupted observation must be noticed (not a verdict on the code)
    import harness.common as common
    probe = common.Ctx("C15", ctx.tier, ctx.seed, LEVEL)
    probe.violation = lambda *a, **k: probe.violations.append(a) or True
    out = atom_case(probe, forms, "general", 2, "step", 2, [2, 1], corrupt="state")
    if out is None or (out[0] and out[1]):
        raise RuntimeError("binding self-check failed: corrupted solver state was not noticed")
    # ---- (B) ----
    recon = sorted(recon, key=lambda s: (s["noise"], s["batch"], s["d"], s["m"], s["hden"], s["n"]))
    worst = 0.0
    nondy = dict(cases=0, failed=0, sliver=0)
    for idx, s in enumerate(recon):
        err, budget, sliver = recon_case(ctx, s, idx, "grid")
        dy = s["hden"] & (s["hden"] - 1) == 0
        if dy:
            worst = max(worst, err / budget)
        else:
            nondy["cases"] += 1
            nondy["failed"] += err > budget
            nondy["sliver"] += bool(sliver)
        if dy and s["n"] <= 16 and idx % 3 == 0:
            err, budget, _ = recon_case(ctx, s, idx, "interval")
            worst = max(worst, err / budget)
        if dy and s["n"] <= 16 and idx % 2 == 0:
            err, budget, _ = recon_case(ctx, s, idx, "grid" if idx % 4 == 0 else "interval", adaptive=True)
            worst = max(worst, err / budget)
    ctx.notes["worst_error_over_budget_dyadic"] = worst
    ctx.notes["nondyadic_dt"] = nondy
    ctx.notes["atom_cases_with_form_mismatch"] = n_forms_bad
    ctx.rule = ("(A) noise type x noise size x 1..3 steps x {direct ReversibleHeun.step on a non-uniform and a uniform "
                "dyadic grid, public sdeint}: tensors of the atom-valued stub run == forms exported by TLC, then the "
                "real reverse solve (NegReversed SDE, ReverseBrownian, negated extras) must return every forward state "
                "bit-exactly; (B) every scenario of RevHeun!ReconScenarios (noise x (batch,d,m) x 1/dt x steps) on a "
                "tanh/sin SDE with a prescribed Brownian path (and a real BrownianInterval on a third of them). "
                "Non-trivial: at least one step, non-zero increments, state-dependent fields.")
    ctx.exhaustive = True
    ctx.assumptions = ["multiplication by dt and sde.prod(g, dW) are (bi)linear (what the symbolic identity assumes)",
                       "dyadic grids so that grid times are exact in float64; non-dyadic dt is run as a separate "
                       "class (a forward solve that takes an extra sliver step is reported with its own key)",
                       "symbolic identity checked for k <= 4 steps; the step operator is the same at every step"]
