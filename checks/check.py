"""Single entry point:  python -m checks.check --property C12 --tier quick [--replay file]

exit 0: property held on everything explored (KNOWN-FINDING lines may be printed)
exit 1: a violation not listed in known_findings.json (VIOLATION line printed)
exit 2: machinery failure (TLC parse error/overflow/timeout, harness exception)
"""
import argparse
import importlib
import os
import sys
import traceback

# tensors here are tiny and the checks parallelise by processes: one intra-op thread per process (must be set
# before torch is imported), otherwise 16 worker processes x 16 threads oversubscribe the machine
os.environ.setdefault("OMP_NUM_THREADS", "1")
os.environ.setdefault("MKL_NUM_THREADS", "1")

sys.path.insert(0, os.path.dirname(os.path.dirname(os.path.abspath(__file__))))

from harness import common  # noqa: E402


def main():
    ap = argparse.ArgumentParser()
    ap.add_argument("--property", required=True)
    ap.add_argument("--tier", default=os.environ.get("VERIF_TIER", "quick"), choices=["quick", "thorough"])
    ap.add_argument("--replay", default=None)
    args = ap.parse_args()
    seed = int(os.environ.get("VERIF_SEED", "0") or 0)
    pid = args.property.upper()
    mod = importlib.import_module(f"checks.{pid.lower()}")
    if args.replay:
        return mod.replay(args.replay)
    ctx = common.Ctx(pid, args.tier, seed, mod.LEVEL)
    try:
        mod.run(ctx)
    except Exception:
        traceback.print_exc()
        print(f"MACHINERY-FAILURE property={pid}", flush=True)
        try:
            ctx.notes["machinery_failure"] = traceback.format_exc()[-2000:]
            ctx.finish()
        except Exception:
            pass
        return 2
    rc = ctx.finish()
    print(f"{pid} {args.tier}: evaluations={ctx.evaluations} nontrivial={len(ctx.nontrivial)} "
          f"states={ctx.states} traces={ctx.traces} violations={len(ctx.violations)} "
          f"known={len(ctx.known_hits)} drift={len(ctx.model_drift)} wall={ctx.notes.get('wall', '')}", flush=True)
    return rc


if __name__ == "__main__":
    sys.exit(main())
