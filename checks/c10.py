"""C10 -- the reversible Heun adjoint reproduces backprop gradients to rounding error.

Spec: spec/RevHeun.tla Part II (machine Adj*): on linear SDEs f = A y + (1+t) c, g_j = B_j y + (1+t) e_j (all four
noise types, d, m <= 2, 1-3 steps, 2-3 outputs aligned with the step grid, every loss-weight pattern) TLC checks
the spec-level theorem AdjTranspose: the hand-derived reverse step (reconstruct by the inverse step + accumulate
cotangents) yields exactly the forward-mode (dual number) derivative of the forward steps, and prints the exact
gradients.  spec/AdjointDriver.tla (through TraceAdjoint) supplies SameNoise / SegmentCalls.

Binding on the real code:
 (1) sdeint_adjoint(reversible_heun, adjoint_reversible_heun) on those scenarios, Brownian stub with the
     prescribed dyadic increments: forward values == TLC's (guard), gradients == TLC's rationals at 1e-12, and
     == real sdeint backprop.
 (2) smooth tanh/sin SDEs over TLC-enumerated (noise, sizes, dt, aligned ts, loss): adjoint vs backprop at
     relative 1e-9 (property verbatim).
 (3) traces (integrate calls + base Brownian queries, recording proxy) validated by TLC against AdjointDriver:
     backward base intervals are the forward ones reversed; extras saved iff the reversible pair is used.
"""
import math
from fractions import Fraction

import torch
import torchsde

from harness import tlc
from harness import adjoint as H

LEVEL = "model_checking"
F64 = torch.float64
PAIR = dict(method="reversible_heun", adjoint_method="adjoint_reversible_heun")
TOL_EXACT = 1e-12
TOL_PROP = 1e-9


def run_tlc(ctx):
    tier = 0 if ctx.tier == "quick" else 1
    cfg = ("SPECIFICATION AdjSpec\nCONSTANTS\n  MaxK = 0\n  AdjTier = %d\n" % tier
           + "".join(f"INVARIANT {i}\n" for i in ("AdjTranspose", "AdjReconstructs", "AdjForwardOK", "AdjExport",
                                                   "SmoothExport")) + "CHECK_DEADLOCK FALSE\n")
    cov = ctx.tier != "quick"          # action coverage costs ~2.5x; it is measured in the thorough tier
    res = tlc.run("RevHeun", cfg_text=cfg, workers=6, timeout=900, coverage=cov)
    ctx.add_tlc(res, "RevHeun Adj: reverse step = transpose of forward step (dual numbers), exact gradients")
    if not res.ok:
        raise tlc.TLCMachineryError(f"the specification itself violates {res.violated}:\n{res.output[-1500:]}")
    if cov:
        never = [a for a, (d, _t) in res.coverage.items() if a.startswith("Adj") and d == 0]
        if never or not any(a.startswith("Adj") for a in res.coverage):
            raise tlc.TLCMachineryError(f"actions never taken: {never}")
    adj = [p for p in res.printed if p.get("kind") == "adj"]
    smooth = [p for p in res.printed if p.get("kind") == "smooth"][0]["scns"]
    return adj, smooth


def _scn_key(s):
    return (s["noise"], s["d"], s["m"], s["n"], tuple(s["outs"]), tuple(sorted(s["wpat"])), s["hden"])


# ------------------------------------------------------------------------------------------------
# (1) exact scenarios
# ------------------------------------------------------------------------------------------------
def exact_case(ctx, p, traces, corrupt=False):
    s = p["scn"]
    noise, d, m, n, hden = s["noise"], s["d"], s["m"], s["n"], s["hden"]
    h = 1.0 / hden
    sde = H.LinearSDE(noise, p["params"])
    y0 = H.rat_tensor(p["y0"]).reshape(1, d).requires_grad_()
    dw = H.rat_tensor(p["dw"]).reshape(n, 1, m)
    ts = torch.tensor([o * h for o in s["outs"]], dtype=F64)
    W = H.rat_tensor(p["w"])                                    # (outs, d)
    if corrupt:
        W = W.clone()
        W[-1, 0] += 0.25
    names = [nm for nm, _ in sde.named_parameters()]
    params = [q for _, q in sde.named_parameters()]
    loss_fn = lambda ys: (ys[:, 0, :] * W).sum()
    key = dict(part="exact", noise=noise, d=d, m=m, n=n, outs=len(s["outs"]))
    # real adjoint run (traced)
    try:
        ys, grads, events, _ = H.traced_adjoint_run(sde, y0, ts, H.GridBrownian(0.0, h, dw), h, PAIR["method"],
                                                    PAIR["adjoint_method"], loss_fn, [y0] + params, h)
    except Exception as e:
        H.violation_once(ctx, dict(key, clause="valid_call_raised"),
                         f"sdeint_adjoint forward/backward raised {type(e).__name__}: {str(e)[:200]}",
                         replay=dict(scn=s, seed=ctx.seed))
        return False
    ga = dict(zip(["y0"] + names, [torch.zeros_like(t) if g is None else g for g, t in zip(grads, [y0] + params)]))
    saved = H.saved_extras_count(ys, len(params))
    # real backprop
    with H.quiet():
        ys2 = torchsde.sdeint(sde, y0, ts, bm=H.GridBrownian(0.0, h, dw), method="reversible_heun", dt=h)
    gb = dict(zip(["y0"] + names, H.grads_of(loss_fn(ys2), [y0] + params)))
    # guard: forward values equal to the specification's
    ys_spec = H.rat_tensor(p["ys"]).reshape(len(s["outs"]), 1, d)
    fwd_err = H.rel_err(ys.detach(), ys_spec)
    want = torch.stack([torch.tensor(float(H.frac(v)), dtype=F64) for _slot, v in p["grad"]])
    got_a = torch.stack([sde.slot_value(ga, slot) for slot, _v in p["grad"]])
    got_b = torch.stack([sde.slot_value(gb, slot) for slot, _v in p["grad"]])
    err_spec = H.rel_err(got_a, want)
    err_bp = max(H.rel_err(ga[k], gb[k]) for k in ga)
    err_bp_spec = H.rel_err(got_b, want)
    ctx.case(("exact",) + _scn_key(s), sample=dict(key, wpat=s["wpat"], err_vs_spec=err_spec, err_vs_backprop=err_bp,
                                                    fwd_err=fwd_err), trace=True)
    traces.append(dict(scn=H.trace_scn(1, s["outs"], set(s["wpat"]), "revheun"), ev=events, key=key))
    ok = True
    if not torch.equal(ys.detach(), ys2.detach()):
        ok = False
        H.violation_once(ctx, dict(key, clause="forward_equal"), "sdeint_adjoint and sdeint (reversible_heun) outputs differ")
    if err_bp > TOL_PROP:
        ok = False
        H.violation_once(ctx, dict(key, clause="adjoint_vs_backprop"),
                      f"reversible Heun adjoint gradient differs from backprop by relative {err_bp:.3e} > 1e-9 "
                      f"(vs exact discrete gradient from TLC: adjoint {err_spec:.3e}, backprop {err_bp_spec:.3e})",
                      replay=dict(scn=s, seed=ctx.seed))
    elif fwd_err <= 1e-13:
        if err_spec > TOL_EXACT and err_bp > TOL_EXACT:
            ok = False
            H.violation_once(ctx, dict(key, clause="adjoint_vs_exact"),
                          f"adjoint gradient differs from the exact discrete gradient (TLC) by {err_spec:.3e} > 1e-12 "
                          f"and from backprop by {err_bp:.3e} on an exactly representable scenario",
                          replay=dict(scn=s, seed=ctx.seed))
        elif err_spec > TOL_EXACT:
            ok = False
            ctx.drift(f"C10 {key}: adjoint == backprop ({err_bp:.1e}) but both differ from RevHeun.tla's gradient "
                      f"by {err_spec:.1e} (a matter for C08)")
    else:
        ctx.drift(f"C10 {key}: real reversible_heun forward values differ from RevHeun.tla by {fwd_err:.1e}; "
                  f"exact-gradient comparison skipped, backprop comparison decides")
    if saved is not None and saved != 3:
        ctx.drift(f"C10 {key}: {saved} extra-state tensors saved for backward with the reversible pair (expected 3)")
    return ok


# ------------------------------------------------------------------------------------------------
# (2) smooth scenarios
# ------------------------------------------------------------------------------------------------
def smooth_case(ctx, s, idx, bmkind, traces):
    noise, b, d, m, hden, outs, kind = s["noise"], s["batch"], s["d"], s["m"], s["hden"], s["outs"], s["loss"]
    dyadic = hden & (hden - 1) == 0
    dt = 1.0 / hden
    n = outs[-1]
    gen = torch.Generator().manual_seed((ctx.seed * 6151 + idx * 7907 + 3) % (2 ** 31))
    sde = H.SmoothSDE(noise, d, m, seed=ctx.seed * 17 + idx)
    y0 = torch.randn(b, d, generator=gen, dtype=F64).requires_grad_()
    # dyadic grids: the time origin rotates, including time axes far from zero relative to the step (all exact)
    t0 = [0.0, 0.0, 16384.0, -4096.0][idx % 4] if dyadic else 0.0
    ts = torch.tensor([t0 + o * dt for o in outs], dtype=F64)
    if bmkind == "grid":
        base = H.GridBrownian(t0, dt, torch.randn(n, b, m, generator=gen, dtype=F64) * math.sqrt(dt))
    else:
        base = torchsde.BrownianInterval(t0=t0, t1=float(ts[-1]), size=(b, m), dtype=F64,
                                         entropy=ctx.seed * 977 + idx)
    T = len(outs)
    w = H.weights_tensor(gen, (T, b, d))
    wset = set(range(1, T + 1))
    if kind == "last":
        w[:-1] = 0
        wset = {T}
    elif kind == "first_mid":
        w[-1] = 0
        wset = set(range(1, T))
    if kind == "square":
        loss_fn = lambda ys: (ys ** 2 * w).sum() + ys[-1].sin().sum()
    else:
        loss_fn = lambda ys: (ys * w).sum()
    params = list(sde.parameters())
    key = dict(part="smooth", noise=noise, grid="dyadic" if dyadic else "nondyadic", bm=bmkind)
    try:
        ys, grads, events, n_fwd = H.traced_adjoint_run(sde, y0, ts, base, dt, PAIR["method"], PAIR["adjoint_method"],
                                                        loss_fn, [y0] + params, dt)
    except Exception as e:
        H.violation_once(ctx, dict(key, clause="valid_call_raised"),
                         f"sdeint_adjoint forward/backward raised {type(e).__name__}: {str(e)[:200]}",
                         replay=dict(s, seed=ctx.seed, idx=idx, bm=bmkind))
        return 0.0, dyadic
    ga = [torch.zeros_like(t) if g is None else g for g, t in zip(grads, [y0] + params)]
    with H.quiet():
        ys2 = torchsde.sdeint(sde, y0, ts, bm=base, method="reversible_heun", dt=dt)
    gb = H.grads_of(loss_fn(ys2), [y0] + params)
    errs = [H.rel_err(a, c) for a, c in zip(ga, gb)]
    err = max(errs)
    nq_fwd = sum(1 for e in events[:n_fwd] if e["k"] == "bm")
    nq_bwd = sum(1 for e in events[n_fwd:] if e["k"] == "bm")
    ctx.case(("smooth", noise, b, d, m, hden, tuple(outs), kind, bmkind),
             sample=dict(key, batch=b, d=d, m=m, hden=hden, outs=outs, loss=kind, err=err, t0=t0), trace=dyadic and t0 == 0.0)
    if dyadic and t0 == 0.0:                 # (the trace events are in ticks from zero)
        traces.append(dict(scn=H.trace_scn(1, outs, wset, "revheun"), ev=events, key=key))
    if not torch.equal(ys.detach(), ys2.detach()):
        H.violation_once(ctx, dict(key, clause="forward_equal"), "sdeint_adjoint and sdeint (reversible_heun) outputs differ")
    if err > TOL_PROP or not math.isfinite(err):
        if not dyadic:
            key["effect"] = "sliver_step" if (nq_fwd != n or nq_bwd != n) else "ulp_shifted_intervals"
        H.violation_once(ctx, dict(key, clause="adjoint_vs_backprop"),
                      f"sdeint_adjoint(reversible_heun, adjoint_reversible_heun) gradient differs from sdeint backprop by "
                      f"relative {err:.3e} > 1e-9; batch={b} d={d} m={m} dt=1/{hden} ts=dt*{outs} loss={kind}; the forward "
                      f"pass made {nq_fwd} and the backward pass {nq_bwd} Brownian queries for {n} steps",
                      replay=dict(s, seed=ctx.seed, idx=idx, bm=bmkind))
    return err, dyadic


def two_leg_case(ctx, s, idx):
    """The adjoint solve done in two legs - sdeint_adjoint(..., extra=True) up to an interior output time, then
    sdeint_adjoint(..., extra_solver_state=<returned state>) from there - with the loss on the outputs of both legs.
    Each call satisfies the premises of the property (fixed steps, output times on the step grid), gradient flows
    through the returned solver state (f, g, z); the gradients must equal backprop through the one-shot sdeint."""
    noise, b, d, m, hden, outs = s["noise"], s["batch"], s["d"], s["m"], s["hden"], s["outs"]
    if len(outs) < 3 or hden & (hden - 1):
        return None
    dt = 1.0 / hden
    n = outs[-1]
    gen = torch.Generator().manual_seed((ctx.seed * 4099 + idx * 7919 + 11) % (2 ** 31))
    sde = H.SmoothSDE(noise, d, m, seed=ctx.seed * 19 + idx)
    y0 = torch.randn(b, d, generator=gen, dtype=F64).requires_grad_()
    ts = torch.tensor([o * dt for o in outs], dtype=F64)
    base = H.GridBrownian(0.0, dt, torch.randn(n, b, m, generator=gen, dtype=F64) * math.sqrt(dt))
    cut = 1 + idx % (len(outs) - 2)                      # index of the interior output time where the solve is split
    w = H.weights_tensor(gen, (len(outs), b, d))
    params = list(sde.parameters())
    key = dict(part="two_leg", noise=noise, grid="dyadic", clause="adjoint_vs_backprop")
    try:
        with H.quiet():
            ys_a, ex = torchsde.sdeint_adjoint(sde, y0, ts[:cut + 1], bm=base, method=PAIR["method"],
                                               adjoint_method=PAIR["adjoint_method"], dt=dt, extra=True)
            ys_b = torchsde.sdeint_adjoint(sde, ys_a[-1], ts[cut:], bm=base, method=PAIR["method"],
                                           adjoint_method=PAIR["adjoint_method"], dt=dt, extra_solver_state=ex)
            ys = torch.cat([ys_a, ys_b[1:]], dim=0)
            ga = H.grads_of((ys * w).sum(), [y0] + params)
            ys2 = torchsde.sdeint(sde, y0, ts, bm=base, method="reversible_heun", dt=dt)
            gb = H.grads_of((ys2 * w).sum(), [y0] + params)
    except Exception as e:
        H.violation_once(ctx, dict(key, clause="valid_call_raised"),
                         f"two-leg sdeint_adjoint raised {type(e).__name__}: {str(e)[:200]}", replay=dict(s, seed=ctx.seed, idx=idx))
        return None
    err = max(H.rel_err(a, c) for a, c in zip(ga, gb))
    ctx.case(("two_leg", noise, b, d, m, hden, tuple(outs), cut), sample=dict(key, outs=outs, split_at=outs[cut], err=err))
    if not torch.equal(ys.detach(), ys2.detach()):
        H.violation_once(ctx, dict(key, clause="forward_equal"),
                         "two-leg sdeint_adjoint outputs differ from the one-shot sdeint (reversible_heun)")
    if err > TOL_PROP or not math.isfinite(err):
        H.violation_once(ctx, key, f"two-leg sdeint_adjoint (split at output {cut} of ts=dt*{outs}, continued from the returned "
                                   f"extra solver state) gradient differs from one-shot sdeint backprop by relative {err:.3e} "
                                   f"> 1e-9; batch={b} d={d} m={m} dt=1/{hden}", replay=dict(s, seed=ctx.seed, idx=idx))
    return err


class _CtxSDE(torch.nn.Module):
    """A smooth SDE whose drift also depends on a context tensor that is NOT a leaf of the autograd graph (computed from
    a leaf `raw` outside the SDE, as the output of an encoder would be) and is not an nn.Parameter."""

    def __init__(self, inner, ctx):
        super().__init__()
        self.inner = inner
        self.ctx = ctx
        self.noise_type, self.sde_type = inner.noise_type, inner.sde_type

    def f(self, t, y):
        return self.inner.f(t, y) + torch.tanh(self.ctx) * y

    def g(self, t, y):
        return self.inner.g(t, y)


def nonleaf_case(ctx, s, idx):
    """adjoint_params given explicitly and containing a non-leaf tensor: the gradient w.r.t. what it was computed from
    (and w.r.t. the module parameters and y0) must equal backprop through sdeint."""
    noise, b, d, m, hden, outs = s["noise"], s["batch"], s["d"], s["m"], s["hden"], s["outs"]
    if hden & (hden - 1):
        return None
    dt = 1.0 / hden
    n = outs[-1]
    gen = torch.Generator().manual_seed((ctx.seed * 5003 + idx * 7927 + 13) % (2 ** 31))
    inner = H.SmoothSDE(noise, d, m, seed=ctx.seed * 23 + idx)
    raw = torch.randn(d, generator=gen, dtype=F64).requires_grad_()
    y0 = torch.randn(b, d, generator=gen, dtype=F64).requires_grad_()
    ts = torch.tensor([o * dt for o in outs], dtype=F64)
    incs = torch.randn(n, b, m, generator=gen, dtype=F64) * math.sqrt(dt)
    w = H.weights_tensor(gen, (len(outs), b, d))
    key = dict(part="nonleaf_params", noise=noise, grid="dyadic", clause="adjoint_vs_backprop")
    grads = []
    try:
        for adjoint in (True, False):
            c = raw * 1.5 + 0.25                      # non-leaf, requires grad
            sde = _CtxSDE(inner, c)
            params = list(inner.parameters())
            base = H.GridBrownian(0.0, dt, incs)
            with H.quiet():
                if adjoint:
                    ys = torchsde.sdeint_adjoint(sde, y0, ts, bm=base, method=PAIR["method"], adjoint_method=PAIR["adjoint_method"],
                                                 dt=dt, adjoint_params=tuple(params) + (c,))
                else:
                    ys = torchsde.sdeint(sde, y0, ts, bm=base, method="reversible_heun", dt=dt)
            grads.append(H.grads_of((ys * w).sum(), [y0, raw] + params))
    except Exception as e:
        H.violation_once(ctx, dict(key, clause="valid_call_raised"),
                         f"sdeint_adjoint with an explicit non-leaf adjoint parameter raised {type(e).__name__}: {str(e)[:200]}",
                         replay=dict(s, seed=ctx.seed, idx=idx))
        return None
    err = max(H.rel_err(a, c_) for a, c_ in zip(*grads))
    ctx.case(("nonleaf", noise, b, d, m, hden, tuple(outs)), sample=dict(key, outs=outs, err=err))
    if err > TOL_PROP or not math.isfinite(err):
        H.violation_once(ctx, key, f"explicit adjoint_params containing a non-leaf tensor: adjoint gradient (w.r.t. y0, the leaf "
                                   f"the tensor was computed from, module parameters) differs from sdeint backprop by relative "
                                   f"{err:.3e} > 1e-9; batch={b} d={d} m={m} dt=1/{hden} ts=dt*{outs}",
                         replay=dict(s, seed=ctx.seed, idx=idx))
    return err


def pair_saving(ctx):
    """ExtrasOnlyForPair on the real code (observation aid: saved tensors of the autograd node)."""
    sde = H.SmoothSDE("diagonal", 2, 2, seed=1)
    y0 = torch.ones(2, 2, dtype=F64, requires_grad=True)
    ts = torch.tensor([0.0, 0.25, 0.5], dtype=F64)
    npar = len(list(sde.parameters()))
    out = {}
    for method, am in (("reversible_heun", "adjoint_reversible_heun"), ("reversible_heun", "midpoint"),
                       ("midpoint", "midpoint"), ("heun", "euler_heun")):
        bm = H.GridBrownian(0.0, 0.25, torch.ones(2, 2, 2, dtype=F64) * 0.5)
        with H.quiet():
            ys = torchsde.sdeint_adjoint(sde, y0, ts, bm=bm, method=method, adjoint_method=am, dt=0.25)
        cnt = H.saved_extras_count(ys, npar)
        out[f"{method}/{am}"] = cnt
        expect = 3 if (method, am) == ("reversible_heun", "adjoint_reversible_heun") else 0
        ctx.case(("saved", method, am), sample=dict(part="saved", pair=f"{method}/{am}", saved=cnt))
        if cnt is None:
            ctx.notes["projection_unavailable"] = "saved tensors of the adjoint autograd node"
        elif cnt != expect:
            ctx.drift(f"C10 ExtrasOnlyForPair: {method}/{am} saved {cnt} extra-state tensors, the spec says {expect}")
    ctx.notes["extras_saved_for_backward"] = out


def run(ctx):
    torch.set_num_threads(1)
    adj, smooth = run_tlc(ctx)
    traces = []
    # ---- (1) ----
    adj = sorted(adj, key=lambda p: _scn_key(p["scn"]))
    for p in adj:
        exact_case(ctx, p, traces)
    # binding self-check: a corrupted loss weight must be noticed
    import harness.common as common
    probe = common.Ctx("C10", ctx.tier, ctx.seed, LEVEL)
    probe.violation = lambda *a, **k: probe.violations.append(a) or True
    pick = [p for p in adj if p["scn"]["n"] == 2 and p["scn"]["noise"] == "general"][0]
    exact_case(probe, pick, [], corrupt=True)
    if not probe.violations and not probe.model_drift:
        raise RuntimeError("binding self-check failed: corrupted loss weight was not noticed")
    # ---- (2) ----
    smooth = sorted(smooth, key=lambda s: (s["noise"], s["batch"], s["d"], s["m"], s["hden"], s["outs"], s["loss"]))
    worst = 0.0
    nd = dict(cases=0, failed=0)
    for idx, s in enumerate(smooth):
        kinds = ("grid", "interval") if idx % (2 if ctx.tier != "quick" else 4) == 0 else ("grid",)
        for bk in kinds:
            err, dy = smooth_case(ctx, s, idx, bk, traces)
            if dy:
                worst = max(worst, err)
            else:
                nd["cases"] += 1
                nd["failed"] += err > TOL_PROP
    ctx.notes["worst_rel_err_dyadic"] = worst
    ctx.notes["nondyadic_dt"] = nd
    # ---- (2b) the adjoint solve in two legs, continued from the returned extra solver state ----
    two = [e for e in (two_leg_case(ctx, s, idx) for idx, s in enumerate(smooth) if idx % (1 if ctx.tier != "quick" else 2) == 0)
           if e is not None]
    nl = [e for e in (nonleaf_case(ctx, s, idx) for idx, s in enumerate(smooth) if idx % (1 if ctx.tier != "quick" else 3) == 0)
          if e is not None]
    ctx.notes["nonleaf_adjoint_param_cases"] = len(nl)
    ctx.notes["nonleaf_worst_rel_err"] = max(nl) if nl else None
    ctx.notes["two_leg_cases"] = len(two)
    ctx.notes["two_leg_worst_rel_err"] = max(two) if two else None
    # ---- (3) ----
    # keep the TLC trace run bounded: all exact traces + a deterministic sample of the smooth ones
    keep = [t for i, t in enumerate(traces) if t["key"]["part"] == "exact" or i % (1 if ctx.tier != "quick" else 3) == 0]
    rej = H.validate_traces(keep, "C10", ctx)
    for idx, li, st in rej:
        t = keep[idx]
        ev = t["ev"][li - 1] if li and li - 1 < len(t["ev"]) else None
        H.violation_once(ctx, dict(t["key"], clause="trace"),
                      f"recorded forward/backward pass is not a behaviour of AdjointDriver: event #{li} {ev} cannot be "
                      f"matched in spec state {st} (backward Brownian intervals must be the forward ones reversed; one "
                      f"integrate call per segment over [-ts[i], -ts[i-1]] from ys[i])")
    ctx.notes["traces_validated_by_tlc"] = len(keep)
    pair_saving(ctx)
    ctx.rule = ("(1) every scenario TLC's Adj machine reaches: {noise x (d, m)} x dt x {1..3 steps} x {2-3 aligned outputs} "
                "x every non-empty loss-weight pattern, on the real sdeint_adjoint pair with prescribed dyadic Brownian "
                "increments; (2) every scenario of RevHeun!SmoothScenarios (noise x (batch,d,m) x 1/dt x aligned ts x loss "
                "kind) with a prescribed path, every second (quick: fourth) one also with a real BrownianInterval; (3) the recorded traces "
                "validated by TLC.  Non-trivial: at least one step, non-zero loss weight, state-dependent vector fields.")
    ctx.exhaustive = True
    ctx.assumptions = ["exact scenarios use batch size 1 and t0 = 0; parameters, increments and weights are small dyadics",
                       "relative error is max|a-b| / max(|a|_inf, |b|_inf) per gradient tensor",
                       "dyadic dt and ts so that 'whole multiples of dt' is exact in float64; dt = 1/10 (and 1/1000) run "
                       "as a separate class with its own violation key",
                       "spec theorem checked for d, m <= 2 and <= 3 steps; gradients are linear in the loss weights"]
