"""C14 - adaptive stepping terminates, tiles the interval and honours tolerances.

Spec: spec/SolverLoop.tla (adaptive mode: Trial / Estimate / Update / ClampMin / Accept / Reject with an adversarial
environment choosing the estimate class and the next step size) with Tiling, MinStep, MinStepSize, AcceptRule,
RetrySmaller, HalfStepValue, OutputFormA, Terminates (liveness under weak fairness) and its safety shadow TrialBound;
seeded design defects (no clipping, no dt_min clamp, accept everything, no forced accept at dt_min, full-step value,
never shrink) must be caught.  spec/TraceLoop.tla is the same set of rules as a monitor over recorded events.

Binding
 (a) every behaviour TLC generates (all schedules of <= 6 trials over T = 8 ticks) is forced through the real loop:
     'exact'   - compute_error and update_step_size scripted: Brownian queries, accepted steps and output provenance
                 must equal the spec's tick for tick;
     'classes' - only compute_error scripted (every estimate-class sequence TLC enumerated), real controller;
     all recorded runs are validated event by event by TLC (TraceLoop).
 (b) natural adaptive runs (stiff linear, oscillatory, example SDEs, tolerances over three decades, dt_min hit,
     float32/float64) are recorded from outside (wrappers around compute_error / update_step_size / solver.step + a
     recording Brownian proxy) and validated by TLC; the error norm is recomputed from the captured full-step and
     half-step tensors with the plain mixed rtol/atol RMS formula; a watchdog bounds the number of trials.
 "Tightening the tolerances reduces the true error" is explored on a closed-form linear SDE (ctx.notes), verdict only
 if grossly violated.
"""
import multiprocessing as mp
import os
import time
from concurrent.futures import ThreadPoolExecutor

from harness import loop

LEVEL = "model_checking"

# clauses of TraceLoop that are mechanism rather than property: a failure of one of these alone is model drift
MECHANISM_ONLY = {"Queries"}


def run(ctx):
    t_start = time.time()
    quick = ctx.tier == "quick"
    pool = mp.get_context("fork").Pool(min(8 if quick else 16, os.cpu_count() or 4))
    try:
        _run(ctx, quick, pool)
    finally:
        pool.terminate()
        pool.join()
    ctx.notes["wall"] = round(time.time() - t_start, 1)


def _run(ctx, quick, pool):
    A = dict(Mode="adaptive", Extras={True})     # solver with extra state: the terms carry (y, extra) provenance
    tmark = {}
    # ---- 1. generation of behaviours (needed first) -------------------------------------------------------
    gen_kw = dict(TEnds={8}, MaxInterior=1, Dts={4, 8}, DtMins={2, 4}, StepVals={0, 2, 4, 8}, MaxTrials=6) if quick else \
        dict(TEnds={8, 12}, MaxInterior=1, Dts={4, 8}, DtMins={2, 4}, StepVals={0, 2, 4, 8}, MaxTrials=6)
    t0 = time.time()
    gen = loop.run_loop_spec(ctx, "adaptive: all schedules of <= 6 trials, history invariants, emit",
                             invariants=loop.ADAPT_INVS + ("TrialBound",), properties=loop.ADAPT_PROPS, KeepHist=True,
                             Emit=True, workers=4, timeout=900, **A, **gen_kw)
    behs = [b for b in gen.printed if isinstance(b, dict) and b.get("mode") == "adaptive"]
    if len(behs) < 100:
        raise loop.tlc.TLCMachineryError("too few adaptive behaviours generated")
    behs.sort(key=lambda b: (b["T"], b["d"], b["mn"], b["ts"], [(s["est"], s["raw"]) for s in b["sched"]]))
    tmark["tlc_generation"] = round(time.time() - t0, 1)

    # ---- 2. side TLC jobs (exhaustive safety + liveness, seeded defects) -----------------------------------
    if quick:
        exh = dict(TEnds={8, 12}, MaxInterior=1, Dts={4, 8}, DtMins={2, 4}, StepVals={0, 2, 4, 6, 8, 12})
        side = [("adaptive: exhaustive safety + Terminates under WF, all environments",
                 dict(spec="FairSpec", invariants=loop.ADAPT_INVS, properties=loop.ADAPT_PROPS + ("Terminates",),
                      KeepHist=False, workers=4, timeout=900, **A, **exh))]
    else:
        side = [("adaptive: exhaustive safety + Terminates under WF, all environments",
                 dict(spec="FairSpec", invariants=loop.ADAPT_INVS, properties=loop.ADAPT_PROPS + ("Terminates",),
                      KeepHist=False, workers=6, timeout=2400, coverage=True, TEnds={8, 12}, MaxInterior=2, Dts={4, 8, 12},
                      DtMins={2, 4, 6}, StepVals={0, 2, 4, 6, 8, 12}, Mode="adaptive", Extras={True, False})),
                ("adaptive: exhaustive safety, longer interval",
                 dict(invariants=loop.ADAPT_INVS, properties=loop.ADAPT_PROPS, KeepHist=False, workers=6, timeout=2400,
                      TEnds={16}, MaxInterior=1, Dts={4, 8}, DtMins={2, 4, 6}, StepVals={0, 2, 4, 8, 12, 16}, **A))]
    side += [("seeded design defects (adaptive): each must be caught",
              dict(invariants=("Detect",), action_constraints=("DetectAct",), TEnds={8}, MaxInterior=1, Dts={4}, DtMins={2},
                   StepVals={0, 2, 4, 8}, KeepHist=False, MaxTrials=5, Bugs={"none"} | set(loop.ADAPT_BUGS), workers=2,
                   timeout=600, **A))]
    if not quick:
        side += [("seeded design defect noForce: never terminates, caught by TrialBound (safety shadow of Terminates)",
                  dict(invariants=("Detect",), TEnds={4}, MaxInterior=0, Dts={4}, DtMins={2}, StepVals={0, 2, 4},
                       KeepHist=False, MaxTrials=14, Bugs={"none", "noForce"}, workers=2, timeout=300, **A))]
    side += [("seeded design defects extraOnReject / fullValue with histories: caught by AcceptedOnly",
              dict(invariants=("Detect",), action_constraints=("DetectAct",), TEnds={4}, MaxInterior=0, Dts={8}, DtMins={2},
                   StepVals={0, 2, 4, 8}, KeepHist=True, MaxTrials=4, Bugs={"none", "extraOnReject", "fullValue"}, workers=2,
                   timeout=300, **A)),
             ("seeded design defect noForce: Terminates refuted under weak fairness",
              dict(spec="FairSpec", properties=("Terminates",), TEnds={4}, MaxInterior=0, Dts={4}, DtMins={2},
                   StepVals={0, 2, 4}, KeepHist=False, Bugs={"noForce"}, workers=1, timeout=300,
                   expect=("Terminates", "<temporal>"), **A))]
    ex = ThreadPoolExecutor(max_workers=3)
    side_futs = [(label, ex.submit(loop.run_loop_spec, None, label, **kw)) for label, kw in side]

    # ---- 3. scripted replays ---------------------------------------------------------------------------------
    t0 = time.time()
    configs = [c for c in loop.solver_configs(labels=loop.ADAPTIVE_LABELS)]
    ncfg = len(configs)
    items_by_cfg = {}
    n_exact = 0
    for i, b in enumerate(behs):
        if quick and (i + ctx.seed) % 2:
            continue            # quick: every other behaviour here (the others run as model traces and, when they
                                # contain a rejection, on a reversible-Heun configuration below)
        reps = 1 if quick else 3
        for r in range(reps):
            ci = (i * reps + r + ctx.seed) % ncfg
            items_by_cfg.setdefault(ci, []).append(dict(beh=b, mode="exact", t0=[0.0, 0.25, -0.5, 1.0, 16384.0, -8192.0][(i + r) % 6],
                                                        j=[3, 4, 5][(i + r) % 3], bi=i))
            n_exact += 1
    # solvers with extra state: every behaviour with a rejection (quick: every second one) additionally on a
    # reversible-Heun configuration, exact and with the real controller
    rh = [ci for ci, c in enumerate(configs) if c["has"]]
    n_rh = 0
    for i, b in enumerate(behs):
        if not any(not s["acc"] for s in b["sched"]) or (quick and (i + ctx.seed) % 2 == 0):
            continue
        ci = rh[(i + ctx.seed) % len(rh)]
        items_by_cfg.setdefault(ci, []).append(dict(beh=b, mode="exact" if n_rh % 3 else "classes",
                                                    t0=[0.0, 0.25, -0.5, 1.0, 16384.0, -8192.0][i % 6], j=[3, 4, 5][i % 3], bi=i))
        n_exact += bool(n_rh % 3)
        n_rh += 1
    # estimate-class schedules (distinct), real controller
    seen = {}
    for i, b in enumerate(behs):
        k = (b["T"], b["d"], b["mn"], tuple(s["est"] for s in b["sched"]))
        if k not in seen and len(b["ts"]) >= (3 if len(seen) % 2 else 2):
            seen[k] = i
    for n, (k, i) in enumerate(sorted(seen.items())):
        for r in range(1 if quick else 4):
            ci = (n * 5 + r * 7 + ctx.seed) % ncfg
            items_by_cfg.setdefault(ci, []).append(dict(beh=behs[i], mode="classes", t0=[0.0, 0.25, -0.5, 1.0, 16384.0, -8192.0][n % 6],
                                                        j=[3, 4, 5][n % 3], bi=i))
    jobs = []
    for ci, items in sorted(items_by_cfg.items()):
        for k in range(0, len(items), 60):
            jobs.append(dict(c=configs[ci], seed=ctx.seed, items=items[k:k + 60]))
    traces = []          # (tid, hdr, ev, info)
    seen_fail = {}
    unsteered = 0
    covered = set()

    def report(key, msg, replay):
        kk = tuple(sorted(key.items()))
        seen_fail[kk] = seen_fail.get(kk, 0) + 1
        if seen_fail[kk] <= 2:
            ctx.violation(key, msg, replay=replay)

    n_class = 0
    rh_rejecting = [0, 0]        # runs of a solver with extra state that contain a rejected trial: scripted, natural
    details = {}
    for job, outs in zip(jobs, pool.imap(loop.c14_scripted, jobs, chunksize=1)):
        covered.add(loop.cfg_key(job["c"]))
        for item, out in zip(job["items"], outs):
            for key, msg, replay in out["fails"]:
                report(key, msg, replay)
            if not out["steered"]:
                unsteered += 1
                continue
            if out["trace"] is not None:
                tid = f"{'E' if item['mode'] == 'exact' else 'C'}{len(traces)}"
                traces.append((tid, out["trace"][0], out["trace"][1], dict(key=out["key"], replay=out["replay"])))
                details[tid] = out.get("detail", "")
            n_class += item["mode"] == "classes"
            if job["c"]["has"] and out.get("nrej", 0) > 0:
                rh_rejecting[0] += 1
            for d in out["drift"][:1]:
                ctx.drift(f"{loop.cfg_key(job['c'])}: {d}")
            b = item["beh"]
            nrej = sum(1 for s in b["sched"] if not s["acc"])
            forced = sum(1 for s in b["sched"] if s["acc"] and s["est"] == "gt1")
            ctx.case(f"{item['mode']}|{loop.cfg_key(job['c'])}|rej{min(nrej, 3)}|forced{min(forced, 2)}|outs{len(b['ts'])}",
                     nontrivial=nrej > 0 or forced > 0, trace=True,
                     sample=dict(config=loop.cfg_key(job["c"]), ts=b["ts"], dt=b["d"], dt_min=b["mn"],
                                 schedule=[(s["est"], s["raw"]) for s in b["sched"]]))
    if unsteered:
        ctx.drift(f"{unsteered} scripted runs could not be steered: the loop did not call adaptive_stepping.compute_error / "
                  f"update_step_size through the module (projection_unavailable); those replays were skipped")
    tmark["scripted_replays"] = round(time.time() - t0, 1)

    # ---- 4. natural runs ---------------------------------------------------------------------------------------
    t0 = time.time()
    probs = loop.natural_problems(ctx.seed, quick)
    nat_stats = {}
    for pr, out in zip(probs, pool.imap(loop.c14_natural, [dict(prob=pr, seed=ctx.seed) for pr in probs], chunksize=1)):
        for key, msg, replay in out["fails"]:
            report(key, msg, replay)
        if out.get("trace") is None:
            continue
        tid = f"N{len(traces)}"
        traces.append((tid, out["trace"][0], out["trace"][1], dict(key=out["key"], replay=pr)))
        details[tid] = out.get("detail", "")
        if pr["label"] == "reversible_heun" and out["stats"]["rejected"] > 0:
            rh_rejecting[1] += 1
        nat_stats[pr["name"]] = out["stats"]
        for d in out["drift"][:1]:
            ctx.drift(f"{pr['name']}: {d}")
        st = out["stats"]
        ctx.case(f"natural|{pr['name']}", nontrivial=st["rejected"] > 0 or st["forced_at_dt_min"] > 0, trace=True,
                 sample=dict(problem=pr["name"], **st))
    tmark["natural_runs"] = round(time.time() - t0, 1)

    # ---- 5. TLC validates every recorded run; and accepts every behaviour of the model ----------------------
    t0 = time.time()
    model_traces = []
    for i, b in enumerate(behs):
        if quick and (i + ctx.seed) % 2 == 0:
            continue
        hdr, ev = loop.beh_to_events(b)
        model_traces.append((f"M{i}", hdr, ev))
    all_traces = [(tid, hdr, ev) for tid, hdr, ev, _ in traces] + model_traces
    verdicts = loop.validate_traces(ctx, all_traces, "TraceLoop: recorded adaptive runs + model behaviours",
                                    parallel=2 if quick else 4)
    info = {tid: inf for tid, _, _, inf in traces}
    evs = {tid: ev for tid, _, ev in all_traces}
    for tid, (ok, at, bad) in verdicts.items():
        if ok:
            continue
        if tid.startswith("M"):
            raise loop.tlc.TLCMachineryError(f"TraceLoop rejects a behaviour of SolverLoop ({tid} at {at}: {bad}): the monitor "
                                             f"and the model disagree")
        inf = info[tid]
        e = evs[tid][at - 1] if at <= len(evs[tid]) else "end of trace"
        if set(bad) <= MECHANISM_ONLY:
            ctx.drift(f"{inf['key']}: only mechanism-level clauses {bad} fail at event {at}: {e}")
            continue
        report(dict(inf["key"], check="trace:" + "+".join(sorted(bad))),
               f"TLC rejects the recorded run at event {at}: clauses {bad} fail on {e}"
               + (f" [{details[tid]}]" if details.get(tid) else ""), inf["replay"])
    tmark["trace_validation"] = round(time.time() - t0, 1)

    # ---- 6. exploration: tolerance monotonicity on a closed-form SDE ---------------------------------------------
    t0 = time.time()
    expl = loop.tolerance_exploration(ctx.seed, n_paths=3 if quick else 16)
    ctx.notes["exploration_tolerance_vs_true_error"] = dict(
        problem="dy = -2 y dt + 0.75 y dW (Ito, closed form), adaptive Milstein, mean |y(1) - exact| over paths",
        mean_abs_error_by_tolerance=expl, status="exploration, not a verdict")
    if expl is None:
        ctx.notes["exploration_tolerance_vs_true_error"]["status"] = "exploration aborted: a run hit the watchdog"
    elif expl["0.0001"] > 4.0 * expl["0.01"]:
        ctx.violation(dict(check="tolerance_monotone", label="milstein_ito", noise="diagonal", dtype="float64", mode="natural"),
                      f"tightening rtol=atol from 1e-2 to 1e-4 grossly increases the true error: {expl}", replay=expl)
    tmark["exploration"] = round(time.time() - t0, 1)

    # ---- 7. collect side TLC jobs -------------------------------------------------------------------------------
    t0 = time.time()
    caught = {}
    for label, f in side_futs:
        r = f.result()
        ctx.add_tlc(r, label)
        if "(adaptive): each" in label:
            caught.update(loop.check_seeded_defects(r, loop.ADAPT_BUGS, label))
        elif "AcceptedOnly" in label:
            c2 = loop.check_seeded_defects(r, {"extraOnReject": ("AcceptedOnly",), "fullValue": ("AcceptedOnly",)}, label)
            caught["extraOnReject (history)"] = c2["extraOnReject"]
        elif "Terminates refuted" in label:
            caught["noForce (liveness)"] = [r.violated]
        elif "TrialBound" in label:
            caught["noForce (non-termination)"] = loop.check_seeded_defects(r, {"noForce": ("TrialBound",)}, label)["noForce"]
    ex.shutdown()
    if not quick:
        ctx.notes["actions_taken"] = loop.require_actions(
            [f.result() for _, f in side_futs],
            ("Trial", "Estimate", "Update", "ClampMin", "Accept", "Reject", "EmitOutput", "Finish"))
    tmark["waiting_for_side_tlc"] = round(time.time() - t0, 1)

    ctx.rule = ("TLC enumerates every adaptive behaviour (estimate class and next step size chosen adversarially among "
                "{below a tick, 2, 4, 8} ticks) of <= 6 trials over T=8%s ticks for dt in {4,8}, dt_min in {2,4}, <= 1 "
                "interior output; each (quick: every other one, the rest with rejections on reversible Heun) is replayed on the "
                "real loop with scripted "
                "compute_error/update_step_size (exact), "
                "each distinct estimate-class sequence also with the real controller; natural runs: %d problems (stiff "
                "linear, oscillatory, example SDEs, rtol=atol in {1e-2,1e-3,1e-4}, dt_min hit, float32/64); "
                "non-trivial = at least one rejection or one forced accept at dt_min"
                % ("" if quick else ",12", len(probs)))
    ctx.exhaustive = None if not quick else False
    ctx.assumptions += [
        "the controller contract assumed by the model: after an estimate > 1 the proposed step is strictly smaller (checked on "
        "every recorded trial by the clause RetrySmaller); Terminates additionally needs the shrink factor bounded away from 1, "
        "which the integer tick grid of the model abstracts",
        "accept/reject decisions are locals of integrate: they are inferred from the start of the next trial and cross-checked "
        "against tensor identity of the next trial's input (clauses Tiling, HalfStepValue)",
        "error norm recomputed in float64 without the eps floors; estimates below 1e-6 are not compared",
        "initial dt >= dt_min in every generated case (the property presupposes it)",
        "termination is decided by watchdogs: trials <= 4 (span/dt_min + 1) + 50, and at most 400 consecutive rejected trials "
        "from one start time (the real controller shrinks by >= 6.8% per rejection: <= 135 rejections from span to span/2^14)",
    ]
    if min(rh_rejecting) == 0:
        raise RuntimeError(f"no run of a solver with extra state contains a rejected trial (scripted, natural) = {rh_rejecting}")
    ctx.notes["runs_with_extra_state_and_rejections"] = dict(scripted=rh_rejecting[0], natural=rh_rejecting[1])
    ctx.notes["behaviours_enumerated_by_tlc"] = len(behs)
    ctx.notes["exact_replays"] = n_exact
    ctx.notes["estimate_class_replays_with_real_controller"] = n_class
    ctx.notes["solver_configurations_covered"] = f"{len(covered)}/{ncfg}"
    ctx.notes["natural_runs"] = nat_stats
    ctx.notes["model_behaviours_accepted_by_monitor"] = len(model_traces)
    ctx.notes["seeded_design_defects_caught_by"] = caught
    # ---- for ALL T, dt, dt_min: LoopAdaptive.tla (which SolverLoop refines, PROPERTY AdaptiveRefinement) is proved by
    # TLAPS - invariant, MinStep, strict advance / strict shrink, lexicographic termination measure; without the clamp to
    # dt_min an obligation must fail
    if not quick:
        from harness import tlaps
        pr = tlaps.run("LoopAdaptive", timeout=600)
        ctx.notes["tlaps_loop_adaptive"] = pr.summary()
        if not pr.ok:
            raise loop.tlc.TLCMachineryError(f"LoopAdaptive: {pr.failed}/{pr.obligations} obligations failed\n{pr.output[-1500:]}")
        src = open(os.path.join(loop.tlc.SPEC_DIR, "LoopAdaptive.tla")).read()
        assert "s' = Max(p, Mn)" in src
        prm = tlaps.run("LoopAdaptive", extra_modules={"LoopAdaptive": src.replace("s' = Max(p, Mn)", "s' = p")}, timeout=600)
        ctx.notes["tlaps_loop_adaptive_without_clamp"] = prm.summary()
        if prm.failed == 0:
            raise loop.tlc.TLCMachineryError("LoopAdaptive without the clamp to dt_min was proved: the proof is vacuous")

    # ---- traces harvested from the repository's own test-suite (DESIGN 4.2 (ii)): the adaptive solves of
    # tests/test_sdeint.py run by the real controller, validated event by event by TraceLoop
    from harness import harvest_run
    t0 = time.time()
    harvest_run.harvest(ctx, "sdeint_quick" if quick else "sdeint", ["loop"], workers=8 if quick else 16)
    tmark["harvest"] = round(time.time() - t0, 1)
    ctx.notes["timing_s"] = tmark


def replay(path):
    return loop.replay_file(path)
