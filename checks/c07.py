"""C07 - Brownian objects answer every valid query: no crash, bounded stack and cache.

TLC: BrownianImpl with the recursions explicit (fuel-carrying, so non-termination and Python stack depth
are state): invariants Terminates, NoError, StackBound, CacheBound, CacheNoDup over every documented option
combination in the catalogue (cache 0/1/2/3/unbounded, dt hint, tol 0 / > 0, dyadic, end points that
coincide after rounding), BrownianSys (solver-shaped histories: n equal steps forward then backward) for
growing n, and -- as a non-vacuity control -- the Legacy variant of the model (the code before the fix:
commits), which must violate them.  Binding: every generated behaviour is replayed on the real object for
all shapes and Levy modes (any exception on an in-range query, or a cache longer than cache_size, is the
observable); TLC's traces are validated (CacheBound clause); long solver-shaped runs with the real warm-up
constant sample Python frame depth and cache length; sdeint with its default Brownian motion runs 16k/50k
steps; sdeint with a BrownianTree whose last step ends one ulp short of ts[-1].
"""
import math
import random
import warnings

import torch

from harness import brownian as B
from harness import brownian_props as P
from harness import brownian_run as BR
from harness import tlc

LEVEL = "model_checking"


class _SDE(torch.nn.Module):
    noise_type = "diagonal"
    sde_type = "ito"

    def f(self, t, y):
        return -y

    def g(self, t, y):
        return 0.2 + 0.0 * y


def sdeint_default_bm(nsteps, method="euler"):
    import torchsde
    y0 = torch.ones(1, 1, dtype=torch.float64)
    try:
        with warnings.catch_warnings():
            warnings.simplefilter("ignore")
            ys = torchsde.sdeint(_SDE(), y0, [0.0, 1.0], dt=1.0 / nsteps, method=method)
        return None if torch.isfinite(ys).all() else "non-finite"
    except RecursionError:
        return "RecursionError"
    except Exception as e:  # noqa: BLE001
        return type(e).__name__


def sdeint_tree_last_step():
    import torchsde
    out = []
    for t1, dt in ((0.8, 0.1), (1.0, 0.1), (0.3, 0.1), (0.7, 0.05)):
        y0 = torch.ones(2, 1, dtype=torch.float64)
        try:
            with warnings.catch_warnings():
                warnings.simplefilter("ignore")
                bt = torchsde.BrownianTree(t0=0.0, w0=torch.zeros(2, 1, dtype=torch.float64), t1=t1)
                torchsde.sdeint(_SDE(), y0, [0.0, t1], bm=bt, dt=dt, method="euler")
                bi = torchsde.BrownianInterval(0.0, t1, size=(2, 1), dtype=torch.float64, tol=1e-3, halfway_tree=True)
                torchsde.sdeint(_SDE(), y0, [0.0, t1], bm=bi, dt=dt, method="euler")
            out.append((t1, dt, None))
        except RecursionError:
            out.append((t1, dt, "RecursionError"))
        except Exception as e:  # noqa: BLE001
            out.append((t1, dt, type(e).__name__))
    return out


def work_of_one_call(ctx, quick):
    """(1) TLC: at resolution R the single call Query(a, a + 1 tick) right after the warm-up creates exactly 4R - 2 tree
    nodes (WorkInv is violated with WorkCap = 4R - 3 and holds with 4R - 2): the work of one call is linear in
    (t1 - t0) / (tb - ta) whatever the caller did before - known finding K9.
    (2) binding: the real object, same history, splits exactly 2R - 1 nodes in that call (2 nodes per split).
    (3) verdicts on the real object under a split budget: histories in which one call must stay cheap."""
    fam = (8, 16) if quick else (8, 16, 32)
    for R in fam:
        cfg = B.Cfg(R, 2, 0, 1, False, 0, 0, 2, False, Fuel=24, MaxEval=0, MaxNodes=100000)
        got = {}
        for cap in (4 * R - 3, 4 * R - 2):
            res = tlc.run("BrownianWork", timeout=900, workers=8, cfg_text=(
                "SPECIFICATION Spec\n" + cfg.constants_cfg() + f"CONSTANT WorkCap = {cap}\nINVARIANT WorkInv\n"
                "CONSTRAINT Bounded\nCHECK_DEADLOCK FALSE\n"))
            ctx.add_tlc(res, f"BrownianWork R={R} WorkCap={cap}: nodes created by the first counted call")
            got[cap] = res.violated
        if got[4 * R - 3] != "WorkInv" or got[4 * R - 2] is not None:
            ctx.drift(f"BrownianWork R={R}: expected the maximum of 4R-2 nodes in one call, TLC says {got}")
        worst = 0
        for a in range(R):
            o = P.work_per_call(t1=float(R), cache_size=1, warm=(100, 0.0), whole_warm=True, query=(float(a), float(a + 1)))
            worst = max(worst, o["splits"])
        ctx.case(("work-model", R), sample=dict(resolution=R, model_nodes=4 * R - 2, real_splits=worst))
        if 2 * worst != 4 * R - 2:
            ctx.drift(f"work of the first counted call at resolution {R}: model creates {4 * R - 2} nodes, the real object "
                      f"splits {worst} times")
    if not quick:
        # the action-property form over EVERY reachable state of a catalogue instance (not only the first counted call):
        # within the instance's bounds a call creates at most 6 nodes (cap 4 is violated)
        cfgA = BR.catalogue(ctx.tier)["A"]
        got = {}
        for cap in (4, 6):
            res = tlc.run("BrownianWork", timeout=900, workers=8, cfg_text=(
                "SPECIFICATION Spec\n" + cfgA.constants_cfg() + f"CONSTANT WorkCap = {cap}\nPROPERTY CallWork\n"
                "CONSTRAINT Bounded\nVIEW View\nCHECK_DEADLOCK FALSE\n"))
            ctx.add_tlc(res, f"BrownianWork on catalogue A: CallWork with WorkCap={cap}")
            got[cap] = res.violated
        if got[4] != "CallWork" or got[6] is not None:
            ctx.drift(f"BrownianWork on catalogue A: expected the per-call maximum of 6 nodes, TLC says {got}")
    # histories: (trigger, kwargs).  "short_query_after_warmup" is K9; in every other history one call needs a handful
    # of splits on the unchanged code
    tiny = 2.0 ** -30
    n10 = 2.0 ** -10
    hist = [("short_query_after_warmup", dict()),
            ("short_query_after_warmup", dict(cache_size=None)),
            ("short_query_after_warmup", dict(cache_size=0, query=(0.5, 0.5 + 2.0 ** -24))),
            ("short_query_after_warmup", dict(pre=((0.25, 0.25 + n10), (0.5, 0.5 + n10), (0.625, 0.625 + tiny), (0.75, 0.75 + tiny)),
                                              query=(0.875, 0.875 + tiny))),
            ("short_query_during_warmup", dict(warm=(0, 0.0))),
            ("short_query_during_warmup", dict(warm=(99, n10))),
            ("short_query_with_dt_hint", dict(dt=n10)),
            ("short_query_below_tolerance", dict(tol=2.0 ** -12)),
            ("short_query_dyadic_tree", dict(halfway=True, tol=2.0 ** -12)),
            ("query_of_usual_length", dict(query=(0.5, 0.5 + n10)))]
    for trig, kw in hist:
        o = P.work_per_call(**kw)
        ctx.case(("work", trig, str(sorted(kw.items(), key=str))), sample=dict(trigger=trig, history=kw, result=o))
        if o["outcome"] != "ok":
            ctx.violation(dict(kind="work_per_call", trigger=trig, outcome=o["outcome"]),
                          f"one call after the history {kw or 'default'} did not return normally: {o['outcome']} after "
                          f"{o['splits']} splits (budget 50000; the tree is re-shaped with the length of the current "
                          f"query)", replay=dict(work=kw))
    # sdeint with its default Brownian motion: adaptive from a tiny initial step; a long horizon
    sd = [dict(ts=[0.0, 1.0], dt=1e-9, adaptive=True, dt_min=1e-10)]
    if not quick:
        sd.append(dict(ts=[0.0, 1000.0], dt=2.0 ** -6, adaptive=True, dt_min=1e-6, rtol=1e-2, atol=1e-2))
    for kw in sd:
        o = P.sdeint_default_bm_work(**kw)
        ctx.case(("work-sdeint", str(sorted(kw.items(), key=str))), sample=dict(sdeint=kw, result=o))
        if o["outcome"] != "ok":
            ctx.violation(dict(kind="work_per_call", trigger="sdeint_default_bm", outcome=o["outcome"]),
                          f"sdeint(bm=None, {kw}) did not return normally: {o['outcome']} after {o['splits']} splits",
                          replay=dict(work_sdeint=kw))


def sys_run(ctx, N, warm, cs, legacy, qstep=1, sub=1024):
    """BrownianSys: solver-shaped history over N ticks (one deterministic behaviour of 2N steps)."""
    cfg = B.Cfg(N, sub, 0, cs, False, 0, warm, qstep * sub, False, Fuel=6 * N + 40, MaxEval=10 ** 6, MaxNodes=10 ** 6,
                Legacy=legacy)
    c = ("SPECIFICATION SpecS\n" + cfg.constants_cfg()
         + "INVARIANT StackBound\nINVARIANT Terminates\nINVARIANT NoError\nINVARIANT CacheBound\nINVARIANT Partition\n"
         + "CHECK_DEADLOCK FALSE\n")
    res = tlc.run("BrownianSys", cfg_text=c, timeout=900, workers=1)
    ctx.add_tlc(res, f"BrownianSys N={N} WarmUp={warm} cache={cs} legacy={legacy}")
    return res


def run(ctx):
    quick = ctx.tier == "quick"
    cat = BR.catalogue(ctx.tier)
    names = ["A", "B", "C2", "E", "A3"] if quick else list(cat)
    ctx.rule = ("(a) every behaviour generated from BrownianImpl replayed on the real object (exception / cache length); "
                "(b) solver-shaped runs of n steps forward and backward with the real warm-up, sampling Python frame "
                "depth and cache length; (c) sdeint with default / dyadic Brownian motion; case = (configuration, "
                "history | run parameters, shape, Levy mode); non-trivial = at least one split or n >= 100")
    ctx.assumptions = ["frame depth is sampled at every tree search and node creation (sys._getframe walk)",
                       "small-scope TLC bounds; BrownianSys to N = 64 ticks"]

    # ---- design level -------------------------------------------------------------------------
    for name in names:
        cfg = cat[name]
        res = BR.exhaustive(ctx, name, cfg, ["TypeOK"] + BR.LIVE_INVS + ["NoSameSpanChild"])
        if not res.ok:
            qs = BR.counterexample_queries(res)
            f = P.check_no_crash(cfg, qs, (2,), "space-time")
            if f:
                ctx.violation(dict(cfg=name, kind=f[0][0], exc=f[0][1].get("exc"), source="tlc-counterexample"),
                              f"{res.violated} violated in the model and reproduced on the real code: {f[0]}",
                              replay=dict(cfg=cfg.as_dict(), queries=qs))
            else:
                ctx.drift(f"{name}: model invariant {res.violated} fails on {qs}; the real code returns normally")
    sys_cfgs = [(16, 2, 2), (32, 3, 1)] if quick else [(16, 2, 2), (32, 3, 1), (64, 3, 0), (64, 5, -1), (48, 4, 3)]
    for (N, warm, cs) in sys_cfgs:
        res = sys_run(ctx, N, warm, cs, legacy=False)
        if not res.ok:
            ctx.drift(f"BrownianSys N={N}: {res.violated} violated in the model of the current code")
        elif res.distinct != 2 * N + 1:
            raise tlc.TLCMachineryError(f"BrownianSys N={N} stopped after {res.distinct} states (model resolution exceeded)")
    # adaptive-shaped histories: every accept/reject schedule of full step + two half steps, then the backward sweep
    if not quick:
        for (N, sub, cs, warm, H0, HMin) in ((2, 64, 2, 2, 64, 16), (2, 32, 0, 1, 32, 8), (3, 32, -1, 1, 32, 16)):
            acfg = B.Cfg(N, sub, 0, cs, False, 0, warm, 1, False, Fuel=80, MaxEval=10 ** 6, MaxNodes=10 ** 6)
            c = ("SPECIFICATION SpecA\n" + acfg.constants_cfg() + f"CONSTANTS H0={H0} HMin={HMin}\n"
                 + "".join(f"INVARIANT {i}\n" for i in ["TypeOK", "Partition", "Tiles", "NoSameSpanChild", "AcceptedTile"]
                           + BR.LIVE_INVS) + "CHECK_DEADLOCK FALSE\n")
            res = tlc.run("BrownianAdaptive", cfg_text=c, timeout=1800, workers=8)
            ctx.add_tlc(res, f"BrownianAdaptive N={N} Sub={sub} cache={cs} H0={H0} HMin={HMin}: all accept/reject schedules")
            if not res.ok:
                ctx.drift(f"BrownianAdaptive N={N}: {res.violated} violated in the model of the current code")

    # non-vacuity: the model of the pre-fix code must violate the same invariants
    legacy_expect = []
    res = sys_run(ctx, 32 if quick else 64, 3, 1, legacy=True)
    legacy_expect.append(("solver-shaped/D1", res.violated))
    lc = B.Cfg(4, 4, 4, 2, True, 0, 1, 1, True, Fuel=12, MaxNodes=15, Legacy=True)
    res = BR.exhaustive(ctx, "legacy-dyadic/D3", lc, BR.LIVE_INVS)
    legacy_expect.append(("dyadic/D3", res.violated))
    if not quick:
        lc = B.Cfg(4, 2, 0, 0, False, 0, 1, 2, False, Fuel=12, MaxEval=3, Legacy=True)
        res = BR.exhaustive(ctx, "legacy-cache0/D2", lc, BR.LIVE_INVS)
        legacy_expect.append(("cache0/D2", res.violated))
        lc = B.Cfg(4, 2, 2, 2, False, 0, 1, 1, True, Fuel=12, MaxEval=2, MaxNodes=15, Legacy=True)
        res = BR.exhaustive(ctx, "legacy-tol/D9", lc, BR.LIVE_INVS + ["NoSameSpanChild"])
        legacy_expect.append(("tol/D9,D7", res.violated))
    ctx.notes["legacy_model_violations"] = legacy_expect
    if any(v is None for _, v in legacy_expect):
        ctx.drift(f"non-vacuity control: the Legacy model no longer violates its invariants: {legacy_expect}")

    # ---- binding: generated behaviours ------------------------------------------------------------
    combos = [(sn, lv) for sn in P.SHAPES for lv in P.LEVIES]
    k = 0
    for name in names:
        cfg = cat[name]
        behs, _ = BR.behaviours(ctx, name, cfg, 3 if cfg.T // cfg.QStep <= 4 else 2, 60 if quick else 600, ctx.seed)
        traces = []
        offs = cat[name].offsets()
        for beh in behs:
            qs = BR.history(beh)
            cfg = cat[name].shifted(offs[(k // len(combos) + k) % len(offs)])      # origin of the real time axis, in rotation
            steps = BR.structural_replay(ctx, name, cfg, beh, "C07")
            if steps is not None:
                traces.append((qs, BR.make_trace(cfg, steps)))
            sn, lv = combos[k % len(combos)]
            k += 1
            fails = P.check_no_crash(cfg, qs, P.SHAPES[sn], lv)
            ctx.case((name, str(qs), sn, lv, cfg.off), nontrivial=any(h["nn"] > 1 for h in beh["hist"]), trace=steps is not None,
                     sample=dict(cfg=name, history=qs, shape=sn, levy=lv, origin=cfg.t(0)))
            for kind, det in fails[:2]:
                ctx.violation(dict(cfg=name, kind=kind, exc=det.get("exc")),
                              f"{kind} on history {qs}: {det}", replay=dict(cfg=cfg.as_dict(), queries=qs, levy=lv, shape=sn))
        for i, clause, at in BR.validate_traces(ctx, [t for _, t in traces], name):
            if clause == "CacheBound":
                ctx.violation(dict(cfg=name, kind="trace", clause=clause), f"cache bound exceeded at event {at}; history {traces[i][0]}",
                              replay=dict(cfg=cfg.as_dict(), queries=traces[i][0]))

    # ---- binding: long solver-shaped runs, real warm-up constant ------------------------------------
    n_small, n_big = (200, 2400) if quick else (1000, 30000)
    runs = []
    for cs in (0, 1, 45, None):
        runs.append(dict(cache_size=cs))
    runs += [dict(cache_size=2, levy="space-time"), dict(cache_size=45, levy="foster", size=(2, 2)),
             dict(cache_size=45, tol=1e-2, retries=True), dict(cache_size=3, tol=1e-3),
             dict(cache_size=45, dt_hint=True), dict(cache_size=0, dt_hint=True)]
    # histories in which many consecutive small steps fall inside ONE bottom piece of the pre-shaped tree: a dt hint
    # looser than the steps taken; no hint and a step size that drops sharply after a long stretch of larger steps
    runs += [dict(cache_size=45, shape="loose_hint"), dict(cache_size=45, shape="two_rate"),
             dict(cache_size=2, shape="two_rate", levy="space-time"), dict(cache_size=None, shape="loose_hint")]
    dy = [dict(cache_size=45, tol=2.0 ** -14, halfway=True), dict(cache_size=1, tol=1e-4, halfway=True, retries=True)]
    if quick:
        runs = [runs[0], runs[2], runs[5], runs[6], runs[9], runs[10], runs[11]]
        dy = dy[:1]
    for kw in runs + dy:
        rs = P.long_run(n_small, **kw)
        nb = n_big if not kw.get("halfway") else min(n_big, 2000)
        if kw.get("cache_size") == 0 and not kw.get("dt_hint"):
            nb = min(nb, 400 if quick else 3000)       # without any cache every query recomputes its whole ancestry
        if kw.get("shape") == "two_rate" and kw.get("cache_size") is not None and kw["cache_size"] <= 2:
            # the first fine step after the coarse stretch re-shapes the whole tree into 1 / (0.8 cache h_fine) pieces in
            # ONE call (the mechanism of K9 at the moderate ratio of this history): 6e5 splits for n = 30000 and cache 2,
            # ~20 s of CPU time - legitimate work that must not meet the watchdog; n = 4000 keeps it below 1e5 splits
            nb = min(nb, 4000)
        rb = P.long_run(nb, **kw)
        ctx.case(("long", str(sorted(kw.items(), key=str))), sample=dict(run=kw, small=rs, big=rb))
        for r in (rs, rb):
            if r["exc"]:
                ctx.violation(dict(kind="long_run", exc=r["exc"], **{a: b for a, b in kw.items() if a != "size"}),
                              f"solver-shaped run of {r['n']} steps raised {r['exc']}: {r.get('msg', '')}", replay=dict(n=r["n"], **kw))
            cs = kw.get("cache_size")
            if cs is not None and r["max_cache"] > cs:
                ctx.violation(dict(kind="cache_bound", cache_size=cs), f"{r['max_cache']} cached entries > cache_size {cs}",
                              replay=dict(n=r["n"], **kw))
        if not rs["exc"] and not rb["exc"]:
            tol = kw.get("tol", 0.0)
            allowed = rs["max_depth"] + 6 + (2 * math.ceil(math.log2(1.0 / tol)) if kw.get("halfway") else 0)
            if rb["max_depth"] > allowed:
                ctx.violation(dict(kind="stack_growth", **{a: b for a, b in kw.items() if a != "size"}),
                              f"frame depth grew with the number of queries: {rs['max_depth']} at n={rs['n']}, "
                              f"{rb['max_depth']} at n={rb['n']}", replay=dict(n=rb["n"], **kw))

    # ---- constructor pipeline: every documented option combination is accepted and answers ---------
    res = tlc.run("BrownianCtor", timeout=600, workers=4, cfg_text=(
        "SPECIFICATION Spec\nINVARIANT AcceptsExactlyDocumented\nINVARIANT RefusalsAreValueErrors\nINVARIANT Emit\n"
        "PROPERTY Terminates\nCHECK_DEADLOCK FALSE\n"))
    ctx.add_tlc(res, "BrownianCtor: documented option table = constructor pipeline; emits all configurations")
    if not res.ok:
        ctx.drift(f"BrownianCtor: {res.violated} violated in the specification")
    rows = res.printed
    rnd = random.Random(f"{ctx.seed}:ctor")
    oks = [r for r in rows if r["outcome"] == "ok"]
    bad = [r for r in rows if r["outcome"] != "ok"]
    if quick:
        oks = rnd.sample(oks, min(800, len(oks)))
        bad = rnd.sample(bad, min(400, len(bad)))
    for r in oks + bad:
        got = P.ctor_outcome(r["cfg"])
        c = r["cfg"]
        ctx.case(("ctor", str(sorted(c.items()))), nontrivial=r["outcome"] == "ok", sample=dict(ctor=c, expected=r["outcome"], got=got))
        if r["outcome"] == "ok" and got != "ok":
            ctx.violation(dict(kind="ctor_valid_config_fails", got=got, halfway=c["halfway"], tol=c["tol"], cache=c["cache"],
                               dt=c["dt"], order=c["order"], ends=c.get("ends", "on")),
                          f"documented configuration {c}: {got}", replay=dict(ctor=c))
        elif r["outcome"] != "ok" and got == "ok":
            ctx.drift(f"constructor accepts undocumented configuration {c}")
        elif r["outcome"] != "ok" and got != r["outcome"]:
            ctx.drift(f"constructor refuses {c} with {got}, documented {r['outcome']}")

    # ---- the work of ONE call (spec/BrownianWork.tla) --------------------------------------------------
    work_of_one_call(ctx, quick)

    # ---- sdeint ------------------------------------------------------------------------------------
    for n in ([16000] if quick else [16000, 50000]):
        exc = sdeint_default_bm(n)
        ctx.case(("sdeint-default", n), sample=dict(sdeint_default_bm_steps=n, result=exc))
        if exc:
            ctx.violation(dict(kind="sdeint_default_bm", exc=exc), f"sdeint with its default Brownian motion, {n} steps: {exc}",
                          replay=dict(nsteps=n))
    for (t1, dt, exc) in sdeint_tree_last_step():
        ctx.case(("sdeint-tree", t1, dt), sample=dict(sdeint_dyadic_bm=[t1, dt], result=exc))
        if exc:
            ctx.violation(dict(kind="sdeint_dyadic_bm", exc=exc), f"sdeint(bm=BrownianTree / dyadic interval, ts=[0,{t1}], dt={dt}): {exc}",
                          replay=dict(t1=t1, dt=dt))
    # ---- traces harvested from the repository's own test-suite: cache bound at every call, no crash ----------
    if not quick:
        from harness import harvest_run
        harvest_run.harvest(ctx, "brownian", ["brownian"])
        harvest_run.harvest(ctx, "sdeint_quick", ["brownian"], selftest=False)
    ctx.exhaustive = False


def replay(path):
    import json
    r = json.load(open(path))["replay"]
    if isinstance(r, dict) and str(r.get("kind", "")).startswith("harvest-"):
        from harness import harvest_run
        return harvest_run.replay(r)
    if "cfg" in r:
        cfg = B.Cfg(**r["cfg"])
        f = P.check_no_crash(cfg, [tuple(q) for q in r["queries"]], P.SHAPES.get(r.get("shape", "batch"), (3,)),
                             r.get("levy", "space-time"))
        print(f)
        return 1 if f else 0
    if "work" in r:
        kw = {k: (tuple(map(tuple, v)) if k == "pre" else tuple(v) if isinstance(v, list) else v) for k, v in r["work"].items()}
        o = P.work_per_call(**kw)
        print(o)
        return 0 if o["outcome"] == "ok" else 1
    if "work_sdeint" in r:
        o = P.sdeint_default_bm_work(**r["work_sdeint"])
        print(o)
        return 0 if o["outcome"] == "ok" else 1
    if "nsteps" in r:
        e = sdeint_default_bm(r["nsteps"])
        print(e)
        return 1 if e else 0
    if "n" in r:
        n = r.pop("n")
        o = P.long_run(n, **r)
        print(o)
        return 1 if o["exc"] else 0
    return 0
