"""C12 - outputs lie on one dt-grid trajectory: interpolation and output-time invariance.

Spec: spec/SolverLoop.tla (fixed mode): GridSteps, OutputForm (+ OutputFormIsGrid), OutputInvariance (pair run),
Tiling, AllEmitted; seeded design defects (step to output times, no clipping, stale prev_y, swapped weights) must be
refuted.  TLC enumerates every layout ts over T in {11, 12} ticks with <= 3 interior outputs and dt in 1..5 ticks and
prints, per layout, the predicted Brownian queries and the provenance (grid index, rational weight) of every output.

Binding: every enumerated layout is run on the real torchsde.sdeint (stratified slice of solver configurations in the
quick tier, all configurations in the thorough tier) with a recording Brownian proxy; see harness/loop.c12_group.
A sample of runs is also recorded event by event and validated by TLC against spec/TraceLoop.tla.
"""
import multiprocessing as mp
import os
import time
from concurrent.futures import ThreadPoolExecutor

from harness import loop

LEVEL = "model_checking"

T_ENDS = {11, 12}
MAX_INTERIOR = 3
DTS = {1, 2, 3, 4, 5}


def run(ctx):
    t_start = time.time()
    quick = ctx.tier == "quick"
    nproc = min(8 if quick else 16, os.cpu_count() or 4)
    pool = mp.get_context("fork").Pool(nproc)          # before any thread is started
    try:
        _run(ctx, quick, pool)
    finally:
        pool.terminate()
        pool.join()
    ctx.notes["wall"] = round(time.time() - t_start, 1)


def _run(ctx, quick, pool):
    # ---- 1. the design: exhaustive check + generation of all layouts with predictions --------------------
    res = loop.run_loop_spec(ctx, "fixed: all layouts, all invariants, emit", invariants=loop.FIXED_INVS,
                             properties=loop.FIXED_PROPS, Mode="fixed", TEnds=T_ENDS, MaxInterior=MAX_INTERIOR,
                             Dts=DTS, Emit=True, workers=4, timeout=600, coverage=not quick)
    tmark = {"tlc_main": round(res.wall_s, 1)}
    t0_ = time.time()
    if not quick:
        ctx.notes["actions_taken"] = loop.require_actions([res], ("FixedStep", "EmitOutput", "Finish"))
    behs = [b for b in res.printed if isinstance(b, dict) and b.get("mode") == "fixed"]
    expected = sum(loop.n_layouts(T, MAX_INTERIOR) for T in T_ENDS) * len(DTS)
    if len(behs) != expected:
        raise loop.tlc.TLCMachineryError(f"TLC printed {len(behs)} layouts, expected {expected}")
    behs.sort(key=lambda b: (b["T"], b["d"], len(b["ts"]), b["ts"]))
    # the predictions do not depend on the interior of ts (GridSteps), cross-checked on the printed data
    by_dT = {}
    for b in behs:
        by_dT.setdefault((b["d"], b["T"]), []).append(b)
    for (d, T), bs in by_dT.items():
        if any(b["queries"] != bs[0]["queries"] for b in bs):
            raise loop.tlc.TLCMachineryError("printed queries depend on the layout although GridSteps passed")

    # ---- 2. side TLC jobs run while the real code is exercised ------------------------------------------------
    side = [("pair: OutputInvariance for all ts <= ts2",
             dict(invariants=loop.FIXED_INVS + ("OutputInvariance",), Mode="fixed", PairMode=True,
                  TEnds={8} if quick else {9, 10}, MaxInterior=3, Dts={2, 3} if quick else {1, 2, 3, 4, 5},
                  workers=3, timeout=900)),
            ("seeded design defects (fixed mode): each must be caught",
             dict(invariants=("Detect",), action_constraints=("DetectAct",), Mode="fixed", TEnds={7, 8}, MaxInterior=2,
                  Bugs={"none"} | set(loop.FIXED_BUGS), workers=2, timeout=300)),
            ("seeded design defect toOutputs in pair mode: caught by OutputInvariance",
             dict(invariants=("Detect",), Mode="fixed", PairMode=True, TEnds={8}, MaxInterior=2, Dts={3},
                  Bugs={"none", "toOutputs"}, workers=2, timeout=300))]
    ex = ThreadPoolExecutor(max_workers=3)
    side_futs = [(label, ex.submit(loop.run_loop_spec, None, label, **kw)) for label, kw in side]

    # ---- 3. the real code along every enumerated layout ---------------------------------------------------------
    configs = loop.solver_configs()
    ncfg = len(configs)
    per_layout = 2 if quick else ncfg
    groups = {}
    for i, b in enumerate(behs):
        for jj in range(per_layout):
            ci = (i * per_layout + jj + ctx.seed) % ncfg if quick else jj
            groups.setdefault((ci, b["d"], b["T"]), []).append(b)
    jobs = []
    trace_every = 12 if quick else 2
    for gi, ((ci, d, T), bs) in enumerate(sorted(groups.items())):
        jobs.append(dict(c=configs[ci], seed=ctx.seed, d=d, T=T, t0=[0.0, 0.25, -0.5, 1.0, 16384.0, -8192.0][(ci + d) % 6],
                         j=[3, 4, 5][(ci + T) % 3], behs=bs,
                         trace_idx={(gi * 7) % len(bs)} if gi % trace_every == 0 else set()))
    traces = []
    seen_fail = {}
    max_ulp = 0.0
    n_runs = 0
    covered_cfg = set()
    for job, out in zip(jobs, pool.imap(loop.c12_group, jobs, chunksize=4)):
        n_runs += out["n"]
        max_ulp = max(max_ulp, out["max_ulp"])
        covered_cfg.add(loop.cfg_key(job["c"]))
        for k, smp in out["keys"]:
            nontrivial = not k.endswith("|in0") and not k.endswith("|grid")
            ctx.case(k, nontrivial=nontrivial, trace=True, sample=smp if nontrivial and n_runs % 97 == 0 else None)
        for key, msg, replay in out["fails"]:
            kk = tuple(sorted(key.items()))
            seen_fail[kk] = seen_fail.get(kk, 0) + 1
            if seen_fail[kk] <= 2:
                ctx.violation(key, msg, replay=replay)
        for beh, hdr, ev in out["traces"]:
            traces.append((len(traces) + 1, hdr, ev, job, beh))
    # ---- 3b. metamorphic: the dt grid must not depend on the process default dtype ------------------------------
    dd_labels = ("euler", "milstein_ito", "srk", "midpoint", "heun", "reversible_heun", "log_ode_foster") if quick \
        else tuple(loop.FIXED_METHODS)
    dd_cfgs = loop.solver_configs(dtypes=("float64",), labels=dd_labels)
    if quick:      # quick: every (method, noise) once, alternating tensor / list ts
        by = {}
        for c in dd_cfgs:
            by.setdefault((c["label"], c["noise"]), []).append(c)
        dd_cfgs = [v[(n + ctx.seed) % len(v)] for n, (k, v) in enumerate(sorted(by.items()))]
    dd_jobs = [dict(c=c, seed=ctx.seed, dts=[0.1, 0.05, 1e-2], ts_list=[[0.0, 0.13, 0.37, 0.5], [0.25, 0.9]])
               for c in dd_cfgs]
    n_dd = 0
    for job, out in zip(dd_jobs, pool.imap(loop.c12_default_dtype_group, dd_jobs, chunksize=1)):
        for k in out["keys"]:
            n_dd += 1
            ctx.case(k, trace=False)
        for d in out["drift"][:1]:
            ctx.drift(d)
        for key, msg, replay in out["fails"]:
            kk = tuple(sorted(key.items()))
            seen_fail[kk] = seen_fail.get(kk, 0) + 1
            if seen_fail[kk] <= 2:
                ctx.violation(key, msg, replay=replay)
    ctx.notes["default_dtype_independence_pairs"] = n_dd
    tmark["real_runs"] = round(time.time() - t0_, 1)
    t0_ = time.time()
    # recorded traces of real runs validated by TLC
    verdicts = loop.validate_traces(ctx, [(tid, hdr, ev) for tid, hdr, ev, _, _ in traces], "TraceLoop: recorded fixed-step runs")
    for tid, hdr, ev, job, beh in traces:
        ok, at, bad = verdicts[tid]
        ctx.case(f"trace|{loop.cfg_key(job['c'])}", trace=True)
        if not ok:
            c = job["c"]
            ctx.violation(dict(check="trace:" + "+".join(sorted(bad)), label=c["label"], noise=c["noise"], dtype=c["dtype"],
                               ts_kind=c["ts_kind"]),
                          f"TLC rejects the recorded run at event {at} ({ev[at - 1] if at <= len(ev) else 'end of trace'}): "
                          f"clauses {bad}; ts={beh['ts']} d={job['d']}",
                          replay=dict(config=c, d=job["d"], T=job["T"], ts=beh["ts"], t0=job["t0"], j=job["j"]))

    tmark["trace_validation"] = round(time.time() - t0_, 1)
    t0_ = time.time()
    caught = {}
    for label, f in side_futs:
        r = f.result()
        ctx.add_tlc(r, label)
        if "(fixed mode)" in label:
            caught["fixed"] = loop.check_seeded_defects(r, loop.FIXED_BUGS, label)
        elif "pair mode" in label:
            caught["pair"] = loop.check_seeded_defects(r, {"toOutputs": ("OutputInvariance",)}, label)
    ctx.notes["seeded_design_defects_caught_by"] = caught
    tmark["waiting_for_side_tlc"] = round(time.time() - t0_, 1)
    ctx.notes["timing_s"] = tmark
    ex.shutdown()

    ctx.rule = ("TLC enumerates every strictly increasing ts = <0, S, T> with T in {11,12} ticks, |S| <= 3, dt in 1..5 ticks "
                "(dt larger than gaps, several outputs in one step, clipped last step, outputs on and off the grid); each "
                "layout is run on the real sdeint under a recording Brownian proxy for "
                + ("2 solver configurations in rotation (stratified: every configuration sees every dt and T)" if quick
                   else "every solver configuration")
                + " out of method x noise type x {float32,float64} x {tensor ts, list ts}; a case is non-trivial when at "
                  "least one output lies strictly inside a step")
    ctx.rule += ("; plus a metamorphic group: float64 problems with non-dyadic dt in {0.1, 0.05, 0.01} (Python float) and "
                 "non-dyadic ts (tensor and list) run under process default dtype float64 and float32: identical Brownian "
                 "queries, step counts and outputs")
    ctx.exhaustive = (not quick)
    ctx.assumptions += [
        "ticks map to t0 + u*2^-j (j in 3..5, t0 in {0, .25, -.5, 1, 16384, -8192}: also time axes far from zero relative to the step) so curr_t + dt accumulates exactly in float32/64",
        "same-entropy BrownianInterval objects return identical values for identical query sequences",
        "interpolation tolerance 4 ulp of the larger neighbour (2 weight roundings + 2 products + 1 sum)",
    ]
    ctx.notes["layouts_enumerated_by_tlc"] = len(behs)
    ctx.notes["real_runs"] = n_runs
    ctx.notes["solver_configurations_covered"] = f"{len(covered_cfg)}/{ncfg}"
    ctx.notes["max_interpolation_error_ulp"] = round(max_ulp, 3)
    ctx.notes["recorded_traces_validated_by_tlc"] = len(traces)
    # ---- the grid for ALL T and dt: LoopGrid.tla (which SolverLoop refines, PROPERTY GridRefinement above) is
    # proved by TLAPS; a loop without the clip must make an obligation fail (non-vacuity)
    if not quick:
        from harness import tlaps
        pr = tlaps.run("LoopGrid", timeout=600)
        ctx.notes["tlaps_loop_grid"] = pr.summary()
        if not pr.ok:
            raise loop.tlc.TLCMachineryError(f"LoopGrid: {pr.failed}/{pr.obligations} obligations failed\n{pr.output[-1500:]}")
        src = open(os.path.join(loop.tlc.SPEC_DIR, "LoopGrid.tla")).read()
        assert "t' = Min(t + D, T)" in src
        prm = tlaps.run("LoopGrid", extra_modules={"LoopGrid": src.replace("t' = Min(t + D, T)", "t' = t + D")}, timeout=600)
        ctx.notes["tlaps_loop_grid_without_clip"] = prm.summary()
        if prm.failed == 0:
            raise loop.tlc.TLCMachineryError("LoopGrid without the clipped last step was proved: the proof is vacuous")

    # ---- traces harvested from the repository's own test-suite (DESIGN 4.2 (ii)): every integrate call of the
    # selected tests - forward solves and the backward segments of sdeint_adjoint - validated by TraceLoop
    from harness import harvest_run
    harvest_run.harvest(ctx, "sdeint_quick" if quick else "sdeint", ["loop"], workers=8 if quick else 16)
    if not quick:
        harvest_run.harvest(ctx, "adjoint", ["loop"], selftest=False)
    if len(covered_cfg) != ncfg:
        raise RuntimeError("stratification left a solver configuration uncovered")


def replay(path):
    return loop.replay_file(path)
