"""C05 - repeated queries return bit-identical values whatever happened in between.

TLC: BrownianImpl action property RefineOnly and invariant NoSameSpanChild (a child with its parent's span
is what made the pre-fix code return a different tensor for a re-asked interval) exhaustively, including
eviction of cached ancestors (FIFO cache of 0/1/2/3), warm-up refinement firing between the two askings,
dt hint, rounding coincidences.  Binding: every generated behaviour is replayed; its trace is validated
against TraceBrownian (RefineOnly, NoSameSpanChild, Repeat); and, verbatim, every earlier query is asked
again after every later one and compared with torch.equal on W, U, A.  Long solver-shaped runs (forward
sweep, backward sweep) and a real adjoint backward pass re-ask the forward intervals.
"""
import random
import warnings

import torch

from harness import brownian as B
from harness import brownian_props as P
from harness import brownian_run as BR

LEVEL = "model_checking"
OWN_CLAUSES = {"RefineOnly", "NoSameSpanChild", "Repeat"}


def sweep_repeat(n, cache_size, levy, size=(2,), tol=0.0, halfway=False, entropy=21, drift=False):
    """forward sweep of n steps storing answers, backward sweep comparing; then forward again.
    drift: the caller computes "the same" time in two ways - the start of a step by a running t += dt, its end as
    (k + 1) dt - so that consecutive queries meet only up to a few ulps (dt = 1/n not representable); the very same
    floats are asked again backward."""
    import torchsde
    bm = torchsde.BrownianInterval(0.0, 1.0, size=size, dtype=torch.float64, entropy=entropy, cache_size=cache_size,
                                   tol=tol, halfway_tree=halfway, levy_area_approximation=levy)
    first = []
    bad = None
    if drift:
        dt, t, qs = 1.0 / n, 0.0, []
        for k in range(n):
            e = min((k + 1) * dt, 1.0)
            if t < e:
                qs.append((t, e))
            t += dt
        ask = P._ask_fn(bm, levy)
    else:
        qs = [(k, k + 1) for k in range(n)]
        ask = lambda a, b: B.call(bm, a, b, n, levy)      # noqa: E731
    with warnings.catch_warnings():
        warnings.simplefilter("ignore")
        for (a, b) in qs:
            first.append(ask(a, b))
        for k in list(reversed(range(len(qs)))) + list(range(0, len(qs), 7)):
            ans = ask(*qs[k])
            if not all(P._eq(x, y) for x, y in zip(first[k], ans)):
                bad = k
                break
    return bad


def adjoint_sees_forward_noise(method, adjoint_method, levy):
    """Run sdeint_adjoint forward+backward with a recording proxy: every base interval asked during the
    backward pass that was also asked forward must return the identical tensor."""
    import torchsde
    from torchsde._brownian import BaseBrownian

    class Rec(BaseBrownian):
        def __init__(self, base):
            super().__init__()
            self.base = base
            self.log = {}
            self.mismatch = None
            self.n_back = 0
            self.phase = "fwd"

        def __call__(self, ta, tb=None, return_U=False, return_A=False):
            out = self.base(ta, tb, return_U=return_U, return_A=return_A)
            key = (float(ta), float(tb), return_U, return_A)
            W = out if torch.is_tensor(out) else out[0]
            if key in self.log:
                if not torch.equal(self.log[key], W) and self.mismatch is None:
                    self.mismatch = key
                if self.phase == "bwd":
                    self.n_back += 1
            else:
                self.log[key] = W.clone()
            return out

        def __repr__(self):
            return "Rec"

        dtype = property(lambda s: s.base.dtype)
        device = property(lambda s: s.base.device)
        shape = property(lambda s: s.base.shape)
        levy_area_approximation = property(lambda s: s.base.levy_area_approximation)

    class SDE(torch.nn.Module):
        noise_type = "diagonal"
        sde_type = "stratonovich"

        def __init__(self):
            super().__init__()
            self.a = torch.nn.Parameter(torch.tensor(0.5, dtype=torch.float64))

        def f(self, t, y):
            return -self.a * y

        def g(self, t, y):
            return 0.3 * torch.cos(y)

    sde = SDE()
    y0 = torch.full((3, 2), 0.4, dtype=torch.float64, requires_grad=True)
    base = torchsde.BrownianInterval(0.0, 1.0, size=(3, 2), dtype=torch.float64, entropy=5, cache_size=3,
                                     levy_area_approximation=levy)
    rec = Rec(base)
    ts = torch.tensor([0.0, 0.5, 1.0], dtype=torch.float64)
    with warnings.catch_warnings():
        warnings.simplefilter("ignore")
        ys = torchsde.sdeint_adjoint(sde, y0, ts, bm=rec, dt=2.0 ** -5, method=method, adjoint_method=adjoint_method)
        rec.phase = "bwd"
        ys.sum().backward()
    return rec.mismatch, rec.n_back


def wrapper_repeat(rnd, kind):
    """BrownianPath / BrownianTree / ReverseBrownian with w0 != 0: interval AND point queries asked again (also at
    dyadic points, the end point, after other queries) return bit-identical tensors."""
    import torchsde
    from torchsde._brownian import ReverseBrownian
    fails = []
    w0 = torch.tensor([[0.5, -1.0, 2.0], [2.0, 0.25, -0.75]], dtype=torch.float64)
    with warnings.catch_warnings():
        warnings.simplefilter("ignore")
        if kind == "path":
            bm = torchsde.BrownianPath(t0=0.0, w0=w0)
        elif kind == "tree":
            bm = torchsde.BrownianTree(t0=0.0, w0=w0, t1=1.0, tol=2.0 ** -9, entropy=rnd.randrange(1000))
        elif kind == "tree_w1":
            bm = torchsde.BrownianTree(t0=0.0, w0=w0, t1=1.0, w1=w0 + 0.5, tol=2.0 ** -9, entropy=rnd.randrange(1000))
        else:
            base = torchsde.BrownianInterval(-1.0, 0.0, size=(2, 3), dtype=torch.float64, entropy=rnd.randrange(1000),
                                             levy_area_approximation="space-time", cache_size=2)
            bm = ReverseBrownian(base)
        pts = [0.5, 1.0, 0.25, 0.75, 0.125] + [rnd.randrange(1, 64) / 64 for _ in range(4)]
        first = {}
        ops = []
        for t in pts:
            if kind != "reverse":
                ops.append(("pt", t))
            a, b = sorted((t, rnd.randrange(0, 65) / 64))
            if a < b:
                ops.append(("iv", a, b))
        # ... and queries that reach past the end of the object's interval (clamped, with a warning) in between
        if kind != "reverse":
            ops.insert(len(ops) // 2, ("iv", 0.9, 1.3))
            ops.insert(len(ops) // 3, ("pt", 1.25))
            ops.append(("iv", 0.5, 2.5))
        ops = ops + ops[::-1] + ops
        for op in ops:
            if op[0] == "pt":
                out = bm(op[1])
            elif kind == "reverse":
                out = torch.cat([x for x in bm(op[1], op[2], return_U=True)])
            else:
                out = bm(op[1], op[2])
            if op in first:
                if not torch.equal(first[op], out):
                    fails.append(("wrapper_repeat", dict(wrapper=kind, op=list(op),
                                                         diff=float((first[op] - out).abs().max()))))
                    break
            else:
                first[op] = out.clone()
    return fails


def run(ctx):
    quick = ctx.tier == "quick"
    cat = BR.catalogue(ctx.tier)
    names = ["A", "C2", "E", "A3"] if quick else list(cat)
    rnd = random.Random(f"{ctx.seed}:C05")
    ctx.rule = ("behaviours of BrownianDump replayed with every earlier query re-asked after every later one "
                "(torch.equal on W, U, A); case = (configuration, history, shape, Levy mode); non-trivial = the "
                "history has >= 2 distinct queries; plus sweeps of n steps forward/backward and adjoint passes")
    ctx.assumptions = ["bit-equality is asked literally (torch.equal)", "small-scope TLC bounds N <= 8 ticks"]

    for name in names:
        cfg = cat[name]
        res = BR.exhaustive(ctx, name, cfg, ["TypeOK", "NoSameSpanChild", "CacheNoDup"], props=["RefineOnly"])
        if not res.ok:
            qs = BR.counterexample_queries(res)
            f = []
            for levy in ("none", "space-time"):
                f += P.check_repeat(cfg, qs + qs, (3,), levy, rnd)
            if f:
                ctx.violation(dict(cfg=name, kind="repeat", source="tlc-counterexample"),
                              f"{res.violated} violated in the model and reproduced on the real code: {f[0]}",
                              replay=dict(cfg=cfg.as_dict(), queries=qs))
            else:
                ctx.drift(f"{name}: model property {res.violated} fails on {qs}; re-asked queries still bit-identical")

    combos = [(sn, lv) for sn in P.SHAPES for lv in P.LEVIES]
    k = 0
    for name in names:
        cfg = cat[name]
        behs, _ = BR.behaviours(ctx, name, cfg, 3 if cfg.T // cfg.QStep <= 4 else 2, 60 if quick else 600, ctx.seed)
        traces = []
        offs = cat[name].offsets()
        for beh in behs:
            qs = BR.history(beh)
            cfg = cat[name].shifted(offs[(k // len(combos) + k) % len(offs)])      # origin of the real time axis, in rotation
            steps = BR.structural_replay(ctx, name, cfg, beh, "C05")
            if steps is not None:
                # extend the recorded trace with the re-asked history so that TraceBrownian.Repeat is exercised
                bm, steps2 = B.replay(cfg, qs + qs[::-1])
                traces.append((qs, BR.make_trace(cfg, steps2)))
            sn, lv = combos[k % len(combos)]
            k += 1
            fails = P.check_repeat(cfg, qs, P.SHAPES[sn], lv, rnd, dtype=(torch.float32 if k % 3 == 0 else torch.float64))
            ctx.case((name, str(qs), sn, lv, cfg.off), nontrivial=len(set(qs)) >= 2, trace=steps is not None,
                     sample=dict(cfg=name, history=qs, shape=sn, levy=lv, origin=cfg.t(0)))
            for kind, det in fails[:2]:
                ctx.violation(dict(cfg=name, kind=kind, levy=lv, shape=sn),
                              f"{kind} after history {qs}: {det}",
                              replay=dict(cfg=cfg.as_dict(), queries=qs, levy=lv, shape=sn, detail=det))
        for i, clause, at in BR.validate_traces(ctx, [t for _, t in traces], name):
            if clause in OWN_CLAUSES:
                ctx.violation(dict(cfg=name, kind="trace", clause=clause),
                              f"trace rejected by TraceBrownian at event {at}: {clause}; history {traces[i][0]}",
                              replay=dict(cfg=cfg.as_dict(), queries=traces[i][0]))

    # ---- sweeps with the real warm-up constant ----------------------------------------------------
    ns = [150] if quick else [1000, 10000]
    for n in ns:
        for cs in ((0, 2, None) if quick else (0, 1, 2, 45, None)):
            for levy in (("none", "space-time") if quick else P.LEVIES):
                for drift in (False, True):
                    nn = n if not drift else min(n, 300) // 3 * 3 + 1          # 1/nn not representable
                    bad = sweep_repeat(nn, cs, levy, size=(2, 2) if levy in ("davie", "foster") else (2,), drift=drift)
                    ctx.case(("sweep", nn, cs, levy, drift), sample=dict(sweep=nn, cache_size=cs, levy=levy, drifting_times=drift))
                    if bad is not None:
                        ctx.violation(dict(kind="sweep_repeat", cache_size=cs, levy=levy, drift=drift),
                                      f"step {bad} of {nn} returned a different tensor on the backward sweep"
                                      + (" (step starts by a running sum, ends as (k+1) dt)" if drift else ""),
                                      replay=dict(n=nn, cache_size=cs, levy=levy, drift=drift))
        for (tol, half) in ((1e-3, False), (2.0 ** -12, True)):
            bad = sweep_repeat(min(n, 256), 2, "space-time", tol=tol, halfway=half)
            ctx.case(("sweep-tol", n, tol, half))
            if bad is not None:
                ctx.violation(dict(kind="sweep_repeat", tol=tol, halfway=half), f"step {bad} differs",
                              replay=dict(n=n, tol=tol, halfway=half))

    # ---- large samples (an implementation may take another compute path above a size threshold) --------
    for size in (((4096,), (2048, 2)) if quick else ((4096,), (2048, 2), (16384,), (64, 64, 4))):
        for cs in (1, 2, 5, 45):
            for levy in ("none", "space-time"):
                bad = sweep_repeat(48, cs, levy, size=size)
                ctx.case(("sweep-large", str(size), cs, levy), sample=dict(sweep=48, cache_size=cs, levy=levy, size=list(size)))
                if bad is not None:
                    ctx.violation(dict(kind="sweep_repeat", cache_size=cs, levy=levy, size="large"),
                                  f"step {bad} of 48 returned a different tensor on the backward sweep (sample shape {size})",
                                  replay=dict(n=48, cache_size=cs, levy=levy, size=list(size)))

    # ---- through the wrappers ---------------------------------------------------------------------
    for rep in range(3 if quick else 30):
        for kind in ("path", "tree", "tree_w1", "reverse"):
            fails = wrapper_repeat(random.Random(f"{ctx.seed}:{kind}:{rep}"), kind)
            ctx.case(("wrapper", kind, rep), sample=dict(wrapper=kind, rep=rep))
            for k_, det in fails:
                ctx.violation(dict(kind=k_, wrapper=kind), f"{k_}: {det}", replay=dict(wrapper=kind, rep=rep))

    # ---- the backward (adjoint) pass sees the forward noise ------------------------------------
    for method, adj, levy in (("midpoint", "midpoint", "none"), ("reversible_heun", "adjoint_reversible_heun", "none"),
                              ("heun", "euler_heun", "space-time")):
        mismatch, n_back = adjoint_sees_forward_noise(method, adj, levy)
        ctx.case(("adjoint", method, adj), sample=dict(adjoint=[method, adj], backward_requeries=n_back))
        if mismatch is not None:
            ctx.violation(dict(kind="adjoint_noise", method=method), f"interval {mismatch} returned different noise backward",
                          replay=dict(method=method, adjoint_method=adj))
        if n_back == 0:
            ctx.drift(f"adjoint {method}/{adj}: no forward interval was re-asked during backward (check is idle)")
    # ---- traces harvested from the repository's own test-suite (DESIGN 4.2 (ii)): every Brownian object a test
    # creates is validated against TraceBrownian (RefineOnly, NoSameSpanChild, Repeat) and the bit-identity of
    # re-asked queries is monitored on every call
    from harness import harvest_run
    harvest_run.harvest(ctx, "brownian_quick" if quick else "brownian", ["brownian"], workers=8 if quick else 16)
    if not quick:
        harvest_run.harvest(ctx, "sdeint_quick", ["brownian"], selftest=False)
    ctx.exhaustive = False


def replay(path):
    import json
    r = json.load(open(path))["replay"]
    if isinstance(r, dict) and str(r.get("kind", "")).startswith("harvest-"):
        from harness import harvest_run
        return harvest_run.replay(r)
    if "cfg" not in r and "n" in r and "cache_size" in r and "levy" in r:
        bad = sweep_repeat(r["n"], r["cache_size"], r["levy"], size=tuple(r["size"]) if "size" in r else (2,),
                           tol=r.get("tol", 0.0), halfway=r.get("halfway", False), drift=r.get("drift", False))
        print("first differing step:", bad)
        return 0 if bad is None else 1
    if "cfg" not in r:
        print("re-run the check for this kind")
        return 0
    cfg = B.Cfg(**r["cfg"])
    f = P.check_repeat(cfg, [tuple(q) for q in r["queries"]], P.SHAPES.get(r.get("shape", "batch"), (3,)),
                       r.get("levy", "none"), random.Random(0))
    print(f)
    return 1 if f else 0
