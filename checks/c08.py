"""C08 - sdeint is differentiable: backprop equals the derivative of the numerical solution.

Spec: spec/Dual.tla instantiates the documented schemes of spec/Schemes.tla with dual numbers over the rationals,
so TLC computes, for every enumerated (method x calculus x noise type x grad_free x problem x steps x time layout x
loss weighting), the exact forward values AND the exact derivative of L = sum_ik w_ik y_k(t_i) with respect to y0
and every polynomial coefficient, the Brownian increments held fixed.  TLC itself checks ForwardAgrees (dual values
= rational run), DualIsExactDerivative (7-point central difference lemma on one-step scenarios) and NoGradInCtl.

Binding on the real code
 (1) every TLC scenario: real torchsde.sdeint on the polynomial nn.Module SDE (parameters = coefficients) with a
     Brownian stub returning the prescribed W (U for srk, A for log_ode), float64.  FIRST the forward values must
     equal TLC's at 1e-13 (this validates that Schemes.tla models what the solver computes); THEN
     torch.autograd.grad must equal TLC's exact gradient at 1e-11 for every weighting.  If the forward values differ
     (the code implements another scheme than the documented one) the scenario is recorded as model drift and falls
     back to (2)'s measure on the same scenario.
 (2) the property's own measure on smooth NON-polynomial SDEs (tanh / sin nn.Modules), all solvers x noise types x
     options, several ts/dt/weightings, fixed and adaptive steps: central directional finite differences in float64
     with the Brownian path held fixed (one BrownianInterval object behind a recording proxy) against backprop.
     Two step sizes eps, eps/2 + Richardson; tolerance = |D(eps) - D(eps/2)| (truncation, observed) +
     256 ulp * sum|w y| / eps (rounding of the difference quotient): derived from the step size, not tuned.
     Adaptive runs: the schedule (Brownian queries) and error estimates are recorded; a case is skipped when an
     estimate is within 5% of 1 or when the perturbed runs do not walk the same schedule (step sizes depend
     continuously on the state through the controller, which backprop - by design, NoGradInCtl - does not
     differentiate; the derivative "with the path and schedule held fixed" is what the property measures).
 (3) NoGradInCtl on the real code: compute_error / update_step_size are wrapped; they must run with autograd
     disabled or on tensors that do not require grad, and return plain numbers.  A breach without a gradient
     mismatch is model drift; with a mismatch it shows up in (2).
"""
import math

import torch
import torchsde
from torch import nn

from harness import schemes as S
from harness.common import rng

LEVEL = "exploration"
EPS = torch.finfo(torch.float64).eps
FWD_TOL = 1e-13
GRAD_TOL = 1e-11


# =============================================================================================
# finite differences (the property's own measure)
# =============================================================================================
def _flat_params(module):
    return [p for p in module.parameters()]


WRT_MODES = ("both", "params", "y0")


def fd_check(loss_fn, y0, params, gen, eps=2.0 ** -13, wrt="both"):
    """loss_fn(y0) -> (L, absL) with the module's current parameters; absL = sum |w y|.
    wrt: differentiate with respect to "both" (y0 and parameters), "params" only (y0 is then a plain tensor that
    does not require grad, as in ordinary training) or "y0" only (parameters frozen with requires_grad_(False)).
    Returns dict(backprop, fd, tol, err, trunc, round)."""
    y0 = y0.detach().clone()
    if wrt != "params":
        y0.requires_grad_(True)
    frozen = []
    if wrt == "y0":
        frozen = [p for p in params if p.requires_grad]
        for p in frozen:
            p.requires_grad_(False)
    try:
        L, absL = loss_fn(y0)
        wrt_list = ([y0] if wrt != "params" else []) + (params if wrt != "y0" else [])
        grads = torch.autograd.grad(L, wrt_list, allow_unused=True)
    finally:
        for p in frozen:
            p.requires_grad_(True)
    grads = [torch.zeros_like(x) if g is None else g for g, x in zip(grads, wrt_list)]
    zero_y = [torch.zeros_like(y0)] if wrt == "params" else []
    zero_p = [torch.zeros_like(p) for p in params] if wrt == "y0" else []
    grads = zero_y + grads + zero_p                                  # aligned with [y0] + params
    # random direction in the differentiated variables, normalised to unit length
    dirs = [torch.randn(x.shape, generator=gen, dtype=x.dtype) for x in [y0] + params]
    if wrt == "params":
        dirs[0].zero_()
    if wrt == "y0":
        for d in dirs[1:]:
            d.zero_()
    nrm = math.sqrt(sum(float((d ** 2).sum()) for d in dirs))
    dirs = [d / nrm for d in dirs]
    backprop = sum(float((g * d).sum()) for g, d in zip(grads, dirs))

    def L_at(h):
        with torch.no_grad():
            for p, d in zip(params, dirs[1:]):
                p.add_(h * d)
            try:
                val, _ = loss_fn(y0.detach() + h * dirs[0])
            finally:
                for p, d in zip(params, dirs[1:]):
                    p.sub_(h * d)
        return float(val)

    d1 = (L_at(eps) - L_at(-eps)) / (2 * eps)
    d2 = (L_at(eps / 2) - L_at(-eps / 2)) / eps
    fd = (4 * d2 - d1) / 3
    trunc = abs(d2 - d1)
    rnd = 256 * EPS * max(float(absL), 1e-300) / eps
    return dict(backprop=backprop, fd=fd, tol=trunc + rnd, err=abs(backprop - fd), trunc=trunc, round=rnd,
                grad_norm=math.sqrt(sum(float((g ** 2).sum()) for g in grads)))


# =============================================================================================
# smooth SDEs
# =============================================================================================
class Smooth(nn.Module):
    def __init__(self, nt, sde_type, d, m, gen):
        super().__init__()
        self.noise_type, self.sde_type, self.d, self.m = nt, sde_type, d, m
        r = lambda *shape: torch.randn(*shape, generator=gen, dtype=S.DT)
        self.Af, self.bf = nn.Parameter(0.6 * r(d, d)), nn.Parameter(0.3 * r(d))
        if nt == "diagonal":
            self.a, self.c = nn.Parameter(0.7 * r(d)), nn.Parameter(r(d))
        elif nt == "additive":
            self.M0, self.M1 = nn.Parameter(0.5 * r(d, m)), nn.Parameter(0.3 * r(d, m))
        else:
            self.Ag, self.bg = nn.Parameter(0.5 * r(d * m, d)), nn.Parameter(0.3 * r(d * m))

    def f(self, t, y):
        return torch.tanh(y @ self.Af.t() + self.bf) + 0.1 * torch.sin(t) * y

    def g(self, t, y):
        if self.noise_type == "diagonal":
            return 0.5 + 0.3 * torch.sin(self.a * y + self.c + t)
        if self.noise_type == "additive":
            return (self.M0 + torch.sin(t) * self.M1).unsqueeze(0).expand(y.size(0), self.d, self.m)
        return (0.5 * torch.tanh(y @ self.Ag.t() + self.bg) + 0.2 * torch.cos(t)).reshape(-1, self.d, self.m)


COMBOS = [(me, cal, nt, gf)
          for me, cals in (("euler", ("ito",)), ("milstein", ("ito", "stratonovich")), ("srk", ("ito",)),
                           ("heun", ("stratonovich",)), ("midpoint", ("stratonovich",)),
                           ("euler_heun", ("stratonovich",)), ("reversible_heun", ("stratonovich",)),
                           ("log_ode", ("stratonovich",)))
          for cal in cals
          for nt in ("diagonal", "scalar", "additive", "general")
          for gf in ((False, True) if me == "milstein" else (False,))
          if not (me in ("milstein", "srk") and nt == "general")]


def weights_for(kind, T, B, d, gen):
    if kind == "last":
        w = torch.zeros(T, B, d, dtype=S.DT)
        w[-1] = 1.0
    elif kind == "ones":
        w = torch.ones(T, B, d, dtype=S.DT)
    else:
        w = torch.randn(T, B, d, generator=gen, dtype=S.DT)
    return w


CtlProbe = S.CtlProbe


# =============================================================================================
def _poly_loss_fn(case, sde, w):
    def loss_fn(y0):
        bm, _ = S.scripted_bm(case)
        ys = torchsde.sdeint(sde, y0, [S.fl(q) for q in case["ts"]], bm=bm, method=case["method"],
                             dt=S.fl(case["dt"]), options=S.options_for(case))
        return (w * ys).sum(), (w * ys).abs().sum().detach()
    return loss_fn


def part1_exact(ctx, res):
    fwd = {S.case_id(p["key"]): p for p in res.printed if p.get("kind") == "c08fwd"}
    grads = {}
    for p in res.printed:
        if p.get("kind") == "c08grad":
            grads.setdefault(S.case_id(p["key"]), []).append(p)
    if not fwd or any(k not in grads for k in fwd):
        raise RuntimeError("TLC output incomplete (forward / gradient scenarios)")
    stats = dict(forward_ok=0, forward_drift=0, grads_compared=0, max_fwd_err=0.0, max_grad_err=0.0, lemma_cases=0,
                 fallback_fd=0)
    for n_case, (kid, p) in enumerate(sorted(fwd.items())):
        key = dict(p["key"])
        case = p["case"]
        replay = dict(key=key, case=case)
        sde = S.AstSDE(case["sde"], case["th"])
        y0 = torch.tensor([[S.fl(q) for q in case["y0"]]], dtype=S.DT, requires_grad=True)
        nd = y0.numel()

        def solve(mode):
            """mode "both": y0 and theta require grad; "params": y0 is a plain tensor (ordinary training);
            "y0": the parameters are frozen."""
            sde_m = sde if mode == "both" else S.AstSDE(case["sde"], case["th"])
            y0_m = y0 if mode == "both" else y0.detach().clone().requires_grad_(mode == "y0")
            if mode == "y0":
                sde_m.theta.requires_grad_(False)
            bm_m, _ = S.scripted_bm(case)
            ys_m = torchsde.sdeint(sde_m, y0_m, [S.fl(q) for q in case["ts"]], bm=bm_m, method=case["method"],
                                   dt=S.fl(case["dt"]), options=S.options_for(case))
            return ys_m, y0_m, sde_m

        try:
            ys, _, _ = solve("both")
            others = {mode: solve(mode) for mode in ("params", "y0")}
        except Exception as e:
            ctx.violation(dict(key, what="exception"), f"sdeint raised {type(e).__name__}: {e}", replay=replay)
            continue
        want = torch.tensor(S.fl_nested(p["ys"]), dtype=S.DT).unsqueeze(1)
        e_fwd = max(S.rel_err(ys.detach(), want), *(S.rel_err(o[0].detach(), want) for o in others.values()))
        T, d = want.size(0), want.size(2)
        if e_fwd <= FWD_TOL:
            stats["forward_ok"] += 1
            stats["max_fwd_err"] = max(stats["max_fwd_err"], e_fwd)
            for gp in grads[kid]:
                w = torch.tensor(S.fl_nested(gp["w"]), dtype=S.DT).unsqueeze(1)
                exact = torch.tensor([S.fl(q) for q in gp["grad"]], dtype=S.DT)
                assert len(gp["atoms"]) == nd + sde.theta.numel() and gp["atoms"][0] == ["y0", 1]
                for mode in WRT_MODES:
                    ys_m, y0_m, sde_m = (ys, y0, sde) if mode == "both" else others[mode]
                    L = (w * ys_m).sum()
                    wrt_list = ([y0_m] if mode != "params" else []) + ([sde_m.theta] if mode != "y0" else [])
                    if not L.requires_grad:      # weights select outputs that do not depend on the variables
                        got_list = [torch.zeros_like(x) for x in wrt_list]
                    else:
                        got_list = torch.autograd.grad(L, wrt_list, retain_graph=True, allow_unused=True)
                    got = torch.cat([(torch.zeros_like(x) if g_ is None else g_).reshape(-1)
                                     for g_, x in zip(got_list, wrt_list)])
                    sel = slice(None) if mode == "both" else (slice(nd, None) if mode == "params" else slice(0, nd))
                    ex = exact[sel]
                    atoms = gp["atoms"][sel]
                    eL = S.rel_err(L.detach(), torch.tensor(S.fl(gp["L"]), dtype=S.DT))
                    eg = S.rel_err(got, ex, scale=float(exact.abs().max()))
                    stats["grads_compared"] += 1
                    stats["max_grad_err"] = max(stats["max_grad_err"], eg)
                    if not (eg <= GRAD_TOL and eL <= 1e-12):
                        bad = int((got - ex).abs().argmax())
                        ctx.violation(dict(key, wkind=gp["wkind"], wrt=mode, what="exact_gradient"),
                                      f"backprop gradient (differentiating w.r.t. {mode}) differs from the exact derivative "
                                      f"of the numerical solution: rel {eg:.3e} (atom {atoms[bad]}: backprop "
                                      f"{float(got[bad])!r}, exact {float(ex[bad])!r}); forward values agree to {e_fwd:.1e}",
                                      replay=dict(replay, wkind=gp["wkind"], wrt=mode, w=gp["w"], exact_grad=gp["grad"]))
                stats["lemma_cases"] += bool(gp["lemma"])
            ctx.case(("exact", kid), trace=True,
                     sample=dict(key=key, ys=ys.detach().squeeze(1).tolist(), tlc_ys=S.fl_nested(p["ys"]),
                                 grad_mixed=[S.fl(q) for q in grads[kid][-1]["grad"]]) if n_case < 2 else None)
        else:
            # the code does not implement the documented scheme on this scenario: not a C08 failure by itself
            stats["forward_drift"] += 1
            ctx.drift(f"C08 {kid}: forward values differ from the documented scheme in Schemes.tla by {e_fwd:.2e} "
                      f"(relative); falling back to directional finite differences for this scenario")
            gen = torch.Generator().manual_seed(rng(ctx.seed, "c08-fallback", kid).randrange(2 ** 31))
            for gp in grads[kid]:
                w = torch.tensor(S.fl_nested(gp["w"]), dtype=S.DT).unsqueeze(1)
                r = fd_check(_poly_loss_fn(case, sde, w), y0, [sde.theta], gen)
                stats["fallback_fd"] += 1
                if not r["err"] <= r["tol"]:
                    ctx.violation(dict(key, wkind=gp["wkind"], what="fd_fallback"),
                                  f"backprop directional derivative {r['backprop']!r} vs central differences {r['fd']!r}: "
                                  f"|diff| {r['err']:.3e} > {r['tol']:.3e}", replay=dict(replay, wkind=gp["wkind"]))
            ctx.case(("fallback", kid))
    return stats


# Adaptive layouts whose schedule is locally constant in (y0, parameters), as the property requires ("away from
# accept/reject boundaries"): the controller multiplies the step by a factor that depends continuously on the error
# estimate unless it saturates, so
#   "loose": every trial is accepted with an estimate << 1 and the growth factor saturates at facmax = 1.4;
#   "floor": the first trial (dt far too large for the tolerance) is rejected, the proposed step falls below dt_min,
#            and the run continues at the floor dt_min (forced accepts, estimates >> 1).
ADAPTIVE = [dict(adaptive=True, name="loose", dt=0.05, ts=[0.0, 0.3, 0.7], wk="mixed", tol=0.3, dt_min=1e-4),
            dict(adaptive=True, name="floor", dt=0.25, ts=[0.0, 0.2, 0.45], wk="mixed", tol=1e-7, dt_min=0.03125)]


# =============================================================================================
def part2_fd(ctx):
    quick = ctx.tier == "quick"
    fixed_layouts = [dict(dt=0.0625, ts=[0.0, 0.25, 0.4375], wk="mixed"),          # outputs on the grid
                     dict(dt=0.125, ts=[0.0, 0.09375, 0.3125, 0.5], wk="last"),    # interpolated outputs
                     dict(dt=0.0625, ts=[0.0, 0.1, 0.2, 0.35], wk="mixed"),        # off-grid, clipped last step
                     dict(dt=0.25, ts=[0.0, 0.25, 0.5, 1.0], wk="ones")]           # large steps
    if not quick:
        fixed_layouts += [dict(dt=0.0625, ts=[0.0, 0.5], wk="ones"), dict(dt=0.03125, ts=[0.0, 0.3, 0.31, 0.75], wk="mixed"),
                          dict(dt=0.015625, ts=[0.0, 0.5, 1.0], wk="last")]
    stats = dict(fd_cases=0, adaptive_cases=0, adaptive_skipped_boundary=0, adaptive_skipped_schedule=0,
                 max_err_over_tol=0.0, ctl_calls=0, estimates_above_1=0, adaptive_schedules=[])
    reps = 1 if quick else 3
    for ci, (me, cal, nt, gf) in enumerate(COMBOS * reps):
        rep = ci // len(COMBOS)
        jobs = [(li, lay, wrt) for li, lay in enumerate(fixed_layouts + ADAPTIVE)
                for wrt in (WRT_MODES if not lay.get("adaptive") else (WRT_MODES[(ci + li) % 3],))]
        for li, lay, wrt in jobs:
            sizes = {"diagonal": [(3, 3), (1, 1)], "scalar": [(3, 1), (1, 1)], "additive": [(3, 2), (2, 3)],
                     "general": [(3, 2), (2, 3)]}
            d, m = sizes[nt][li % 2]
            B = 1 + li % 3
            adaptive = bool(lay.get("adaptive"))
            if adaptive and quick and gf:
                continue
            key = dict(method=me, cal=cal, nt=nt, grad_free=gf, layout=li, adaptive=adaptive, rep=rep, wrt=wrt)
            seed = rng(ctx.seed, "c08-fd", me, cal, nt, gf, li, rep).randrange(2 ** 31)
            gen = torch.Generator().manual_seed(seed)
            sde = Smooth(nt, cal, d, m, gen)
            y0 = 0.5 * torch.randn(B, d, generator=gen, dtype=S.DT)
            ts = lay["ts"]
            w = weights_for(lay["wk"], len(ts), B, d, gen)
            inner = torchsde.BrownianInterval(t0=ts[0], t1=ts[-1], size=(B, m), dtype=S.DT, entropy=seed,
                                              levy_area_approximation=S.levy_for(me))
            record = {}
            schedules = []
            kw = dict(method=me, dt=lay["dt"], options={"grad_free": True} if gf else {})
            if adaptive:
                kw.update(adaptive=True, rtol=lay["tol"], atol=lay["tol"], dt_min=lay["dt_min"])

            # every third fixed-step case of a diagonal / additive problem also asks for logqp=True (prior drift h = -y/2):
            # the loss then includes the KL increments, and the gradient w.r.t. y0 flows through the augmented state
            use_lq = (not adaptive) and nt in ("diagonal", "additive") and (ci + li) % 3 == 0
            if use_lq:
                sde.h = lambda t, y: -0.5 * y
                key["logqp"] = True
            pad = 1 if (use_lq and nt == "diagonal") else 0

            def loss_fn(y0_):
                bm = S.ReplayBrownian(inner, record, pad=pad) if pad else S.ReplayBrownian(inner, record)
                if use_lq:
                    ys, lq = torchsde.sdeint(sde, y0_, ts, bm=bm, logqp=True, **kw)
                    schedules.append([q[:2] for q in bm.queries])
                    return (w * ys).sum() + 0.125 * lq.sum(), ((w * ys).abs().sum() + 0.125 * lq.abs().sum()).detach()
                ys = torchsde.sdeint(sde, y0_, ts, bm=bm, **kw)
                schedules.append([q[:2] for q in bm.queries])
                return (w * ys).sum(), (w * ys).abs().sum().detach()

            replay = dict(key=key, seed=seed, ts=ts, dt=lay["dt"])
            try:
                with CtlProbe() as probe:
                    import warnings
                    with warnings.catch_warnings():
                        warnings.simplefilter("ignore")
                        r = fd_check(loss_fn, y0, list(sde.parameters()), gen, wrt=wrt)
            except Exception as e:
                ctx.violation(dict(key, what="exception"), f"{type(e).__name__}: {e}", replay=replay)
                continue
            stats["ctl_calls"] += probe.calls
            for b in sorted(set(probe.breaches)):
                ctx.drift(f"C08 NoGradInCtl {S.case_id(key)}: {b}")
            if adaptive:
                if probe.calls == 0:
                    raise RuntimeError("adaptive run did not call the controller")
                if any(abs(e - 1.0) <= 0.05 for e in probe.estimates):
                    stats["adaptive_skipped_boundary"] += 1
                    continue
                if any(s != schedules[0] for s in schedules[1:]):
                    stats["adaptive_skipped_schedule"] += 1
                    continue
                stats["adaptive_cases"] += 1
                n_base = len(probe.estimates) // len(schedules)
                stats["estimates_above_1"] += sum(e > 1 for e in probe.estimates[:n_base])
                if len(stats["adaptive_schedules"]) < 3:
                    stats["adaptive_schedules"].append(dict(key=key, estimates=[round(e, 4) for e in probe.estimates[:n_base]]))
            stats["fd_cases"] += 1
            stats["max_err_over_tol"] = max(stats["max_err_over_tol"], r["err"] / r["tol"])
            if not r["err"] <= r["tol"]:
                ctx.violation(dict(key, what="directional_fd"),
                              f"backprop directional derivative {r['backprop']!r} vs central differences (Richardson) "
                              f"{r['fd']!r}: |diff| {r['err']:.3e} > tol {r['tol']:.3e} (truncation {r['trunc']:.1e} + "
                              f"rounding {r['round']:.1e})", replay=replay)
            ctx.case(("fd", S.case_id(key)), nontrivial=r["grad_norm"] > 1e-6,
                     sample=dict(key=key, backprop=r["backprop"], fd=r["fd"], tol=r["tol"]) if stats["fd_cases"] <= 2 else None)
    return stats


def run(ctx):
    torch.set_num_threads(1)
    res = S.run_dual(ctx.tier, timeout=1500)
    ctx.add_tlc(res, "Dual over Schemes: ScenarioOK (ForwardAgrees, DualIsExactDerivative), NoGradInCtl, WeightsWellFormed")
    if not res.ok:
        raise RuntimeError(f"TLC rejects the dual-number specification itself: {res.violated}")
    cov = S.require_all_actions(ctx, "Dual", "Spec", f"CONSTANT Tier = \"{ctx.tier}\"\n", "Dual: action coverage")
    import time
    t0 = time.time()
    st1 = part1_exact(ctx, res)
    t1 = time.time()
    st2 = part2_fd(ctx)
    ctx.notes["seconds"] = dict(tlc=round(res.wall_s, 1), exact_part=round(t1 - t0, 1), fd_part=round(time.time() - t1, 1))
    ctx.rule = ("(1) every (method x calculus x noise type x grad_free x d x variant x steps x time layout) state of "
                "Dual.tla's scenario machine (39 documented combinations), each with 3 loss weightings: real sdeint + "
                "autograd.grad against TLC's exact forward values (1e-13) and exact gradients (1e-11); (2) the same 39 "
                "combinations on smooth tanh/sin SDEs with several ts/dt/weightings, fixed and adaptive steps, by "
                "directional central differences with the Brownian path held fixed; non-trivial = non-zero gradient")
    ctx.exhaustive = True
    ctx.assumptions = ["exact part: polynomial SDEs, 1-3 steps (srk <= 2), small dyadic data (32-bit rationals in TLC)",
                       "adaptive stepping: derivative with the Brownian path AND the accepted schedule held fixed; cases "
                       "whose perturbed runs change the schedule or whose estimates are within 5% of 1 are skipped",
                       "Schemes.tla is implementation shaped: a forward mismatch is model drift and falls back to finite "
                       "differences; it is never a C08 violation by itself"]
    ctx.notes.update({"exact_" + k: v for k, v in st1.items()})
    ctx.notes.update({"fd_" + k: v for k, v in st2.items()})
    ctx.notes["actions_taken"] = cov


def replay(path):
    return S.replay_file(path, logqp=False)
