"""C09 -- sdeint_adjoint: same forward values as sdeint; gradients agree with closed forms, go only where asked,
and (explored) approach backprop as dt -> 0.

Spec: spec/AdjointDriver.tla -- forward fixed-step loop; backward Segment(i)/Inject(i), i = N..2; invariants
InjectOrder, SameNoise, BothTile, SegmentCalls, OnlyRequested, ExtrasOnlyForPair and ClosedForm (on the exactly
solvable family f == a, g == b the driver's accumulated gradients equal  dL/dy0 = sum w_i,
dL/da = sum w_i (t_i - t0), dL/db = sum w_i W(t0, t_i)).  TLC enumerates ts layouts (aligned or not, 2..4
outputs), loss-weight patterns, requires-grad / adjoint_params patterns (incl. an unused parameter), pair classes,
prints the exact gradients and the accepted (sde_type, noise_type, method, adjoint_method) table.

Binding:
 (i)   sdeint_adjoint(...) torch.equal sdeint(...) (same arguments, same Brownian object) for every accepted combo,
       on the constant family and on smooth state-dependent SDEs, aligned and unaligned layouts;
 (ii)  constant-family gradients vs TLC's rationals at 1e-12; tensors not asked for receive no gradient; the unused
       parameter receives none / zero;
 (ii') time-dependent family f == a (1+t), g == b (1+t) (times offset by 2 so that t and -t differ grossly), every
       accepted (sde_type, noise_type, method, adjoint_method): dL/dy0 exact; dL/da, dL/db within the quadrature
       budget TLC derives (AdjointDriver!LinStep: nodes of a consistent solver lie inside each step);
 (iii) every real forward+backward pass recorded as a trace (BaseSDESolver.integrate wrapper + Brownian proxy) and
       validated by TLC against AdjointDriver (TraceAdjoint: NotStuck, POSTCONDITION AllAccepted);
 (iv)  exploration only, over every accepted combo (quick: every (sde_type, noise_type, adjoint_method) and every
       default pair) on an SDE whose drift and diffusion depend on y and, non-evenly, on t:
       e(dt) = RMS(adjoint gradient - backprop gradient), 256 paths, fixed Brownian path:
       e(dt/16) < e(dt/4) < e(dt) and e(dt/16) <= e(dt)/2; only "no decrease at all" is a violation.
"""
import math
from fractions import Fraction

import torch
import torchsde

from harness import tlc
from harness import adjoint as H

LEVEL = "model_checking"
F64 = torch.float64
EPS = torch.finfo(torch.float64).eps
TICK = 0.125
TOL = 1e-12

LAYOUTS_QUICK = [(2, (0, 2)), (2, (0, 3)), (2, (0, 2, 4)), (2, (1, 2, 6)), (3, (0, 3, 4, 6)), (1, (0, 1, 2, 3))]
LAYOUTS_MORE = [(2, (0, 4)), (2, (0, 1, 4)), (2, (1, 3, 5, 7)), (4, (0, 3, 5)), (8, (0, 3)), (4, (0, 4, 8, 12)),
                (3, (2, 3, 9)), (5, (0, 2, 7, 16))]


def _lit(layouts):
    return "{" + ", ".join("<<%d, <<%s>> >>" % (d, ", ".join(map(str, ts))) for d, ts in layouts) + "}"


def run_tlc(ctx):
    layouts = LAYOUTS_QUICK + (LAYOUTS_MORE if ctx.tier != "quick" else [])
    reqs = "{1, 2, 3, 4, 5, 6, 7, 8, 9, 10}"
    root = "---- MODULE ADRun ----\nEXTENDS AdjointDriver\nLayoutsDef == %s\n====\n" % _lit(layouts)
    invs = ["InjectOrder", "SameNoise", "BothTile", "SegmentCalls", "OnlyRequested", "ExtrasOnlyForPair", "ClosedForm",
            "LinearFamily",
            "Export", "ExportAccepted"]
    cfg = ("SPECIFICATION Spec\nCONSTANTS\n  Layouts <- LayoutsDef\n  ReqPatterns = %s\n"
           "  PairClasses = {\"revheun\", \"rh_other\", \"other\"}\n" % reqs
           + "".join(f"INVARIANT {i}\n" for i in invs) + "CHECK_DEADLOCK FALSE\n")
    cov = ctx.tier != "quick"          # action coverage is measured in the thorough tier
    res = tlc.run("ADRun", cfg_text=cfg, workers=6, timeout=900, coverage=cov, extra_modules={"ADRun": root})
    ctx.add_tlc(res, "AdjointDriver: layouts x weights x requests x pair classes; invariants + exact gradients")
    if not res.ok:
        raise tlc.TLCMachineryError(f"the specification itself violates {res.violated}:\n{res.output[-1500:]}")
    if cov:
        never = [a for a, (d, _t) in res.coverage.items() if d == 0]
        if never or len(res.coverage) < 8:
            raise tlc.TLCMachineryError(f"actions never taken: {never} / {res.coverage}")
    drv = [p for p in res.printed if p.get("kind") == "drv"]
    acc = [p for p in res.printed if p.get("kind") == "accepted"][0]["combos"]
    return drv, acc


# ------------------------------------------------------------------------------------------------
def _sizes(i, noise):
    b, d, m = [(2, 2, 2), (1, 3, 2), (3, 1, 1), (2, 2, 3)][i % 4]
    if noise == "scalar":
        m = 1
    if noise == "diagonal":
        m = d
    return b, d, m


def _dy(gen, *shape):
    """dyadic tensor with entries k/4, k in -8..8, no zero rows"""
    t = torch.randint(-8, 9, shape, generator=gen).to(F64) / 4.0
    t[t == 0] = 0.25
    return t


def _levy_for(method):
    return "space-time" if method == "srk" else ("davie" if method == "log_ode" else "none")


def const_case(ctx, p, idx, combo, traces, corrupt=None):
    s = p["scn"]
    ty, noise, method, am = combo[:4]
    D, tst = s["D"], s["ts"]
    b, d, m = _sizes(idx, noise)
    gen = torch.Generator().manual_seed((ctx.seed * 9973 + idx * 31 + 7) % (2 ** 31))
    V, U = _dy(gen, b, d), _dy(gen, b, m)
    inc = [float(H.frac(x)) for x in p["inc"]]
    bm = H.GridBrownian(0.0, TICK, torch.stack([r * U for r in inc]), levy=_levy_for(method))
    a0 = _dy(gen, d)
    b0 = _dy(gen, d) if noise == "diagonal" else _dy(gen, d, m)
    sde = H.ConstSDE(noise, ty, d, m, a0, b0)
    req = s["req"]
    for name in ("a", "b", "u"):
        getattr(sde, name).requires_grad_(bool(req[name]))
    y0 = _dy(gen, b, d).requires_grad_(bool(req["y0"]))
    ts = torch.tensor([t * TICK for t in tst], dtype=F64)
    w = torch.tensor([float(H.frac(x)) for x in s["w"]], dtype=F64)
    if corrupt == "weight":
        w = w.clone()
        w[-1] += 1.0
    loss_fn = lambda ys: (ys * V * w[:, None, None]).sum()
    tensors = dict(y0=y0, a=sde.a, b=sde.b, u=sde.u)
    ginputs = [k for k, t in tensors.items() if t.requires_grad]
    adjoint_params = None if s["req"]["ask"] == ["*"] else tuple(getattr(sde, k) for k in sorted(s["req"]["ask"]))
    key = dict(part="const", sde_type=ty, noise=noise, method=method, adjoint_method=am)
    try:
        ys, grads, events, _ = H.traced_adjoint_run(sde, y0, ts, bm, D * TICK, method, am, loss_fn,
                                                    [tensors[k] for k in ginputs], TICK, V=V,
                                                    adjoint_params=adjoint_params, renamed=(idx % 3 == 1))
    except Exception as e:                                        # an accepted configuration must run
        H.violation_once(ctx, dict(key, clause="accepted_runs"),
                         f"accepted configuration raised {type(e).__name__}: {str(e)[:200]} "
                         f"(D={D}, ts={tst}, req={req})", replay=dict(scn=s, combo=combo, seed=ctx.seed, idx=idx))
        return
    if corrupt == "event":
        k = max(i for i, e in enumerate(events) if e["k"] == "bm")
        events[k] = dict(events[k], a=events[k]["a"] + 1)
    got = dict(zip(ginputs, grads))
    # (i) forward values
    # the reference sdeint runs as a user would call it - autograd recording - on even cases and under no_grad on odd
    # ones (the forward pass of sdeint_adjoint itself runs without recording): the values must be the same either way
    with H.quiet(), (torch.no_grad() if idx % 2 else torch.enable_grad()):
        ys2 = torchsde.sdeint(sde, y0, ts, bm=bm, method=method, dt=D * TICK).detach()
    if not torch.equal(ys.detach(), ys2):
        H.violation_once(ctx, dict(key, clause="forward_equal"),
                         f"sdeint_adjoint outputs differ from sdeint outputs (max diff {float((ys.detach() - ys2).abs().max()):.3e}); "
                         f"D={D} ts={tst}", replay=dict(scn=s, combo=combo, seed=ctx.seed, idx=idx))
    # (ii) gradients: TLC's rational coefficients times the fixed tensors
    lam, ga, gb = float(H.frac(p["lam"])), float(H.frac(p["ga"])), float(H.frac(p["gb"]))
    want = dict(y0=lam * V, a=ga * TICK * V.sum(0),
                b=gb * ((V * U).sum(0) if noise == "diagonal" else V.T @ U), u=torch.zeros(3, dtype=F64))
    slots = set(p["slots"])
    worst = 0.0
    for name, t in tensors.items():
        g = got.get(name)
        if name in slots:
            if name == "u":
                if g is not None and bool((g != 0).any()):
                    H.violation_once(ctx, dict(key, clause="unused_param"),
                                     f"the unused parameter received a non-zero gradient {g.tolist()}")
                continue
            if g is None:
                if bool((want[name] != 0).any()):
                    H.violation_once(ctx, dict(key, clause="closed_form", slot=name),
                                     f"no gradient for requested {name}; closed form is {want[name].tolist()} (D={D}, ts={tst}, "
                                     f"w={s['w']}, req={req})", replay=dict(scn=s, combo=combo, seed=ctx.seed, idx=idx))
                continue
            scale = max(float(want[name].abs().max()), float(V.abs().max()) * TICK)
            err = float((g - want[name]).abs().max()) / scale
            worst = max(worst, err)
            if err > TOL:
                H.violation_once(ctx, dict(key, clause="closed_form", slot=name),
                                 f"dL/d{name} = {g.tolist()} but the closed form (TLC) is {want[name].tolist()} "
                                 f"(rel err {err:.3e}; D={D}, ts={tst}, w={s['w']}, req={req})",
                                 replay=dict(scn=s, combo=combo, seed=ctx.seed, idx=idx))
        else:
            if g is not None:
                H.violation_once(ctx, dict(key, clause="only_requested", slot=name),
                                 f"{name} was not asked for (req={req}) but received a gradient",
                                 replay=dict(scn=s, combo=combo, seed=ctx.seed, idx=idx))
    n_adj = len([k for k in ("a", "b", "u") if k in slots])
    saved = H.saved_extras_count(ys, n_adj)
    if saved is not None and (saved == 3) != bool(p["extras"]):
        ctx.drift(f"C09 ExtrasOnlyForPair: {method}/{am} saved {saved} extra-state tensors, the spec says "
                  f"{3 if p['extras'] else 0}")
    ctx.case(("const", ty, noise, method, am, D, tuple(tst), tuple(s["wset"]), s["rid"]),
             sample=dict(key, D=D, ts=tst, wset=s["wset"], rid=s["rid"], worst_rel_err=worst), trace=True)
    traces.append(dict(scn=H.trace_scn(D, tst, set(s["wset"]), s["pair"], dict(req, ask=req["ask"])), ev=events,
                       key=key, info=dict(D=D, ts=tst, wset=s["wset"])))


def lintime_case(ctx, p, idx, combo, traces, corrupt=None):
    """(ii') f == a (1+t), g == b (1+t) on the scenario p (all tensors requested): the real gradients must lie
    within TLC's quadrature budget of TLC's midpoint-node values."""
    s = p["scn"]
    ty, noise, method, am = combo[:4]
    D, tst = s["D"], s["ts"]
    toff, tden = p["toff"], p["tickden"]
    assert abs(1.0 / tden - TICK) == 0.0
    b, d, m = _sizes(idx + 1, noise)
    gen = torch.Generator().manual_seed((ctx.seed * 8191 + idx * 37 + 11) % (2 ** 31))
    V, U = _dy(gen, b, d), _dy(gen, b, m)
    inc = [float(H.frac(x)) for x in p["inc"]]
    bm = H.GridBrownian(toff * TICK, TICK, torch.stack([r * U for r in inc]), levy=_levy_for(method))
    a0 = _dy(gen, d)
    b0 = _dy(gen, d) if noise == "diagonal" else _dy(gen, d, m)
    sde = H.LinTimeSDE(noise, ty, d, m, a0, b0)
    y0 = _dy(gen, b, d).requires_grad_()
    ts = torch.tensor([(t + toff) * TICK for t in tst], dtype=F64)
    w = torch.tensor([float(H.frac(x)) for x in s["w"]], dtype=F64)
    loss_fn = lambda ys: (ys * V * w[:, None, None]).sum()
    key = dict(part="lintime", sde_type=ty, noise=noise, method=method, adjoint_method=am)
    try:
        ys, grads, events, _ = H.traced_adjoint_run(sde, y0, ts, bm, D * TICK, method, am, loss_fn,
                                                    [y0, sde.a, sde.b, sde.u], TICK, V=V, tick_offset=toff,
                                                    renamed=(idx % 2 == 1))
    except Exception as e:
        H.violation_once(ctx, dict(key, clause="accepted_runs"),
                         f"accepted configuration raised {type(e).__name__}: {str(e)[:200]} (D={D}, ts={tst})",
                         replay=dict(scn=s, combo=combo, seed=ctx.seed, idx=idx))
        return
    # the reference sdeint runs as a user would call it - autograd recording - on even cases and under no_grad on odd
    # ones (the forward pass of sdeint_adjoint itself runs without recording): the values must be the same either way
    with H.quiet(), (torch.no_grad() if idx % 2 else torch.enable_grad()):
        ys2 = torchsde.sdeint(sde, y0, ts, bm=bm, method=method, dt=D * TICK).detach()
    if not torch.equal(ys.detach(), ys2):
        H.violation_once(ctx, dict(key, clause="forward_equal"),
                         f"sdeint_adjoint outputs differ from sdeint outputs; D={D} ts={tst}",
                         replay=dict(scn=s, combo=combo, seed=ctx.seed, idx=idx))
    lin = {k: float(H.frac(v)) for k, v in p["lin"].items()}
    if corrupt == "time":                      # harness self-check: an oracle shifted beyond its own budget
        lin["gb"] = lin["gb"] + 2.0 * lin["eb"] + 1.0
    lam = float(H.frac(p["lam"]))
    Vs = V.sum(0)
    VU = (V * U).sum(0) if noise == "diagonal" else V.T @ U
    gy, ga_, gb_, gu = [None if g is None else g.detach() for g in grads]
    checks = [("y0", gy, lam * V, torch.zeros_like(V)),
              ("a", ga_, lin["ga"] * Vs, lin["ea"] * Vs.abs()),
              ("b", gb_, lin["gb"] * VU, lin["eb"] * VU.abs())]
    worst = 0.0
    for name, g, mid, budget in checks:
        if g is None:
            g = torch.zeros_like(mid)
        scale = max(float(mid.abs().max()), float(V.abs().max()) * TICK)
        excess = float(((g - mid).abs() - budget).max())
        worst = max(worst, excess / scale)
        if excess > TOL * scale:
            H.violation_once(ctx, dict(key, clause="time_dependent_family", slot=name),
                             f"dL/d{name} = {g.tolist()} is outside [midpoint value +- quadrature budget] = "
                             f"{mid.tolist()} +- {budget.tolist()} derived by TLC for f = a(1+t), g = b(1+t), times "
                             f"{[float(x) for x in ts]} (D={D}, ts={tst}, w={s['w']}): no placement of the solver's "
                             f"nodes inside its steps explains it (a field evaluated at a wrong time?)",
                             replay=dict(scn=s, combo=combo, seed=ctx.seed, idx=idx))
    if gu is not None and bool((gu != 0).any()):
        H.violation_once(ctx, dict(key, clause="unused_param"), "the unused parameter received a non-zero gradient")
    ctx.case(("lintime", ty, noise, method, am, D, tuple(tst), tuple(s["wset"])),
             sample=dict(key, D=D, ts=tst, wset=s["wset"], worst_excess=worst), trace=True)
    traces.append(dict(scn=H.trace_scn(D, tst, set(s["wset"]), s["pair"]), ev=events, key=key,
                       info=dict(D=D, ts=tst, wset=s["wset"])))


def smooth_forward_case(ctx, combo, idx, lay, bmkind, traces):
    """(i) on a state-dependent SDE + trace with the StateReset observation."""
    ty, noise, method, am = combo[:4]
    D, tst = lay
    b, d, m = _sizes(idx, noise)
    gen = torch.Generator().manual_seed((ctx.seed * 4099 + idx * 13 + 1) % (2 ** 31))
    sde = H.SmoothSDE(noise, d, m, seed=ctx.seed * 5 + idx, sde_type=ty)
    y0 = torch.randn(b, d, generator=gen, dtype=F64).requires_grad_()
    ts = torch.tensor([t * TICK for t in tst], dtype=F64)
    nt = tst[-1]
    levy = _levy_for(method)
    if bmkind == "grid":
        bm = H.GridBrownian(0.0, TICK, torch.randn(nt, b, m, generator=gen, dtype=F64) * math.sqrt(TICK), levy=levy)
    else:
        bm = torchsde.BrownianInterval(t0=0.0, t1=float(ts[-1]), size=(b, m), dtype=F64, entropy=ctx.seed * 131 + idx,
                                       levy_area_approximation=levy)
    w = H.weights_tensor(gen, (len(tst), b, d))
    params = list(sde.parameters())
    key = dict(part="smooth", sde_type=ty, noise=noise, method=method, adjoint_method=am, bm=bmkind)
    try:
        ys, grads, events, _ = H.traced_adjoint_run(sde, y0, ts, bm, D * TICK, method, am, lambda y: (y * w).sum(),
                                                    [y0] + params, TICK, renamed=(idx % 3 == 2))
    except Exception as e:
        H.violation_once(ctx, dict(key, clause="accepted_runs"),
                         f"accepted configuration raised {type(e).__name__}: {str(e)[:200]} (D={D}, ts={tst})")
        return
    # the reference sdeint runs as a user would call it - autograd recording - on even cases and under no_grad on odd
    # ones (the forward pass of sdeint_adjoint itself runs without recording): the values must be the same either way
    with H.quiet(), (torch.no_grad() if idx % 2 else torch.enable_grad()):
        ys2 = torchsde.sdeint(sde, y0, ts, bm=bm, method=method, dt=D * TICK).detach()
    if not torch.equal(ys.detach(), ys2):
        H.violation_once(ctx, dict(key, clause="forward_equal"),
                         f"sdeint_adjoint outputs differ from sdeint outputs (max diff {float((ys.detach() - ys2).abs().max()):.3e}); "
                         f"D={D} ts={tst}", replay=dict(combo=combo, lay=lay, seed=ctx.seed, idx=idx))
    if any(g is not None and not bool(torch.isfinite(g).all()) for g in grads):
        H.violation_once(ctx, dict(key, clause="finite"), "non-finite adjoint gradient")
    pair = "revheun" if (method, am) == ("reversible_heun", "adjoint_reversible_heun") else \
        ("rh_other" if method == "reversible_heun" else "other")
    ctx.case(("smooth", ty, noise, method, am, D, tuple(tst), bmkind), sample=dict(key, D=D, ts=list(tst)), trace=True)
    traces.append(dict(scn=H.trace_scn(D, tst, set(range(1, len(tst) + 1)), pair), ev=events, key=key,
                       info=dict(D=D, ts=list(tst))))


# ------------------------------------------------------------------------------------------------
def adaptive_forward_case(ctx, combo, idx):
    """(i) with adaptive=True: the options that only concern the backward solve (adjoint_adaptive, adjoint_rtol,
    adjoint_atol, adjoint_options) must not influence the forward values - sdeint_adjoint returns exactly what sdeint
    returns for the same FORWARD arguments.  One BrownianInterval object answers both runs (equal forward runs ask the
    same queries and get the same tensors, C05)."""
    ty, noise, method, am = combo[:4]
    b, d = 3, 2
    m = 1 if noise == "scalar" else 2
    sde = H.SmoothSDE(noise, d, m, seed=ctx.seed * 11 + idx, sde_type=ty, gscale=0.7)
    gen = torch.Generator().manual_seed((ctx.seed * 977 + idx * 31 + 7) % (2 ** 31))
    y0 = torch.randn(b, d, generator=gen, dtype=F64)
    ts = torch.tensor([0.0, 0.3, 0.5], dtype=F64)
    bm = torchsde.BrownianInterval(t0=0.0, t1=0.5, size=(b, m), dtype=F64, entropy=ctx.seed * 101 + idx,
                                   levy_area_approximation=_levy_for(method))
    fwd = dict(method=method, dt=0.1, adaptive=True, rtol=1e-3, atol=1e-4, dt_min=1e-4)
    key = dict(part="adaptive_forward", sde_type=ty, noise=noise, method=method, adjoint_method=am)
    with H.quiet():
        ya = torchsde.sdeint_adjoint(sde, y0, ts, bm=bm, adjoint_method=am, adjoint_adaptive=bool(idx % 2),
                                     adjoint_rtol=1e-1, adjoint_atol=0.5, adjoint_options={}, **fwd).detach()
        with torch.no_grad():
            yb = torchsde.sdeint(sde, y0, ts, bm=bm, **fwd)
    ctx.case(("adaptive_forward", ty, noise, method, am), sample=dict(key, ts=ts.tolist()))
    if not torch.equal(ya, yb):
        H.violation_once(ctx, dict(key, clause="forward_equal"),
                         f"adaptive=True: sdeint_adjoint (adjoint_rtol=1e-1, adjoint_atol=0.5) returns other values than "
                         f"sdeint for the same forward arguments (rtol=1e-3, atol=1e-4): max diff "
                         f"{float((ya - yb).abs().max()):.3e}")


def shrink_case(ctx, combo, idx, logqp=False):
    """(iv) exploration: e(dt), e(dt/4), e(dt/16) on one fixed fine Brownian path.
    logqp=True: the same arguments plus logqp=True (prior drift h = -y): the solution values and the KL increments must be
    those of sdeint bit for bit, and the loss also depends on the KL increments."""
    ty, noise, method, am = combo[:4]
    b, d = 256, 2
    m = 1 if noise == "scalar" else 2
    fine = 128
    gen = torch.Generator().manual_seed((ctx.seed * 733 + idx * 19 + 5) % (2 ** 31))
    incs = torch.randn(fine // 2, b, m, generator=gen, dtype=F64) * math.sqrt(1.0 / fine)      # T = 1/2
    y0v = torch.randn(b, d, generator=gen, dtype=F64)
    ts = torch.tensor([0.0, 0.25, 0.5], dtype=F64)
    w = H.weights_tensor(gen, (3, b, d))
    es = []
    for hden in (8, 32, 128):
        sde = H.SmoothSDE(noise, d, m, seed=ctx.seed * 3 + idx, sde_type=ty, gscale=0.7)
        if logqp:
            sde.h = lambda t, y: -y
        params = list(sde.parameters())
        outs, vals = [], []
        for fn, extra in ((torchsde.sdeint_adjoint, dict(adjoint_method=am)), (torchsde.sdeint, {})):
            y0 = y0v.clone().requires_grad_()
            bm = H.GridBrownian(0.0, 1.0 / fine, incs, levy=_levy_for(method))
            with H.quiet():
                if logqp:
                    ys, lq = fn(sde, y0, ts, bm=bm, method=method, dt=1.0 / hden, logqp=True, **extra)
                    loss = (ys * w).sum() / b + lq.sum() / b
                    vals.append((ys.detach(), lq.detach()))
                else:
                    ys = fn(sde, y0, ts, bm=bm, method=method, dt=1.0 / hden, **extra)
                    loss = (ys * w).sum() / b
            g = H.grads_of(loss, [y0] + params)
            outs.append(torch.cat([x.reshape(-1) for x in g]))
        if logqp and not (torch.equal(vals[0][0], vals[1][0]) and torch.equal(vals[0][1], vals[1][1])):
            H.violation_once(ctx, dict(part="logqp", sde_type=ty, noise=noise, method=method, clause="forward_equal"),
                             f"sdeint_adjoint(logqp=True) does not return the values of sdeint(logqp=True): max diff ys "
                             f"{float((vals[0][0] - vals[1][0]).abs().max()):.3e}, logqp "
                             f"{float((vals[0][1] - vals[1][1]).abs().max()):.3e} (dt=1/{hden})")
        es.append(float((outs[0] - outs[1]).pow(2).mean().sqrt()))
    key = dict(part="shrink" if not logqp else "shrink_logqp", sde_type=ty, noise=noise, method=method, adjoint_method=am)
    monotone = es[2] < es[1] < es[0]
    halves = es[2] <= es[0] / 2
    ctx.case(("shrink", ty, noise, method, am, logqp), sample=dict(key, e=es))
    if (method, am) == ("reversible_heun", "adjoint_reversible_heun") or es[0] <= 1e-12:
        # the reversible pair is the exact discrete adjoint (C10 decides it, at rounding level): there is no
        # discretisation gap to shrink, and what is left is rounding error of the reconstruction, which GROWS with the
        # number of steps - recorded, not judged here
        verdict = "rounding_level"
    elif monotone and halves:
        verdict = "shrinks"
    else:
        # the literal, weak reading of "converge" (DESIGN 6/C09 (iv)): e(dt/16) < e(dt/4) < e(dt) and e(dt/16) <= e(dt)/2.
        # On the unchanged tree every accepted combination has e(dt/16)/e(dt) <= 0.2; a gradient with a bias that does
        # not vanish with dt keeps the ratio near 1.
        verdict = "decreases_but_not_as_stated" if es[2] < es[0] else "no_decrease"
        H.violation_once(ctx, dict(key, clause="no_convergence"),
                         f"adjoint-vs-backprop gradient gap does not shrink under dt -> dt/4 -> dt/16 as a convergent "
                         f"gradient does (monotone, and at least halved): e = {es}, e(dt/16)/e(dt) = {es[2] / es[0]:.3f}")
    return dict(combo=[ty, noise, method, am], e=es, verdict=verdict)


def linmul_case(ctx, method, idx):
    """Multiplicative linear Ito SDE with element-wise noise, dY_i = a_i Y_i dt + b_i Y_i dW_i, solved and adjoined with
    the SAME scheme (euler / euler, milstein / milstein): the adjoint variable solves the same linear SDE in reversed
    time (the two Ito corrections cancel), so each backward step multiplies by the factor the forward step has as its
    derivative (1 + a h + b dW [+ 1/2 b^2 (dW^2 - h)]) - the adjoint gradient w.r.t. y0 equals backprop through the
    solver at rounding level for ANY step size (a doubled or missing correction term is an O(h) error per step)."""
    import torch.nn as nn

    class LinMul(nn.Module):
        noise_type, sde_type = "diagonal", "ito"

        def __init__(self, a, b):
            super().__init__()
            self.a, self.b = nn.Parameter(a), nn.Parameter(b)

        def f(self, t, y):
            return self.a * y

        def g(self, t, y):
            return self.b * y

    gen = torch.Generator().manual_seed((ctx.seed * 911 + idx * 37 + 3) % (2 ** 31))
    d, b, n = 2 + idx % 2, 3, [1, 4, 6][idx % 3]
    hden = [8, 16, 4][idx % 3]
    a = H.dyadic_tensor(gen, (d,)) if hasattr(H, "dyadic_tensor") else torch.randn(d, generator=gen, dtype=F64)
    bb = 0.5 + torch.rand(d, generator=gen, dtype=F64)
    t0 = [0.0, -2.0, 16.0][idx % 3]
    ts = torch.tensor([t0 + k / hden for k in range(n + 1)], dtype=F64)
    y0v = 1.0 + torch.rand(b, d, generator=gen, dtype=F64)
    w = H.weights_tensor(gen, (n + 1, b, d))
    outs = []
    for fn, extra in ((torchsde.sdeint_adjoint, dict(adjoint_method=method)), (torchsde.sdeint, {})):
        sde = LinMul(a.clone(), bb.clone())
        y0 = y0v.clone().requires_grad_()
        bm = torchsde.BrownianInterval(t0=float(ts[0]), t1=float(ts[-1]), size=(b, d), dtype=F64, entropy=ctx.seed * 77 + idx)
        with H.quiet():
            ys = fn(sde, y0, ts, bm=bm, method=method, dt=1.0 / hden, **extra)
        g, = torch.autograd.grad((ys * w).sum(), [y0])
        outs.append((ys.detach(), g))
    key = dict(part="linear_multiplicative", sde_type="ito", noise="diagonal", method=method, adjoint_method=method)
    ctx.case(("linmul", method, idx), sample=dict(key, steps=n, dt=1.0 / hden, t0=t0))
    scale = float(outs[1][1].abs().max())
    err = float((outs[0][1] - outs[1][1]).abs().max())
    if not torch.equal(outs[0][0], outs[1][0]):
        H.violation_once(ctx, dict(key, clause="forward_equal"), "sdeint_adjoint forward values differ from sdeint")
    if err > 64 * n * EPS * max(1.0, scale):
        H.violation_once(ctx, dict(key, clause="discrete_adjoint_linear"),
                         f"adjoint gradient w.r.t. y0 differs from backprop by {err:.3e} (scale {scale:.3g}, {n} steps of "
                         f"1/{hden}) on the multiplicative linear SDE, where the {method} adjoint step has exactly the "
                         f"forward step's derivative as its factor",
                         replay=dict(linmul=dict(method=method, idx=idx, seed=ctx.seed)))


def run(ctx):
    torch.set_num_threads(1)
    drv, acc = run_tlc(ctx)
    by_class = {}
    for c in sorted(acc):
        by_class.setdefault(c[4], []).append(c)
    ctx.notes["accepted_combos"] = {k: len(v) for k, v in by_class.items()}
    traces = []
    # ---- constant family: (i) (ii) (iii) over every TLC scenario ----
    drv = sorted(drv, key=lambda p: (p["scn"]["pair"], p["scn"]["D"], p["scn"]["ts"], p["scn"]["wset"], p["scn"]["rid"]))
    counters = {}
    for idx, p in enumerate(drv):
        cls = p["scn"]["pair"]
        i = counters.get(cls, 0)
        counters[cls] = i + 1
        combo = by_class[cls][i % len(by_class[cls])]
        const_case(ctx, p, idx, combo, traces)
    # ---- (ii') time-dependent family: every accepted combo, on scenarios with everything requested ----
    allc = sorted(acc)
    full = {}
    for p in drv:
        if p["scn"]["rid"] == 1 and len(p["scn"]["ts"]) >= 3:
            full.setdefault(p["scn"]["pair"], []).append(p)
    reps = 1 if ctx.tier == "quick" else 4
    for ci, combo in enumerate(allc):
        pool_ = full[combo[4]]
        for r in range(reps):
            lintime_case(ctx, pool_[(ci * reps + r) * 7 % len(pool_)], ci * reps + r, combo, traces)
    # ---- (i) + StateReset traces on smooth SDEs: every accepted combo x layouts ----
    lays = [(2, (0, 2, 4)), (2, (0, 3)), (3, (0, 3, 4, 6)), (1, (0, 1, 2, 3))]
    for ci, combo in enumerate(allc):
        use = lays if ctx.tier != "quick" else [lays[ci % 4], lays[(ci + 1) % 4]]
        for li, lay in enumerate(use):
            smooth_forward_case(ctx, combo, ci * 7 + li, lay, "grid" if (ci + li) % 3 else "interval", traces)
    # ---- binding self-checks (not verdicts on the code): a corrupted weight / event must be noticed ----
    import harness.common as common
    probe = common.Ctx("C09", ctx.tier, ctx.seed, LEVEL)
    probe.violation = lambda *a, **k: probe.violations.append(a) or True
    lintime_case(probe, [p for p in full["other"] if len(p["scn"]["wset"]) >= 2][0], 0,
                 [c for c in by_class["other"] if c[3] == "midpoint"][0], [], corrupt="time")
    if not probe.violations and not ctx.violations:
        raise RuntimeError("binding self-check failed: a diffusion gradient outside the budget was not noticed")
    for how in ("weight", "event"):
        probe = common.Ctx("C09", ctx.tier, ctx.seed, LEVEL)
        probe.violation = lambda *a, **k: probe.violations.append(a) or True
        ptr = []
        pick = [p for p in drv if len(p["scn"]["ts"]) == 3 and p["scn"]["rid"] == 1 and p["scn"]["pair"] == "other"
                and len(p["scn"]["wset"]) == 3][0]
        const_case(probe, pick, 0, by_class["other"][0], ptr, corrupt=how)
        noticed = bool(probe.violations) or bool(H.validate_traces(ptr, "C09 self-check", probe))
        if not noticed and not ctx.violations:
            raise RuntimeError(f"binding self-check failed: corrupted {how} was not noticed")
    # ---- (iii) TLC validates every recorded trace ----
    rej = H.validate_traces(traces, "C09", ctx)
    for tidx, li, st in rej:
        t = traces[tidx]
        ev = t["ev"][li - 1] if li and li - 1 < len(t["ev"]) else None
        kind = (ev or {}).get("k")
        clause = "trace_end" if ev is None or kind == "end" else ("trace_segment" if kind == "int" else "trace_noise")
        H.violation_once(ctx, dict(t["key"], clause=clause),
                         f"recorded sdeint_adjoint run is not a behaviour of AdjointDriver: event #{li} {ev} cannot be matched "
                         f"in spec state {st}; scenario {t['info']} (a backward segment must be one integrate call over "
                         f"[-ts[i], -ts[i-1]] started from ys[i] with the cotangents of outputs i.. injected; Brownian "
                         f"queries must follow the fixed-step loop)", replay=dict(events=t["ev"], info=t["info"]))
    ctx.notes["traces_validated_by_tlc"] = len(traces)
    # ---- (iv) exploration ----
    shr = []
    if ctx.tier != "quick":
        pool = list(allc)
    else:
        # every default pair, and every adjoint method of every (sde_type, noise_type) at least once
        pool, seen = [], set()
        for c in allc:
            k3 = (c[0], c[1], c[3])
            if c[5] or k3 not in seen:
                pool.append(c)
                seen.add(k3)
    for i, combo in enumerate(pool):
        try:
            shr.append(shrink_case(ctx, combo, i))
        except Exception as e:
            H.violation_once(ctx, dict(part="shrink", sde_type=combo[0], noise=combo[1], method=combo[2],
                                       adjoint_method=combo[3], clause="accepted_runs"),
                             f"accepted configuration raised {type(e).__name__}: {str(e)[:200]}")
    # same-scheme adjoint on the multiplicative linear SDE: exact discrete adjoint, any step size
    for i in range(6 if ctx.tier == "quick" else 18):
        for method in ("euler", "milstein"):
            try:
                linmul_case(ctx, method, i)
            except Exception as e:
                H.violation_once(ctx, dict(part="linear_multiplicative", method=method, clause="accepted_runs"),
                                 f"accepted configuration raised {type(e).__name__}: {str(e)[:200]}")
    # forward values under adaptive stepping with backward-only options set to something else
    seen_af = set()
    for i, combo in enumerate(pool):
        if (combo[0], combo[1], combo[2]) in seen_af or (ctx.tier == "quick" and i % 2):
            continue
        seen_af.add((combo[0], combo[1], combo[2]))
        try:
            adaptive_forward_case(ctx, combo, i)
        except Exception as e:
            H.violation_once(ctx, dict(part="adaptive_forward", sde_type=combo[0], noise=combo[1], method=combo[2],
                                       adjoint_method=combo[3], clause="accepted_runs"),
                             f"accepted configuration with adaptive=True raised {type(e).__name__}: {str(e)[:200]}")
    # the same with logqp=True (KL increments in the loss; prior drift h = -y): additive noise only - the KL integrand
    # needs g^+ (f - h), which is well conditioned for the state-independent diffusion of the harness SDE but not for its
    # state-dependent ones (an ill-conditioned pseudo-inverse says nothing about the adjoint)
    seen_lq = set()
    for i, combo in enumerate(pool):
        if combo[1] != "additive" or (combo[0], combo[2]) in seen_lq or (ctx.tier == "quick" and len(seen_lq) >= 4):
            continue
        seen_lq.add((combo[0], combo[2]))
        try:
            r = shrink_case(ctx, combo, 1000 + i, logqp=True)
            r["logqp"] = True
            shr.append(r)
        except Exception as e:
            H.violation_once(ctx, dict(part="shrink_logqp", sde_type=combo[0], noise=combo[1], method=combo[2],
                                       adjoint_method=combo[3], clause="accepted_runs"),
                             f"accepted configuration with logqp=True raised {type(e).__name__}: {str(e)[:200]}")
    ctx.notes["dt_to_zero_exploration"] = dict(
        what="e(dt) = RMS over all gradient entries (y0 per path, parameters) of adjoint - backprop, 256 paths, one fixed "
             "Brownian path, dt = 1/8, 1/32, 1/128; exploration, the limit itself is not decided",
        results=shr)
    ctx.rule = ("every scenario reached by AdjointDriver under TLC (layout x non-empty weight pattern x request pattern x pair "
                "class) is run on the real sdeint_adjoint with the constant family under an accepted (sde_type, noise_type, "
                "method, adjoint_method) of that pair class (round robin over the accepted table, so every accepted combo is "
                "used); every accepted combo on the time-dependent family f = a(1+t), g = b(1+t) against TLC's budgets; every "
                "accepted combo x layouts on a tanh/sin SDE; every run is recorded and its trace validated "
                "by TLC.  Non-trivial: at least one backward segment, non-zero weight, at least one tensor asked for.")
    ctx.exhaustive = True
    ctx.assumptions = ["ts and dt on a dyadic tick grid (tick = 1/8)",
                       "constant family: gradients are compared as (TLC rational) x (fixed dyadic tensor)",
                       "the accepted-combination table is an input (precondition 'the library accepts'); a listed combo "
                       "that raises is reported",
                       "saved-tensor count of the autograd node is an observation aid (drift only)",
                       "dt -> 0 clause explored on three step sizes only"]
