"""C19 -- unsupported combinations and malformed inputs are rejected up-front.

1. TLC checks spec/Dispatch.tla on the whole configuration product: the declarative table written from the
   documentation (`Documented`) and the operational pipeline (one action per check in source order) agree
   (11 invariants + an action property), and prints one JSON line per configuration with the expected outcome
   class, the stage that rejects it and the documented defaults.
2. Every selected configuration is executed on the real torchsde.sdeint / sdeint_adjoint (+ backward pass) with a
   recording Brownian proxy (harness/dispatch.py); the observed outcome class
       ok | ValueError before any Brownian query | error when the backward pass starts, before any backward query
   and the chosen default method must be what the spec printed.  Every malformed-argument class is executed in
   >= 2 concrete instances.
   thorough: the full product.  quick: every documented-OK configuration + a pairwise-covering slice of the rest
   + a seeded sample.
3. Defaults again as a relation between real runs (no wrapper involved): method=None / adjoint_method=None must
   give torch.equal results to passing the documented default explicitly under the same Brownian seed.
"""
import collections
import json
import time

from harness import common, dispatch, tlc

LEVEL = "model_checking"

MAX_REPORTED = 40


def _spec_entries(ctx):
    coverage = ctx.tier == "thorough"
    res = tlc.run("Dispatch", cfg_text=dispatch.tlc_cfg(emit=True), timeout=1500, coverage=coverage,
                  java_opts=("-Xmx6g",))
    ctx.add_tlc(res, "Dispatch: whole product, Documented = pipeline, emission")
    if not res.ok:
        # the two formulations inside the spec disagree: a defect of the specification, not of torchsde
        raise tlc.TLCMachineryError(f"Dispatch.tla is inconsistent: {res.violated}\n" + res.output[-3000:])
    entries = res.printed
    keys = set(json.dumps(e["cfg"], sort_keys=True) for e in entries)
    if len(keys) != len(entries) or len(entries) < 50000:
        raise tlc.TLCMachineryError(f"emission incomplete: {len(entries)} lines, {len(keys)} distinct configurations")
    if coverage:
        never = [a for a, (d, t) in res.coverage.items() if t == 0]
        if never:
            raise tlc.TLCMachineryError(f"actions never taken in Dispatch.tla: {never}")
    # action coverage recomputed from the emitted behaviours (every stage both passed and, where it can fail, failing)
    failing = collections.Counter(e["failedAt"] for e in entries)
    ctx.notes["spec_rejections_by_stage"] = dict(failing)
    ctx.notes["spec_outcomes"] = dict(collections.Counter(f"{e['cfg']['api']}:{e['outcome']}" for e in entries))
    return entries


def _liveness(ctx):
    res = tlc.run("Dispatch", cfg_text=dispatch.LIVENESS_CFG, timeout=1500, java_opts=("-Xmx6g",))
    ctx.add_tlc(res, "Dispatch: every behaviour terminates (liveness under weak fairness)")
    if not res.ok:
        raise tlc.TLCMachineryError(f"Dispatch.tla: {res.violated}\n" + res.output[-2000:])


def _default_rows(entries):
    """Documented defaults as printed by the spec: rows for the run-relation check."""
    rows = {}
    for e in entries:
        c = e["cfg"]
        if e["outcome"] != "ok" or c["bm"] != "given" or c["levy"] != "foster" or c["adaptive"] or c["logqp"] \
                or c["gf"] or c["agf"] or c["mal"] != "none":
            continue
        key = (c["st"], c["nt"])
        if c["api"] == "sdeint" and c["method"] == "None":
            rows.setdefault(key, dict(st=c["st"], nt=c["nt"], method=None, adjoint={}))["method"] = e["sel"]["method"]
        if c["api"] == "sdeint_adjoint" and c["adj"] == "None" and c["method"] != "None":
            rows.setdefault(key, dict(st=c["st"], nt=c["nt"], method=None, adjoint={}))["adjoint"][c["method"]] = \
                e["sel"]["adjm"]
    out = [r for r in rows.values() if r["method"] is not None]
    return sorted(out, key=lambda r: (r["st"], r["nt"]))


def run(ctx):
    t0 = time.time()
    entries = _spec_entries(ctx)
    if ctx.tier == "thorough":
        _liveness(ctx)
    t_tlc = time.time() - t0

    ok_entries = [e for e in entries if e["outcome"] == "ok"]
    rest = [e for e in entries if e["outcome"] != "ok"]
    rest.sort(key=lambda e: json.dumps(e["cfg"], sort_keys=True))      # deterministic order whatever TLC's
    ok_entries.sort(key=lambda e: json.dumps(e["cfg"], sort_keys=True))
    if ctx.tier == "thorough":
        selected = ok_entries + rest
        ctx.exhaustive = True
    else:
        rng = common.rng(ctx.seed, "c19-slice")
        idx = set(dispatch.pairwise_slice(rest, rng))
        extra = [i for i in range(len(rest)) if i not in idx]
        rng.shuffle(extra)
        idx.update(extra[:4000])
        selected = ok_entries + [rest[i] for i in sorted(idx)]
        ctx.exhaustive = False
    ctx.notes["selected_configurations"] = len(selected)
    ctx.notes["documented_ok_configurations"] = len(ok_entries)

    t_sel = time.time() - t0 - t_tlc
    t1 = time.time()
    findings = {}        # reduced key (json) -> [count, first message, examples]
    drifts = collections.Counter()
    notes = collections.Counter()
    inst_per_class = collections.defaultdict(set)
    harness_errors = []
    n_runs = 0
    for i, inst, badkind, obs in dispatch.run_many(selected, ctx.seed):
        e = selected[i]
        c = e["cfg"]
        if "harness_error" in obs:
            harness_errors.append(obs["harness_error"])
            continue
        n_runs += 1
        inst_per_class[c["mal"]].add(inst)
        key = (c["api"], c["st"], c["nt"], c["method"], c["gf"], c["bm"], c["levy"], c["adaptive"], c["logqp"],
               c["adj"], c["agf"], c["mal"], inst, badkind)
        ctx.case(key, nontrivial=True,
                 sample=dict(cfg=c, instance=inst, expected=e["outcome"], observed=obs["phase"], exc=obs["exc"])
                 if n_runs % 9973 == 1 else None)
        f, d, nn = dispatch.judge(e, inst, badkind, obs)
        for k, msg in f:
            kk = json.dumps(k, sort_keys=True)
            slot = findings.setdefault(kk, [0, msg, []])
            slot[0] += 1
            if len(slot[2]) < 5:
                slot[2].append(dict(cfg=c, instance=inst, badkind=badkind, expected=e["outcome"],
                                    failedAt=e["failedAt"], sel=e["sel"], observed=obs))
        for x in d:
            drifts[x[:300]] += 1
        for x in nn:
            notes["/".join(str(v) for v in x)] += 1
    if harness_errors:
        raise RuntimeError(f"{len(harness_errors)} harness errors, first:\n{harness_errors[0]}")

    few = {m: sorted(s) for m, s in inst_per_class.items() if m != "none" and len(s) < 2}
    if few or len(inst_per_class) != 15:
        raise RuntimeError(f"malformed classes not all executed in >= 2 instances: {few} {sorted(inst_per_class)}")

    t_runs = time.time() - t1
    # defaults as a relation between real runs
    rows = _default_rows(entries)
    if len(rows) != 8:
        raise RuntimeError(f"expected the 8 (sde type, noise type) default rows from the spec, got {len(rows)}")
    n_rel, problems = dispatch.default_relation_checks(rows, ctx.seed)
    for k, msg in problems:
        findings.setdefault(json.dumps(k, sort_keys=True), [0, msg, []])[0] += 1
    for _ in range(n_rel):
        ctx.case(None, nontrivial=False)

    reported = 0
    for kk, (count, msg, examples) in sorted(findings.items(), key=lambda kv: -kv[1][0]):
        if reported >= MAX_REPORTED:
            break
        ctx.violation(json.loads(kk), f"[{count} runs] {msg}", replay=dict(examples=examples))
        reported += 1
    ctx.notes["finding_classes"] = {kk: v[0] for kk, v in findings.items()}
    for x, n in drifts.most_common(40):
        ctx.drift(f"[{n}x] {x}")
    ctx.notes["error_types_not_fixed_by_the_property"] = dict(notes)
    ctx.notes["instances_per_malformed_class"] = {m: sorted(s) for m, s in inst_per_class.items()}
    ctx.notes["default_relation_runs"] = n_rel
    ctx.notes["seconds"] = dict(tlc=round(t_tlc, 1), selection=round(t_sel, 1), real_runs=round(t_runs, 1))
    ctx.notes["wall"] = round(time.time() - t0, 1)
    ctx.rule = ("configurations are the states TLC reaches with stage=done in spec/Dispatch.tla (well-typed product "
                "api x sde_type{ito,strat,bad} x noise{4,bad} x method{9,None,blah} x (bm given x levy{4} | bm None) x "
                "adaptive x logqp x grad_free(milstein) x adjoint_method{9,None} x adjoint grad_free, plus 14 malformed "
                "classes crossed with a covering subset); each is executed on the real sdeint/sdeint_adjoint(+backward) "
                "once per concrete instance of its malformed class / bad attribute; a case is distinct per "
                "(configuration, instance); thorough = all, quick = all documented-OK + pairwise slice + 4000 sampled. "
                "Specification growth (model drift only, never a verdict): the warning behaviour of the accepted "
                "configurations, of BrownianInterval.__call__ clamping and of the minimum-step check is printed by "
                "spec/DispatchWarn.tla (declarative ExpectedWarnings = one-action-per-warning-site pipeline) and "
                "replayed by harness/dispatch_warn.py under warnings.catch_warnings(record=True): thorough = every "
                "accepted api x sde type x noise x method x adjoint_method x adaptive x adjoint_adaptive x ts "
                "alignment x #unknown kwargs, quick = a stratified ~150 of them; all 72 Brownian grid queries x 2 "
                "variants and all 39 controller scripts in both tiers; keys start with 'warn-'")
    ctx.assumptions = [
        "one tiny problem per configuration (batch 2, d=2, m=1/2/3, ts=(0,.25,.5), dt=1/8; loose tolerances when "
        "adaptive): dispatch does not depend on values",
        "Brownian queries are observed through a recording proxy (given bm) and a run-time wrapper of "
        "BrownianInterval.__call__ (default bm); the default method through a run-time wrapper of methods.select "
        "and, independently, through equality of real runs",
        "adjoint_adaptive is left False; names/extra/extra_solver_state are not part of this product",
        "for classes the property does not list (logqp without h) and for backward refusals only 'an error' is "
        "demanded, the observed type is reported in error_types_not_fixed_by_the_property",
    ]
    _warning_behaviour(ctx)
    ctx.notes["wall"] = round(time.time() - t0, 1)


def _warning_behaviour(ctx):
    """Specification growth beyond the listed properties (spec/DispatchWarn.tla): disagreements are model drift,
    a failure of this part is recorded in the notes; the C19 verdict is decided above and is not affected."""
    try:
        from harness import dispatch_warn
        dispatch_warn.run(ctx, ctx.tier != "thorough")
    except Exception:  # noqa: not part of the verdict
        import traceback
        ctx.notes["dispatch_warn_failure"] = traceback.format_exc()[-2000:]


def replay(path):
    """Re-execute the examples of a replay file and print expectation vs observation."""
    with open(path) as fh:
        rep = json.load(fh)
    for ex in (rep.get("replay") or {}).get("examples", []):
        obs = dispatch.run_one(ex["cfg"], ex["instance"], ex["badkind"], rep.get("seed", 0))
        print(json.dumps(dict(cfg=ex["cfg"], instance=ex["instance"], expected=ex["expected"],
                              failedAt=ex["failedAt"], observed=obs), default=str))
    return 0
