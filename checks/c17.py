"""C17 - special noise types agree with their general-noise embedding.

Spec: spec/Schemes.tla (documented schemes on exact rationals).  TLC enumerates
(special type x solver accepting both declarations x sizes x steps x time layout), checks the embedding
lemma Solve(sde) = Solve(Embed(sde)) on polynomial scenarios (and that it FAILS for a non-commutative
"diagonal" declaration under log_ode), and prints every scenario.

Binding: for every TLC scenario two REAL sdeint runs - the SDE declared with its special noise type and the same
SDE declared 'general' with g written as a batch of d x m matrices - under one recorded Brownian path:
  (a) the polynomial SDE TLC used, under the increments (and Levy areas) TLC prescribed (Brownian stub),
  (b) a smooth non-polynomial SDE (tanh / sin nn.Modules with seeded random weights) of the enumerated and of a
      larger size, under one BrownianInterval wrapped in a recording/replaying proxy.
Verdict (property level): the two solutions agree to 4 ulp * scale per step (the only difference the declarations
may introduce is the order/number of exact-zero terms in g v, and for log_ode a Levy-area term that vanishes for
commutative noise); bit-equality is counted.  The exact TLC values are compared too, but a mismatch there alone is
model drift (Schemes is implementation shaped), never a violation.
"""
import torch
import torchsde
from torch import nn

from harness import schemes as S
from harness.common import rng

LEVEL = "exploration"
ULPS_PER_STEP = 4


# ---------------------------------------------------------------------------------------------
class Smooth(nn.Module):
    """Smooth non-polynomial SDE with the structure `nt`; declared either as `nt` or as 'general'."""

    def __init__(self, nt, sde_type, d, m, gen, declared_general):
        super().__init__()
        self.nt = nt
        self.noise_type = "general" if declared_general else nt
        self.sde_type = sde_type
        self.d, self.m = d, m
        r = lambda *shape: torch.randn(*shape, generator=gen, dtype=S.DT)
        self.Af = nn.Parameter(0.5 * r(d, d))
        self.bf = nn.Parameter(0.3 * r(d))
        if nt == "diagonal":                       # element-wise: g_i depends on y_i (and t) only
            self.a = nn.Parameter(0.7 * r(d))
            self.c = nn.Parameter(r(d))
        elif nt == "scalar":
            self.Ag = nn.Parameter(0.5 * r(d, d))
            self.bg = nn.Parameter(0.3 * r(d))
        else:                                      # additive: a function of t only
            self.M0 = nn.Parameter(0.5 * r(d, m))
            self.M1 = nn.Parameter(0.3 * r(d, m))

    def f(self, t, y):
        return torch.tanh(y @ self.Af.t() + self.bf) + 0.1 * torch.sin(t)

    def g_special(self, t, y):
        if self.nt == "diagonal":
            return 0.6 + 0.3 * torch.sin(self.a * y + self.c + t)                 # (B, d)
        if self.nt == "scalar":
            return (0.5 * torch.tanh(y @ self.Ag.t() + self.bg) + 0.2 * torch.cos(t)).unsqueeze(-1)  # (B, d, 1)
        # state-independent, but NOT the same matrix for every batch element (per-sample noise levels)
        lev = 1.0 + 0.25 * torch.arange(y.size(0), dtype=y.dtype) / max(1, y.size(0))
        return (self.M0 + torch.sin(t) * self.M1).unsqueeze(0) * lev.view(-1, 1, 1)                  # (B, d, m)

    def g(self, t, y):
        g = self.g_special(t, y)
        if self.noise_type == "general" and self.nt == "diagonal":
            return torch.diag_embed(g)
        return g


def _pair_equal(ctx, key, a, b, n_steps, what, replay):
    """a, b: solutions of the two declarations.  Returns True when bit-equal."""
    scale = max(1.0, float(torch.maximum(a.abs(), b.abs()).max()))
    eps = torch.finfo(a.dtype).eps
    budget = ULPS_PER_STEP * n_steps * eps * scale
    err = float((a - b).abs().max())
    if not (err <= budget) or a.shape != b.shape:
        ctx.violation(dict(key, what=what),
                      f"special vs general declaration differ: max|diff|={err:.3e} > {budget:.3e} "
                      f"({ULPS_PER_STEP} ulp*scale per step, scale={scale:.3g})", replay=replay)
    return torch.equal(a, b)


def _sdeint(ctx, key, what, replay, *args, **kw):
    try:
        return torchsde.sdeint(*args, **kw)
    except Exception as e:  # an exception on a valid call is a failure of the property for this declaration
        ctx.violation(dict(key, what=what), f"sdeint raised {type(e).__name__}: {e}", replay=replay)
        return None


# Adaptive stepping: C17 is not restricted to fixed steps.  The controller settings keep the step factor
# unsaturated (estimates between about 0.05 and 1, so the proposed step really depends on the estimate).
ADAPTIVE = [dict(dt=0.1, ts=[0.0, 0.35, 1.0], rtol=1e-2, atol=1e-2), dict(dt=0.05, ts=[0.0, 0.5, 0.8], rtol=2e-3, atol=2e-3),
            dict(dt=0.2, ts=[0.0, 1.0], rtol=5e-2, atol=5e-3)]


def _adaptive_pairs(ctx, combos):
    """(special declaration, general embedding) with adaptive=True under ONE Brownian path: the same BrownianInterval
    object answers both runs (a Brownian path, whatever intervals are asked), behind the recording proxy.  On equal
    solutions both runs see equal error estimates, hence walk the same schedule; the solutions must agree to
    4 ulp*scale per trial step.  When the schedules differ, the first controller trial at which the runs part is
    examined: skipped (counted) only if the two estimates there agree to rounding (1e-9) and either lie within 5% of
    1 (a last-bit difference may flip accept/reject) or merely shift the following times at rounding level (a
    Brownian increment over a 1e-16 longer interval already differs by 1e-8, so such runs cannot be compared to
    rounding); everything else - in particular equal estimates followed by different proposed steps - is a
    violation."""
    import warnings
    st = dict(pairs=0, same_schedule=0, bit_equal=0, skipped_boundary=0, skipped_rounding_schedule=0, trials=0,
              unsaturated_factors=0)
    for ci, (nt, method, cal) in enumerate(combos):
        for ai, lay in enumerate(ADAPTIVE if ctx.tier == "thorough" else ADAPTIVE[:2]):
            d = 3
            m = d if nt == "diagonal" else (1 if nt == "scalar" else 2)
            B = 2
            key = dict(nt=nt, method=method, adaptive=True, layout=ai)
            seed = rng(ctx.seed, "c17-adaptive", nt, method, ai).randrange(2 ** 31)
            gen = torch.Generator().manual_seed(seed)
            sm_s = Smooth(nt, cal, d, m, gen, declared_general=False)
            sm_g = Smooth(nt, cal, d, m, torch.Generator().manual_seed(seed), declared_general=True)
            y0 = 0.5 * torch.randn(B, d, generator=gen, dtype=S.DT)
            ts = lay["ts"]
            inner = torchsde.BrownianInterval(t0=ts[0], t1=ts[-1], size=(B, m), dtype=S.DT, entropy=seed,
                                              levy_area_approximation=S.levy_for(method))
            record = {}
            kw = dict(method=method, dt=lay["dt"], adaptive=True, rtol=lay["rtol"], atol=lay["atol"], dt_min=1e-5)
            replay = dict(key=key, seed=seed, **lay)
            runs = []
            for sde in (sm_s, sm_g):
                bm = S.ReplayBrownian(inner, record)
                with S.CtlProbe() as probe, warnings.catch_warnings(), torch.no_grad():
                    warnings.simplefilter("ignore")
                    ys = _sdeint(ctx, key, "adaptive/" + sde.noise_type, replay, sde, y0, ts, bm=bm, **kw)
                runs.append(dict(ys=ys, est=list(probe.estimates), steps=list(probe.steps),
                                 sched=[q[:2] for q in bm.queries]))
            a, b = runs
            if a["ys"] is None or b["ys"] is None:
                continue
            st["pairs"] += 1
            st["trials"] += len(a["est"])
            st["unsaturated_factors"] += sum(1 for s0, s1 in zip([lay["dt"]] + a["steps"], a["steps"])
                                             if 0.2001 < s1 / s0 < 1.3999 and abs(s1 / s0 - 1.0) > 1e-12)
            n_trials = max(1, len(a["est"]), len(b["est"]))
            scale = max(1.0, float(torch.maximum(a["ys"].abs(), b["ys"].abs()).max()))
            err = float((a["ys"] - b["ys"]).abs().max())
            budget = ULPS_PER_STEP * n_trials * torch.finfo(S.DT).eps * scale
            if a["sched"] == b["sched"]:
                st["same_schedule"] += 1
                st["bit_equal"] += torch.equal(a["ys"], b["ys"])
                if not err <= budget:
                    ctx.violation(dict(key, what="adaptive"),
                                  f"special vs general declaration differ under the same adaptive schedule: {err:.3e} > "
                                  f"{budget:.3e}", replay=replay)
            else:
                # first controller trial at which the two runs part: estimates j and proposed steps j
                nj = min(len(a["est"]), len(b["est"]))
                j = next((i for i in range(nj) if a["est"][i] != b["est"][i] or a["steps"][i] != b["steps"][i]), nj)
                if j < nj and a["est"][j] != b["est"][j]:
                    ea, eb = a["est"][j], b["est"][j]
                    rounding = abs(ea - eb) <= 1e-9 * max(abs(ea), abs(eb))
                    if rounding and abs(ea - 1.0) <= 0.05 and abs(eb - 1.0) <= 0.05:
                        st["skipped_boundary"] += 1          # a last-bit difference may flip accept/reject here
                        continue
                    if rounding and err <= 1e-6 * scale:
                        st["skipped_rounding_schedule"] += 1  # same decisions, times differ at rounding level
                        continue
                # (equal estimates but different proposed steps: the controllers themselves differ)
                k = next((i for i, (p, q) in enumerate(zip(a["sched"], b["sched"])) if p != q), min(len(a["sched"]), len(b["sched"])))
                ctx.violation(dict(key, what="adaptive_schedule"),
                              f"with adaptive=True the two declarations walk different step sequences under the same "
                              f"Brownian path ({len(a['sched'])} vs {len(b['sched'])} Brownian queries, first difference at "
                              f"query {k}: {a['sched'][k:k + 1]} vs {b['sched'][k:k + 1]}; estimates "
                              f"{[round(e, 4) for e in a['est'][:4]]} vs {[round(e, 4) for e in b['est'][:4]]}) and the "
                              f"solutions differ by {err:.3e} (budget {budget:.3e})", replay=replay)
            ctx.case(("adaptive", S.case_id(key)), nontrivial=len(a["est"]) > 2,
                     sample=dict(key=key, estimates=[round(e, 4) for e in a["est"][:8]],
                                 steps=[round(x, 5) for x in a["steps"][:8]]) if st["pairs"] <= 2 else None)
    return st


def run(ctx):
    torch.set_num_threads(1)
    res = S.run_schemes(ctx.tier, timeout=900)
    ctx.add_tlc(res, "Schemes: EmbedLemma over (special type x solver x size x steps x layout), WitnessDiffers")
    if not res.ok:
        raise RuntimeError(f"TLC rejects the embedding lemma of the specification itself: {res.violated}")
    cov = S.require_all_actions(ctx, "Schemes", "SpecC17", S.RATIONAL_FIELD, "Schemes: action coverage")
    scen = [p for p in res.printed if p.get("kind") == "c17"]
    if not scen:
        raise RuntimeError("TLC printed no C17 scenario")

    bit_equal = total = drift_n = 0
    max_tlc_err = 0.0
    for idx, p in enumerate(scen):
        key = dict(nt=p["nt"], method=p["method"], d=p["d"], m=p["m"], n=p["n"], lay=p["lay"])
        case = p["case"]
        kid = S.case_id(key)

        # ---- (a) the polynomial scenario of TLC, prescribed increments ------------------------------
        bm, grid = S.scripted_bm(case)
        sde_s = S.AstSDE(case["sde"], case["th"])
        sde_g = S.AstSDE(p["embedded"], case["th"])
        assert sde_g.noise_type == "general" and sde_s.noise_type == p["nt"]
        y0 = torch.tensor([[S.fl(q) for q in case["y0"]]], dtype=S.DT)
        ts = [S.fl(q) for q in case["ts"]]
        replay = dict(key=key, case=case)
        kw = dict(bm=bm, method=case["method"], dt=S.fl(case["dt"]))
        with torch.no_grad():
            ys_s = _sdeint(ctx, key, "poly/special", replay, sde_s, y0, ts, **kw)
            ys_g = _sdeint(ctx, key, "poly/general", replay, sde_g, y0, ts, **kw)
        if ys_s is not None and ys_g is not None:
            total += 1
            bit_equal += _pair_equal(ctx, key, ys_s, ys_g, p["n"], "poly", replay)
            want = torch.tensor(S.fl_nested(p["ys"]), dtype=S.DT).unsqueeze(1)
            e = max(S.rel_err(ys_s, want), S.rel_err(ys_g, want))
            max_tlc_err = max(max_tlc_err, e)
            if e > 1e-13:
                drift_n += 1
                ctx.drift(f"C17 {kid}: real forward values differ from Schemes.tla by {e:.2e} (relative)")
        ctx.case(("poly", kid), trace=True, sample=dict(key=key, ys_special=ys_s.squeeze(1).tolist() if ys_s is not None else None,
                                            tlc=S.fl_nested(p["ys"])) if idx < 2 else None)

        # ---- (b) smooth non-polynomial SDE, one recorded BrownianInterval path ----------------------
        for scale_up in ((1, 3) if ctx.tier == "quick" else (1, 3, 6, 11)):
            d = p["d"] * scale_up
            m = d if p["nt"] == "diagonal" else (1 if p["nt"] == "scalar" else p["m"] * scale_up)
            B = 3
            seed = rng(ctx.seed, "c17", idx, scale_up).randrange(2 ** 31)
            gen = torch.Generator().manual_seed(seed)
            sm_s = Smooth(p["nt"], p["cal"], d, m, gen, declared_general=False)
            sm_g = Smooth(p["nt"], p["cal"], d, m, torch.Generator().manual_seed(seed), declared_general=True)
            y0s = 0.5 * torch.randn(B, d, generator=gen, dtype=S.DT)
            n = p["n"]
            dt = 0.125
            t_end = dt * (n - 1) + (dt if p["lay"] != "clip" else dt / 4)
            tss = {"grid": [dt * k for k in range(n)] + [t_end], "inner": [0.0, dt / 2, t_end - dt / 8, t_end],
                   "clip": [0.0, t_end]}[p["lay"]]
            # the time origin rotates (all exact): at zero, far right of zero relative to the step, left of zero
            org = [0.0, 16384.0, 0.0, -4096.0][(idx + scale_up) % 4]
            tss = [org + t for t in tss]
            inner = torchsde.BrownianInterval(t0=tss[0], t1=tss[-1], size=(B, m), dtype=S.DT, entropy=seed,
                                              levy_area_approximation=S.levy_for(p["method"]))
            record = {}
            replay = dict(key=key, smooth=dict(seed=seed, d=d, m=m, ts=tss, dt=dt))
            with torch.no_grad():
                a = _sdeint(ctx, key, "smooth/special", replay, sm_s, y0s, tss, bm=S.ReplayBrownian(inner, record),
                            method=p["method"], dt=dt)
                n_rec = len(record)
                b = _sdeint(ctx, key, "smooth/general", replay, sm_g, y0s, tss, bm=S.ReplayBrownian(inner, record),
                            method=p["method"], dt=dt)
            if a is None or b is None:
                continue
            if len(record) != n_rec:
                ctx.drift(f"C17 {kid}: the two declarations asked different Brownian intervals")
            total += 1
            bit_equal += _pair_equal(ctx, key, a, b, n, f"smooth x{scale_up}", replay)
            nontrivial = float((a[-1] - a[0]).abs().max()) > 1e-3
            ctx.case(("smooth", kid, scale_up), nontrivial=nontrivial)

    ad = _adaptive_pairs(ctx, sorted({(p["nt"], p["method"], p["cal"]) for p in scen}))

    ctx.rule = ("cases = every (special noise type x solver accepting both declarations x (d,m) x steps 1..3 x time "
                "layout) state of Schemes.tla's scenario machine; each is executed on the real sdeint as a pair "
                "(special declaration, general embedding) on TLC's polynomial SDE with prescribed increments and on "
                "smooth tanh/sin SDEs of the enumerated and a 3x larger size under one recorded BrownianInterval "
                "path; plus, for every enumerated (special type x solver), adaptive=True pairs under one BrownianInterval; non-trivial = the solution moves (|y(T)-y(0)| > 1e-3)")
    ctx.exhaustive = True
    ctx.assumptions = ["diagonal declarations are element-wise (g_i depends on y_i, t only), as the documentation "
                       "requires; Schemes.tla shows the lemma fails otherwise (WitnessDiffers)",
                       "exact reference values are polynomial SDEs with <= 3 steps (32-bit rationals in TLC)",
                       "milstein and srk do not accept general noise and are outside the property"]
    ctx.notes["pairs_compared"] = total
    ctx.notes["pairs_bit_equal"] = bit_equal
    ctx.notes["max_rel_err_vs_tlc_values"] = max_tlc_err
    ctx.notes["forward_drift_cases"] = drift_n
    ctx.notes["actions_taken"] = cov
    ctx.notes.update({"adaptive_" + k: v for k, v in ad.items()})


def replay(path):
    return S.replay_file(path, logqp=False)
