"""C16 -- equivalent SDE interfaces give identical solutions; derived operators are exact.

1. TLC checks spec/Interface.tla: for every supplied subset S of {f, g, f_and_g, g_prod, f_and_g_prod}, every
   renaming (R stored under other names, N announced through `names`; proper or with one mistake), every solver x
   documented (SDE type, noise type): the registration table resolves each solver operation to user callables and
   a denotation over the mathematical (F, G) or to an explicit error; invariants SameSemantics, ErrorIsHonest,
   SolvesMeansDefined, ErrorIffUndefined, ...; lemmas over all 32 subsets (pairwise agreement, monotonicity).
   It prints the expected outcome class of every configuration and exact rational values of the derived operators
   for polynomial diffusions.
2. Binding A: wrapper modules exposing each subset over ONE underlying (f, g); the real sdeint under one Brownian
   seed must be torch.equal to the {f, g} run for every configuration the spec calls "solves", raise an explicit
   error naming the missing method for "error", and ValueError up-front for "contract".
3. Binding B: ForwardSDE.g_prod / g_prod_and_gdg_prod / dg_ga_jvp_column_sum (v1 and the fast v2) on the
   polynomial diffusions against the rationals TLC computed from the definitions, at 1e-12.
"""
import collections
import json
import multiprocessing
import os
import re
import time
import warnings
from fractions import Fraction

from harness import common, tlc
from harness import dispatch as _dispatch  # noqa: F401  (sets OMP/MKL thread env before torch is imported)

LEVEL = "model_checking"

INVARIANTS = ["TypeOK", "SameSemantics", "ErrorIsHonest", "ContractIffNothingToUse", "SolvesMeansDefined",
              "ErrorIffUndefined", "PrefersSupplied"]
BATCH, D = 3, 2
M_FOR = {"scalar": 1, "additive": 3, "general": 3, "diagonal": D}
TS = (0.0, 0.25, 0.5)
DT = 0.125
ALT = {"f": "drift_fn", "g": "diffusion_fn", "f_and_g": "drift_and_diffusion_fn",
       "f_and_g_prod": "drift_and_diffusion_prod_fn"}
KEY = {"f": "drift", "g": "diffusion", "f_and_g": "drift_and_diffusion",
       "f_and_g_prod": "drift_and_diffusion_prod"}
TOL = 1e-12


def _tlc(ctx):
    cfg = "SPECIFICATION Spec\n" + "".join(f"INVARIANT {i}\n" for i in INVARIANTS + ["Emit"]) + "CHECK_DEADLOCK FALSE\n"
    res = tlc.run("Interface", cfg_text=cfg, timeout=1200, java_opts=("-Xmx4g",), coverage=(ctx.tier == "thorough"))
    ctx.add_tlc(res, "Interface: subsets x renamings x solvers x noise x calculus; lemmas; exact operator values")
    if not res.ok:
        raise tlc.TLCMachineryError(f"Interface.tla: {res.violated}\n" + res.output[-3000:])
    scen = [p for p in res.printed if "scenarios" in p]
    entries = [p for p in res.printed if "scenarios" not in p]
    if len(scen) != 1 or len(entries) < 30000:
        raise tlc.TLCMachineryError(f"emission incomplete: {len(scen)} scenario lines, {len(entries)} configurations")
    if res.coverage:
        never = [a for a, (d, t) in res.coverage.items() if t == 0]
        if never:
            raise tlc.TLCMachineryError(f"actions never taken: {never}")
    return entries, scen[0]["scenarios"]


# ---------------------------------------------------------------------------------------
# Binding A: wrapper modules over one underlying (f, g)
# ---------------------------------------------------------------------------------------

def _math(nt):
    """The ONE underlying drift and diffusion for a noise type (plain functions of (t, y))."""
    import torch
    m = M_FOR[nt]
    C = torch.tensor([[0.5, 0.25, -0.25], [-0.5, 0.75, 0.25]], dtype=torch.float64)

    def F(t, y):
        return 0.375 * torch.sin(y) - 0.25 * y + 0.125 * t

    def Gm(t, y):
        if nt == "diagonal":
            return 0.25 * torch.cos(y) + 0.5
        if nt == "scalar":
            return (0.25 * torch.cos(y) + 0.5 + 0.125 * y.flip(-1)).unsqueeze(-1)
        if nt == "additive":
            return (C[:, :m] * (1.0 + 0.5 * t)).unsqueeze(0).expand(y.shape[0], D, m)
        return torch.stack([0.25 * torch.cos(y + 0.25 * k) + (0.5 if k == 0 else 0.125 * k) * y.flip(-1)
                            for k in range(m)], dim=-1)

    def prod(g, v):
        if nt == "diagonal":
            return g * v
        return torch.bmm(g, v.unsqueeze(-1)).squeeze(-1)

    return F, Gm, prod


def make_wrapper(nt, st, S, R):
    """A module exposing exactly the methods in S (those in R under alternative names) over the one (F, G)."""
    import torch
    F, Gm, prod = _math(nt)

    class Wrapper(torch.nn.Module):
        def __init__(self):
            super().__init__()
            self.noise_type = nt
            self.sde_type = st
            self.count = collections.Counter()

    w = Wrapper()

    def f(t, y):
        w.count["f"] += 1
        return F(t, y)

    def g(t, y):
        w.count["g"] += 1
        return Gm(t, y)

    def f_and_g(t, y):
        w.count["f_and_g"] += 1
        return F(t, y), Gm(t, y)

    def g_prod(t, y, v):
        w.count["g_prod"] += 1
        return prod(Gm(t, y), v)

    def f_and_g_prod(t, y, v):
        w.count["f_and_g_prod"] += 1
        return F(t, y), prod(Gm(t, y), v)

    impl = dict(f=f, g=g, f_and_g=f_and_g, g_prod=g_prod, f_and_g_prod=f_and_g_prod)
    for name in S:
        setattr(w, ALT[name] if name in R else name, impl[name])
    return w


def solve(cfg, seed, no_grad=False, default_bm=False):
    """Run the real sdeint for one configuration; returns dict(phase, ys | exc/msg, used).
    no_grad: run under torch.no_grad() (as the forward pass of sdeint_adjoint does): the solution must not depend on
    whether autograd is recording - the operators the library derives with autograd re-enable it locally."""
    import torch
    import torchsde
    nt, st = cfg["nt"], cfg["st"]
    w = make_wrapper(nt, st, cfg["S"], cfg["R"])
    names = {KEY[m]: ALT[m] for m in cfg["N"]}
    y0 = torch.tensor([[0.25, -0.5], [0.75, 0.125], [-0.375, 0.5]], dtype=torch.float64)
    ts = torch.tensor(TS, dtype=torch.float64)
    bm = torchsde.BrownianInterval(t0=TS[0], t1=TS[-1], size=(BATCH, M_FOR[nt]), dtype=torch.float64,
                                   levy_area_approximation="foster", entropy=int(seed) + 1601)
    kw = dict(bm=bm, method=cfg["solver"], dt=DT)
    if default_bm:
        # bm=None: sdeint builds its own Brownian motion; with the global generators seeded identically before the call
        # (numpy dictates its entropy) the solution is reproducible - and must not depend on the interface variant
        import numpy as np
        kw.pop("bm")
        np.random.seed(int(seed) % (2 ** 31))
        torch.manual_seed(int(seed) % (2 ** 31))
    if names:
        kw["names"] = names
    if cfg["gf"]:
        kw["options"] = dict(grad_free=True)
    out = dict(phase=None, ys=None, exc=None, msg="", used=None, value_error=None)
    with warnings.catch_warnings():
        warnings.simplefilter("ignore")
        try:
            if no_grad:
                with torch.no_grad():
                    ys = torchsde.sdeint(w, y0, ts, **kw)
            else:
                ys = torchsde.sdeint(w, y0, ts, **kw)
        except Exception as e:  # noqa: the exception is the observation
            out.update(phase="raised", exc=type(e).__name__, msg=str(e)[:200], value_error=isinstance(e, ValueError))
        else:
            out.update(phase="solved", ys=ys.detach())
    # check_contract probes every visible method once; anything beyond is the solver's use
    out["used"] = sorted(k for k, n in w.count.items() if n >= 2)
    return out


_NAME_RE = {"f": re.compile(r"[`'\"]f[`'\"]|\bdrift\b"), "g": re.compile(r"[`'\"]g[`'\"]|\bdiffusion\b")}


def _work(chunk):
    import torch
    torch.set_num_threads(1)
    res = []
    refs = {}
    for idx, cfg, seed in chunk:
        # every fifth configuration whose diffusion is visible as g / f_and_g under its own name (the noise size can then
        # be inferred) runs with the DEFAULT Brownian motion (bm=None) under identically seeded global generators
        dbm = idx % 5 == 2 and ("g" in cfg["S"] or "f_and_g" in cfg["S"]) and not cfg["R"] and not cfg["N"]
        rk = (cfg["solver"], cfg["gf"], cfg["st"], cfg["nt"], dbm)
        if rk not in refs:
            refs[rk] = solve(dict(cfg, S=["f", "g"], R=[], N=[]), seed, default_bm=dbm)
        ref = refs[rk]
        o = solve(cfg, seed, no_grad=(idx % 2 == 1), default_bm=dbm)      # the reference runs with autograd recording
        equal = None
        maxdiff = None
        if o["phase"] == "solved" and ref["phase"] == "solved":
            equal = bool(torch.equal(o["ys"], ref["ys"]))
            maxdiff = float((o["ys"] - ref["ys"]).abs().max())
        res.append((idx, dict(phase=o["phase"], exc=o["exc"], msg=o["msg"], used=o["used"], value_error=o["value_error"],
                              equal=equal, maxdiff=maxdiff, ref_phase=ref["phase"], ref_msg=ref["msg"],
                              finite=bool(torch.isfinite(o["ys"]).all()) if o["ys"] is not None else None)))
    return res


def _warm():
    import torch
    torch.set_num_threads(1)
    import torchsde  # noqa
    y = torch.tensor([[0.5, 0.25]], requires_grad=True)
    g = torch.cos(y)
    torch.autograd.grad(g, y, grad_outputs=g, retain_graph=True, create_graph=True, allow_unused=True)


def run_interfaces(selected, seed):
    jobs = [(i, e, seed) for i, e in enumerate(selected)]
    # group by reference key so that each chunk computes few reference solutions
    jobs.sort(key=lambda j: (j[1]["solver"], j[1]["gf"], j[1]["st"], j[1]["nt"], j[0]))
    chunks = [jobs[k:k + 96] for k in range(0, len(jobs), 96)]
    _warm()
    procs = max(2, min(16, os.cpu_count() or 4) // 2)
    if len(jobs) < 300:
        for c in chunks:
            yield from _work(c)
        return
    with multiprocessing.get_context("fork").Pool(procs) as pool:
        for res in pool.imap_unordered(_work, chunks):
            yield from res


def judge_interface(e, o):
    """-> (findings [(key, msg)], drifts [str])"""
    findings, drifts = [], []
    cfgd = dict(S="+".join(e["S"]) or "-", R="+".join(e["R"]) or "-", N="+".join(e["N"]) or "-", solver=e["solver"],
                gf=e["gf"], st=e["st"], nt=e["nt"])
    what = f"{cfgd}: spec: visible={e['visible']} outcome={e['outcome']}" + (f" missing={e['missing']}" if e["missing"]
                                                                            else "")
    seen = f"observed {o['phase']}" + (f" {o['exc']}: {o['msg']}" if o["exc"] else "") + \
           (f" equal_to_reference={o['equal']} maxdiff={o['maxdiff']}" if o["phase"] == "solved" else "")
    if o["ref_phase"] != "solved":
        findings.append((dict(finding="reference-run-failed", solver=e["solver"], gf=e["gf"], st=e["st"], nt=e["nt"]),
                         f"sdeint on the plain (f, g) module failed: {o['ref_msg']}"))
        return findings, drifts
    if e["outcome"] == "solves":
        if o["phase"] != "solved":
            findings.append((dict(finding="supported-interface-fails", solver=e["solver"], gf=e["gf"], exc=o["exc"]),
                             f"a combination of methods the solver accepts does not solve; {what}; {seen}"))
        elif not o["equal"] or not o["finite"]:
            findings.append((dict(finding="interfaces-differ", solver=e["solver"], gf=e["gf"], nt=e["nt"]),
                             f"solution not bit-identical to the (f, g) run under the same Brownian motion; {what}; "
                             f"{seen}"))
        else:
            if sorted(e["used"]) != o["used"]:
                drifts.append(f"solver reached user callables {o['used']}, registration model says {sorted(e['used'])} "
                              f"({what})")
    elif e["outcome"] == "error":
        if o["phase"] == "solved":
            if o["equal"]:
                # computes the same thing through another route: allowed by the property, not by the model
                drifts.append(f"no explicit error but a solution equal to the reference ({what})")
            else:
                findings.append((dict(finding="silent-fallback", solver=e["solver"], gf=e["gf"], missing=e["missing"]),
                                 f"a needed method is missing, yet something else was computed instead of an explicit "
                                 f"error; {what}; {seen}"))
        else:
            if not _NAME_RE[e["missing"]].search(o["msg"]):
                other = "g" if e["missing"] == "f" else "f"
                if _NAME_RE[other].search(o["msg"]) and other not in e["visible"]:
                    drifts.append(f"explicit error names `{other}` (also missing) instead of `{e['missing']}` ({what}; "
                                  f"{seen})")
                else:
                    findings.append((dict(finding="error-not-explicit", solver=e["solver"], gf=e["gf"],
                                          missing=e["missing"], exc=o["exc"]),
                                     f"the error does not name the missing method `{e['missing']}`; {what}; {seen}"))
    elif e["outcome"] == "contract":
        if o["phase"] == "solved":
            findings.append((dict(finding="silent-fallback", solver=e["solver"], gf=e["gf"], missing=e["missing"],
                                  stage="contract"),
                             f"no usable drift/diffusion was supplied, yet sdeint returned; {what}; {seen}"))
        elif not o["value_error"]:
            drifts.append(f"missing drift/diffusion rejected with {o['exc']} instead of ValueError ({what}; {seen})")
    return findings, drifts


# ---------------------------------------------------------------------------------------
# Binding B: derived operators against exact rationals
# ---------------------------------------------------------------------------------------

def _fr(x):
    return Fraction(x[0], x[1])


def _poly_matrix_fn(Gtab, m):
    """Gtab[i][l][a][b] rational coefficient of y1^a y2^b  ->  g(t, y): (B, 2) -> (B, 2, m), float64."""
    import torch
    coef = [[[[float(_fr(Gtab[i][l][a][b])) for b in range(3)] for a in range(3)] for l in range(m)] for i in range(2)]

    def g(t, y):
        y1, y2 = y[:, 0], y[:, 1]
        rows = []
        for i in range(2):
            cols = []
            for l in range(m):
                acc = torch.zeros_like(y1)
                for a in range(3):
                    for b in range(3):
                        c = coef[i][l][a][b]
                        if c != 0.0:
                            acc = acc + c * y1 ** a * y2 ** b
                cols.append(acc)
            rows.append(torch.stack(cols, dim=-1))
        return torch.stack(rows, dim=1)

    return g


def _vec(rows):
    import torch
    return torch.tensor([[float(_fr(x)) for x in r] for r in rows], dtype=torch.float64)


def check_operators(ctx, scenarios):
    import torch
    from torchsde._core import base_sde
    worst = 0.0
    n_cmp = 0
    findings = []

    def compare(name, nt, op, got, want):
        nonlocal worst, n_cmp
        if not torch.is_tensor(got):
            got = torch.full_like(want, float(got))
        err = float((got.detach() - want).abs().max())
        worst = max(worst, err)
        n_cmp += want.numel()
        ctx.case((name, nt, op), nontrivial=True,
                 sample=dict(scenario=name, op=op, max_abs_err=err) if op.startswith("dg_ga") else None)
        if not err <= TOL:
            i = int((got.detach() - want).abs().reshape(want.shape[0], -1).max(dim=1).values.argmax())
            findings.append((dict(finding="derived-operator", op=op.split(" [")[0], nt=nt),
                             f"ForwardSDE.{op} differs from its mathematical definition on scenario {name} "
                             f"(noise {nt}): max abs error {err:.3e}; row {i}: got {got[i].tolist()}, exact "
                             f"{want[i].tolist()}"))

    class Poly(torch.nn.Module):
        sde_type = "ito"

        def __init__(self, nt, g):
            super().__init__()
            self.noise_type = nt
            self._g = g

        def f(self, t, y):
            return -y

        def g(self, t, y):
            return self._g(t, y)

    t = torch.tensor(0.25, dtype=torch.float64)
    for nt in ("general", "scalar", "additive"):
        for sc in scenarios[nt]:
            m = sc["m"]
            flat = [c for a in sc["cases"] for b in a for c in b]
            y = _vec([c["y"] for c in flat])
            v = _vec([c["v"] for c in flat])
            A = torch.tensor([[[float(_fr(x)) for x in row] for row in c["A"]] for c in flat], dtype=torch.float64)
            gprod = _vec([c["gprod"] for c in flat])
            gdg = _vec([c["gdg"] for c in flat])
            dgga = _vec([c["dgga"] for c in flat])
            g = _poly_matrix_fn(sc["G"], m)
            # the definitions hold whether or not autograd is recording when the operator is called (the solvers call
            # them under torch.no_grad() in the forward pass of sdeint_adjoint) and whether or not y requires grad
            for fast in (False, True):
                for mode in ("grad", "no_grad", "y_requires_grad"):
                    fsde = base_sde.ForwardSDE(Poly(nt, g), fast_dg_ga_jvp_column_sum=fast)
                    tag = ("_v2" if fast else "_v1") + ("" if mode == "grad" else f" [{mode}]")
                    yy = y.clone().requires_grad_(True) if mode == "y_requires_grad" else y
                    with (torch.no_grad() if mode == "no_grad" else torch.enable_grad()):
                        compare(sc["name"], nt, "g_prod" + tag, fsde.g_prod(t, yy, v), gprod)
                        gp, gd = fsde.g_prod_and_gdg_prod(t, yy, v, v)
                        compare(sc["name"], nt, "g_prod_and_gdg_prod[0]" + tag, gp, gprod)
                        compare(sc["name"], nt, "g_prod_and_gdg_prod[1]" + tag, gd, gdg)
                        # different vectors in the two slots (linearity in v gives the exact value): slots must not be mixed up
                        gp2, gd2 = fsde.g_prod_and_gdg_prod(t, yy, v, 2.0 * v)
                        compare(sc["name"], nt, "g_prod_and_gdg_prod[0] (v, 2v)" + tag, gp2, gprod)
                        compare(sc["name"], nt, "g_prod_and_gdg_prod[1] (v, 2v)" + tag, gd2, 2.0 * gdg)
                        compare(sc["name"], nt, "dg_ga_jvp_column_sum" + tag, fsde.dg_ga_jvp_column_sum(t, yy, A), dgga)
    for sc in scenarios["diagonal"]:
        flat = [c for a in sc["cases"] for c in a]
        y = _vec([c["y"] for c in flat])
        v = _vec([c["v"] for c in flat])
        gprod = _vec([c["gprod"] for c in flat])
        gdg = _vec([c["gdg"] for c in flat])
        q = [[float(_fr(x)) for x in qi] for qi in sc["q"]]

        def gdiag(t_, y_):
            return torch.stack([sum(q[i][a] * y_[:, i] ** a for a in range(4)) for i in range(len(q))], dim=1)

        fsde = base_sde.ForwardSDE(Poly("diagonal", gdiag))
        for mode in ("grad", "no_grad", "y_requires_grad"):
            tag = "" if mode == "grad" else f" [{mode}]"
            yy = y.clone().requires_grad_(True) if mode == "y_requires_grad" else y
            with (torch.no_grad() if mode == "no_grad" else torch.enable_grad()):
                compare(sc["name"], "diagonal", "g_prod" + tag, fsde.g_prod(t, yy, v), gprod)
                gp, gd = fsde.g_prod_and_gdg_prod(t, yy, v, v)
                compare(sc["name"], "diagonal", "g_prod_and_gdg_prod[0]" + tag, gp, gprod)
                compare(sc["name"], "diagonal", "g_prod_and_gdg_prod[1]" + tag, gd, gdg)
                compare(sc["name"], "diagonal", "dg_ga_jvp_column_sum" + tag, fsde.dg_ga_jvp_column_sum(t, yy, v), torch.zeros_like(y))
    ctx.notes["derived_operator_values_compared"] = n_cmp
    ctx.notes["derived_operator_max_abs_error"] = worst
    return findings


# ---------------------------------------------------------------------------------------

def run(ctx):
    t0 = time.time()
    entries, scenarios = _tlc(ctx)
    t_tlc = time.time() - t0
    for e in entries:
        for k in ("S", "R", "N", "visible", "used"):
            e[k] = sorted(e[k])
    entries.sort(key=lambda e: json.dumps(e, sort_keys=True))
    if ctx.tier == "thorough":
        selected = entries
        ctx.exhaustive = True
    else:
        rng = common.rng(ctx.seed, "c16")
        plain = [e for e in entries if not e["R"] and not e["N"]]           # the 32 subsets, no renaming
        proper = [e for e in entries if e["R"] and e["R"] == e["N"]]        # properly renamed
        wrong = [e for e in entries if e["R"] != e["N"]]                    # one renaming mistake
        rng.shuffle(proper)
        rng.shuffle(wrong)
        selected = plain + proper[:4000] + wrong[:2500]
        ctx.exhaustive = False
    ctx.notes["configurations_in_spec"] = len(entries)
    ctx.notes["configurations_executed"] = len(selected)

    findings = {}
    drifts = collections.Counter()
    seen_outcomes = collections.Counter()
    for i, o in run_interfaces(selected, ctx.seed):
        e = selected[i]
        key = ("+".join(e["S"]), "+".join(e["R"]), "+".join(e["N"]), e["solver"], e["gf"], e["st"], e["nt"])
        ctx.case(key, nontrivial=True,
                 sample=dict(cfg=key, expected=e["outcome"], observed=o["phase"], exc=o["exc"], equal=o["equal"])
                 if i % 997 == 0 else None)
        seen_outcomes[(e["outcome"], o["phase"])] += 1
        f, d = judge_interface(e, o)
        for k, msg in f:
            kk = json.dumps(k, sort_keys=True)
            slot = findings.setdefault(kk, [0, msg, []])
            slot[0] += 1
            if len(slot[2]) < 4:
                slot[2].append(dict(cfg=e, observed={k2: v for k2, v in o.items()}))
        for x in d:
            drifts[x[:260]] += 1
    t_if = time.time() - t0 - t_tlc

    for k, msg in check_operators(ctx, scenarios):
        findings.setdefault(json.dumps(k, sort_keys=True), [0, msg, []])[0] += 1

    reported = 0
    for kk, (count, msg, examples) in sorted(findings.items(), key=lambda kv: -kv[1][0]):
        if reported >= 40:
            break
        ctx.violation(json.loads(kk), f"[{count}x] {msg}", replay=dict(examples=examples))
        reported += 1
    ctx.notes["finding_classes"] = {kk: v[0] for kk, v in findings.items()}
    for x, n in drifts.most_common(40):
        ctx.drift(f"[{n}x] {x}")
    ctx.notes["expected_vs_observed"] = {f"{a}->{b}": n for (a, b), n in seen_outcomes.items()}
    ctx.notes["seconds"] = dict(tlc=round(t_tlc, 1), interfaces=round(t_if, 1))
    ctx.notes["wall"] = round(time.time() - t0, 1)
    ctx.rule = ("configurations are the terminal states of spec/Interface.tla: supplied subset S (32) x renamed subset "
                "R x names N (proper or one mistake) x solver (8, Milstein also grad-free) x documented (SDE type, noise "
                "type); each is one real sdeint run (batch 3, d=2, 4 fixed steps, Brownian seed fixed) compared with "
                "the (f, g) run of the same solver; thorough = all, quick = all un-renamed + 4000 properly renamed + "
                "2500 mis-renamed sampled with VERIF_SEED. Operators: 5 polynomial diffusions (general d=m=2 x3, "
                "scalar, additive) x 30 (y, v, A) points + diagonal d=3 x 6 points, exact values from TLC")
    ctx.assumptions = [
        "user methods describe the same functions: the wrappers compute g_prod / f_and_g / f_and_g_prod from the one "
        "underlying (F, G) with the same floating-point operations as the library defaults (g*v, bmm)",
        "a Brownian motion is always passed (noise size inference from g_prod alone is a documented limitation)",
        "names keys drift_and_diffusion / drift_and_diffusion_prod are accepted by the code although "
        "DOCUMENTATION.md only promises drift, diffusion, prior_drift",
        "where the spec expects an explicit error but the code returns a solution EQUAL to the reference this is "
        "model drift (nothing else was computed), not a violation",
    ]


def replay(path):
    with open(path) as fh:
        rep = json.load(fh)
    for ex in (rep.get("replay") or {}).get("examples", []):
        cfg = ex["cfg"]
        ref = solve(dict(cfg, S=["f", "g"], R=[], N=[]), rep.get("seed", 0))
        o = solve(cfg, rep.get("seed", 0))
        import torch
        eq = bool(torch.equal(o["ys"], ref["ys"])) if o["ys"] is not None and ref["ys"] is not None else None
        print(json.dumps(dict(cfg=cfg, observed=dict(phase=o["phase"], exc=o["exc"], msg=o["msg"], used=o["used"],
                                                     equal=eq)), default=str))
    return 0
