"""C03 - a Brownian object is one path: additivity and Chen's relation.

TLC: BrownianImpl (Partition, Tiles, NoSameSpanChild, RefineOnly, CursorFree) exhaustively on the
catalogue; BrownianValues (single-split lemma incl. child-sum and H-merge; Chen identities of the
covariance definition).  Binding: every generated behaviour is replayed on the real object
(structural comparison -> drift), its recorded trace is validated by TLC against the property-level
TraceBrownian spec (Tiles / Partition), and the relations of the property are evaluated on the returned
tensors for all shapes, Levy modes and through ReverseBrownian / BrownianPath / BrownianTree.
"""
import random

from harness import brownian as B
from harness import brownian_props as P
from harness import brownian_run as BR
from harness import tlc

LEVEL = "model_checking"
OWN_CLAUSES = {"Tiles", "Partition"}


def run(ctx):
    quick = ctx.tier == "quick"
    cat = BR.catalogue(ctx.tier)
    names = ["A", "B", "C2", "H6", "A3"] if quick else list(cat)
    rnd = random.Random(f"{ctx.seed}:C03")
    ctx.rule = ("behaviours of BrownianDump (all query histories to depth 3 where the history tree is small, "
                "otherwise TLC simulation) replayed on the real object; a case = (configuration, history, shape, "
                "Levy mode, wrapper); non-trivial = the history creates at least one split; distinct by that tuple")
    ctx.assumptions = ["float64; times are dyadic so midpoints are exact", "tolerance 512 ulp x scale for relations "
                       "between values computed along different bridge paths",
                       "small-scope: N <= 8 ticks, histories of length <= 4 (TLC), plus value relations on them"]

    # ---- design level -------------------------------------------------------------------------
    res = tlc.run("BrownianValues", timeout=600, workers=2, cfg_text=(
        f"SPECIFICATION Spec\nCONSTANTS LMax = {12 if quick else 24} GridT = {5 if quick else 7} LinkK = 4\n"
        "INVARIANT InvLemma\nINVARIANT InvStats\nCHECK_DEADLOCK FALSE\n"))
    ctx.add_tlc(res, "BrownianValues: single-split lemma (child sum, H merge), Chen identities of the covariance")
    if not res.ok:
        ctx.violation(dict(kind="spec", invariant=res.violated), "value-level lemma violated in the specification")
    for name in names:
        cfg = cat[name]
        if quick and name in ("D", "E"):
            continue
        res = BR.exhaustive(ctx, name, cfg, ["TypeOK", "Partition", "NoSameSpanChild", "Tiles", "CursorFree"],
                            props=["RefineOnly"])
        if not res.ok:
            qs = BR.counterexample_queries(res)
            confirmed = False
            for levy in P.LEVIES:
                f = P.check_chen(cfg, qs, (2, 3), levy, rnd) + P.check_chen_pieces(cfg, qs, (2, 3), levy)
                if f:
                    confirmed = True
                    ctx.violation(dict(cfg=name, kind=f[0][0], levy=levy, source="tlc-counterexample"),
                                  f"{res.violated} violated in the model and reproduced: {f[0]}",
                                  replay=dict(cfg=cfg.as_dict(), queries=qs, levy=levy))
                    break
            if not confirmed:
                ctx.drift(f"{name}: model invariant {res.violated} fails on {qs} but the real code satisfies the relations")

    # ---- binding ------------------------------------------------------------------------------
    combos = [(sn, lv, w) for sn in P.SHAPES for lv in P.LEVIES for w in ("interval", "reverse")]
    k = 0
    for name in names:
        cfg = cat[name]
        behs, exh = BR.behaviours(ctx, name, cfg, 3 if cfg.T // cfg.QStep <= 4 else 2,
                                  80 if quick else 600, ctx.seed)
        traces = []
        offs = cat[name].offsets()
        for beh in behs:
            qs = BR.history(beh)
            # the model is translation invariant: the real object is placed at different origins in rotation
            # (interval starting at, centred at, left of zero, far right of zero)
            cfg = cat[name].shifted(offs[(k // len(combos) + k) % len(offs)])
            steps = BR.structural_replay(ctx, name, cfg, beh, "C03")
            if steps is not None:
                traces.append((qs, BR.make_trace(cfg, steps)))
            sn, lv, w = combos[k % len(combos)]
            k += 1
            fails = P.check_chen(cfg, qs, P.SHAPES[sn], lv, rnd, wrapper=w, n_triples=6)
            fails += P.check_chen_pieces(cfg, qs, P.SHAPES["matrix"], "davie" if k % 2 else "foster")
            nontriv = any(h["nn"] > 1 for h in beh["hist"])
            ctx.case((name, str(qs), sn, lv, w, cfg.off), nontrivial=nontriv, trace=steps is not None,
                     sample=dict(cfg=name, history=qs, shape=sn, levy=lv, wrapper=w, origin=cfg.t(0)))
            for kind, det in fails[:3]:
                ctx.violation(dict(cfg=name, kind=kind, levy=lv, shape=sn, wrapper=w),
                              f"{kind} fails after history {qs}: {det}",
                              replay=dict(cfg=cfg.as_dict(), queries=qs, levy=lv, shape=sn, wrapper=w, detail=det))
        rej = BR.validate_traces(ctx, [t for _, t in traces], name)
        for i, clause, at in rej:
            if clause in OWN_CLAUSES:
                ctx.violation(dict(cfg=name, kind="trace", clause=clause),
                              f"recorded trace rejected by TraceBrownian at event {at}: clause {clause}; history {traces[i][0]}",
                              replay=dict(cfg=cfg.as_dict(), queries=traces[i][0], trace=traces[i][1]))
            else:
                ctx.notes.setdefault("other_clause_rejections", []).append([name, clause, traces[i][0]])

    # ---- BrownianPath / BrownianTree ----------------------------------------------------------------
    for rep in range(2 if quick else 10):
        for kind, det in P.check_path_tree_wrappers(random.Random(f"{ctx.seed}:{rep}")):
            ctx.violation(dict(kind=kind, wrapper="path/tree"), f"{kind}: {det}", replay=dict(rep=rep))
        ctx.case(("wrappers", rep), sample=dict(wrappers="BrownianPath,BrownianTree", rep=rep))
    # ---- traces harvested from the repository's own test-suite (DESIGN 4.2 (ii)) --------------------------
    if not quick:
        from harness import harvest_run
        harvest_run.harvest(ctx, "brownian", ["brownian"])
    ctx.exhaustive = False


def replay(path):
    import json
    r = json.load(open(path))["replay"]
    if isinstance(r, dict) and str(r.get("kind", "")).startswith("harvest-"):
        from harness import harvest_run
        return harvest_run.replay(r)
    cfg = B.Cfg(**{k: v for k, v in r["cfg"].items()})
    f = P.check_chen(cfg, [tuple(q) for q in r["queries"]], P.SHAPES.get(r.get("shape", "matrix"), (2, 3)),
                     r.get("levy", "none"), random.Random(0), wrapper=r.get("wrapper", "interval"))
    print(f)
    return 1 if f else 0
