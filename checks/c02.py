"""C02 - each solver step matches the stochastic Taylor expansion of the declared SDE.

Spec: spec/Taylor.tla (Ito / Stratonovich Taylor expansions generated from L0, Lj by polynomial
differentiation; TLC enumerates family member x base point, checks the lemmas ItoStratAgree,
NonRepOnlyAtTop, EulerIsTruncation, MilsteinIsTruncation, FamilyPreconditions, Graded and prints the
coefficient table of every scenario).

Binding: the real solver classes (torchsde._core.methods.select) on a real ForwardSDE wrapping the polynomial
SDE, with a stub Brownian motion returning prescribed (dW, U, A); one solver.step per step size
h in {4^-3 .. 4^-6}; p is read from the instantiated solver's `strong_order`.

Verdicts (clauses of the property).  For a polynomial SDE every defect below is a polynomial in s = sqrt(h),
so "agrees to O(h^q)" means: the coefficients of s^n vanish for n < 2q.
 (i)   D(h) = step - T_p(h) (exact rational reference at dyadic (xi, eta', alpha)) is O(h^(p+1/2)):
       the coefficient of s^(2p) of D, Richardson-extrapolated from the step sizes whose |D| is above the
       rounding floor (64 ulp * scale), must be zero within the extrapolation error (see order_verdict).
       A plain ratio test |D(h/4)| <= 4^-(p+1/2) sqrt2 |D(h)| was tried first and gives false alarms when the
       two leading terms of D have opposite signs; the ratios are still recorded in the evidence file.
 (ii)  Dbar(h) = E[step] - E[T_(p+1/2)](h) is O(h^(p+1)); E[step] by the 6-point Gauss-Hermite product rule
       over all (xi_j, eta_j) (and +-alpha), E[T] exact; same test on the coefficient of s^(2p+1).
 (iii) Euler and derivative-based Milstein equal the textbook value to <= 4 ulp.
"""
import json
import math
import os
from concurrent.futures import ThreadPoolExecutor
from fractions import Fraction as Fr

LEVEL = "exploration"

KS = (3, 4, 5, 6)                       # h = 4^-k
FLOOR_ULPS = 64
EXACT_ULPS = 4

SOLVERS = [
    ("euler", "ito", {}),
    ("milstein", "ito", {"grad_free": False}),
    ("milstein", "ito", {"grad_free": True}),
    ("srk", "ito", {}),
    ("milstein", "stratonovich", {"grad_free": False}),
    ("milstein", "stratonovich", {"grad_free": True}),
    ("heun", "stratonovich", {}),
    ("midpoint", "stratonovich", {}),
    ("euler_heun", "stratonovich", {}),
    ("log_ode", "stratonovich", {}),
    ("reversible_heun", "stratonovich", {}),
]
# noise-type labels under which a family member may legitimately be declared
LABELS = {
    "scalar": ("diagonal", "scalar", "general"),
    "scalar_add": ("additive", "diagonal", "scalar", "general"),
    "diag2": ("diagonal", "general"),
    "add2": ("additive", "general"),
    "scalar2": ("scalar", "general"),
    "gen2": ("general",),
}
NCOEF = {"scalar": (5, 5), "scalar_add": (5, 2), "diag2": (12, 8), "add2": (12, 8), "scalar2": (12, 10),
         "gen2": (12, 12)}
# dyadic sample points (xi, eta', alpha) for clause (i)/(iii): dW = xi sqrt(h), U = h (dW/2 + eta' sqrt(h)), A = alpha h
SAMPLES = [
    ((Fr(1), Fr(-1, 2)), (Fr(1, 4), Fr(1, 2)), Fr(1, 2)),
    ((Fr(-3, 2), Fr(1)), (Fr(-1, 2), Fr(1, 4)), Fr(-1, 4)),
    ((Fr(1, 2), Fr(2)), (Fr(0), Fr(-1, 4)), Fr(1)),
]
ALPHA_Q = 0.5                           # +-alpha of the symmetric two-point rule in A


# ---------------------------------------------------------------------------------------
# scenario generation (family members / base points) -> TLA+ module text
# ---------------------------------------------------------------------------------------
def _draw_member(rnd, fam):
    nf, ng = NCOEF[fam]
    q = [Fr(k, 4) for k in (-4, -3, -2, -1, 1, 2, 3, 4)]
    while True:
        cf = [rnd.choice(q) for _ in range(nf)]
        cg = [rnd.choice(q) for _ in range(ng)]
        if fam == "gen2":
            B1 = ((cg[0], cg[1]), (cg[3], cg[4]))
            B2 = ((cg[6], cg[7]), (cg[9], cg[10]))
            mm = lambda a, b: tuple(tuple(sum(a[i][k] * b[k][j] for k in range(2)) for j in range(2)) for i in range(2))
            if mm(B1, B2) == mm(B2, B1):
                continue
        return dict(fam=fam, cf=cf, cg=cg)


def _member_tla(mb):
    from harness.sderef import tla_rats
    return f'[fam |-> "{mb["fam"]}", cf |-> {tla_rats(mb["cf"])}, cg |-> {tla_rats(mb["cg"])}]'


def _points(rnd, d, n):
    from harness.sderef import rat
    ts = [Fr(-1, 2), Fr(0), Fr(1, 2), Fr(1), Fr(1, 4)]
    ys = [Fr(k, 4) for k in (-6, -4, -3, -2, -1, 1, 2, 3, 4, 6)]
    out = set()
    while len(out) < n:
        out.add((rnd.choice(ts), tuple(rnd.choice(ys) for _ in range(d))))
    return ["<<" + rat(t) + ", <<" + ", ".join(rat(y) for y in yy) + ">>>>" for t, yy in sorted(out)]


def _module(name, members_tla, p1, p2, default_fams=()):
    mem = "{" + ",\n   ".join(members_tla) + "}"
    if default_fams:
        fams = "{" + ", ".join(f'"{f}"' for f in default_fams) + "}"
        mem = f"{{mb \\in DefaultMembers : mb.fam \\in {fams}}} \\cup " + mem
    return (f"---- MODULE {name} ----\nEXTENDS Taylor\n"
            f"GenMembers == {mem}\n"
            f"GenPoints1 == {{{', '.join(p1)}}}\nGenPoints2 == {{{', '.join(p2)}}}\n====\n")


CFG = """SPECIFICATION Spec
CONSTANTS
  Members <- GenMembers
  Points1 <- GenPoints1
  Points2 <- GenPoints2
INVARIANT ItoStratAgree
INVARIANT NonRepOnlyAtTop
INVARIANT EulerIsTruncation
INVARIANT MilsteinIsTruncation
INVARIANT FamilyPreconditions
INVARIANT Graded
CHECK_DEADLOCK FALSE
"""


def generate_scenarios(ctx):
    """Run TLC (possibly several JVMs side by side); returns the printed scenarios."""
    from harness import common, tlc
    rnd = common.rng(ctx.seed, "c02")
    per_fam, npts = (1, 2) if ctx.tier == "quick" else (28, 4)
    p1, p2 = _points(rnd, 1, npts), _points(rnd, 2, npts)
    members = [_draw_member(rnd, fam) for fam in NCOEF for _ in range(per_fam)]
    chunks = []
    mt = [_member_tla(m) for m in members]
    allf = tuple(NCOEF)
    if ctx.tier == "quick":
        # several small JVMs side by side keep the wall time small on a busy machine
        rnd.shuffle(mt)
        chunks.append(_module("TaylorRun", [], p1, p2, ("scalar", "scalar_add", "gen2", "add2")))
        chunks.append(_module("TaylorRun", mt[:3], p1, p2, ("diag2", "scalar2")))
        workers = 3
    else:
        rnd.shuffle(mt)
        nchunk = 8
        for c in range(nchunk):
            chunks.append(_module("TaylorRun", mt[c::nchunk], p1, p2, allf if c == 0 else ()))
        workers = 2

    def run_chunk(text):
        return tlc.run("TaylorRun", cfg_text=CFG, extra_modules={"TaylorRun": text}, workers=workers,
                       timeout=840, java_opts=("-XX:ParallelGCThreads=2", "-Xmx2g"))

    with ThreadPoolExecutor(max_workers=len(chunks)) as ex:
        results = list(ex.map(run_chunk, chunks))
    scen = []
    for i, res in enumerate(results):
        ctx.add_tlc(res, f"Taylor chunk {i}")
        if not res.ok:
            raise tlc.TLCMachineryError(f"Taylor.tla lemma {res.violated} violated: the reference itself is "
                                        f"inconsistent\n" + res.output[-1500:])
        scen.extend(res.printed)
    scen.sort(key=lambda sc: json.dumps([sc["fam"], sc["cf"], sc["cg"], sc["t0"], sc["y0"]]))
    return scen


# ---------------------------------------------------------------------------------------
# the real code on one scenario
# ---------------------------------------------------------------------------------------
def _extrapolate(xs, fs):
    """Value at 0 of the polynomial through (xs, fs) (Lagrange / Richardson), and the sum of |weights|."""
    val, lam = 0.0, 0.0
    for i, xi in enumerate(xs):
        w = 1.0
        for j, xj in enumerate(xs):
            if j != i:
                w *= (-xj) / (xi - xj)
        val += w * fs[i]
        lam += abs(w)
    return val, lam


THETA = 1.0 / 16.0


def order_verdict(Dvecs, nforbid, floor):
    """Does the defect vanish to the required order?

    Dvecs[k][i]: signed defect of component i at h = 4^-KS[k].  For a polynomial SDE the defect is a polynomial
    in s = sqrt(h); the property says its coefficients of s^n vanish for n <= nforbid (nforbid = 2p in clause (i),
    2p + 1 in clause (ii)).  S(s) = D(s) / s^nforbid is then a polynomial with S(0) = 0, whereas a violation makes
    S(0) != 0 (or S unbounded).  S(0) is estimated by Richardson extrapolation from the step sizes whose defect is
    above the rounding floor (a_n from all n of them, a_(n-1) from the n-1 smallest).  VIOLATION iff
        |a_n| > 2 |a_n - a_(n-1)| + rounding     (the estimate is not explained by the extrapolation error)
    and |a_n| > max_k |S(s_k)| / 16              (it is not negligible against the observed defect either).
    The classical ratios |D(h/4)| / |D(h)| are returned for the evidence file.
    Returns (ok, tested, info)."""
    ncomp = len(Dvecs[0])
    ss = [2.0 ** -k for k in KS]
    absD = [max(abs(v) for v in Dk) for Dk in Dvecs]
    ratios = [absD[k + 1] / absD[k] if absD[k] > 0 else float("nan") for k in range(len(absD) - 1)]
    ok, tested, worst = True, False, None
    for i in range(ncomp):
        idx = [k for k in range(len(KS)) if abs(Dvecs[k][i]) > floor]
        if len(idx) < 2:
            continue
        tested = True
        xs = [ss[k] for k in idx]
        S = [Dvecs[k][i] / ss[k] ** nforbid for k in idx]
        a_n, lam = _extrapolate(xs, S)
        a_m, _ = _extrapolate(xs[1:], S[1:])
        rounding = lam * floor / min(xs) ** nforbid
        maxS = max(abs(x) for x in S)
        margin = min(abs(a_n) / (2.0 * abs(a_n - a_m) + rounding), abs(a_n) / (THETA * maxS))   # > 1: violation
        bad = margin > 1.0
        if worst is None or margin > worst["margin"]:
            worst = dict(component=i, a_n=a_n, a_prev=a_m, maxS=maxS, npoints=len(idx), margin=margin)
        if bad:
            ok = False
            break
    return ok, tested, dict(ratios=ratios, absD=absD, extrap=worst)


def _rows(m, with_alpha):
    """Quadrature rows over (xi_1..xi_m, eta_1..eta_m[, +-alpha]) -> arrays xi (R,m), eta (R,m), al (R,), w (R,)."""
    import itertools
    import numpy as np
    from harness.sderef import gauss_hermite
    x, w = gauss_hermite(6)
    idx = list(itertools.product(range(6), repeat=2 * m))
    xi = np.array([[x[i[j]] for j in range(m)] for i in idx])
    eta = np.array([[x[i[m + j]] for j in range(m)] for i in idx])
    ww = np.array([math.prod(w[k] for k in i) for i in idx])
    al = np.zeros(len(idx))
    if with_alpha:
        xi, eta = np.concatenate([xi, xi]), np.concatenate([eta, eta])
        al = np.concatenate([np.full(len(idx), ALPHA_Q), np.full(len(idx), -ALPHA_Q)])
        ww = np.concatenate([ww, ww]) * 0.5
    return xi, eta, al, ww


_ROWS_CACHE = {}


def check_scenario(sc):
    """Everything for one TLC scenario; returns a list of result dicts (no ctx access: runs in a subprocess)."""
    import numpy as np
    import torch
    from harness import sderef as sr
    torch.set_num_threads(1)
    fam, d, m = sc["fam"], sc["d"], sc["m"]
    t0, y0 = sr.fr(sc["t0"]), sr.fr_list(sc["y0"])
    f_terms = sr.parse_vec(sc["f"])
    g_terms = [sr.parse_vec(row) for row in sc["g"]]
    tables = {"ito": sr.parse_vec(sc["ito"]), "stratonovich": sr.parse_vec(sc["strat"])}
    nonrep = {"ito": sc["itoNR"], "stratonovich": sc["stratNR"]}
    maxw2 = {"ito": 4, "stratonovich": 3}
    exact_tab = {("euler", "ito"): sr.parse_vec(sc["euler"]), ("milstein", "ito"): sr.parse_vec(sc["milI"]),
                 ("milstein", "stratonovich"): sr.parse_vec(sc["milS"])}
    with_alpha = fam == "gen2"
    key = (m, with_alpha)
    if key not in _ROWS_CACHE:
        _ROWS_CACHE[key] = _rows(m, with_alpha)
    qxi, qeta, qal, qw = _ROWS_CACHE[key]
    ns = len(SAMPLES)
    y0f = [float(v) for v in y0]
    results = []
    for label in LABELS[fam]:
        for method, sde_type, options in SOLVERS:
            sde = sr.PolySDE(f_terms, g_terms, d, m, label, sde_type)
            steps, p, accepted, crashed = {}, None, True, None
            for k in KS:
                h = Fr(1, 4 ** k)
                s = Fr(1, 2 ** k)
                # exact dyadic sample rows
                W = [[float(xi[j] * s) for j in range(m)] for xi, _, _ in SAMPLES]
                U = [[float(h * (xi[j] * s / 2 + et[j] * s)) for j in range(m)] for xi, et, _ in SAMPLES]
                Al = [float(al * h) for _, _, al in SAMPLES]
                hf, sf = float(h), float(s)
                Wq = qxi * sf
                Uq = hf * (Wq * 0.5 + qeta * (sf / math.sqrt(12.0)))
                Wt = torch.tensor(np.concatenate([np.array(W).reshape(ns, m), Wq]), dtype=sr.DT)
                Ut = torch.tensor(np.concatenate([np.array(U).reshape(ns, m), Uq]), dtype=sr.DT)
                al_all = np.concatenate([np.array(Al), qal * hf])
                At = torch.zeros(len(al_all), m, m, dtype=sr.DT)
                if m == 2:
                    At[:, 0, 1] = torch.tensor(al_all)
                    At[:, 1, 0] = -torch.tensor(al_all)
                Y0 = torch.tensor([y0f] * len(al_all), dtype=sr.DT)
                y1 = None
                for levy in ("none", "space-time", "foster"):
                    try:
                        # (every second step size: the same solver object has taken a step of another length before)
                        y1, p, _ = sr.one_step(method, sde, options, t0, h, Y0, Wt, Ut, At, levy=levy, warm_up=(k % 2 == 0))
                        break
                    except sr.Refused as e:
                        if "levy" in str(e).lower():
                            continue
                        accepted = False
                        break
                    except Exception as e:       # an exception on a valid call of an accepted combination
                        crashed = f"{type(e).__name__}: {e}"
                        break
                if y1 is None:
                    accepted = False
                if not accepted:
                    break
                steps[k] = y1.numpy()
            if crashed:
                results.append(dict(fam=fam, d=d, method=method, sde_type=sde_type, noise_type=label,
                                    grad_free=bool(options.get("grad_free", False)), p=p, clause="exception",
                                    ok=False, tested=True, msg=crashed[:300]))
                continue
            if not accepted:
                continue
            base = dict(fam=fam, d=d, method=method, sde_type=sde_type, noise_type=label,
                        grad_free=bool(options.get("grad_free", False)), p=p)
            scale = max([1.0] + [abs(v) for v in y0f] + [float(np.abs(steps[k]).max()) for k in KS])
            floor = FLOOR_ULPS * sr.EPS * scale
            w2p = int(round(2 * p))
            tab = tables[sde_type]
            if w2p + 1 > maxw2[sde_type] or any(a[1] <= w2p for a in nonrep[sde_type]):
                results.append(dict(base, clause="reference", ok=None,
                                    msg=f"no exact reference for p={p} in this family/calculus"))
                continue
            Tp, Tq = sr.trunc(tab, w2p), sr.trunc(tab, w2p + 1)
            # ---- (i) identical agreement below weight p + 1/2, and (iii) exact textbook values
            for si, (xi, et, al) in enumerate(SAMPLES):
                Ds, worst_exact = [], 0.0
                for k in KS:
                    h, s = Fr(1, 4 ** k), Fr(1, 2 ** k)
                    dW = [xi[j] * s for j in range(2)]
                    UU = [h * (xi[j] * s / 2 + et[j] * s) for j in range(2)]
                    ref = sr.eval_table(Tp, h, dW, UU, al * h)
                    Ds.append([float(Fr(float(steps[k][si, i])) - ref[i]) for i in range(d)])
                    if (method, sde_type) in exact_tab and not base["grad_free"]:
                        ex = sr.eval_table(exact_tab[(method, sde_type)], h, dW, UU, al * h)
                        worst_exact = max(worst_exact,
                                          max(abs(float(Fr(float(steps[k][si, i])) - ex[i])) for i in range(d)))
                ok, tested, info = order_verdict(Ds, w2p, floor)
                results.append(dict(base, clause="i", sample=si, ok=ok, tested=tested, D=info["absD"],
                                    ratios=info["ratios"], extrap=info["extrap"], target=4.0 ** -(p + 0.5),
                                    floor=floor))
                if (method, sde_type) in exact_tab and not base["grad_free"]:
                    results.append(dict(base, clause="iii", sample=si, ok=worst_exact <= EXACT_ULPS * sr.EPS * scale,
                                        tested=True, err=worst_exact, bound=EXACT_ULPS * sr.EPS * scale))
            # ---- (ii) mean agreement to O(h^(p+1))
            Ds = []
            for k in KS:
                h = Fr(1, 4 ** k)
                mean_ref = sr.mean_table(Tq, h)
                q = steps[k][ns:]
                Ds.append([float(Fr(math.fsum(qw * q[:, i])) - mean_ref[i]) for i in range(d)])
            ok, tested, info = order_verdict(Ds, w2p + 1, floor)
            results.append(dict(base, clause="ii", ok=ok, tested=tested, D=info["absD"], ratios=info["ratios"],
                                extrap=info["extrap"], target=4.0 ** -(p + 1.0), floor=floor))
            # ---- implementation-shaped extra (never a verdict): a scheme that consumes the Levy area should
            # reproduce the A-term of the weight-1 truncation for the prescribed A
            if method == "log_ode" and fam == "gen2":
                T1 = sr.trunc(tab, 2)
                bad = 0
                for si, (xi, et, al) in enumerate(SAMPLES):
                    Ds = []
                    for k in KS:
                        h, s = Fr(1, 4 ** k), Fr(1, 2 ** k)
                        ref = sr.eval_table(T1, h, [xi[j] * s for j in range(2)], [Fr(0), Fr(0)], al * h)
                        Ds.append([float(Fr(float(steps[k][si, i])) - ref[i]) for i in range(d)])
                    ok1, _, r1 = order_verdict(Ds, 2, floor)
                    bad += not ok1
                results.append(dict(base, clause="levy_area_shape", ok=bad == 0, tested=True))
    return dict(scenario=dict(fam=fam, cf=sc["cf"], cg=sc["cg"], t0=sc["t0"], y0=sc["y0"]), results=results)


# ---------------------------------------------------------------------------------------
def run(ctx):
    import multiprocessing as mp
    import time
    t_start = time.time()
    scen = generate_scenarios(ctx)
    ctx.notes["tlc_wall_s"] = round(time.time() - t_start, 1)
    ctx.rule = ("TLC enumerates (family member x base point) for 6 families of polynomial SDEs (built-in members plus "
                "members with coefficients k/4 drawn from VERIF_SEED); each scenario is run through every real "
                "solver x noise-type label the solver accepts at h = 4^-3..4^-6; a case is non-trivial when its "
                "defect is above the rounding floor at >= 2 step sizes so that the decay is really tested")
    ctx.exhaustive = False
    ctx.assumptions = [
        "polynomial drift/diffusion of degree <= 2 (3) with dyadic coefficients sample the jets of smooth f, g: an "
        "order condition is a polynomial identity in the jet, so a violated one fails at a random dyadic point with "
        "high probability; this is exploration, not proof",
        "expectations are taken with the 6-point Gauss-Hermite product rule (exact to degree 11 per variable) over "
        "xi_j, eta_j and a symmetric two-point rule in A",
        "Stratonovich reference limited to weight 3/2 (all Stratonovich solvers advertise p <= 1)",
    ]
    nproc = 1 if ctx.tier == "quick" else min(8, os.cpu_count() or 4)
    if nproc > 1:
        with mp.get_context("fork").Pool(nproc) as pool:
            outs = pool.map(check_scenario, scen, chunksize=1)
    else:
        outs = [check_scenario(s) for s in scen]
    reported = set()
    stats = {}
    combos = set()
    for out in outs:
        scd = out["scenario"]
        for r in out["results"]:
            cls = (r["clause"], r["method"], r["sde_type"], r["noise_type"], r["grad_free"], r["fam"])
            if r["clause"] == "reference":
                ctx.notes.setdefault("no_reference", []).append(list(cls))
                continue
            if r["clause"] == "levy_area_shape":
                if not r["ok"]:
                    ctx.drift(f"log_ode on non-commutative noise does not reproduce the Levy-area term of the weight-1 "
                              f"Taylor truncation for prescribed A (scenario {scd}); not required at advertised p=0.5")
                continue
            combos.add((r["method"], r["sde_type"], r["noise_type"], r["grad_free"], r["p"]))
            ctx.case(cls, nontrivial=bool(r.get("tested")),
                     sample=dict(cls=list(cls), p=r["p"], D=r.get("D"), ratios=r.get("ratios")))
            if r["clause"] in ("i", "ii") and r.get("tested"):
                st = stats.setdefault(f"{r['method']}/{r['sde_type']}/{r['noise_type']}"
                                      f"{'/grad_free' if r['grad_free'] else ''}/{r['clause']}",
                                      dict(target=r["target"], last_ratio_min=9e9, last_ratio_max=0.0, n=0))
                if r["ok"] and r.get("extrap"):
                    st["closest_pass_margin"] = max(st.get("closest_pass_margin", 0.0), r["extrap"]["margin"])
                fin = [x for x, dd in zip(r["ratios"], r["D"][1:]) if dd > r["floor"] and x == x]
                if fin:
                    st["last_ratio_min"] = min(st["last_ratio_min"], fin[-1])
                    st["last_ratio_max"] = max(st["last_ratio_max"], fin[-1])
                    st["n"] += 1
            if not r["ok"]:
                keyd = dict(clause=r["clause"], method=r["method"], sde_type=r["sde_type"],
                            noise_type=r["noise_type"], grad_free=r["grad_free"], fam=r["fam"], d=r["d"])
                if cls in reported:
                    continue
                reported.add(cls)
                if r["clause"] == "exception":
                    msg = f"solver.step raised {r['msg']} at scenario {scd}"
                elif r["clause"] == "iii":
                    msg = (f"step differs from the textbook value by {r['err']:.3e} > {r['bound']:.3e} "
                           f"(4 ulp) at scenario {scd}")
                else:
                    msg = (f"p={r['p']}: defect {['', 'step - T_p', 'E[step] - E[T_(p+1/2)]'][len(r['clause'])]} = "
                           f"{['%.3e' % x for x in r['D']]} at h=4^-3..4^-6, ratios "
                           f"{['%.4f' % x for x in r['ratios']]} (order target {r['target']:.4f}); the coefficient of "
                           f"the highest forbidden power of sqrt(h), Richardson-extrapolated, is "
                           f"{r['extrap']['a_n']:.4e} (previous estimate {r['extrap']['a_prev']:.4e}, max scaled "
                           f"defect {r['extrap']['maxS']:.3e}), not zero; "
                           f"scenario {scd}")
                ctx.violation(keyd, msg, replay=dict(scenario=scd, result={k: v for k, v in r.items()}))
    ctx.notes["solver_noise_combinations"] = [list(c) for c in sorted(combos)]
    ctx.notes["ratio_stats"] = stats
    ctx.notes["scenarios"] = len(scen)
    ctx.notes["wall"] = round(time.time() - t_start, 1)


def replay(path):
    """Re-run the scenario of a recorded violation (python -m checks.check --property C02 --replay file)."""
    from harness import tlc
    from harness.sderef import fr, rat, tla_rats
    with open(path) as fh:
        rec = json.load(fh)
    scd, key = rec["replay"]["scenario"], rec["key"]
    mb = f'[fam |-> "{scd["fam"]}", cf |-> {tla_rats([fr(x) for x in scd["cf"]])}, cg |-> {tla_rats([fr(x) for x in scd["cg"]])}]'
    pt = "<<" + rat(fr(scd["t0"])) + ", <<" + ", ".join(rat(fr(y)) for y in scd["y0"]) + ">>>>"
    d1 = len(scd["y0"]) == 1
    text = _module("TaylorRun", [mb], [pt] if d1 else [], [] if d1 else [pt])
    res = tlc.run("TaylorRun", cfg_text=CFG, extra_modules={"TaylorRun": text}, workers=1, timeout=600)
    bad = []
    for sc in res.printed:
        for r in check_scenario(sc)["results"]:
            if r.get("ok") is False and all(r.get(a) == b for a, b in key.items()):
                bad.append(r)
                print("REPRODUCED", {k: r[k] for k in key}, {k: r.get(k) for k in ("D", "ratios", "extrap", "err", "msg")})
    print(f"replay {path}: {'still failing' if bad else 'not reproduced'}")
    return 1 if bad else 0
