"""C13 - chunked (checkpoint / restart) integration equals one-shot integration.

Spec: spec/SolverLoop.tla with the Restart action (the call returns (ys, extra) at an output time, a new call starts from
ys[-1] and the returned extra state with fresh locals); invariants ChunkEq (loop state equals the one-shot state
whatever restarts happened), OutputForm, GridSteps.  TLC enumerates every subset of interior grid points as restart
set (up to 6 steps), with and without solver extra state; it refutes the seeded defect "extra state not passed on"
and restarts at off-grid times (the precondition of the property).

Binding: every enumerated (ts, restart set, dt) is run on the real sdeint one-shot and chunk by chunk
(extra=True / extra_solver_state=...), with the same Brownian object or an identically seeded twin: outputs and final
extra state must be bit-identical, the Brownian query sequences must be the spec's.
"""
import multiprocessing as mp
import os
import time
from concurrent.futures import ThreadPoolExecutor

from harness import loop

LEVEL = "model_checking"


def run(ctx):
    t_start = time.time()
    quick = ctx.tier == "quick"
    pool = mp.get_context("fork").Pool(min(8 if quick else 16, os.cpu_count() or 4))
    try:
        _run(ctx, quick, pool)
    finally:
        pool.terminate()
        pool.join()
    ctx.notes["wall"] = round(time.time() - t_start, 1)


def _run(ctx, quick, pool):
    t_ends, dts, extra_outs = ({10, 12}, {2, 3, 5}, 1) if quick else ({10, 11, 12}, {2, 3, 4, 5}, 2)
    res = loop.run_loop_spec(ctx, "fixed + Restart: all restart sets on the grid, emit", invariants=loop.FIXED_INVS,
                             properties=loop.FIXED_PROPS, Mode="fixed", RestartMode="grid", Extras={True, False},
                             TEnds=t_ends, MaxInterior=extra_outs, Dts=dts, Emit=True, workers=4, timeout=900,
                             coverage=not quick)
    if not quick:
        ctx.notes["actions_taken"] = loop.require_actions([res], ("FixedStep", "EmitOutput", "Restart", "Finish"))
    behs = [b for b in res.printed if isinstance(b, dict) and b.get("mode") == "fixed"]
    if not behs or not any(b["rs"] for b in behs):
        raise loop.tlc.TLCMachineryError("no restart scenarios printed")
    behs.sort(key=lambda b: (b["has"], b["T"], b["d"], len(b["rs"]), b["rs"], b["ts"]))
    max_restarts = max(len(b["rs"]) for b in behs)

    side = [("seeded design defect dropExtra: caught by ChunkEq",
             dict(invariants=("Detect",), action_constraints=("DetectAct",), Mode="fixed", RestartMode="grid",
                  Extras={True}, TEnds={8}, MaxInterior=1, Dts={2, 3}, Bugs={"none", "dropExtra"}, workers=2, timeout=300)),
            ("restart at off-grid output times: ChunkEq refuted (precondition of C13 is necessary)",
             dict(invariants=loop.FIXED_INVS, Mode="fixed", RestartMode="any", Extras={True}, TEnds={8}, MaxInterior=0,
                  Dts={3}, workers=1, timeout=300, expect=("ChunkEq",)))]
    ex = ThreadPoolExecutor(max_workers=2)
    side_futs = [(label, ex.submit(loop.run_loop_spec, None, label, **kw)) for label, kw in side]

    configs = loop.solver_configs()
    cfg_has = [i for i, c in enumerate(configs) if c["has"]]
    cfg_no = [i for i, c in enumerate(configs) if not c["has"]]
    groups = {}
    per = 2 if quick else None
    for i, b in enumerate(behs):
        cands = cfg_has if b["has"] else cfg_no
        chosen = cands if per is None else [cands[(i * per + k + ctx.seed) % len(cands)] for k in range(per)]
        if not quick and not b["has"]:
            # thorough: every restart scenario on every extra-free configuration would be ~10^5 runs per scenario
            # class; take every configuration on a rotating third of the scenarios (each scenario still runs on
            # >= 45 configurations)
            chosen = [ci for ci in cands if (ci + i) % 3 == 0]
        for ci in chosen:
            groups.setdefault(ci, []).append(b)
    jobs = []
    for gi, (ci, bs) in enumerate(sorted(groups.items())):
        for k in range(0, len(bs), 40):
            jobs.append(dict(c=configs[ci], seed=ctx.seed, gi=gi + k, t0=[0.0, 0.25, -0.5, 1.0, 16384.0, -8192.0][(ci + k) % 6],
                             j=[3, 4, 5][(ci + k // 40) % 3], behs=bs[k:k + 40]))
    seen_fail = {}
    sens = [0, 0]
    covered = set()
    n = 0
    for job, out in zip(jobs, pool.imap(loop.c13_group, jobs, chunksize=2)):
        n += out["n"]
        covered.add(loop.cfg_key(job["c"]))
        sens[0] += out["sens"][0]
        sens[1] += out["sens"][1]
        for k, smp in out["keys"]:
            nontrivial = int(k.split("chunks=")[1].split("|")[0]) > 1
            ctx.case(k, nontrivial=nontrivial, trace=True, sample=smp if nontrivial and n % 120 == 0 else None)
        for key, msg, replay in out["fails"]:
            kk = tuple(sorted(key.items()))
            seen_fail[kk] = seen_fail.get(kk, 0) + 1
            if seen_fail[kk] <= 2:
                ctx.violation(key, msg, replay=replay)
    # ---- non-dyadic step sizes: restart points are step times of the one-shot solve read from its query log ----------
    nd_cfgs = [c for i, c in enumerate(configs) if c["ts_kind"] == "tensor" or i % 2 == 0]
    if quick:
        nd_cfgs = [c for i, c in enumerate(nd_cfgs) if c["has"] or (i + ctx.seed) % 3 == 0]
    nd_grids = [(0.0, 0.1, 20, False), (0.5, 0.05, 16, True)] if quick else \
        [(0.0, 0.1, 20, False), (0.5, 0.05, 16, True), (-0.3, 0.01, 30, False), (1.0, 0.3, 9, True)]
    nd_jobs = [dict(c=c, seed=ctx.seed, grids=nd_grids, reps=3 if quick else 8) for c in nd_cfgs]
    nd_jobs += [dict(c=c, seed=ctx.seed, grids=nd_grids[:1] if quick else nd_grids[:2], reps=2 if quick else 6, mixed=True)
                for c in nd_cfgs if c["dtype"] == "float32" and c["ts_kind"] == "tensor" and c["noise"] == "diagonal"]   # (torch.bmm refuses mixed dtypes: only element-wise noise runs in mixed precision)
    n_nd = 0
    for job, out in zip(nd_jobs, pool.imap(loop.c13_nondyadic_group, nd_jobs, chunksize=2)):
        for k, smp in out["keys"]:
            n_nd += 1
            ctx.case(k, nontrivial=True, trace=False, sample=smp if n_nd % 200 == 1 else None)
        for key, msg, replay in out["fails"]:
            kk = tuple(sorted(key.items()))
            seen_fail[kk] = seen_fail.get(kk, 0) + 1
            if seen_fail[kk] <= 2:
                ctx.violation(key, msg, replay=replay)
    ctx.notes["nondyadic_chunk_runs"] = n_nd
    for label, f in side_futs:
        r = f.result()
        ctx.add_tlc(r, label)
        if "dropExtra" in label:
            ctx.notes["seeded_design_defects_caught_by"] = loop.check_seeded_defects(r, {"dropExtra": ("ChunkEq",)}, label)
    ex.shutdown()
    if len(covered) != len(configs):
        raise RuntimeError("a solver configuration was not covered")
    if sens[0] and not sens[1]:
        raise RuntimeError("harness self-check: dropping the extra state of reversible Heun went unnoticed")

    ctx.rule = ("TLC enumerates, for T in %s ticks and dt in %s ticks (3..6 steps, clipped and unclipped last step), every "
                "subset of the interior grid points as restart set, plus at most %d further output times anywhere, with and "
                "without solver extra state; each scenario is run one-shot and chunked on the real sdeint (%s), "
                "alternately on the same Brownian object and on an identically seeded twin; non-trivial = at least one "
                "restart; plus non-dyadic grids (dt = 0.1, 0.05, 0.01, 0.3; float32 and float64): the step times of the one-shot "
                "solve are read from its Brownian query log, random restart sets are drawn among them and the chunked solve "
                "must be bit-identical" % (sorted(t_ends), sorted(dts), extra_outs,
                             "2 solver configurations per scenario in rotation" if quick else
                             "all reversible-Heun configurations, a rotating third of the other configurations"))
    ctx.exhaustive = False if quick else None
    ctx.assumptions += [
        "restart points are output times on the step grid (precondition of the property); dyadic tick -> time map",
        "a Brownian object answers a repeated query with the same tensor (C05), used for the same-object variant",
    ]
    ctx.notes["scenarios_enumerated_by_tlc"] = len(behs)
    ctx.notes["max_restarts_in_a_scenario"] = max_restarts
    ctx.notes["real_scenario_runs"] = n
    ctx.notes["binding_sensitivity"] = (f"reversible Heun chunked WITHOUT passing the extra state differs from one-shot in "
                                        f"{sens[1]}/{sens[0]} sampled scenarios (expected: most)")


def replay(path):
    return loop.replay_file(path)
