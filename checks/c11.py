"""C11 - the adjoint SDE's vector fields are the exact vector-Jacobian products.

Spec: spec/AdjointField.tla - the definition of the reverse-time augmented system (Stratonovich drift,
augmented fields, generic Stratonovich->Ito conversion F + 1/2 (DG) G of the AUGMENTED system, Milstein
term), by polynomial differentiation; TLC checks the lemmas StatePartDrift, StatePartDiffusion,
NoCorrectionWhenNotNeeded, AdditiveHasNoMilstein, UnusedParameterZero, LinearInAdjoint, ItoParameterPart
on the symbolic fields of all 2 x 4 x 2 members and prints exact values at dyadic points.

Binding: the real torchsde._core.adjoint_sde.AdjointSDE built exactly as adjoint.py builds it
(AdjointSDE(ForwardSDE(sde), params, shapes), flattened (1, numel) augmented state, params =
list(sde.parameters())); .f, .g_prod, .f_and_g_prod, .g_prod_and_gdg_prod are compared with TLC's rationals
(1e-12), under no_grad (no graph left) and under enable_grad (a further derivative equals TLC's).
"""
from fractions import Fraction as Fr

LEVEL = "exploration"
TOL = 1e-12
D, P = 2, 8
# spec theta index (0-based) -> (parameter name, flat index)
THETA_SLOTS = [("A", 0), ("A", 1), ("A", 2), ("A", 3), ("unused", 0), ("unused", 1), ("sub.c", 0), ("sub.c", 1)]

CFG = """SPECIFICATION Spec
CONSTANTS
  Settings <- GenSettings
  Rows <- GenRows
INVARIANT StatePartDrift
INVARIANT StatePartDiffusion
INVARIANT NoCorrectionWhenNotNeeded
INVARIANT AdditiveHasNoMilstein
INVARIANT UnusedParameterZero
INVARIANT LinearInAdjoint
INVARIANT ItoParameterPart
CHECK_DEADLOCK FALSE
"""


def _gen_module(ctx):
    from harness import common
    from harness.sderef import rat
    rnd = common.rng(ctx.seed, "c11")
    hv = [Fr(k, 2) for k in (-3, -2, -1, 1, 2, 3)]
    nset, nrow = (1, 1) if ctx.tier == "quick" else (4, 8)

    def seq(n):
        return "<<" + ", ".join(rat(rnd.choice(hv)) for _ in range(n)) + ">>"
    settings = [f"<<{rat(rnd.choice(hv))}, {seq(P)}>>" for _ in range(nset)]
    rows = [f"[y |-> {seq(D)}, a |-> {seq(D)}, v |-> {seq(2)}, v2 |-> {seq(2)}, w |-> {seq(2 * D + P)}]"
            for _ in range(nrow)]
    return ("---- MODULE AdjointRun ----\nEXTENDS AdjointField\n"
            f"GenSettings == DefaultSettings \\cup {{{', '.join(settings)}}}\n"
            f"GenRows == DefaultRows \\cup {{{', '.join(rows)}}}\n====\n")


def _build(sc, rows, shared=False, keep=False):
    """The torch SDE of a scenario, its AdjointSDE (as adjoint.py builds it) and the augmented state for `rows`.
    shared: the SDE also supplies `f_and_g`, computing drift and diffusion from ONE shared intermediate autograd node
    that saves tensors (as a network with a shared hidden layer does, or the library's own logqp wrapper): the
    prescribed quantities are the same (C16), but the adjoint's two vector-Jacobian products then walk through a
    common part of the graph."""
    import torch
    from harness import sderef as sr
    from torchsde._core import base_sde
    from torchsde._core.adjoint_sde import AdjointSDE
    from torchsde._core import misc

    th = sr.fr_list(sc["theta"])

    def strip(terms):  # exponents over (t, y, a, theta) -> (t, y, theta); the forward SDE never contains a
        out = []
        for e, c in sr.parse_poly(terms):
            assert e[1 + D] == 0 and e[2 + D] == 0
            out.append((e[:1 + D] + e[1 + 2 * D:], c))
        return out

    class Sub(torch.nn.Module):
        def __init__(self):
            super().__init__()
            self.c = torch.nn.Parameter(torch.tensor([float(th[6]), float(th[7])], dtype=sr.DT))

    class ParamSDE(sr.PolySDE):
        def __init__(self):
            f_terms = [strip(t) for t in sc["f"]]
            g_terms = [[strip(t) for t in row] for row in sc["g"]]
            super().__init__(f_terms, g_terms, D, sc["m"], sc["noise"], sc["calc"], theta=self._thetas)
            # the sub-module is registered FIRST: nn.Module.parameters() nevertheless yields direct parameters
            # (A, unused) before those of sub-modules
            self.sub = Sub()
            self.A = torch.nn.Parameter(torch.tensor([[float(th[0]), float(th[1])], [float(th[2]), float(th[3])]],
                                                     dtype=sr.DT))
            self.unused = torch.nn.Parameter(torch.tensor([float(th[4]), float(th[5])], dtype=sr.DT))

        def _thetas(self):
            return [self.A[0, 0], self.A[0, 1], self.A[1, 0], self.A[1, 1], self.unused[0], self.unused[1],
                    self.sub.c[0], self.sub.c[1]]

    if keep:
        class KeepSDE(ParamSDE):
            """a user who holds on to what the drift / diffusion returned (a table of precomputed values, a cache):
            the library must not write into those tensors"""
            def __init__(self):
                super().__init__()
                self.returned = []

            def f(self, t, y):
                out = ParamSDE.f(self, t, y)
                self.returned.append(("f", out, out.detach().clone()))
                return out

            def g(self, t, y):
                out = ParamSDE.g(self, t, y)
                self.returned.append(("g", out, out.detach().clone()))
                return out
        sde = KeepSDE()
    elif shared:
        class SharedSDE(ParamSDE):
            def f_and_g(self, t, y):
                z = y * torch.ones_like(y)          # exact; the multiplication saves its operands for backward
                return ParamSDE.f(self, t, z), ParamSDE.g(self, t, z)
        sde = SharedSDE()
    else:
        sde = ParamSDE()
    params = [p for p in sde.parameters() if p.requires_grad]          # as sdeint_adjoint does
    names = {id(p): n for n, p in sde.named_parameters()}
    order = [names[id(p)] for p in params]
    y = torch.tensor([[float(Fr(*x)) for x in r["y"]] for r in rows], dtype=sr.DT)
    a = torch.tensor([[float(Fr(*x)) for x in r["a"]] for r in rows], dtype=sr.DT)
    aug = [y, a] + [torch.zeros_like(p) for p in params]
    shapes = [t.size() for t in aug]
    y_aug = misc.flatten(aug).unsqueeze(0)
    adj = AdjointSDE(base_sde.ForwardSDE(sde), params, shapes)
    return sde, adj, params, order, y_aug


def _layout(vecs, order):
    """Spec component vectors (one per batch row: y-part, a-part, theta-part in spec order) -> the flattened
    layout [y rows, a rows, parameters in `order`]; parameter parts add up over the batch."""
    ypart = [float(v[i]) for v in vecs for i in range(D)]
    apart = [float(v[D + i]) for v in vecs for i in range(D)]
    tpart = []
    for name in order:
        idx = [k for k, (n, _) in enumerate(THETA_SLOTS) if n == name]
        idx.sort(key=lambda k: THETA_SLOTS[k][1])
        tpart += [float(sum(v[2 * D + k] for v in vecs)) for k in idx]
    return ypart + apart + tpart


def _grad_layout(g, order):
    """TLC's {dy, da, dth} -> (expected gradient w.r.t. y_aug for one row, expected gradients per parameter)."""
    from harness.sderef import fr
    dy, da, dth = [fr(x) for x in g["dy"]], [fr(x) for x in g["da"]], [fr(x) for x in g["dth"]]
    aug = [float(x) for x in dy + da] + [0.0] * P
    per_param = []
    for name in order:
        idx = [k for k, (n, _) in enumerate(THETA_SLOTS) if n == name]
        idx.sort(key=lambda k: THETA_SLOTS[k][1])
        per_param.append([float(dth[k]) for k in idx])
    return aug, per_param


def _close(t, ref):
    import torch
    if t.numel() != len(ref):
        return False
    r = torch.tensor(ref, dtype=t.dtype).reshape(t.shape)
    return float((t.detach() - r).abs().max()) <= TOL * max(1.0, float(r.abs().max()))


def check_group(group):
    """All scenarios of one (member, setting): list of result dicts."""
    import torch
    from harness import sderef as sr
    res = []
    sc0 = group[0]
    cls = dict(sde_type=sc0["calc"], noise_type=sc0["noise"], drift=sc0["drift"])

    def add(fn, what, ok, detail="", wrt=""):
        res.append(dict(cls, function=fn, what=what, wrt=wrt, ok=bool(ok), detail=detail,
                        point=dict(s=sc0["s"], theta=sc0["theta"])))

    def calls(adj, t, y_aug, v, v2, diag):
        out = {"f": adj.f(t, y_aug), "g_prod": adj.g_prod(t, y_aug, v)}
        ff, gg = adj.f_and_g_prod(t, y_aug, v)
        out["f_and_g_prod.f"], out["f_and_g_prod.g_prod"] = ff, gg
        if diag:
            g1, m1 = adj.g_prod_and_gdg_prod(t, y_aug, v, v2)
            out["g_prod_and_gdg_prod.g_prod"], out["g_prod_and_gdg_prod.gdg_prod"] = g1, m1
        return out

    WHICH = {"f": "F", "g_prod": "GP", "f_and_g_prod.f": "F", "f_and_g_prod.g_prod": "GP",
             "g_prod_and_gdg_prod.g_prod": "GP", "g_prod_and_gdg_prod.gdg_prod": "MIL"}
    diag = sc0["noise"] == "diagonal"
    m = sc0["m"]
    batches = [[sc] for sc in group]
    if len(group) >= 2:
        batches.append([group[0], group[1]])          # batch of two rows: parameter parts add up
    for rows in batches:
        sde, adj, params, order, y_aug = _build(sc0, rows)
        t = torch.tensor(float(sr.fr(sc0["s"])), dtype=sr.DT)
        v = torch.tensor([[float(Fr(*x)) for x in r["v"]] for r in rows], dtype=sr.DT)
        v2 = torch.tensor([[float(Fr(*x)) for x in r["v2"]] for r in rows], dtype=sr.DT)
        expect = {k: _layout([sr.fr_list(r[k]) for r in rows], order) for k in ("F", "GP", "MIL")}
        tag = "value" if len(rows) == 1 else "batch"
        # ---- gradients disabled: values, and no autograd graph left behind
        try:
            with torch.no_grad():
                outs = calls(adj, t, y_aug, v, v2, diag)
        except Exception as e:                      # an exception on a valid call
            add("call", "exception", False, f"{type(e).__name__}: {e}"[:300])
            continue
        for fn, o in outs.items():
            add(fn, tag + "/no_grad", o.shape == y_aug.shape and _close(o, expect[WHICH[fn]]),
                f"got {o.flatten().tolist()} want {expect[WHICH[fn]]}")
            add(fn, "no_graph", o.grad_fn is None and not o.requires_grad, "output carries a graph under no_grad")
        # ---- the user keeps what drift and diffusion returned: evaluating the adjoint fields must not write into it
        try:
            sde_k, adj_k, _, _, y_aug_k = _build(sc0, rows, keep=True)
            with torch.no_grad():
                calls(adj_k, t, y_aug_k, v, v2, diag)
            touched = sorted({name for name, out, snap in sde_k.returned if not torch.equal(out.detach(), snap)})
            add("call", "user_tensors_untouched", not touched,
                f"evaluating the adjoint fields modified, in place, the tensors returned by the user's {touched}: a drift "
                f"that returns a stored tensor (a table of values) gives different results on every evaluation")
        except Exception as e:
            add("call", "exception", False, f"SDE keeping its returned tensors: {type(e).__name__}: {e}"[:300])
        # ---- the same SDE supplying f_and_g with a shared intermediate node: same prescribed quantities
        for mode in ("no_grad", "grad"):
            try:
                _, adj_s, _, order_s, y_aug_s = _build(sc0, rows, shared=True)
                with (torch.no_grad() if mode == "no_grad" else torch.enable_grad()):
                    outs_s = calls(adj_s, t, y_aug_s, v, v2, diag)
            except Exception as e:
                add("call", "exception", False, f"f_and_g with a shared intermediate, {mode}: {type(e).__name__}: {e}"[:300])
                continue
            exp_s = {k: _layout([sr.fr_list(r[k]) for r in rows], order_s) for k in ("F", "GP", "MIL")}
            for fn, o in outs_s.items():
                add(fn, tag + "/shared_f_and_g/" + mode, o.shape == y_aug_s.shape and _close(o, exp_s[WHICH[fn]]),
                    f"got {o.flatten().tolist()} want {exp_s[WHICH[fn]]}")
        if len(rows) > 1:
            continue
        # ---- gradients enabled: same values, and one further derivative
        sc = rows[0]
        w_spec = sr.fr_list(sc["w"])
        w = torch.tensor(_layout([w_spec], order), dtype=sr.DT)   # same permutation as the outputs (batch of 1)
        for fn in list(WHICH):
            if fn.startswith("g_prod_and_gdg") and not diag:
                continue
            ya = y_aug.clone().requires_grad_(True)
            try:
                with torch.enable_grad():
                    o = calls(adj, t, ya, v, v2, diag)[fn]
            except Exception as e:
                add(fn, "exception", False, f"{type(e).__name__}: {e}"[:300])
                continue
            with torch.enable_grad():
                add(fn, "value/enable_grad", _close(o, expect[WHICH[fn]]),
                    f"got {o.flatten().tolist()} want {expect[WHICH[fn]]}")
                if o.numel() != w.numel():
                    add(fn, "shape", False, f"output has {o.numel()} entries, augmented state has {w.numel()}")
                    continue
                if not o.requires_grad:
                    add(fn, "differentiable", False, "output does not require grad under enable_grad")
                    continue
                phi = (o.flatten() * w).sum()
                grads = torch.autograd.grad(phi, [ya] + params, allow_unused=True)
            gy = grads[0].flatten() if grads[0] is not None else torch.zeros_like(ya).flatten()
            want_aug, want_par = _grad_layout(sc["d" + WHICH[fn]], order)
            add(fn, "derivative", _close(gy, want_aug), f"d/d(y,a): got {gy.tolist()} want {want_aug}", wrt="state")
            for name, gp, wp in zip(order, grads[1:], want_par):
                gp = torch.zeros(len(wp), dtype=sr.DT) if gp is None else gp.flatten()
                add(fn, "derivative", _close(gp, wp), f"d/d{name}: got {gp.tolist()} want {wp}", wrt="param")
        if not diag:
            try:
                adj.g_prod_and_gdg_prod(t, y_aug, v, v2)
                add("g_prod_and_gdg_prod", "non_diagonal_defined", True)
            except NotImplementedError:
                pass
    res.append(dict(cls, function="parameters", what="order", wrt="", ok=True, detail=str(order)))
    return res


def run(ctx):
    import time
    from harness import tlc
    t0 = time.time()
    res = tlc.run("AdjointRun", cfg_text=CFG, extra_modules={"AdjointRun": _gen_module(ctx)}, workers=4,
                  timeout=600, java_opts=("-XX:ParallelGCThreads=2", "-Xmx2g"))
    ctx.add_tlc(res, "AdjointField")
    if not res.ok:
        raise tlc.TLCMachineryError(f"AdjointField.tla lemma {res.violated} violated\n" + res.output[-1500:])
    ctx.rule = ("TLC enumerates 2 sde types x 4 noise types x 2 drifts, each at every (adjoint time, theta) setting x "
                "(y, a, v, v2, w) row (built-in dyadic points plus points drawn from VERIF_SEED); every scenario is "
                "evaluated on the real AdjointSDE under no_grad and enable_grad; a case is one compared "
                "output/derivative of one AdjointSDE method")
    ctx.exhaustive = False
    ctx.assumptions = ["polynomial forward SDEs (degree <= 2 in y, <= 2 in theta) sample smooth user SDEs",
                       "d = 2, m in {1, 2}, batch sizes 1 and 2; three parameter tensors (one unused, one in a "
                       "sub-module)"]
    groups = {}
    for sc in res.printed:
        groups.setdefault((sc["calc"], sc["noise"], sc["drift"], str(sc["s"]), str(sc["theta"])), []).append(sc)
    reported = set()
    for key in sorted(groups):
        grp = sorted(groups[key], key=lambda s: str(s["y"]) + str(s["a"]))
        for r in check_group(grp):
            ck = (r["sde_type"], r["noise_type"], r["function"], r["what"], r["wrt"])
            ctx.case(ck, sample=dict(case=list(ck), point=r.get("point")))
            if not r["ok"] and ck not in reported:
                reported.add(ck)
                ctx.violation(dict(sde_type=r["sde_type"], noise_type=r["noise_type"], function=r["function"],
                                   what=r["what"], wrt=r["wrt"]),
                              f"AdjointSDE.{r['function']} {r['what']}: {r['detail'][:400]} at {r.get('point')} "
                              f"(drift {r['drift']})", replay=r)
    ctx.notes["scenarios"] = len(res.printed)
    ctx.notes["wall"] = round(time.time() - t0, 1)


def replay(path):
    """Re-run the class of a recorded violation (python -m checks.check --property C11 --replay file)."""
    import json
    from harness import common
    with open(path) as fh:
        rec = json.load(fh)
    key = rec["key"]
    ctx = common.Ctx("C11", rec.get("tier", "quick"), rec.get("seed", 0), LEVEL)
    ctx.violation = lambda k, msg, replay=None: (print("REPRODUCED" if all(k.get(a) == b for a, b in key.items())
                                                       else "OTHER", k, msg[:300]), ctx.violations.append((k, msg, "")))
    run(ctx)
    hit = [v for v in ctx.violations if all(v[0].get(a) == b for a, b in key.items())]
    print(f"replay {path}: {'still failing' if hit else 'not reproduced'}")
    return 1 if hit else 0
