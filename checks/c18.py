"""C18 - logqp returns the path-wise KL integrand and does not disturb the solution.

Spec: spec/Logqp.tla - the augmentation (state d+1, drift (f, 1/2|g^+(f-h)|^2), zero diffusion row, output
differencing) composed with the fixed-step loop of Schemes.tla on exact rationals.  TLC enumerates
(noise type x solver x shape x constant vector c x time layout) with h = f - g c and full-column-rank dyadic g and
checks Shape, ExactValue (= 1/2|c|^2 (t_{i+1}-t_i)), NonNegative, Additive (over a refinement of ts),
StateUndisturbed, ZeroRow on every scenario, plus a non-constant witness; it prints every scenario.

Binding (real torchsde.sdeint(logqp=True)):
 (A) every TLC scenario is replayed: the polynomial SDE with prior drift h as nn.Module, the prescribed Brownian
     increments through a Brownian stub (one padded channel for diagonal noise).  Checked: shape
     (len(ts)-1, batch); values against TLC's exact 1/2|c|^2 dt at 1e-12; non-negativity; additivity over TLC's
     refinement of ts; state trajectory torch.equal to the run without logqp under the same noise.
 (B) arbitrary smooth (f, g, h) (tanh/sin nn.Modules), all noise types x all solvers accepting them, one recorded
     BrownianInterval path: "as integrated by the chosen solver" is decided against an independent formulation -
     the harness writes the augmented SDE itself as an ordinary user SDE (state d+1, extra drift with
     torch.linalg.pinv, or division for diagonal noise, zero diffusion row), solves it with the same solver and the
     same noise and differences the last column; plus non-negativity, additivity under refinement, trajectory
     equality with the run without logqp, shape.
Tolerances: torch.equal for the trajectory; (4 + 8 kappa) ulp * scale per step for values whose only legitimate
difference is the pseudo-inverse algorithm (kappa = largest condition number of g met on the path: a
backward-stable pseudo-inverse perturbs u by O(kappa eps |u|)); 1e-12 relative against exact rationals.
"""
import torch
import torchsde
from torch import nn

from harness import schemes as S
from harness.common import rng

LEVEL = "model_checking"
EPS = torch.finfo(torch.float64).eps


# ---------------------------------------------------------------------------------------------
# (A) helpers
# ---------------------------------------------------------------------------------------------
def _additive_ok(coarse, fine, scale):
    pair = fine.reshape(coarse.size(0), 2, -1).sum(dim=1)
    return float((pair - coarse).abs().max()), 16 * EPS * scale


# ---------------------------------------------------------------------------------------------
# (B) smooth SDEs
# ---------------------------------------------------------------------------------------------
class SmoothKL(nn.Module):
    """Smooth SDE with prior drift h; g has full column rank and is bounded away from singular."""

    def __init__(self, nt, sde_type, d, m, gen, col_scale=1.0):
        super().__init__()
        self.noise_type, self.sde_type, self.d, self.m = nt, sde_type, d, m
        r = lambda *shape: torch.randn(*shape, generator=gen, dtype=S.DT)
        # col_scale < 1: the last column of g (additive / general) is that much smaller: badly scaled, full rank
        self.col = torch.ones(m, dtype=S.DT)
        self.col[-1] = col_scale
        self.Af, self.bf = nn.Parameter(0.5 * r(d, d)), nn.Parameter(0.3 * r(d))
        self.Ah, self.bh = nn.Parameter(0.5 * r(d, d)), nn.Parameter(0.3 * r(d))
        self.a, self.c = nn.Parameter(0.7 * r(d)), nn.Parameter(r(d))
        self.G0 = nn.Parameter(torch.eye(d, m, dtype=S.DT) + 0.15 * r(d, m))
        self.G1 = nn.Parameter(0.1 * r(d, m))

    # NOTE: logqp hands the user functions the strided view z[:, :-1]; torch.matmul may round differently (last bit)
    # on a strided and on a contiguous operand, which is outside torchsde.  The harness SDEs are made independent of
    # the memory layout (.contiguous()) so that any remaining difference is torchsde's.
    def f(self, t, y):
        y = y.contiguous()
        return torch.tanh(y @ self.Af.t() + self.bf) + 0.1 * torch.sin(t)

    def h(self, t, y):
        y = y.contiguous()
        return 0.5 * torch.sin(y @ self.Ah.t() + self.bh) - 0.2 * y

    def g(self, t, y):
        y = y.contiguous()
        if self.noise_type == "diagonal":
            # bounded away from zero, with NEGATIVE entries in every second channel (g and -g give the same law)
            sgn = torch.tensor([1.0 if i % 2 == 0 else -1.0 for i in range(self.d)], dtype=y.dtype)
            return sgn * (0.7 + 0.3 * torch.sin(self.a * y + self.c + t))
        if self.noise_type == "additive":
            return ((self.G0 + torch.sin(t) * self.G1) * self.col).unsqueeze(0).expand(y.size(0), self.d, self.m)
        # scalar / general: state dependent, a perturbation of a full-column-rank matrix
        s = torch.tanh(y).mean(dim=1).reshape(-1, 1, 1)
        return (self.G0.unsqueeze(0) + s * self.G1.unsqueeze(0) + 0.05 * torch.cos(t)) * self.col


class HarnessAugmented(nn.Module):
    """The harness's own statement of the logqp augmentation as an ordinary user SDE."""

    def __init__(self, base):
        super().__init__()
        self.base = base
        self.noise_type, self.sde_type = base.noise_type, base.sde_type
        self.max_cond = 1.0

    def f(self, t, z):
        y = z[:, :-1]
        f, g, h = self.base.f(t, y), self.base.g(t, y), self.base.h(t, y)
        if self.noise_type == "diagonal":
            u = (f - h) / g
            self.max_cond = max(self.max_cond, 1.0)
        else:
            u = (torch.linalg.pinv(g) @ (f - h).unsqueeze(-1)).squeeze(-1)
            with torch.no_grad():
                self.max_cond = max(self.max_cond, float(torch.linalg.cond(g).max()))
        return torch.cat([f, 0.5 * (u ** 2).sum(dim=1, keepdim=True)], dim=1)

    def g(self, t, z):
        y = z[:, :-1]
        g = self.base.g(t, y)
        if self.noise_type == "diagonal":
            return torch.cat([g, g.new_zeros(g.size(0), 1)], dim=1)
        return torch.cat([g, g.new_zeros(g.size(0), 1, g.size(2))], dim=1)


SOLVERS = [("euler", "ito", {}), ("milstein", "ito", {}), ("milstein", "ito", {"grad_free": True}),
           ("srk", "ito", {}), ("milstein", "stratonovich", {}), ("milstein", "stratonovich", {"grad_free": True}),
           ("heun", "stratonovich", {}), ("midpoint", "stratonovich", {}), ("euler_heun", "stratonovich", {}),
           ("reversible_heun", "stratonovich", {}), ("log_ode", "stratonovich", {})]


def _accepts(method, nt):
    return not (method in ("milstein", "srk") and nt == "general")


def run(ctx):
    torch.set_num_threads(1)
    res = S.run_logqp(ctx.tier, timeout=900)
    ctx.add_tlc(res, "Logqp: Shape, ExactValue, NonNegative, Additive, StateUndisturbed, ZeroRow, NonConstWitness")
    if not res.ok:
        raise RuntimeError(f"TLC rejects the logqp specification itself: {res.violated}")
    cov = S.require_all_actions(ctx, "Logqp", "Spec", f"CONSTANT Tier = \"{ctx.tier}\"\n", "Logqp: action coverage")
    scen = [p for p in res.printed if p.get("kind") == "c18"]
    if not scen:
        raise RuntimeError("TLC printed no C18 scenario")

    # ---------------- (A) replay of TLC's constant-c scenarios --------------------------------------
    worst_exact = 0.0
    max_kappa = 1.0
    for idx, p in enumerate(scen):
        key = dict(p["key"])
        case = p["case"]
        kid = S.case_id(key) + "/c=" + ",".join(str(S.frac(q)) for q in p["c"])
        key["c"] = ",".join(str(S.frac(q)) for q in p["c"])
        diag = case["sde"]["nt"] == "diagonal"
        B = 2
        y0 = torch.tensor([[S.fl(q) for q in case["y0"]]] * B, dtype=S.DT)
        nz_aug = S.pad_noise(case["nz"]) if diag else case["nz"]
        replay = dict(key=key, c=p["c"], case=case)
        try:
            with torch.no_grad():
                bm_aug, _ = S.scripted_bm(case, noise=[nz_aug] * B)
                (ys, inc), sde, _, _ = S.real_solve(case, y0=y0, bm=bm_aug, logqp=True)
                bm_aug2, _ = S.scripted_bm(case, noise=[nz_aug] * B)
                (ys_r, inc_r), _, _, _ = S.real_solve(case, y0=y0, bm=bm_aug2, logqp=True, ts=p["refined_ts"])
                bm_base, _ = S.scripted_bm(case, batch=B)
                ys_plain, _, _, _ = S.real_solve(case, y0=y0, bm=bm_base, logqp=False)
        except Exception as e:
            ctx.violation(dict(key, what="exception"), f"sdeint(logqp=True) raised {type(e).__name__}: {e}", replay=replay)
            continue
        T = len(case["ts"])
        if tuple(inc.shape) != (T - 1, B) or tuple(ys.shape) != (T, B, case["sde"]["d"]):
            ctx.violation(dict(key, what="shape"), f"shapes {tuple(ys.shape)}, {tuple(inc.shape)}; expected "
                          f"({T},{B},{case['sde']['d']}), ({T - 1},{B})", replay=replay)
            continue
        want = torch.tensor([S.fl(q) for q in p["expect"]], dtype=S.DT).unsqueeze(1).expand(T - 1, B)
        e = S.rel_err(inc, want)
        # a backward-stable pseudo-inverse returns u = c up to O(kappa ulp); kappa of g at the returned states
        kappa = 1.0
        if not diag:
            with torch.no_grad():
                for ti, yi in zip(case["ts"], ys):
                    kappa = max(kappa, float(torch.linalg.cond(sde.g(torch.tensor(S.fl(ti), dtype=S.DT), yi)).max()))
        tol_exact = max(1e-12, 16 * kappa * EPS)
        worst_exact = max(worst_exact, e / tol_exact)
        max_kappa = max(max_kappa, kappa)
        if not e <= tol_exact:
            ctx.violation(dict(key, what="exact_value"),
                          f"logqp increments {inc[:, 0].tolist()} != 1/2|c|^2 dt = {want[:, 0].tolist()} (rel {e:.2e} > "
                          f"{tol_exact:.1e}; cond(g) = {kappa:.3g})",
                          replay=replay)
        if float(inc.min()) < -8 * EPS * max(1.0, float(want.abs().max())):
            ctx.violation(dict(key, what="non_negative"), f"negative increment {float(inc.min()):.3e}", replay=replay)
        if not torch.equal(ys, ys_plain):
            ctx.violation(dict(key, what="state_undisturbed"),
                          f"state trajectory with logqp differs from the run without (max {float((ys - ys_plain).abs().max()):.3e})",
                          replay=replay)
        err, tol = _additive_ok(inc, inc_r, max(1.0, float(want.abs().sum())))
        if tuple(inc_r.shape) != (2 * (T - 1), B) or not err <= tol:
            ctx.violation(dict(key, what="additive"),
                          f"increments over the refined ts do not add up: err {err:.3e} > {tol:.3e}", replay=replay)
        ed = S.rel_err(ys[:, 0], torch.tensor(S.fl_nested(p["ys"]), dtype=S.DT))
        if ed > 1e-13:
            ctx.drift(f"C18 {kid}: state values differ from Schemes.tla by {ed:.2e} (relative)")
        ctx.case(("tlc", kid), trace=True,
                 sample=dict(key=key, c=[str(S.frac(q)) for q in p["c"]], inc=inc[:, 0].tolist(),
                             expect=want[:, 0].tolist()) if idx < 3 else None)

    # ---------------- (B) smooth (f, g, h): independent formulation ---------------------------------
    shapes = {"diagonal": [(1, 1), (3, 3)], "scalar": [(1, 1), (3, 1)], "additive": [(2, 2), (4, 2)],
              "general": [(2, 2), (4, 2)]}
    layouts = [dict(dt=0.125, ts=[0.0, 0.125, 0.25, 0.5]), dict(dt=0.125, ts=[0.0, 0.1875, 0.4375])]
    if ctx.tier == "thorough":
        layouts += [dict(dt=0.0625, ts=[0.0, 0.03125, 0.3, 0.5, 1.0]), dict(dt=0.25, ts=[0.0, 1.0])]
    worst_indep = 0.0
    n_indep = 0
    for nt in ("diagonal", "scalar", "additive", "general"):
        for method, cal, opts in SOLVERS:
            if not _accepts(method, nt):
                continue
            # (d, m, column scale): the last entry is a badly scaled full-column-rank diffusion (cond about 1e7)
            variants = [(d, m, 1.0) for (d, m) in shapes[nt]]
            if nt in ("additive", "general"):
                variants.append((3, 2, 2.0 ** -22))
            for (d, m, col_scale) in variants:
                for li, lay in enumerate(layouts):
                    if col_scale != 1.0:
                        if li != 0:
                            continue
                    elif ctx.tier == "quick" and (d, m) != shapes[nt][li % 2]:
                        continue
                    key = dict(nt=nt, method=method, cal=cal, grad_free=bool(opts.get("grad_free")), d=d, m=m, layout=li,
                               bad=col_scale != 1.0)
                    seed = rng(ctx.seed, "c18", nt, method, cal, str(opts), d, m, li, col_scale).randrange(2 ** 31)
                    gen = torch.Generator().manual_seed(seed)
                    base = SmoothKL(nt, cal, d, m, gen, col_scale=col_scale)
                    B = 3
                    y0 = 0.5 * torch.randn(B, d, generator=gen, dtype=S.DT)
                    ts, dt = lay["ts"], lay["dt"]
                    inner = torchsde.BrownianInterval(t0=ts[0], t1=ts[-1], size=(B, m), dtype=S.DT, entropy=seed,
                                                      levy_area_approximation=S.levy_for(method))
                    record = {}
                    pad = 1 if nt == "diagonal" else 0
                    kw = dict(method=method, dt=dt, options=dict(opts))
                    replay = dict(key=key, seed=seed, ts=ts, dt=dt)
                    ts_ref = [ts[0]]
                    for a_, b_ in zip(ts[:-1], ts[1:]):
                        ts_ref += [0.5 * (a_ + b_), b_]
                    try:
                        with torch.no_grad():
                            ys, inc = torchsde.sdeint(base, y0, ts, bm=S.ReplayBrownian(inner, record, pad=pad),
                                                      logqp=True, **kw)
                            ys_plain = torchsde.sdeint(base, y0, ts, bm=S.ReplayBrownian(inner, record), **kw)
                            ys_r, inc_r = torchsde.sdeint(base, y0, ts_ref, bm=S.ReplayBrownian(inner, record, pad=pad),
                                                          logqp=True, **kw)
                            aug = HarnessAugmented(base)
                            z0 = torch.cat([y0, y0.new_zeros(B, 1)], dim=1)
                            zs = torchsde.sdeint(aug, z0, ts, bm=S.ReplayBrownian(inner, record, pad=pad), **kw)
                    except Exception as e:
                        ctx.violation(dict(key, what="exception"), f"sdeint raised {type(e).__name__}: {e}", replay=replay)
                        continue
                    T = len(ts)
                    if tuple(inc.shape) != (T - 1, B):
                        ctx.violation(dict(key, what="shape"), f"logqp output shape {tuple(inc.shape)} != ({T - 1},{B})",
                                      replay=replay)
                        continue
                    n_steps = len(S.grid_times(dict(t0=_q(ts[0]), dt=_q(dt), ts=[_q(t) for t in ts]))) - 1
                    L = zs[:, :, -1]
                    mine = L[1:] - L[:-1]
                    scale = max(1.0, float(L.abs().max()))
                    tol = (4 + 8 * aug.max_cond) * n_steps * EPS * scale
                    err = float((inc - mine).abs().max())
                    worst_indep = max(worst_indep, err / scale)
                    n_indep += 1
                    if not err <= tol:
                        ctx.violation(dict(key, what="as_integrated_by_solver"),
                                      f"logqp output differs from the independently written augmented SDE solved with the "
                                      f"same solver and noise: {err:.3e} > {tol:.3e} (cond {aug.max_cond:.2f})", replay=replay)
                    if float(inc.min()) < 0.0:
                        # the integrand is >= 0 and every scheme here integrates the extra channel with non-negative
                        # drift weights except srk (alpha >= 0 too): allow rounding only
                        if float(inc.min()) < -tol:
                            ctx.violation(dict(key, what="non_negative"), f"negative increment {float(inc.min()):.3e}",
                                          replay=replay)
                    if not torch.equal(ys, ys_plain):
                        ctx.violation(dict(key, what="state_undisturbed"),
                                      f"state trajectory with logqp differs from the run without "
                                      f"(max {float((ys - ys_plain).abs().max()):.3e})", replay=replay)
                    if not torch.equal(ys, zs[:, :, :-1]):
                        ctx.drift(f"C18 {S.case_id(key)}: state part of the harness-augmented solve is not bit-equal to logqp's")
                    e_add, tol_add = _additive_ok(inc, inc_r, scale)
                    if tuple(inc_r.shape) != (2 * (T - 1), B) or not e_add <= tol_add + tol:
                        ctx.violation(dict(key, what="additive"),
                                      f"increments over a refinement of ts do not add up: {e_add:.3e} > {tol_add + tol:.3e}",
                                      replay=replay)
                    ctx.case(("smooth", S.case_id(key)), nontrivial=float(inc.abs().max()) > 1e-6,
                             sample=dict(key=key, inc=inc[:, 0].tolist(), independent=mine[:, 0].tolist())
                             if n_indep <= 2 else None)

    ctx.rule = ("(A) every (noise type x solver x (d,m) x constant c x steps/time layout) state of Logqp.tla's scenario "
                "machine, replayed on the real sdeint(logqp=True) with the prescribed increments and compared with the "
                "exact 1/2|c|^2 dt TLC derived; (B) smooth (f,g,h) for every noise type x solver accepting it x size x "
                "ts layout against the harness's own augmented SDE under one recorded Brownian path; non-trivial = a "
                "non-zero increment")
    ctx.exhaustive = True
    ctx.assumptions = ["fixed step sizes (with adaptive stepping the controller sees the extra channel, so equality of "
                       "the trajectory with the run without logqp is not claimed)",
                       "g has full column rank and is well conditioned on the paths used (kappa enters the budget)",
                       "exact case: polynomial SDEs, <= 2-3 steps (32-bit rationals in TLC)"]
    ctx.notes["max_err_over_tol_exact_case"] = worst_exact
    ctx.notes["max_cond_g_exact_case"] = max_kappa
    ctx.notes["badly_scaled_exact_cases"] = sum(1 for p in scen if p["key"].get("bad"))
    ctx.notes["max_rel_err_independent_formulation"] = worst_indep
    ctx.notes["independent_formulation_cases"] = n_indep
    ctx.notes["actions_taken"] = cov


def _q(x):
    from fractions import Fraction
    fr = Fraction(x)
    return [fr.numerator, fr.denominator]


def replay(path):
    return S.replay_file(path, logqp=True)
