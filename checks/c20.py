"""C20 - batch rows are independent samples with no cross-talk.

TLC: BatchRows.tla -- dependency-footprint model of a solve: with fixed steps every operation is row-local
(Brownian sample element <- own atom, f/g/prod/element-wise/interp row <- same row), so RowLocal holds for every
number of steps; with adaptive steps the batch-wide RMS couples the rows (the violation is REACHED by TLC, which
is why the property is stated for fixed steps).  BrownianImpl: one seed set per node address (injective paths).
TLC enumerates the scenarios (method x noise type x batch size x kept row x perturbed row set x permutation).
Binding: each scenario is run on the real sdeint with a row-wise SDE: perturbing the other rows of y0 and of the
Brownian sample leaves the kept row torch.equal; permuting the rows of y0 and of the Brownian sample permutes
the outputs; element-wise perturbed noise shows a diagonal noise -> output map of the Brownian object for all
shapes and Levy modes (every element driven by its own noise element).
"""
import random
import warnings

import torch

import torchsde
from torchsde._brownian import BaseBrownian

from harness import brownian as B
from harness import brownian_props as P
from harness import brownian_run as BR
from harness import tlc

LEVEL = "model_checking"
D, M = 3, 2


class RowSDE(torch.nn.Module):
    """Acts row-wise: every output row is a function of the same input row only."""

    def __init__(self, noise_type, sde_type):
        super().__init__()
        self.noise_type = noise_type
        self.sde_type = sde_type
        g = torch.Generator().manual_seed(7)
        self.A = torch.randn(D, D, dtype=torch.float64, generator=g) * 0.3
        self.Bm = torch.randn(D, M, D, dtype=torch.float64, generator=g) * 0.2
        self.c = torch.randn(D, M, dtype=torch.float64, generator=g) * 0.3

    def f(self, t, y):
        return torch.tanh(y @ self.A.T) - 0.5 * y + 0.1 * t

    def g(self, t, y):
        if self.noise_type == "diagonal":
            return 0.3 * torch.cos(y) + 0.2
        if self.noise_type == "scalar":
            return (0.3 * torch.sin(y) + 0.1).unsqueeze(-1)
        if self.noise_type == "additive":
            return (self.c * (1.0 + 0.5 * t)).unsqueeze(0).expand(y.shape[0], D, M)
        return torch.einsum("dmk,bk->bdm", self.Bm, torch.tanh(y)) + self.c


class RowMap(BaseBrownian):
    """Brownian motion whose row i is row src[i] of the base sample (used to perturb / permute rows)."""

    def __init__(self, base, src):
        super().__init__()
        self.base = base
        self.src = torch.as_tensor(src)

    def __call__(self, ta, tb=None, return_U=False, return_A=False):
        out = self.base(ta, tb, return_U=return_U, return_A=return_A)
        if torch.is_tensor(out):
            return out[self.src]
        return tuple(None if o is None else o[self.src] for o in out)

    def __repr__(self):
        return "RowMap"

    dtype = property(lambda s: s.base.dtype)
    device = property(lambda s: s.base.device)
    shape = property(lambda s: (len(s.src),) + tuple(s.base.shape[1:]))
    levy_area_approximation = property(lambda s: s.base.levy_area_approximation)


def levy_for(method):
    return "space-time" if method == "srk" else ("foster" if method == "log_ode" else "none")


def solve(sc, y0, src, pool_rows, ts, dt, entropy):
    method = sc["method"]
    opts = None
    if method.endswith("_gf"):
        method, opts = "milstein", {"grad_free": True}
    m = D if sc["noise"] == "diagonal" else (1 if sc["noise"] == "scalar" else M)
    base = torchsde.BrownianInterval(t0=float(ts[0]), t1=float(ts[-1]), size=(pool_rows, m), dtype=torch.float64,
                                     entropy=entropy, levy_area_approximation=levy_for(method))
    bm = RowMap(base, src)
    sde = RowSDE(sc["noise"], sc["sde_type"])
    with warnings.catch_warnings():
        warnings.simplefilter("ignore")
        return torchsde.sdeint(sde, y0, ts, bm=bm, method=method, dt=dt, options=opts)


def run(ctx):
    quick = ctx.tier == "quick"
    rnd = random.Random(f"{ctx.seed}:C20")
    ctx.rule = ("TLC-enumerated scenarios (method, noise type, batch size, kept row, perturbed row set, permutation) run "
                "on the real sdeint three times (reference / other rows perturbed / rows permuted); non-trivial = every "
                "scenario (>= 1 perturbed row and a non-identity permutation by construction); plus element-wise "
                "perturbed noise on the Brownian object for TLC-generated histories, all shapes and Levy modes")
    ctx.assumptions = ["row-wise SDE supplied by the harness (precondition of the property)", "fixed steps",
                       "CPU kernels give bit-identical results for a row regardless of batch position/size "
                       "(the property itself relies on this)"]
    scen = []
    for Bsz in ((3,) if quick else (2, 3, 4)):
        res = tlc.run("BatchRows", timeout=300, workers=2, cfg_text=(
            f"SPECIFICATION Spec\nCONSTANTS B={Bsz} MaxSteps=5 Adaptive=FALSE\nINVARIANT RowLocal\nINVARIANT EmitOnce\n"
            "CHECK_DEADLOCK FALSE\n"))
        ctx.add_tlc(res, f"BatchRows B={Bsz} fixed: RowLocal")
        if not res.ok:
            ctx.violation(dict(kind="spec", invariant=res.violated), "RowLocal violated in the specification")
            return
        scen += res.printed[0]["rows"]
    res = tlc.run("BatchRows", timeout=300, workers=2, cfg_text=(
        "SPECIFICATION Spec\nCONSTANTS B=3 MaxSteps=3 Adaptive=TRUE\nINVARIANT NeverCoupled\nCHECK_DEADLOCK FALSE\n"))
    ctx.add_tlc(res, "BatchRows adaptive: coupling must be reachable (precondition 'fixed steps' is necessary)")
    ctx.notes["adaptive_coupling_reached_in_spec"] = res.violated == "NeverCoupled"
    r2 = BR.exhaustive(ctx, "A", BR.catalogue("quick")["A"], ["TypeOK", "Partition"], props=["RefineOnly"])
    if not r2.ok:
        ctx.drift(f"BrownianImpl invariant {r2.violated}")

    if quick:
        # stratified slice: every (method, noise) pair, 2 row/permutation choices each
        by = {}
        for s in scen:
            by.setdefault((s["sde_type"], s["method"], s["noise"]), []).append(s)
        scen = [x for k in sorted(by) for x in rnd.sample(by[k], 2)]
    ts = torch.tensor([0.0, 0.25, 0.625, 1.0], dtype=torch.float64)
    for s in scen:
        Bsz, keep = s["batch"], s["keep"] - 1
        g = torch.Generator().manual_seed(rnd.randrange(1 << 30))
        y0 = torch.randn(Bsz, D, dtype=torch.float64, generator=g)
        ident = list(range(Bsz))
        ent = rnd.randrange(1 << 30)
        key = dict(method=s["method"], noise=s["noise"], sde_type=s["sde_type"])
        try:
            ref = solve(s, y0, ident, 2 * Bsz, ts, 0.125, ent)
            # (1) perturb the other rows of y0 AND give them other rows of the Brownian sample
            y1 = y0.clone()
            src = list(ident)
            for j in s["perturb"]:
                y1[j - 1] += 1.0 + 0.5 * j
                src[j - 1] = Bsz + (j - 1)
            per = solve(s, y1, src, 2 * Bsz, ts, 0.125, ent)
            if not torch.equal(per[:, keep], ref[:, keep]):
                ctx.violation(dict(kind="row_perturbation", **key),
                              f"row {keep} changed when rows {s['perturb']} of y0 / Brownian motion were changed: "
                              f"max diff {float((per[:, keep] - ref[:, keep]).abs().max()):.3e}", replay=s)
            # (1b) the other rows hold non-finite states (a path that diverged): still nothing of it in the kept row
            y2 = y0.clone()
            for j in s["perturb"]:
                y2[j - 1] = float("nan") if j % 2 else float("inf")
            import warnings as _w
            with _w.catch_warnings():
                _w.simplefilter("ignore")
                nf = solve(s, y2, ident, 2 * Bsz, ts, 0.125, ent)
            if not torch.equal(nf[:, keep], ref[:, keep]):
                ctx.violation(dict(kind="row_nonfinite_neighbour", **key),
                              f"row {keep} changed when rows {s['perturb']} of y0 were set to nan / inf: max diff "
                              f"{float((nf[:, keep] - ref[:, keep]).abs().max()):.3e}", replay=s)
            # (2) permutation equivariance
            perm = [p - 1 for p in s["perm"]]
            pm = solve(s, y0[perm], perm, 2 * Bsz, ts, 0.125, ent)
            if not torch.equal(pm, ref[:, perm]):
                ctx.violation(dict(kind="row_permutation", **key),
                              f"permuting rows {perm} does not permute the outputs: max diff "
                              f"{float((pm - ref[:, perm]).abs().max()):.3e}", replay=s)
            # (3) a row solved alone (batch of one) equals the row inside the batch
            one = solve(s, y0[keep:keep + 1], [keep], 2 * Bsz, ts, 0.125, ent)
            if not torch.equal(one[:, 0], ref[:, keep]):
                d = float((one[:, 0] - ref[:, keep]).abs().max())
                if d > 64 * P.EPS * max(1.0, float(ref.abs().max())):
                    ctx.violation(dict(kind="row_alone", **key), f"row {keep} solved alone differs by {d:.3e}", replay=s)
        except Exception as e:  # noqa: BLE001
            ctx.violation(dict(kind="exception", exc=type(e).__name__, **key), f"valid call raised {e}", replay=s)
        ctx.case((s["sde_type"], s["method"], s["noise"], Bsz, keep, str(s["perturb"]), str(s["perm"])),
                 sample=s, trace=True)

    # ---- logqp=True: the KL increments of a row depend on that row only, also when the diffusions of the rows span
    # many decades (a guarded division must not look at other rows); diagonal noise, every solver that accepts it
    class KLRow(torch.nn.Module):
        noise_type = "diagonal"

        def __init__(self, sde_type):
            super().__init__()
            self.sde_type = sde_type

        def f(self, t, y):
            return -0.1 * y + 0.05

        def h(self, t, y):
            return torch.zeros_like(y)

        def g(self, t, y):
            return 10.0 ** (4.0 * torch.tanh(y) - 3.0)          # between 1e-7 and 10, row-wise

    y_keep = torch.tensor([[-1.2, -1.25]], dtype=torch.float64)         # |g| about 4e-7
    others_a = torch.tensor([[2.5, 2.4], [0.1, 0.3]], dtype=torch.float64)   # a row with |g| about 9
    others_b = torch.tensor([[0.2, 0.1], [0.0, 0.5]], dtype=torch.float64)   # all |g| below 1
    tsl = torch.tensor([0.0, 0.125, 0.25], dtype=torch.float64)
    for method, sde_type in (("euler", "ito"), ("milstein", "ito"), ("srk", "ito"), ("midpoint", "stratonovich"),
                             ("heun", "stratonovich"), ("reversible_heun", "stratonovich")):
        key = dict(kind="logqp_rows", method=method, noise="diagonal", sde_type=sde_type)
        try:
            outs = []
            for oth, src in ((others_a, [0, 1, 2]), (others_b, [0, 3, 4]), (others_a[[1, 0]], [0, 2, 1])):
                base = torchsde.BrownianInterval(t0=0.0, t1=0.25, size=(5, 3), dtype=torch.float64, entropy=4242,
                                                 levy_area_approximation=levy_for(method))
                with warnings.catch_warnings():
                    warnings.simplefilter("ignore")
                    ys, lq = torchsde.sdeint(KLRow(sde_type), torch.cat([y_keep, oth]), tsl, bm=RowMap(base, src),
                                             method=method, dt=2.0 ** -5, logqp=True)
                outs.append((ys, lq))
            (ya, la), (yb, lb), (yc, lc) = outs
            if not (torch.equal(ya[:, 0], yb[:, 0]) and torch.equal(la[:, 0], lb[:, 0])):
                ctx.violation(key, f"logqp=True: row 0 changed when the other rows (y0 and Brownian rows) were changed: "
                                   f"KL increments {la[:, 0].tolist()} vs {lb[:, 0].tolist()}, max state diff "
                                   f"{float((ya[:, 0] - yb[:, 0]).abs().max()):.3e}", replay=key)
            if not (torch.equal(yc[:, [0, 2, 1]], ya) and torch.equal(lc[:, [0, 2, 1]], la)):
                ctx.violation(dict(key, kind="logqp_rows_permutation"),
                              "logqp=True: permuting rows does not permute the states / KL increments", replay=key)
        except Exception as e:  # noqa: BLE001
            ctx.violation(dict(key, kind="exception", exc=type(e).__name__), f"valid call raised {e}", replay=key)
        ctx.case(("logqp_rows", method), sample=dict(key, rows="|g| from 4e-7 to 9"), trace=False)

    # ---- Brownian object: every element has its own noise element ---------------------------------
    cat = BR.catalogue(ctx.tier)
    combos = [(sn, lv) for sn in ("batch", "matrix", "cube") for lv in P.LEVIES]
    k = 0
    for name in (["A", "B"] if quick else ["A", "B", "C2", "D", "E", "F", "G"]):
        cfg = cat[name]
        behs, _ = BR.behaviours(ctx, name, cfg, 3 if cfg.T // cfg.QStep <= 4 else 2, 40 if quick else 300, ctx.seed)
        for beh in behs:
            qs = BR.history(beh)
            sn, lv = combos[k % len(combos)]
            k += 1
            fails = P.check_element_independence(cfg, qs, P.SHAPES[sn], lv)
            ctx.case((name, str(qs), sn, lv), nontrivial=any(h["nn"] > 1 for h in beh["hist"]),
                     sample=dict(cfg=name, history=qs, shape=sn, levy=lv))
            for kind, det in fails[:2]:
                ctx.violation(dict(cfg=name, kind=kind, levy=lv, shape=sn), f"{kind}: {det} (history {qs})",
                              replay=dict(cfg=cfg.as_dict(), queries=qs, levy=lv, shape=sn))
    ctx.exhaustive = not quick


def replay(path):
    import json
    print(json.load(open(path)))
    return 0
