"""Runner for TLC (model checking, simulation, evaluation, trace validation) and parsers
for what it prints.

All TLC runs use a scratch directory created with tempfile.mkdtemp (outside /repo and
/verif) that is removed afterwards; nothing persistent is written to /tmp.
"""
import json
import os
import re
import shutil
import subprocess
import tempfile
import time

SPEC_DIR = os.path.join(os.path.dirname(os.path.dirname(os.path.abspath(__file__))), "spec")
JAR = "/opt/veriftools/tla/tla2tools.jar"
DEPS = "/opt/veriftools/tla/CommunityModules-deps.jar"


class TLCMachineryError(RuntimeError):
    """TLC failed for a reason that is not a property verdict (parse error, overflow, timeout)."""


class TLCResult:
    def __init__(self):
        self.returncode = None
        self.output = ""
        self.generated = 0
        self.distinct = 0
        self.depth = 0
        self.wall_s = 0.0
        self.ok = False                 # "No error has been found"
        self.violated = None            # name of violated invariant / property, if any
        self.error_lines = []
        self.printed = []               # python objects from PrintT("@@" \o ToJson(x)) lines
        self.coverage = {}              # action name -> (distinct, total) when -coverage is on
        self.cmd = ""
        self.postcondition_failed = False
        self.checked = {}          # what the configuration asked TLC to check (read back from the cfg text)

    def summary(self):
        d = dict(cmd=self.cmd, generated=self.generated, distinct=self.distinct, depth=self.depth,
                 wall_s=round(self.wall_s, 2), ok=self.ok, violated=self.violated)
        d.update(self.checked)
        return d


def _checked_items(cfg_text, module):
    """module, specification, invariants, properties, postcondition and constants of a configuration (for evidence)."""
    out = dict(module=module)
    kinds = dict(INVARIANT="invariants", INVARIANTS="invariants", PROPERTY="properties", PROPERTIES="properties",
                 POSTCONDITION="postcondition", SPECIFICATION="specification", ACTION_CONSTRAINT="action_constraints")
    consts = []
    for line in cfg_text.splitlines():
        toks = line.split()
        if not toks:
            continue
        if toks[0] in kinds:
            out.setdefault(kinds[toks[0]], []).extend(toks[1:])
        elif toks[0] in ("CONSTANT", "CONSTANTS") or "=" in line or "<-" in line:
            consts.append(" ".join(toks[1:] if toks[0] in ("CONSTANT", "CONSTANTS") else toks))
    if consts:
        out["constants"] = " ; ".join(c for c in consts if c)[:400]
    return out


_STATES_RE = re.compile(r"(\d+) states generated, (\d+) distinct states found")
_DEPTH_RE = re.compile(r"The depth of the complete state graph search is (\d+)")
_INV_RE = re.compile(r"Error: Invariant (\S+) is violated")
_ACT_RE = re.compile(r"Error: Action property (\S+) is violated")
_COV_RE = re.compile(r"^<(\w+) line \d+, col \d+ to line \d+, col \d+ of module (\w+)>: (\d+):(\d+)")


def write_cfg(path, specification=None, init=None, next_=None, constants=None, invariants=(), properties=(),
              constraints=(), action_constraints=(), view=None, postcondition=None, check_deadlock=False,
              symmetry=None, extra_lines=()):
    """Emit a TLC configuration file with literal constants."""
    lines = []
    if specification:
        lines.append(f"SPECIFICATION {specification}")
    if init:
        lines.append(f"INIT {init}")
    if next_:
        lines.append(f"NEXT {next_}")
    if constants:
        lines.append("CONSTANTS")
        for k, v in constants.items():
            lines.append(f"  {k} = {tla_literal(v)}")
    for inv in invariants:
        lines.append(f"INVARIANT {inv}")
    for p in properties:
        lines.append(f"PROPERTY {p}")
    for c in constraints:
        lines.append(f"CONSTRAINT {c}")
    for c in action_constraints:
        lines.append(f"ACTION_CONSTRAINT {c}")
    if view:
        lines.append(f"VIEW {view}")
    if postcondition:
        lines.append(f"POSTCONDITION {postcondition}")
    if symmetry:
        lines.append(f"SYMMETRY {symmetry}")
    lines.append(f"CHECK_DEADLOCK {'TRUE' if check_deadlock else 'FALSE'}")
    lines.extend(extra_lines)
    with open(path, "w") as fh:
        fh.write("\n".join(lines) + "\n")


def tla_literal(v):
    """Python value -> TLA+ literal usable in a cfg file (ints, bools, strings, tuples/lists, sets)."""
    if isinstance(v, bool):
        return "TRUE" if v else "FALSE"
    if isinstance(v, int):
        if v < 0:
            raise ValueError("TLC cfg files reject negative literals; use a module-level definition")
        return str(v)
    if isinstance(v, str):
        return json.dumps(v)
    if isinstance(v, (list, tuple)):
        return "<<" + ", ".join(tla_literal(x) for x in v) + ">>"
    if isinstance(v, (set, frozenset)):
        return "{" + ", ".join(tla_literal(x) for x in sorted(v, key=repr)) + "}"
    raise TypeError(type(v))


def tla_expr(v):
    """Python value -> TLA+ expression (allowed inside a module: negative ints, records as dicts)."""
    if isinstance(v, bool):
        return "TRUE" if v else "FALSE"
    if isinstance(v, int):
        return str(v) if v >= 0 else f"(-{-v})"
    if isinstance(v, str):
        return json.dumps(v)
    if isinstance(v, (list, tuple)):
        return "<<" + ", ".join(tla_expr(x) for x in v) + ">>"
    if isinstance(v, (set, frozenset)):
        return "{" + ", ".join(tla_expr(x) for x in sorted(v, key=repr)) + "}"
    if isinstance(v, dict):
        if not v:
            raise ValueError("empty record")
        return "[" + ", ".join(f"{k} |-> {tla_expr(x)}" for k, x in v.items()) + "]"
    raise TypeError(type(v))


def run(module, cfg_text=None, cfg_path=None, workers=None, simulate=None, depth=None, seed=None,
        coverage=False, timeout=600, env=None, extra_modules=None, extra_files=None, dfs=False,
        java_opts=(), tlc_args=(), expect_violation=False):
    """Run TLC on spec/<module>.tla in a scratch copy of the spec directory.

    cfg_text / cfg_path: configuration (text wins).  extra_modules: {name: text} generated modules.
    extra_files: {name: text} other files placed next to the spec (trace files ...).
    simulate: e.g. "num=200" -> -simulate num=200 ; depth -> -depth.
    Returns a TLCResult; raises TLCMachineryError on parse errors / timeouts / overflow.
    """
    work = tempfile.mkdtemp(prefix="verif-tlc-")
    try:
        for fn in os.listdir(SPEC_DIR):
            if fn.endswith(".tla"):
                shutil.copy(os.path.join(SPEC_DIR, fn), os.path.join(work, fn))
        for name, text in (extra_modules or {}).items():
            with open(os.path.join(work, name + ".tla"), "w") as fh:
                fh.write(text)
        for name, text in (extra_files or {}).items():
            with open(os.path.join(work, name), "w") as fh:
                fh.write(text)
        cfg = os.path.join(work, "run.cfg")
        if cfg_text is not None:
            with open(cfg, "w") as fh:
                fh.write(cfg_text)
        elif cfg_path is not None:
            shutil.copy(cfg_path if os.path.isabs(cfg_path) else os.path.join(SPEC_DIR, cfg_path), cfg)
        else:
            raise ValueError("need cfg_text or cfg_path")
        if workers is None:
            workers = os.cpu_count() or 4
        cmd = ["java", "-XX:+UseParallelGC", "-Xss16m", f"-Djava.io.tmpdir={work}"]
        if dfs:
            cmd.append("-Dtlc2.tool.queue.IStateQueue=StateDeque")
        cmd.extend(java_opts)
        cmd += ["-cp", f"{JAR}:{DEPS}", "tlc2.TLC", "-config", "run.cfg", "-workers", str(workers),
                "-metadir", os.path.join(work, "states"), "-noGenerateSpecTE"]
        if simulate is not None:
            cmd += ["-simulate", simulate]
        if depth is not None:
            cmd += ["-depth", str(depth)]
        if seed is not None:
            cmd += ["-seed", str(seed)]
        if coverage:
            cmd += ["-coverage", "1"]
        cmd += list(tlc_args)
        cmd.append(module + ".tla")
        full_env = dict(os.environ)
        full_env.pop("JAVA_TOOL_OPTIONS", None)
        if env:
            full_env.update({k: str(v) for k, v in env.items()})
        t0 = time.time()
        try:
            proc = subprocess.run(cmd, cwd=work, env=full_env, capture_output=True, text=True, timeout=timeout)
        except subprocess.TimeoutExpired as e:
            if simulate is not None:
                # an outer time limit is the normal way to end a simulation
                out = (e.stdout or b"")
                out = out.decode() if isinstance(out, bytes) else out
                res = _parse(out)
                res.wall_s = time.time() - t0
                res.ok = res.violated is None and not res.error_lines
                res.cmd = " ".join(cmd[cmd.index("tlc2.TLC"):])
                return res
            raise TLCMachineryError(f"TLC timed out after {timeout}s on {module}")
        res = _parse(proc.stdout)
        res.returncode = proc.returncode
        res.wall_s = time.time() - t0
        res.cmd = " ".join(cmd[cmd.index("tlc2.TLC"):])
        try:
            with open(cfg) as fh:
                res.checked = _checked_items(fh.read(), module)
        except OSError:
            pass
        res.extra_out = {}
        for fn in os.listdir(work):
            if fn.endswith(".out.ndjson") or fn.endswith(".out.json"):
                with open(os.path.join(work, fn)) as fh:
                    res.extra_out[fn] = fh.read()
        if simulate is not None and "file=" in simulate:
            res.sim_traces = read_sim_traces(work)
        if simulate is not None and proc.returncode == 0 and res.violated is None and not res.error_lines:
            res.ok = True
        if res.violated is None and not res.postcondition_failed and not res.ok:
            raise TLCMachineryError(f"TLC failed on {module} (rc={proc.returncode}):\n" + proc.stdout[-4000:]
                                    + proc.stderr[-2000:])
        return res
    finally:
        shutil.rmtree(work, ignore_errors=True)


def _parse(out):
    res = TLCResult()
    res.output = out
    for line in out.splitlines():
        m = _STATES_RE.search(line)
        if m:
            res.generated, res.distinct = int(m.group(1)), int(m.group(2))
        m = _DEPTH_RE.search(line)
        if m:
            res.depth = int(m.group(1))
        m = re.match(r"The number of states generated: (\d+)", line)
        if m:
            res.generated = int(m.group(1))
            res.distinct = max(res.distinct, 1)
        if "No error has been found" in line:
            res.ok = True
        m = _INV_RE.search(line) or _ACT_RE.search(line)
        if m and res.violated is None:
            res.violated = m.group(1)
        if ("Temporal properties were violated" in line or re.search(r"Temporal property .* was violated", line)) \
                and res.violated is None:
            m2 = re.search(r"Temporal property (\S+) was violated", line)
            res.violated = m2.group(1) if m2 else "<temporal>"
        if "Deadlock reached" in line and res.violated is None:
            res.violated = "<deadlock>"
        if "Postcondition" in line and ("violated" in line or "false" in line.lower()):
            res.postcondition_failed = True
        if line.startswith("Error:"):
            res.error_lines.append(line)
        if line.startswith('"@@'):
            try:
                res.printed.append(json.loads(json.loads(line)[2:]))
            except Exception as e:  # pragma: no cover
                raise TLCMachineryError(f"cannot parse TLC output line: {line[:200]} ({e})")
        m = _COV_RE.match(line)
        if m:
            res.coverage[m.group(1)] = (int(m.group(3)), int(m.group(4)))
    if res.violated is not None or res.postcondition_failed:
        res.ok = False
    return res


# ---------------------------------------------------------------------------------------
# Parser for TLA+ values as TLC prints them (counterexamples, -simulate file=... traces)
# ---------------------------------------------------------------------------------------

class _P:
    def __init__(self, s):
        self.s = s
        self.i = 0

    def ws(self):
        while self.i < len(self.s) and self.s[self.i] in " \t\r\n":
            self.i += 1

    def peek(self, k=1):
        return self.s[self.i:self.i + k]

    def expect(self, tok):
        self.ws()
        if not self.s.startswith(tok, self.i):
            raise ValueError(f"expected {tok!r} at {self.i}: {self.s[self.i:self.i+40]!r}")
        self.i += len(tok)

    def value(self):
        self.ws()
        c = self.peek()
        if self.peek(2) == "<<":
            self.i += 2
            items = self.items(">>")
            return list(items)
        if c == "{":
            self.i += 1
            return ("set", self.items("}"))
        if c == "[":
            self.i += 1
            rec = {}
            self.ws()
            if self.peek() == "]":
                self.i += 1
                return rec
            while True:
                self.ws()
                m = re.match(r"[A-Za-z_][A-Za-z0-9_]*", self.s[self.i:])
                key = m.group(0)
                self.i += len(key)
                self.expect("|->")
                rec[key] = self.value()
                self.ws()
                if self.peek() == ",":
                    self.i += 1
                    continue
                self.expect("]")
                return rec
        if c == "(":
            # function  (k1 :> v1 @@ k2 :> v2)
            self.i += 1
            fn = {}
            while True:
                k = self.value()
                self.expect(":>")
                v = self.value()
                fn[_freeze(k)] = v
                self.ws()
                if self.peek(2) == "@@":
                    self.i += 2
                    continue
                self.expect(")")
                return ("fn", fn)
        if c == '"':
            j = self.i + 1
            buf = []
            while self.s[j] != '"':
                if self.s[j] == "\\":
                    j += 1
                buf.append(self.s[j])
                j += 1
            self.i = j + 1
            return "".join(buf)
        m = re.match(r"-?\d+", self.s[self.i:])
        if m:
            self.i += len(m.group(0))
            # ranges a..b
            if self.peek(2) == "..":
                self.i += 2
                m2 = re.match(r"-?\d+", self.s[self.i:])
                self.i += len(m2.group(0))
                return ("set", list(range(int(m.group(0)), int(m2.group(0)) + 1)))
            return int(m.group(0))
        m = re.match(r"[A-Za-z_][A-Za-z0-9_]*", self.s[self.i:])
        if m:
            self.i += len(m.group(0))
            w = m.group(0)
            return True if w == "TRUE" else False if w == "FALSE" else ("mv", w)
        raise ValueError(f"cannot parse at {self.i}: {self.s[self.i:self.i+40]!r}")

    def items(self, close):
        out = []
        self.ws()
        if self.s.startswith(close, self.i):
            self.i += len(close)
            return out
        while True:
            out.append(self.value())
            self.ws()
            if self.peek() == ",":
                self.i += 1
                continue
            self.expect(close)
            return out


def _freeze(v):
    if isinstance(v, list):
        return tuple(_freeze(x) for x in v)
    if isinstance(v, dict):
        return tuple(sorted((k, _freeze(x)) for k, x in v.items()))
    if isinstance(v, tuple) and v and v[0] in ("set", "fn"):
        return (v[0], _freeze(v[1]))
    return v


def parse_value(text):
    p = _P(text)
    v = p.value()
    p.ws()
    if p.i != len(p.s):
        raise ValueError(f"trailing text: {p.s[p.i:p.i+40]!r}")
    return v


_STATE_HDR = re.compile(r"^\\\* <(\w+)[ >]|^STATE_(\d+) ==", re.M)


def parse_sim_trace(text):
    """Parse one file written by `-simulate file=...`: returns [(action, {var: value}), ...]."""
    states = []
    blocks = re.split(r"^STATE_\d+ ==\s*$", text, flags=re.M)
    headers = re.findall(r"^\\\* <?(\w+)", text, flags=re.M)
    # layout: comment line with action, then STATE_n ==, then conjunction /\ var = value
    parts = re.split(r"(?m)^(?=\\\* )", text)
    for part in parts:
        m = re.match(r"\\\* <?([A-Za-z_][A-Za-z0-9_]*)", part)
        if not m or "STATE_" not in part:
            continue
        action = m.group(1)
        body = part.split("==", 1)[1]
        body = body.split("\n\n")[0] if "\n\n" in body else body
        st = {}
        for conj in re.split(r"(?m)^/\\ ", body):
            conj = conj.strip()
            if not conj:
                continue
            var, val = conj.split("=", 1)
            st[var.strip()] = parse_value(val.strip())
        states.append((action, st))
    return states


def read_sim_traces(work):
    out = []
    for fn in sorted(os.listdir(work)):
        if re.match(r"sim_\d+_\d+$", fn) or fn.startswith("simtr"):
            with open(os.path.join(work, fn)) as fh:
                try:
                    out.append(parse_sim_trace(fh.read()))
                except Exception:
                    pass
    return out


def parse_counterexample(output):
    """Extract the states of the error trace TLC printed: [(action, {var: value})]."""
    states = []
    cur = None
    buf = []
    for line in output.splitlines():
        m = re.match(r"^State (\d+): <?([A-Za-z_][A-Za-z0-9_ ]*)", line)
        if m:
            if cur is not None:
                states.append((cur, _parse_conj("\n".join(buf))))
            cur = m.group(2).split()[0]
            buf = []
        elif cur is not None:
            if line.strip() == "" and buf:
                states.append((cur, _parse_conj("\n".join(buf))))
                cur, buf = None, []
            else:
                buf.append(line)
    if cur is not None and buf:
        states.append((cur, _parse_conj("\n".join(buf))))
    return states


def _parse_conj(body):
    st = {}
    for conj in re.split(r"(?m)^/\\ ", body):
        conj = conj.strip()
        if not conj or "=" not in conj:
            continue
        var, val = conj.split("=", 1)
        try:
            st[var.strip()] = parse_value(val.strip())
        except Exception:
            st[var.strip()] = val.strip()
    return st
