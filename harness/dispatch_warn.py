"""Warning behaviour of the dispatch layer (specification growth next to C19, reported as model drift only).

spec/DispatchWarn.tla has three small machines, each with a declarative and an operational formulation that TLC
checks against each other on the whole finite product, and prints one JSON line per configuration:

  dispatch  accepted sdeint / sdeint_adjoint calls -> the SET (and order) of warning classes the call emits
  brownian  BrownianInterval(t0, t1)(ta[, tb]) with end points on a grid around [t0, t1] -> warnings, clamped
            query, RuntimeError
  minstep   the adaptive loop under a scripted step-size controller -> one "minimum step" warning per proposal
            below dt_min, and the step sizes then used

This module replays every printed line on the REAL code under warnings.catch_warnings(record=True) +
simplefilter("always"), classifies what was recorded by key phrase into the class names of the spec and compares.
Nothing here knows when a warning is due: the expectation is always the printed line.
"""
import collections
import itertools
import json
import multiprocessing
import os
import re
import signal
import time
import traceback
import warnings

os.environ.setdefault("OMP_NUM_THREADS", "1")
os.environ.setdefault("MKL_NUM_THREADS", "1")

from harness import dispatch, tlc  # noqa: E402

INVARIANTS = ["TypeOK", "DispatchAgree", "OnceEach", "DefaultsAgree", "RevHeunOnly", "SdeintNeverRevHeun",
              "SpacingExclusive", "ExtraOrthogonal", "OnlyAccepted", "BrownianAgree", "BrownianCount",
              "BrownianClamped", "MinStepAgree", "MinStepFloor"]
# a short single-worker run: one GC thread, C1 only, small heap (the defaults cost 2-3x more CPU on a busy machine)
JAVA_OPTS = ("-XX:ParallelGCThreads=1", "-XX:TieredStopAtLevel=1", "-Xmx1g")

DISPATCH_CLASSES = ("unused_kwargs", "euler_adaptive", "revheun_adjoint_method", "revheun_adaptive",
                    "revheun_spacing")
QUICK_CONFIGS = 150
MAX_DRIFT_LINES = 8


def tlc_cfg(emit=True):
    lines = ["SPECIFICATION Spec"] + [f"INVARIANT {i}" for i in INVARIANTS]
    if emit:
        lines.append("INVARIANT Emit")
    lines += ["PROPERTY StepShape", "CHECK_DEADLOCK FALSE"]
    return "\n".join(lines) + "\n"


def run_tlc(coverage=False):
    return tlc.run("DispatchWarn", cfg_text=tlc_cfg(), timeout=900, workers=1, coverage=coverage,
                   java_opts=JAVA_OPTS)


# ---------------------------------------------------------------------------------------
# classification of recorded warnings by key phrase
# ---------------------------------------------------------------------------------------

PHRASES = (
    ("Unexpected arguments", "unused_kwargs"),
    ("not guaranteed to converge", "euler_adaptive"),
    ("but adjoint_method!=", "revheun_adjoint_method"),
    ("does not save the time steps", "revheun_adaptive"),
    ("not an integer multiple of the time step", "revheun_spacing"),
    ("Hitting minimum allowed step size", "min_step"),
    ("optimised for interval-based queries", "point_eval"),
)
_CLAMP_RE = re.compile(r"Should have (ta|tb)\s*(>=\s*t0|<=\s*t1)")


def _pkg_dir():
    import torchsde
    return os.path.dirname(os.path.abspath(torchsde.__file__))


def classify(w):
    """warnings.WarningMessage -> class name of the spec | 'other:...' (unknown, from torchsde) | None (foreign)."""
    msg = str(w.message)
    for phrase, cls in PHRASES:
        if phrase in msg:
            return cls
    m = _CLAMP_RE.search(msg)
    if m:
        return m.group(1) + ("_below" if "t0" in m.group(2) else "_above")
    fn = os.path.abspath(getattr(w, "filename", "") or "")
    if fn.startswith(_pkg_dir()):
        return f"other:{os.path.basename(fn)}:{msg[:60]}"
    return None


def classes_of(rec):
    out, foreign = [], 0
    for w in rec:
        c = classify(w)
        if c is None:
            foreign += 1
        else:
            out.append(c)
    return out, foreign


class _Recorder:
    """with _Recorder() as r: ...  -> r.classes (in order of emission), r.foreign"""

    def __enter__(self):
        self._cm = warnings.catch_warnings(record=True)
        self._rec = self._cm.__enter__()
        warnings.simplefilter("always")
        self.classes, self.foreign = [], 0
        return self

    def __exit__(self, *exc):
        self.classes, self.foreign = classes_of(self._rec)
        return self._cm.__exit__(*exc)


# ---------------------------------------------------------------------------------------
# machine "dispatch": the real sdeint / sdeint_adjoint call for one configuration
# ---------------------------------------------------------------------------------------

DT = 0.125
DT_MIN = 0.03125
# ts for the three alignment classes of the spec (dyadic: (ts - ts[0]) / dt is exact)
TS_FOR = {
    "aligned": ((0.0, 0.25, 0.5),),
    "aligned_offset": ((0.0625, 0.3125, 0.5625),),              # ts[0] itself is not a multiple of dt
    "misaligned": ((0.0, 0.1875, 0.5), (0.0625, 0.25, 0.5625)),  # one gap of 1.5 dt
}
EXTRA_KWARGS = {
    "sdeint": ({}, {"unknown_option": 1}, {"adjoint_adaptive": True, "unknown_option": 1}),
    "sdeint_adjoint": ({}, {"unknown_option": 1}, {"unknown_option": 1, "tolerance": 0.5}),
}


def _ts_of(cfg):
    choices = TS_FOR[cfg["align"]]
    return choices[(int(cfg["extra"]) + int(cfg["adaptive"])) % len(choices)]


def build_call(cfg, seed, with_extra=True):
    """(fn, sde, y0, ts, kwargs) of the real call for configuration `cfg` of the spec."""
    import torch
    import torchsde
    dcfg = dict(api=cfg["api"], st=cfg["st"], nt=cfg["nt"], method=cfg["method"], gf=False, bm="given",
                levy="foster", adaptive=cfg["adaptive"], logqp=False, adj=cfg["adj"], agf=False, mal="none")
    sde, m = dispatch.make_sde(dcfg, "plain", "")
    y0 = torch.tensor([[0.25, -0.5], [0.75, 0.125]], dtype=torch.float64)
    tsv = _ts_of(cfg)
    ts = torch.tensor(tsv, dtype=torch.float64)
    kw = dict(dt=DT, adaptive=cfg["adaptive"])
    if cfg["adaptive"]:
        # loose tolerances: the controller never proposes a step below dt_min (that warning is the machine "minstep")
        kw.update(rtol=0.5, atol=0.5, dt_min=DT_MIN)
    if cfg["method"] != "None":
        kw["method"] = cfg["method"]
    if cfg["api"] == "sdeint_adjoint":
        if cfg["adj"] != "None":
            kw["adjoint_method"] = cfg["adj"]
        kw["adjoint_adaptive"] = cfg["adjoint_adaptive"]
        if cfg["adjoint_adaptive"]:
            kw.update(adjoint_rtol=0.5, adjoint_atol=0.5, dt_min=DT_MIN)
    kw["bm"] = torchsde.BrownianInterval(t0=tsv[0], t1=tsv[-1], size=(dispatch.BATCH, m), dtype=torch.float64,
                                         levy_area_approximation="foster", entropy=int(seed) + 17)
    if with_extra:
        kw.update(EXTRA_KWARGS[cfg["api"]][cfg["extra"]])
    fn = torchsde.sdeint if cfg["api"] == "sdeint" else torchsde.sdeint_adjoint
    return fn, sde, y0, ts, kw


def run_dispatch_one(cfg, seed=0):
    """Execute one configuration on the real code; returns the observation (plain dict)."""
    import torch
    dispatch.install()
    obs = dict(fwd=None, fwd_error=None, output_ok=None, bwd=None, bwd_error=None, same_without_extra=None,
               foreign=0)
    with warnings.catch_warnings():
        warnings.simplefilter("ignore")
        fn, sde, y0, ts, kw = build_call(cfg, seed)       # building the problem is not part of the call
    ys = None
    with _Recorder() as r:
        try:
            ys = fn(sde, y0, ts, **kw)
        except Exception as e:  # noqa: the exception IS the observation
            obs["fwd_error"] = f"{type(e).__name__}: {str(e)[:120]}"
    obs["fwd"], obs["foreign"] = r.classes, r.foreign
    if ys is None:
        return obs
    obs["output_ok"] = bool(torch.is_tensor(ys) and tuple(ys.shape) == (len(ts), dispatch.BATCH, dispatch.D)
                            and bool(torch.isfinite(ys).all()))
    if cfg["api"] == "sdeint_adjoint" and torch.is_tensor(ys):
        with _Recorder() as r:
            try:
                ys.sum().backward()
            except Exception as e:  # noqa
                obs["bwd_error"] = f"{type(e).__name__}: {str(e)[:120]}"
        obs["bwd"] = r.classes
        obs["foreign"] += r.foreign
    if cfg["extra"] > 0 and torch.is_tensor(ys):
        # "the solve proceeds normally": same result as the call without the unknown arguments, same Brownian seed
        with warnings.catch_warnings():
            warnings.simplefilter("ignore")
            fn, sde2, y0, ts, kw = build_call(cfg, seed, with_extra=False)
            try:
                ys2 = fn(sde2, y0, ts, **kw)
                obs["same_without_extra"] = bool(torch.equal(ys.detach(), ys2.detach()))
            except Exception as e:  # noqa
                obs["same_without_extra"] = f"{type(e).__name__}: {str(e)[:120]}"
    return obs


def judge_dispatch(entry, obs):
    """-> list of (kind, expected, observed) mismatches of one executed configuration."""
    out = []
    exp_set = sorted(entry["warned"])
    exp_order = list(entry["order"])
    if obs.get("harness_error"):
        return [("harness-error", "", obs["harness_error"][-300:])]
    if obs["fwd_error"] is not None:
        out.append(("accepted call raised", "returns", obs["fwd_error"]))
    seen = obs["fwd"] or []
    if sorted(set(seen)) != exp_set:
        out.append(("set of warning classes", "{" + ", ".join(exp_set) + "}", "{" + ", ".join(sorted(set(seen))) + "}"))
    elif seen != exp_order:
        out.append(("multiplicity / order of warnings", str(exp_order), str(seen)))
    if obs["fwd_error"] is None and obs["output_ok"] is False:
        out.append(("result malformed", "finite (T, batch, d) tensor", "not"))
    if obs["bwd"] is not None:
        late = sorted(set(c for c in obs["bwd"] if c in DISPATCH_CLASSES or c.startswith("other:")))
        if late:
            out.append(("dispatch warning during the backward pass", "{}", "{" + ", ".join(late) + "}"))
        if obs["bwd_error"] is not None:
            out.append(("backward pass of an accepted call raised", "returns", obs["bwd_error"]))
    if entry["cfg"]["extra"] > 0 and obs["same_without_extra"] is not None and obs["same_without_extra"] is not True:
        out.append(("unknown keyword arguments change the result", "torch.equal to the call without them",
                    str(obs["same_without_extra"])))
    return out


# ---------------------------------------------------------------------------------------
# machine "brownian"
# ---------------------------------------------------------------------------------------

GRID_UNIT = 0.125
BROWNIAN_VARIANTS = (("none", False, False), ("space-time", True, True))    # (levy area, return_U, tensor times)


def run_brownian_one(entry, variant, seed=0):
    import torch
    import torchsde
    dispatch.install()
    levy, ret_u, as_tensor = variant
    q = entry["cfg"]
    t0, t1 = entry["t0"] * GRID_UNIT, entry["t1"] * GRID_UNIT

    def make():
        return torchsde.BrownianInterval(t0=t0, t1=t1, size=(2, 3), dtype=torch.float64, entropy=int(seed) + 5,
                                         levy_area_approximation=levy)

    def tm(k):
        return torch.tensor(k * GRID_UNIT, dtype=torch.float64) if as_tensor else k * GRID_UNIT

    with warnings.catch_warnings():
        warnings.simplefilter("ignore")
        bm, bm2 = make(), make()
    obs = dict(classes=None, res=None, equal=None, ref_classes=None, foreign=0)
    out = None
    with _Recorder() as r:
        try:
            out = bm(tm(q["a"]), return_U=ret_u) if q["kind"] == "point" else bm(tm(q["a"]), tm(q["b"]),
                                                                                  return_U=ret_u)
            obs["res"] = "value"
        except RuntimeError as e:
            obs["res"] = "RuntimeError"
        except Exception as e:  # noqa
            obs["res"] = f"{type(e).__name__}: {str(e)[:100]}"
    obs["classes"], obs["foreign"] = r.classes, r.foreign
    if out is not None and entry["res"] == "value":
        # the clamped query (from the spec) on a second, identically seeded object: an in-range interval query
        with _Recorder() as r:
            ref = bm2(entry["ta"] * GRID_UNIT, entry["tb"] * GRID_UNIT, return_U=ret_u)
        obs["ref_classes"] = r.classes
        a = out if isinstance(out, tuple) else (out,)
        b = ref if isinstance(ref, tuple) else (ref,)
        obs["equal"] = bool(len(a) == len(b) and all(torch.equal(x, y) for x, y in zip(a, b)))
    return obs


def judge_brownian(entry, obs):
    out = []
    exp = list(entry["order"])
    if obs["res"] != entry["res"]:
        out.append(("outcome of the query", entry["res"], str(obs["res"])))
    if len(obs["classes"]) != len(exp):
        out.append(("number of warnings", f"{len(exp)} {exp}", f"{len(obs['classes'])} {obs['classes']}"))
    elif sorted(obs["classes"]) != sorted(exp):
        out.append(("warning classes", str(sorted(exp)), str(sorted(obs["classes"]))))
    if entry["res"] == "value" and obs["res"] == "value":
        if obs["equal"] is not True:
            out.append(("value of an out-of-range query", f"value of the clamped query [{entry['ta']}, {entry['tb']}]/8",
                        "differs"))
        if obs["ref_classes"]:
            out.append(("in-range interval query warns", "[]", str(obs["ref_classes"])))
    return out


# ---------------------------------------------------------------------------------------
# machine "minstep": the adaptive loop under a scripted controller
# ---------------------------------------------------------------------------------------

def run_minstep_one(entry, seed=0):
    """The real sdeint(adaptive=True) with adaptive_stepping.update_step_size replaced (at run time, restored
    afterwards) by the scripted proposals of the spec; huge tolerances so that every step is accepted."""
    import torch
    import torchsde
    dispatch.install()
    try:
        from torchsde._core import adaptive_stepping
        orig = adaptive_stepping.update_step_size
    except Exception:  # noqa: other layout of the package: nothing to script
        return dict(scriptable=False)
    unit = 1.0 / 32                                  # dt_min / 2 with dt_min = 1/16
    dt_min = entry["dtmin"] * unit
    dt0 = entry["dt0"] * unit
    script = [entry["sizes"][p] * unit for p in entry["cfg"]["script"]]
    calls = []

    def scripted(*a, **k):
        i = len(calls)
        calls.append(i)
        return (script[i] if i < len(script) else 1.0), k.get("prev_error_ratio")

    dcfg = dict(api="sdeint", st="ito", nt="additive", method="euler", gf=False, bm="given", levy="none",
                adaptive=True, logqp=False, adj="NA", agf=False, mal="none")
    with warnings.catch_warnings():
        warnings.simplefilter("ignore")
        sde, m = dispatch.make_sde(dcfg, "plain", "")
        y0 = torch.tensor([[0.25, -0.5], [0.75, 0.125]], dtype=torch.float64)
        base = torchsde.BrownianInterval(t0=0.0, t1=1.0, size=(dispatch.BATCH, m), dtype=torch.float64,
                                         entropy=int(seed) + 3)
        rec = dispatch._Obs.Rec(base)
    obs = dict(scriptable=True, classes=None, steps=None, error=None, calls=0)
    adaptive_stepping.update_step_size = scripted
    try:
        with _Recorder() as r:
            try:
                torchsde.sdeint(sde, y0, [0.0, 1.0], bm=rec, method="euler", dt=dt0, adaptive=True, rtol=1e3, atol=1e3,
                                dt_min=dt_min)
            except Exception as e:  # noqa
                obs["error"] = f"{type(e).__name__}: {str(e)[:120]}"
    finally:
        adaptive_stepping.update_step_size = orig
    obs["classes"] = r.classes
    obs["calls"] = len(calls)
    # the steps taken: follow the Brownian queries that start at the current time (the full step comes first)
    steps, cur, i = [], 0.0, 0
    while i < len(rec.log):
        ta, tb = rec.log[i][0], rec.log[i][1]
        if ta == cur and tb is not None and tb > ta:
            steps.append(tb - ta)
            cur = tb
        i += 1
    obs["steps"] = steps
    if len(calls) == 0:
        obs["scriptable"] = False
    return obs


def judge_minstep(entry, obs):
    out = []
    unit = 1.0 / 32
    exp_n = len(entry["order"])
    exp_steps = [s * unit for s in entry["steps"]]
    if obs["error"]:
        out.append(("adaptive solve raised", "returns", obs["error"]))
    if obs["classes"] != ["min_step"] * exp_n:
        out.append(("minimum-step warnings", f"{exp_n} x min_step", str(obs["classes"])))
    if obs["steps"][:len(exp_steps)] != exp_steps:
        out.append(("step sizes used", str(exp_steps), str(obs["steps"][:len(exp_steps)])))
    return out


# ---------------------------------------------------------------------------------------
# selection and drivers
# ---------------------------------------------------------------------------------------

CFG_FIELDS = ("api", "st", "nt", "method", "adj", "adaptive", "adjoint_adaptive", "align", "extra")


def cfg_key(cfg):
    return ("warn-dispatch",) + tuple(cfg[k] for k in CFG_FIELDS)


def stratified(entries, rng, n=QUICK_CONFIGS):
    """~n configurations: 2 of every stratum, then greedily whatever covers a new pair of (field=value) /
    expected-set features.  A stratum fixes the API, the expected set and everything a warning site may look at
    (resolved method euler / reversible_heun / other; for euler whether the noise is additive; for reversible_heun
    the resolved adjoint method being its partner, adjoint_adaptive and the alignment; adaptive; unknown kwargs
    present), so that also the combinations in which a site must stay SILENT are executed (sdeint with
    reversible_heun, euler with additive noise, ...)."""
    entries = sorted(entries, key=lambda e: json.dumps(e["cfg"], sort_keys=True))
    order = list(range(len(entries)))
    rng.shuffle(order)

    def stratum(e):
        c, s = e["cfg"], e["sel"]
        m = s["method"] if s["method"] in ("euler", "reversible_heun") else "other"
        return (c["api"], tuple(sorted(e["warned"])), m, c["adaptive"], c["extra"] > 0,
                c["nt"] == "additive" if m == "euler" else None,
                (s["adjm"] == "adjoint_reversible_heun", c["adjoint_adaptive"], c["align"] == "misaligned")
                if m == "reversible_heun" else None)

    strata = collections.defaultdict(list)
    for i in order:
        strata[stratum(entries[i])].append(i)
    chosen = []
    for k in sorted(strata, key=repr):
        chosen += strata[k][:2]
    taken = set(chosen)

    def feats(e):
        return [(k, e["cfg"][k]) for k in CFG_FIELDS] + [("warned", tuple(sorted(e["warned"])))]

    covered = set()
    for i in chosen:
        covered.update(itertools.combinations(feats(entries[i]), 2))
    for i in order:
        if len(chosen) >= n:
            break
        if i in taken:
            continue
        pairs = set(itertools.combinations(feats(entries[i]), 2))
        if not pairs <= covered:
            chosen.append(i)
            taken.add(i)
            covered |= pairs
    for i in order:
        if len(chosen) >= n:
            break
        if i not in taken:
            chosen.append(i)
            taken.add(i)
    return [entries[i] for i in sorted(chosen)]


def _guarded(fn, *a):
    """Run under the watchdog of harness/dispatch.py (a mutated library must not hang the check)."""
    old = signal.signal(signal.SIGPROF, dispatch._alarm)          # CPU time, not wall-clock (busy machines)
    signal.setitimer(signal.ITIMER_PROF, dispatch.RUN_LIMIT_S)
    try:
        return fn(*a)
    except dispatch._Watchdog:
        return dict(harness_error=f"no result within {dispatch.RUN_LIMIT_S}s of CPU time")
    except Exception:  # noqa: harness failure, reported as such
        return dict(harness_error=traceback.format_exc()[-800:])
    finally:
        signal.setitimer(signal.ITIMER_PROF, 0)
        signal.signal(signal.SIGPROF, old)


def _work(chunk):
    dispatch.install()
    return [(i, _guarded(run_dispatch_one, cfg, seed)) for i, cfg, seed in chunk]


def run_dispatch_many(entries, seed, procs=None):
    jobs = [(i, e["cfg"], seed) for i, e in enumerate(entries)]
    if len(jobs) < 400:
        for r in _work(jobs):
            yield r
        return
    dispatch.install()
    chunks = [jobs[k::64] for k in range(64)]
    procs = procs or max(2, min(16, os.cpu_count() or 4) // 2)
    with multiprocessing.get_context("fork").Pool(procs) as pool:
        for res in pool.imap_unordered(_work, chunks):
            for r in res:
                yield r


def check_entries(printed, seed=0, quick=True, rng=None, on_case=None):
    """Replay the printed lines on the real code.  Returns (mismatches, counts): a mismatch is
    (machine, kind, expected, observed, cfg)."""
    import random
    rng = rng or random.Random(f"{seed}:dispatch-warn")
    by = collections.defaultdict(list)
    for e in printed:
        by[e["mach"]].append(e)
    d_all = by["dispatch"]
    seen_classes = set(c for e in d_all for c in e["warned"])
    if len(d_all) < 6000 or len(by["brownian"]) != 72 or len(by["minstep"]) != 39 \
            or seen_classes != set(DISPATCH_CLASSES) \
            or len(set(json.dumps(e["cfg"], sort_keys=True) for e in d_all)) != len(d_all):
        raise tlc.TLCMachineryError(f"DispatchWarn emission incomplete: {({k: len(v) for k, v in by.items()})} "
                                    f"classes {sorted(seen_classes)}")
    selected = stratified(d_all, rng) if quick else sorted(d_all, key=lambda e: json.dumps(e["cfg"], sort_keys=True))
    mismatches = []
    counts = collections.Counter()
    foreign = 0
    for i, obs in run_dispatch_many(selected, seed):
        e = selected[i]
        counts["dispatch"] += 1
        if on_case:
            on_case(cfg_key(e["cfg"]), dict(machine="dispatch", cfg=e["cfg"], expected=sorted(e["warned"]),
                                            observed=obs.get("fwd")))
        foreign += obs.get("foreign", 0) or 0
        for kind, exp, got in judge_dispatch(e, obs):
            mismatches.append(("dispatch", kind, exp, got, e["cfg"]))
    for e in sorted(by["brownian"], key=lambda e: json.dumps(e["cfg"], sort_keys=True)):
        for v in BROWNIAN_VARIANTS:
            obs = _guarded(run_brownian_one, e, v, seed)
            counts["brownian"] += 1
            if on_case:
                on_case(("warn-brownian", e["cfg"]["kind"], e["cfg"]["a"], e["cfg"]["b"], v[0]),
                        dict(machine="brownian", cfg=e["cfg"], expected=e["order"], observed=obs.get("classes")))
            if "harness_error" in obs:
                mismatches.append(("brownian", "harness-error", "", obs["harness_error"][-300:], e["cfg"]))
                continue
            foreign += obs["foreign"]
            for kind, exp, got in judge_brownian(e, obs):
                mismatches.append(("brownian", kind, exp, got, dict(e["cfg"], levy=v[0])))
    unscriptable = 0
    for e in sorted(by["minstep"], key=lambda e: json.dumps(e["cfg"], sort_keys=True)):
        obs = _guarded(run_minstep_one, e, seed)
        if "harness_error" in obs:
            mismatches.append(("minstep", "harness-error", "", obs["harness_error"][-300:], e["cfg"]))
            continue
        if not obs["scriptable"]:
            unscriptable += 1
            continue
        counts["minstep"] += 1
        if on_case:
            on_case(("warn-minstep",) + tuple(e["cfg"]["script"]),
                    dict(machine="minstep", cfg=e["cfg"], expected=e["order"], observed=obs.get("classes")))
        for kind, exp, got in judge_minstep(e, obs):
            mismatches.append(("minstep", kind, exp, got, e["cfg"]))
    counts["foreign_warnings_ignored"] = foreign
    counts["minstep_not_scriptable"] = unscriptable
    counts["dispatch_selected_of"] = len(d_all)
    return mismatches, counts


def report(ctx, mismatches):
    """Aggregate the mismatches into at most MAX_DRIFT_LINES model-drift entries."""
    groups = collections.OrderedDict()
    for mach, kind, exp, got, cfg in mismatches:
        groups.setdefault((mach, kind, exp, got), []).append(cfg)
    ranked = sorted(groups.items(), key=lambda kv: (-len(kv[1]), kv[0]))
    for (mach, kind, exp, got), cfgs in ranked[:MAX_DRIFT_LINES]:
        ctx.drift(f"warnings: [{mach}, {len(cfgs)} configuration(s)] {kind}: spec/DispatchWarn.tla expects {exp}, "
                  f"the code gave {got}; e.g. {json.dumps(cfgs[0], sort_keys=True)}")
    if len(ranked) > MAX_DRIFT_LINES:
        ctx.drift(f"warnings: ... and {len(ranked) - MAX_DRIFT_LINES} more classes of disagreement "
                  f"({len(mismatches)} mismatches in all)")


def run(ctx, quick=True):
    """Called at the end of checks/c19.py.  Never a violation: no listed property states the warning behaviour."""
    t0 = time.time()
    res = run_tlc(coverage=not quick)
    ctx.add_tlc(res, "DispatchWarn: ExpectedWarnings = pipeline on all accepted configurations; Brownian clamping; "
                     "minimum-step warning; emission")
    t_tlc = time.time() - t0
    if not res.ok:
        ctx.drift(f"warnings: spec/DispatchWarn.tla is inconsistent ({res.violated}); nothing replayed")
        return [("spec", "inconsistent", "", str(res.violated), {})]
    if not quick:
        never = [a for a, (d, t) in res.coverage.items() if t == 0]
        if never:
            ctx.drift(f"warnings: actions never taken in spec/DispatchWarn.tla: {never}")
    sampled = [0]

    def on_case(key, sample):
        sampled[0] += 1
        ctx.case(key, nontrivial=True, sample=sample if sampled[0] % 97 == 1 else None, trace=False)

    mismatches, counts = check_entries(res.printed, seed=ctx.seed, quick=quick, on_case=on_case)
    report(ctx, mismatches)
    ctx.notes["dispatch_warn"] = dict(executed=dict(counts), mismatches=len(mismatches),
                                      seconds=dict(tlc=round(t_tlc, 1), total=round(time.time() - t0, 1)),
                                      tlc_states=res.distinct)
    return mismatches
