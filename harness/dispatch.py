"""C19 binding: drive the real torchsde.sdeint / sdeint_adjoint through the configurations that
spec/Dispatch.tla enumerates and compare the observed outcome class with what the spec expects.

Nothing here knows which combinations are supported: the expectation always comes from the line
TLC printed for the configuration (fields `outcome`, `sel`), this module only
  * builds a tiny concrete problem for a configuration (+ a concrete instance of its malformed class),
  * observes the real run from outside (recording Brownian proxy, run-time wrappers around
    `methods.select` and `BrownianInterval.__init__/__call__`; no source hooks),
  * classifies what happened:  ok | fwd_error(type, queries so far) | bwd_error(type, backward queries).
"""
import itertools
import multiprocessing
import os

os.environ.setdefault("OMP_NUM_THREADS", "1")      # before torch is imported: one thread per worker process
os.environ.setdefault("MKL_NUM_THREADS", "1")
import warnings

BATCH, D = 2, 2
M_FOR = {"scalar": 1, "additive": 3, "general": 3, "diagonal": D, "bad": 3}
DT = 0.125
TS = (0.0, 0.25, 0.5)

INVARIANTS = ["TypeOK", "IntegrateImpliesDocumented", "UndocumentedRejectedUpFront",
              "ListedClassesRaiseValueError", "DocumentedForwardIntegrated", "DefaultsAreDocumented",
              "BackwardRefusedAtStart", "BackwardIntegrateImpliesDocumented", "BackwardErrorOnlyThen",
              "OutcomeMatchesTable", "OkIffDocumented"]


def tlc_cfg(emit=True, extra_invariants=()):
    lines = ["SPECIFICATION Spec"]
    lines += [f"INVARIANT {i}" for i in INVARIANTS + list(extra_invariants)]
    if emit:
        lines.append("INVARIANT Emit")
    lines += ["PROPERTY StepShape", "CHECK_DEADLOCK FALSE"]
    return "\n".join(lines) + "\n"


LIVENESS_CFG = "SPECIFICATION FairSpec\nPROPERTY Terminates\nCHECK_DEADLOCK FALSE\n"


# ---------------------------------------------------------------------------------------
# concrete instances of the malformed-argument classes (>= 2 each)
# ---------------------------------------------------------------------------------------

def instances(cfg):
    """Names of the concrete instances with which configuration `cfg` is executed."""
    mal = cfg["mal"]
    given = cfg["bm"] == "given"
    lq = cfg["logqp"]
    if mal == "none":
        inst = ["plain"]
    elif mal == "ts_not_increasing":
        inst = ["decreasing_mid", "reversed", "list_decreasing"]
    elif mal == "ts_equal":
        inst = ["repeat_last", "all_equal"]
    elif mal == "y0_1d":
        inst = ["1d", "3d"]
    elif mal == "y0_not_tensor":
        inst = ["list", "numpy"]
    elif mal == "batch_mismatch":
        inst = ["sde_plus1", "sde_plus2"] + (["bm"] if given else []) + ([] if lq else ["f_only"])
    elif mal == "state_mismatch":
        inst = ["sde_plus1", "sde_plus2"] + ([] if lq else ["f_only"])
    elif mal == "noise_mismatch":
        inst = ["bm_plus1", "bm_plus2"]
    elif mal == "scalar_multi":
        inst = ["two_channels", "three_channels"]
    elif mal in ("no_drift", "no_diffusion", "logqp_no_h"):
        inst = ["absent", "misnamed"]
    elif mal == "ts_requires_grad":
        inst = ["leaf", "nonleaf", "list_0d_grad"]
    elif mal == "dt_requires_grad":
        inst = ["leaf", "nonleaf"]
    elif mal == "ts_wrong_type":
        inst = ["numpy", "list_of_str", "tuple_of_tensors"]
    else:
        raise ValueError(mal)
    # a bad type attribute: wrong string / attribute absent
    bad = cfg["st"] == "bad" or cfg["nt"] == "bad"
    return [(i, b) for i in inst for b in ((("wrong", "absent") if bad else ("",)))]


def _torch():
    import torch
    return torch


def make_sde(cfg, inst, badkind):
    torch = _torch()
    mal = cfg["mal"]
    nt = cfg["nt"]
    out_b = None          # batch size produced by the vector fields (None: that of y)
    f_b = None
    d_all = None          # state size produced by f, g, h
    f_d = None
    g_m = None
    if mal == "batch_mismatch":
        if inst == "sde_plus1":
            out_b = BATCH + 1
        elif inst == "sde_plus2":
            out_b = BATCH + 2
        elif inst == "f_only":
            f_b = BATCH + 1
    if mal == "state_mismatch":
        if inst == "sde_plus1":
            d_all = D + 1
        elif inst == "sde_plus2":
            d_all = D + 2
        elif inst == "f_only":
            f_d = D + 1
    if mal == "scalar_multi":
        g_m = 2 if inst == "two_channels" else 3
    m = g_m if g_m is not None else M_FOR[nt]
    C = torch.tensor([[0.5, 0.25, -0.25, 0.125], [-0.5, 0.75, 0.25, 0.375], [0.25, -0.125, 0.5, -0.375],
                      [0.125, 0.5, -0.5, 0.25]], dtype=torch.float64)

    def fit(y, b, d):
        if tuple(y.shape) == (b, d):
            return y
        return y.repeat((b + y.shape[0] - 1) // y.shape[0], (d + y.shape[1] - 1) // y.shape[1])[:b, :d]

    class Tiny(torch.nn.Module):
        def __init__(self):
            super().__init__()
            self.a = torch.nn.Parameter(torch.tensor(0.375, dtype=torch.float64))
            self.b = torch.nn.Parameter(torch.tensor(0.25, dtype=torch.float64))
            self.calls = 0

        def _shape(self, y, b_override=None, d_override=None):
            b = b_override or out_b or y.shape[0]
            d = d_override or d_all or y.shape[1]
            return b, d

        def _f(self, t, y):
            b, d = self._shape(y, f_b, f_d)
            return self.a * torch.sin(fit(y, b, d)) + 0.125 * t

        def _h(self, t, y):
            b, d = self._shape(y)
            return -0.5 * fit(y, b, d)

        def _g(self, t, y):
            b, d = self._shape(y)
            yy = fit(y, b, d)
            if nt == "diagonal":
                return self.b * torch.cos(yy) + 0.5
            if nt == "scalar":
                return (self.b * torch.cos(yy) + 0.5).unsqueeze(-1).repeat(1, 1, m)
            if nt == "additive":
                return (self.b * C[:d, :m]).unsqueeze(0).expand(b, d, m) + 0.0 * t
            cols = [self.b * torch.cos(yy + 0.25 * k) + (0.5 if k == 0 else 0.0) for k in range(m)]
            return torch.stack(cols, dim=-1)

    sde = Tiny()
    names = {"f": "f", "g": "g", "h": "h"}
    present = {"f", "g", "h"}
    if mal == "no_drift":
        if inst == "absent":
            present.discard("f")
        else:
            names["f"] = "drift"
    if mal == "no_diffusion":
        if inst == "absent":
            present.discard("g")
        else:
            names["g"] = "diffusion"
    if mal == "logqp_no_h":
        if inst == "absent":
            present.discard("h")
        else:
            names["h"] = "prior_drift"
    if not cfg["logqp"] and mal != "logqp_no_h":
        present.discard("h")
    for k in present:
        setattr(sde, names[k], getattr(sde, "_" + k))
    for attr, val in (("sde_type", cfg["st"]), ("noise_type", cfg["nt"])):
        if val == "bad":
            if badkind == "wrong":
                setattr(sde, attr, "bad")
        else:
            setattr(sde, attr, val)
    return sde, m


def _recording_class():
    import torchsde

    class Rec(torchsde.BaseBrownian):
        def __init__(self, base):
            super().__init__()
            self.base = base
            self.log = []

        def __call__(self, ta, tb=None, return_U=False, return_A=False):
            self.log.append((float(ta), None if tb is None else float(tb), bool(return_U), bool(return_A)))
            return self.base(ta, tb, return_U=return_U, return_A=return_A)

        def __repr__(self):
            return f"Rec({self.base!r})"

        dtype = property(lambda self: self.base.dtype)
        device = property(lambda self: self.base.device)
        shape = property(lambda self: self.base.shape)
        levy_area_approximation = property(lambda self: self.base.levy_area_approximation)

    return Rec


# ---------------------------------------------------------------------------------------
# run-time observation (installed once per process)
# ---------------------------------------------------------------------------------------

class _Obs:
    installed = False
    selects = []          # (method, sde_type) of every methods.select call
    bi_calls = 0          # BrownianInterval.__call__ count (covers the default Brownian motion)
    bi_inits = []         # levy_area_approximation of every BrownianInterval constructed
    select_available = False
    Rec = None


def install():
    if _Obs.installed:
        return
    torch = _torch()
    torch.set_num_threads(1)
    torch.set_default_dtype(torch.float64)
    import torchsde
    from torchsde._core import methods as methods_mod
    from torchsde import BrownianInterval
    if hasattr(methods_mod, "select"):
        orig_select = methods_mod.select

        def select(method, sde_type, *a, **k):
            _Obs.selects.append((method, sde_type))
            return orig_select(method, sde_type, *a, **k)

        methods_mod.select = select
        _Obs.select_available = True
    orig_call = BrownianInterval.__call__
    orig_init = BrownianInterval.__init__

    def call(self, *a, **k):
        _Obs.bi_calls += 1
        return orig_call(self, *a, **k)

    def init(self, *a, **k):
        orig_init(self, *a, **k)
        _Obs.bi_inits.append(self.levy_area_approximation)

    BrownianInterval.__call__ = call
    BrownianInterval.__init__ = init
    _Obs.Rec = _recording_class()
    # one-time initialisations of torch (first autograd call, LAPACK) happen here, i.e. before the pool forks
    y = torch.tensor([[0.5, 0.25]], requires_grad=True)
    g = torch.cos(y)
    torch.autograd.grad(g, y, grad_outputs=g, retain_graph=True, create_graph=True, allow_unused=True)
    (g.sum() + torch.stack([g, g], -1).pinverse().sum()).backward()
    _Obs.installed = True


def _reset():
    _Obs.selects = []
    _Obs.bi_calls = 0
    _Obs.bi_inits = []


def build(cfg, inst, badkind, seed):
    """Concrete arguments of the call for configuration cfg / instance inst."""
    torch = _torch()
    import numpy as np
    import torchsde
    mal = cfg["mal"]
    sde, m = make_sde(cfg, inst, badkind)
    y0 = torch.tensor([[0.25, -0.5], [0.75, 0.125]], dtype=torch.float64)
    if mal == "y0_1d":
        y0 = y0[:, 0].clone() if inst == "1d" else y0.unsqueeze(-1)
    elif mal == "y0_not_tensor":
        y0 = y0.tolist() if inst == "list" else y0.numpy()
    ts = torch.tensor(TS, dtype=torch.float64)
    t0, t1 = TS[0], TS[-1]
    if mal == "ts_not_increasing":
        ts = {"decreasing_mid": torch.tensor([0.0, 0.5, 0.25], dtype=torch.float64),
              "reversed": torch.tensor([0.5, 0.25, 0.0], dtype=torch.float64),
              "list_decreasing": [0.0, 0.5, 0.25]}[inst]
    elif mal == "ts_equal":
        ts = {"repeat_last": torch.tensor([0.0, 0.25, 0.25], dtype=torch.float64),
              "all_equal": torch.tensor([0.25, 0.25], dtype=torch.float64)}[inst]
    elif mal == "ts_wrong_type":
        ts = {"numpy": np.array(TS), "list_of_str": ["0.0", "0.25", "0.5"],
              "tuple_of_tensors": tuple(torch.tensor(t, dtype=torch.float64) for t in TS)}[inst]
    elif mal == "ts_requires_grad":
        if inst == "leaf":
            ts = ts.clone().requires_grad_(True)
        elif inst == "list_0d_grad":          # a learnable end time inside a Python list of 0-d tensors
            ts = [torch.tensor(t, dtype=torch.float64) for t in TS[:-1]] + \
                 [torch.tensor(TS[-1], dtype=torch.float64, requires_grad=True)]
        else:
            ts = torch.tensor(TS, dtype=torch.float64, requires_grad=True) * 1.0
    dt = DT
    if mal == "dt_requires_grad":
        dt = torch.tensor(DT, dtype=torch.float64, requires_grad=True)
        if inst == "nonleaf":
            dt = dt * 1.0
    kw = dict(dt=dt, adaptive=cfg["adaptive"], logqp=cfg["logqp"])
    if cfg["adaptive"]:
        # loose tolerances: the adaptive controller accepts (nearly) every step, the runs stay tiny
        kw.update(rtol=0.5, atol=0.5, dt_min=0.03125)
    if cfg["method"] != "None":
        kw["method"] = cfg["method"]
    if cfg["gf"]:
        kw["options"] = _used_options(seed) if (int(seed) + len(cfg["nt"])) % 2 else dict(grad_free=True)
    if cfg["api"] == "sdeint_adjoint":
        if cfg["adj"] != "None":
            kw["adjoint_method"] = cfg["adj"]
        if cfg["agf"]:
            kw["adjoint_options"] = _used_options(seed) if (int(seed) + len(cfg["st"])) % 2 == 0 else dict(grad_free=True)
    rec = None
    if cfg["bm"] == "given":
        bm_b = BATCH
        bm_m = m + (1 if (cfg["logqp"] and cfg["nt"] == "diagonal") else 0)   # logqp adds a zero channel
        if mal == "batch_mismatch" and inst == "bm":
            bm_b = BATCH + 1
        if mal == "noise_mismatch":
            bm_m += 1 if inst == "bm_plus1" else 2
        if mal == "state_mismatch" and cfg["nt"] == "diagonal":
            pass   # the diffusion's channels follow its (wrong) state size; the state check comes first
        base = torchsde.BrownianInterval(t0=t0, t1=t1, size=(bm_b, bm_m), dtype=torch.float64,
                                         levy_area_approximation=cfg["levy"], entropy=int(seed) + 17)
        rec = _Obs.Rec(base)
        kw["bm"] = rec
    return sde, y0, ts, kw, rec


def _used_options(seed):
    """dict(grad_free=True) as a caller holds it who REUSES one dict object across calls: it has already been passed
    to an earlier, unrelated solve (derivative-free Milstein on an additive-noise SDE).  A call must not depend on,
    nor change, what an options dict went through before: the dict still says grad_free=True afterwards."""
    torch = _torch()
    import torchsde
    opts = dict(grad_free=True)

    class _Add:
        noise_type, sde_type = "additive", "ito"

        def f(self, t, y):
            return -y

        def g(self, t, y):
            return torch.ones(y.size(0), y.size(1), 1, dtype=y.dtype) * 0.5

    y = torch.ones(2, 2, dtype=torch.float64)
    bm = torchsde.BrownianInterval(t0=0.0, t1=0.25, size=(2, 1), dtype=torch.float64, entropy=int(seed) + 5)
    with torch.no_grad():
        torchsde.sdeint(_Add(), y, torch.tensor([0.0, 0.25], dtype=torch.float64), bm=bm, method="milstein", dt=0.125,
                        options=opts)
    return opts


class _Watchdog(BaseException):
    """Raised by the per-run timer: the call neither returned nor raised within RUN_LIMIT_S."""


# The watchdog counts CPU time of this process (ITIMER_PROF), not wall-clock time: on a busy machine a tiny solve can
# wait tens of seconds for a core, and a "hang" verdict must never come from scheduling.  A wall-clock backstop far
# beyond any plausible wait keeps a genuinely blocked call (sleeping, not spinning) from stalling the check.
RUN_LIMIT_S = 60.0            # CPU seconds (a run needs ~0.1 s)
WALL_BACKSTOP_S = 1800.0


def _alarm(signum, frame):
    raise _Watchdog()


def run_one(cfg, inst, badkind, seed=0):
    """Execute one configuration instance on the real code (under a watchdog) and describe what happened."""
    import signal
    install()
    old = signal.signal(signal.SIGPROF, _alarm)
    old_real = signal.signal(signal.SIGALRM, _alarm)
    signal.setitimer(signal.ITIMER_PROF, RUN_LIMIT_S)
    signal.setitimer(signal.ITIMER_REAL, WALL_BACKSTOP_S)
    try:
        return _run_one(cfg, inst, badkind, seed)
    except _Watchdog:
        return dict(phase="timeout", exc="Timeout", is_value_error=False,
                    msg=f"no result within {RUN_LIMIT_S}s of CPU time (or {WALL_BACKSTOP_S}s wall)",
                    q_fwd=max(_Obs.bi_calls, 0), q_bwd=0, selects=None, default_levy=None, output_ok=None)
    finally:
        signal.setitimer(signal.ITIMER_PROF, 0)
        signal.setitimer(signal.ITIMER_REAL, 0)
        signal.signal(signal.SIGPROF, old)
        signal.signal(signal.SIGALRM, old_real)


def _run_one(cfg, inst, badkind, seed=0):
    install()
    torch = _torch()
    import torchsde
    obs = dict(phase=None, exc=None, is_value_error=None, msg="", q_fwd=0, q_bwd=0, selects=[], default_levy=None,
               output_ok=None)
    with warnings.catch_warnings():
        warnings.simplefilter("ignore")
        sde, y0, ts, kw, rec = build(cfg, inst, badkind, seed)
        _reset()    # constructing the given Brownian motion is not part of the call

        def queries():
            return max(_Obs.bi_calls, len(rec.log) if rec is not None else 0)

        fn = torchsde.sdeint if cfg["api"] == "sdeint" else torchsde.sdeint_adjoint
        try:
            out = fn(sde, y0, ts, **kw)
        except Exception as e:  # noqa: the exception IS the observation
            obs.update(phase="fwd_error", exc=type(e).__name__, is_value_error=isinstance(e, ValueError),
                       msg=str(e)[:160], q_fwd=queries())
        else:
            obs["q_fwd"] = queries()
            outs = out if isinstance(out, tuple) else (out,)
            ok = torch.is_tensor(outs[0]) and tuple(outs[0].shape) == (len(TS), BATCH, D)
            if cfg["logqp"]:
                ok = ok and len(outs) == 2 and tuple(outs[1].shape) == (len(TS) - 1, BATCH)
            ok = ok and all(bool(torch.isfinite(o).all()) for o in outs)
            obs["output_ok"] = bool(ok)
            obs["phase"] = "ok"
            if cfg["api"] == "sdeint_adjoint":
                loss = sum(o.sum() for o in outs)
                try:
                    loss.backward()
                except Exception as e:  # noqa
                    obs.update(phase="bwd_error", exc=type(e).__name__, is_value_error=isinstance(e, ValueError),
                               msg=str(e)[:160], q_bwd=queries() - obs["q_fwd"])
                else:
                    obs["q_bwd"] = queries() - obs["q_fwd"]
                    grads = [sde.a.grad, sde.b.grad]
                    obs["output_ok"] = bool(ok and all(g is not None and bool(torch.isfinite(g).all())
                                                       for g in grads))
        obs["selects"] = [list(s) for s in _Obs.selects] if _Obs.select_available else None
        if cfg["bm"] == "None" and _Obs.bi_inits:
            obs["default_levy"] = _Obs.bi_inits[-1]
    return obs


# ---------------------------------------------------------------------------------------
# judging: expectation (from the spec) vs observation (from the code)
# ---------------------------------------------------------------------------------------

def cfg_key(cfg):
    return {k: cfg[k] for k in ("api", "st", "nt", "method", "gf", "bm", "levy", "adaptive", "logqp", "adj", "agf",
                                "mal")}


def judge(entry, inst, badkind, obs):
    """Returns (findings, drifts, notes).  A finding is (reduced_key: dict, message: str)."""
    cfg = entry["cfg"]
    exp = entry["outcome"]
    sel = entry["sel"]
    findings, drifts, notes = [], [], []
    base = dict(api=cfg["api"], st=cfg["st"], nt=cfg["nt"], method=cfg["method"], mal=cfg["mal"])
    what = f"{cfg_key(cfg)} instance={inst}/{badkind}: spec expects {exp}" + (
        f" at {entry['failedAt']}" if entry["failedAt"] != "none" else "")
    seen = f"observed {obs['phase']}" + (f" {obs['exc']}: {obs['msg']}" if obs["exc"] else "") + \
           f" (Brownian queries: forward {obs['q_fwd']}, backward {obs['q_bwd']})"
    ph = obs["phase"]
    if ph == "timeout":
        findings.append((dict(finding="hang", st=cfg["st"], nt=cfg["nt"], method=cfg["method"], mal=cfg["mal"],
                              inst=inst, expected=exp),
                         f"the call neither returned nor raised within {RUN_LIMIT_S}s of CPU time; {what}; {seen}"))
        return findings, drifts, notes

    if exp == "ok":
        if ph != "ok":
            findings.append((dict(finding="documented-not-integrated", api=cfg["api"], st=cfg["st"], nt=cfg["nt"],
                                  method=sel["method"], phase=ph, exc=obs["exc"],
                                  **(dict(adj_method=sel["adjm"]) if ph == "bwd_error" else {})),
                             f"a documented combination is not integrated; {what}; {seen}"))
        else:
            if not obs["output_ok"]:
                findings.append((dict(base, finding="output-malformed", adj=cfg["adj"], logqp=cfg["logqp"]),
                                 f"wrong shapes / non-finite values or gradients; {what}; {seen}"))
            if obs["q_fwd"] < 1 or (cfg["api"] == "sdeint_adjoint" and obs["q_bwd"] < 1):
                drifts.append(f"no Brownian query observed on an integrating run: {what}; {seen}")
    elif exp in ("ValueError", "Error"):
        if ph != "fwd_error":
            findings.append((dict(finding="silently-integrated", mal=cfg["mal"], phase=ph,
                                  **(dict(inst=inst) if cfg["mal"] != "none" else
                                     dict(st=cfg["st"], nt=cfg["nt"], method=cfg["method"], bm=cfg["bm"],
                                          levy=cfg["levy"]))),
                             f"an undocumented / malformed call is not rejected by the forward call; {what}; {seen}"))
        else:
            if obs["q_fwd"] > 0:
                findings.append((dict(finding="forward-error-after-query", mal=cfg["mal"], exc=obs["exc"],
                                      **(dict(inst=inst) if cfg["mal"] != "none" else
                                         dict(st=cfg["st"], nt=cfg["nt"], method=cfg["method"], bm=cfg["bm"],
                                              levy=cfg["levy"]))),
                                 f"rejected only after the Brownian motion was queried; {what}; {seen}"))
            if exp == "ValueError" and not obs["is_value_error"]:
                findings.append((dict(finding="forward-error-type", mal=cfg["mal"], logqp=cfg["logqp"],
                                      exc=obs["exc"],
                                      **({} if cfg["mal"] != "none" else dict(st=cfg["st"], nt=cfg["nt"],
                                                                              method=cfg["method"]))),
                                 f"the property demands ValueError; {what}; {seen}"))
            if exp == "Error":
                notes.append(("unspecified_type", cfg["mal"], obs["exc"]))
    elif exp == "BackwardError":
        adjm = sel["adjm"]
        bkey = dict(api=cfg["api"], st=cfg["st"], nt=cfg["nt"], adj_method=adjm, agf=cfg["agf"])
        if ph == "fwd_error":
            findings.append((dict(bkey, finding="adjoint-refused-in-forward", method=cfg["method"], exc=obs["exc"]),
                             f"the forward call failed although only the adjoint method is unsupported; {what}; {seen}"))
        elif ph == "ok":
            findings.append((dict(bkey, finding="unsupported-adjoint-integrated", method=sel["method"]),
                             f"an unsupported adjoint method was integrated silently; {what}; {seen}"))
        else:
            if obs["q_bwd"] > 0:
                findings.append((dict(bkey, finding="adjoint-refusal-late", exc=obs["exc"]),
                                 f"unsupported adjoint method is not refused when the backward pass starts but after "
                                 f"{obs['q_bwd']} backward Brownian queries; {what}; {seen}"))
            notes.append(("backward_error_type", adjm, obs["exc"]))
    else:
        raise ValueError(exp)

    # defaults (observation aid: wrapper around methods.select / BrownianInterval.__init__)
    sels = obs["selects"]
    if sels is not None:
        if cfg["method"] == "None" and len(sels) >= 1 and sel["method"] != "unset":
            if sels[0][0] != sel["method"]:
                findings.append((dict(finding="default-method", st=cfg["st"], nt=cfg["nt"], chosen=str(sels[0][0]),
                                      documented=sel["method"]),
                                 f"default method: {what}; code selected {sels[0][0]}"))
        if cfg["api"] == "sdeint_adjoint" and cfg["adj"] == "None" and len(sels) >= 2 and sel["adjm"] != "unset":
            if sels[1][0] != sel["adjm"]:
                findings.append((dict(finding="default-adjoint-method", st=cfg["st"], nt=cfg["nt"],
                                      method=sel["method"], chosen=str(sels[1][0]), documented=sel["adjm"]),
                                 f"default adjoint method: {what}; code selected {sels[1][0]}"))
        # which stage was reached (implementation-shaped: drift only)
        reached_select = len(sels) >= 1
        spec_reached = entry["failedAt"] in ("none", "SolverInit", "BackwardSelect", "BackwardSolverInit")
        if ph == "fwd_error" and exp in ("ValueError", "Error") and reached_select != spec_reached \
                and entry["failedAt"] != "Select":
            drifts.append(f"rejected at a different stage than the pipeline model ({what}; {seen}; "
                          f"select reached: {reached_select})")
    if cfg["bm"] == "None" and obs["default_levy"] is not None and sel["levy"] != "unset":
        if obs["default_levy"] != sel["levy"]:
            # only a property-level failure if the run then misbehaves (caught above); else drift
            drifts.append(f"default Brownian motion has levy_area_approximation={obs['default_levy']}, the spec "
                          f"says {sel['levy']} ({what})")
    return findings, drifts, notes


# ---------------------------------------------------------------------------------------
# parallel driver
# ---------------------------------------------------------------------------------------

_limited = False


def _limit_memory():
    """Pool workers only: a mutated library must not be able to exhaust the machine."""
    global _limited
    if _limited:
        return
    _limited = True
    try:
        import resource
        with open("/proc/self/status") as fh:
            vm_kb = [int(l.split()[1]) for l in fh if l.startswith("VmSize:")][0]
        lim = vm_kb * 1024 + 4 * 2 ** 30
        resource.setrlimit(resource.RLIMIT_AS, (lim, lim))
    except Exception:  # noqa: observation aid only
        pass


def _work(chunk, limit=True):
    install()
    if limit and multiprocessing.current_process().name != "MainProcess":
        _limit_memory()
    out = []
    for idx, cfg, inst, badkind, seed in chunk:
        try:
            out.append((idx, inst, badkind, run_one(cfg, inst, badkind, seed)))
        except Exception as e:  # harness failure, not an observation
            import traceback
            out.append((idx, inst, badkind, dict(harness_error=traceback.format_exc()[-1500:])))
    return out


def run_many(entries, seed, procs=None, chunk=64):
    """entries: list of spec entries.  Yields (entry_index, inst, badkind, obs)."""
    jobs = []
    for i, e in enumerate(entries):
        for inst, badkind in instances(e["cfg"]):
            jobs.append((i, e["cfg"], inst, badkind, seed))
    # documented-OK runs are the expensive ones: spread them evenly
    jobs.sort(key=lambda j: (hash((j[0] * 2654435761) & 0xffffffff)))
    chunks = [jobs[k:k + chunk] for k in range(0, len(jobs), chunk)]
    procs = procs or max(2, min(16, (os.cpu_count() or 4)) // 2)
    if procs <= 1 or len(jobs) < 200:
        for c in chunks:
            for r in _work(c):
                yield r
        return
    install()   # import torch / torchsde before forking (the import dominates a worker's start-up)
    ctx = multiprocessing.get_context("fork")
    with ctx.Pool(procs) as pool:
        for res in pool.imap_unordered(_work, chunks):
            for r in res:
                yield r


# ---------------------------------------------------------------------------------------
# quick-tier slice: pairwise covering over the configuration fields
# ---------------------------------------------------------------------------------------

FIELDS = ("api", "st", "nt", "method", "gf", "bm", "levy", "adaptive", "logqp", "adj", "agf", "mal")


def pairwise_slice(entries, rng, extra_fields=("outcome", "failedAt")):
    """Greedy subset of `entries` covering every pair of (field=value, field=value) that occurs."""
    order = list(range(len(entries)))
    rng.shuffle(order)
    covered = set()
    chosen = []

    def feats(e):
        f = [(k, e["cfg"][k]) for k in FIELDS] + [(k, e[k]) for k in extra_fields]
        return f

    for i in order:
        f = feats(entries[i])
        new = False
        for a, b in itertools.combinations(f, 2):
            if (a, b) not in covered:
                new = True
                break
        if new:
            chosen.append(i)
            covered.update(itertools.combinations(f, 2))
    return sorted(chosen)


# ---------------------------------------------------------------------------------------
# defaults as a relation between real runs (independent of any wrapper)
# ---------------------------------------------------------------------------------------

def default_relation_checks(default_rows, seed):
    """default_rows: list of dicts {st, nt, method(doc default), adjoint: {fwd_method: doc default adjoint}}
    taken from the spec's output.  For each: the run with method=None must be torch.equal to the run with
    the documented default passed explicitly (same Brownian seed); same for adjoint_method=None (gradients)."""
    install()
    torch = _torch()
    import torchsde
    problems = []
    n = 0
    with warnings.catch_warnings():
        warnings.simplefilter("ignore")
        for row in default_rows:
            cfg = dict(api="sdeint", st=row["st"], nt=row["nt"], method="None", gf=False, bm="given",
                       levy="foster", adaptive=False, logqp=False, adj="NA", agf=False, mal="none")

            def solve(method, adjoint=None, api="sdeint"):
                c = dict(cfg, method=method, api=api, adj=adjoint if adjoint else "NA")
                sde, y0, ts, kw, rec = build(c, "plain", "", seed)
                if api == "sdeint":
                    return torchsde.sdeint(sde, y0, ts, **kw), None
                ys = torchsde.sdeint_adjoint(sde, y0, ts, **kw)
                (ys ** 2).sum().backward()
                return ys, (sde.a.grad.clone(), sde.b.grad.clone())

            try:
                ys_none, _ = solve("None")
                ys_doc, _ = solve(row["method"])
            except Exception as e:  # noqa: a documented-OK call failed (also reported by the product runs)
                problems.append((dict(finding="default-method-relation", st=row["st"], nt=row["nt"],
                                      documented=row["method"], exc=type(e).__name__),
                                 f"documented default run failed for {row['st']}/{row['nt']}: {e}"))
                continue
            n += 1
            if not torch.equal(ys_none, ys_doc):
                problems.append((dict(finding="default-method-relation", st=row["st"], nt=row["nt"],
                                      documented=row["method"]),
                                 f"sdeint(method=None) differs from sdeint(method={row['method']!r}) under the same "
                                 f"Brownian motion for {row['st']}/{row['nt']} (max diff "
                                 f"{float((ys_none - ys_doc).abs().max()):.3e})"))
            for fwd, adj in row["adjoint"].items():
                try:
                    y1, g1 = solve(fwd, "None", api="sdeint_adjoint")
                    y2, g2 = solve(fwd, adj, api="sdeint_adjoint")
                except Exception as e:  # noqa
                    problems.append((dict(finding="default-adjoint-relation", st=row["st"], nt=row["nt"], method=fwd,
                                          documented=adj, exc=type(e).__name__),
                                     f"documented default adjoint run failed for {row['st']}/{row['nt']}/{fwd}: {e}"))
                    continue
                n += 1
                if not (torch.equal(y1, y2) and all(torch.equal(a, b) for a, b in zip(g1, g2))):
                    problems.append((dict(finding="default-adjoint-relation", st=row["st"], nt=row["nt"], method=fwd,
                                          documented=adj),
                                     f"sdeint_adjoint(method={fwd!r}, adjoint_method=None) gives other gradients than "
                                     f"adjoint_method={adj!r} for {row['st']}/{row['nt']}"))
    return n, problems
