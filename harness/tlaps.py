"""Runner for the TLA+ proof system (tlapm) on modules of /verif/spec, in a scratch directory."""
import os
import re
import shutil
import subprocess
import tempfile
import time

from . import tlc


class ProofResult:
    def __init__(self, module, obligations, proved, failed, wall, output):
        self.module, self.obligations, self.proved, self.failed, self.wall, self.output = \
            module, obligations, proved, failed, wall, output

    @property
    def ok(self):
        return self.obligations > 0 and self.failed == 0 and self.proved == self.obligations

    def summary(self):
        return dict(module=self.module, obligations=self.obligations, discharged=self.proved, failed=self.failed,
                    wall_s=self.wall, checker="tlapm (Z3 back end)")


def run(module, extra_modules=None, timeout=900, threads=4):
    """Copy spec/*.tla (plus generated modules) to a scratch dir and run tlapm on `module`."""
    work = tempfile.mkdtemp(prefix="verif_tlaps_")
    try:
        for fn in os.listdir(tlc.SPEC_DIR):
            if fn.endswith(".tla"):
                shutil.copy(os.path.join(tlc.SPEC_DIR, fn), work)
        for name, text in (extra_modules or {}).items():
            with open(os.path.join(work, name + ".tla"), "w") as fh:
                fh.write(text)
        t0 = time.time()
        try:
            pr = subprocess.run(["tlapm", "--threads", str(threads), module + ".tla"], cwd=work, capture_output=True,
                                text=True, timeout=timeout)
        except subprocess.TimeoutExpired:
            raise tlc.TLCMachineryError(f"tlapm {module}: timeout after {timeout}s")
        out = (pr.stdout or "") + (pr.stderr or "")
        m = re.search(r"All (\d+) obligations? proved", out)
        if m:
            n = int(m.group(1))
            return ProofResult(module, n, n, 0, round(time.time() - t0, 1), out[-3000:])
        m = re.search(r"(\d+)/(\d+) obligations? failed", out)
        if m:
            f, n = int(m.group(1)), int(m.group(2))
            return ProofResult(module, n, n - f, f, round(time.time() - t0, 1), out[-3000:])
        raise tlc.TLCMachineryError(f"tlapm {module}: unrecognised output\n{out[-2000:]}")
    finally:
        shutil.rmtree(work, ignore_errors=True)
