"""Run (part of) the repository's own test-suite under the harvesting plugin (harness/harvest.py) and validate
the harvested traces with TLC against TraceLoop.tla / TraceBrownian.tla.

Used by the thorough tiers (and, on a small selection, the quick tiers) of C03, C05, C07 (Brownian traces) and
C12, C14 (loop traces).  Verdict mapping (property-level clauses only):

  loop, fixed     Tiling StepLen Queries ValueFlow OutOrder OutReady OutBracket OutValue Complete Shape -> C12
  loop, adaptive  Tiling Midpoint Queries StepLen MinStep ErrorArgs ErrorNorm Clamp AcceptRule RetrySmaller
                  HalfStepValue ExtraState Complete Terminates                                        -> C14
  brownian        Tiles Partition Additive ZeroLen -> C03; RefineOnly NoSameSpanChild Repeat RepeatValue audit -> C05;
                  CacheBound, RecursionError/AttributeError/KeyError on a call                        -> C07
"""
import glob
import json
import os
import shutil
import subprocess
import tempfile
import time

from . import tlc
from . import common

MECHANISM_ONLY_ADAPTIVE = {"Queries"}      # which Brownian intervals a trial asks for is mechanism, not property (C14)
C03_CLAUSES = {"Tiles", "Partition", "Additive", "ZeroLen"}
C05_CLAUSES = {"RefineOnly", "NoSameSpanChild", "Repeat", "RepeatValue", "Audit"}
C07_CLAUSES = {"CacheBound", "Exception"}
CRASH_TYPES = {"RecursionError", "AttributeError", "KeyError", "IndexError", "ZeroDivisionError", "TypeError"}

SELECTIONS = {
    # name -> pytest arguments (relative to the repository root)
    "brownian": ["tests/test_brownian_interval.py", "tests/test_brownian_path.py", "tests/test_brownian_tree.py"],
    "brownian_quick": ["tests/test_brownian_interval.py::test_shape", "tests/test_brownian_interval.py::test_determinism_simple",
                       "tests/test_brownian_tree.py::test_basic", "tests/test_brownian_path.py::test_basic"],
    "sdeint": ["tests/test_sdeint.py"],
    "sdeint_quick": ["tests/test_sdeint.py::test_sdeint_dependencies", "tests/test_sdeint.py::test_reversibility",
                     "tests/test_sdeint.py::test_rename_methods", "tests/test_sdeint.py::test_specialised_functions"],
    "adjoint": ["tests/test_adjoint.py"],
    "adjoint_quick": ["tests/test_adjoint.py::test_basic"],
}


def run_pytest(selection, kinds, workers=16, timeout=3000, k_expr=None, bm_events=None):
    """Returns (outdir, summary dict).  The caller removes outdir."""
    outdir = tempfile.mkdtemp(prefix="verif_harvest_")
    env = dict(os.environ)
    env["PYTHONPATH"] = common.VERIF + os.pathsep + env.get("PYTHONPATH", "")
    env["VERIF_HARVEST_DIR"] = outdir
    env["VERIF_HARVEST_KINDS"] = ",".join(kinds)
    if bm_events:
        env["VERIF_HARVEST_BM_EVENTS"] = str(bm_events)
    env["OMP_NUM_THREADS"] = "1"
    env["MKL_NUM_THREADS"] = "1"
    cmd = ["/venv/bin/python", "-m", "pytest", "-q", "-p", "no:cacheprovider", "-p", "harness.harvest",
           "--timeout=900", "-x" if False else "-q"]
    if workers and workers > 1:
        cmd += ["-n", str(workers)]
    if k_expr:
        cmd += ["-k", k_expr]
    cmd += list(selection)
    t0 = time.time()
    pr = subprocess.run(cmd, cwd=common.REPO, env=env, capture_output=True, text=True, timeout=timeout)
    tail = (pr.stdout or "")[-1500:]
    summ = dict(cmd=" ".join(cmd), rc=pr.returncode, wall=round(time.time() - t0, 1), tail=tail.strip().splitlines()[-3:])
    return outdir, summ


def load(outdir, kind):
    recs, mach = [], []
    for fn in sorted(glob.glob(os.path.join(outdir, f"{kind}-*.ndjson"))):
        with open(fn) as fh:
            for line in fh:
                line = line.strip()
                if not line:
                    continue
                d = json.loads(line)
                (mach if "machinery" in d else recs).append(d)
    return recs, mach


def validate_loop(ctx, recs, label, parallel=8, timeout=1500):
    """Returns list of (record, failing clause names, at)."""
    from . import loop as L
    traces = [(r["tid"], r["hdr"], r["ev"]) for r in recs]
    verdicts = L.validate_traces(ctx, traces, label, timeout=timeout, parallel=parallel)
    bad = []
    for r in recs:
        ok, at, clauses = verdicts[r["tid"]]
        if not ok:
            bad.append((r, clauses, at))
    return bad


def validate_brownian(ctx, recs, label, chunk=150, timeout=1500):
    """Returns list of (record, clause, at) for rejected traces / failed monitors."""
    from . import brownian_run as BR
    from concurrent.futures import ThreadPoolExecutor
    bad = []
    for r in recs:
        for clause, detail in r.get("fails", []):
            bad.append((r, clause, detail))
        if r.get("n_audit_changed"):
            bad.append((r, "Audit", r.get("audit_changed")))
        for exc in r.get("exceptions", []):
            if exc[0] in CRASH_TYPES:
                bad.append((r, "Exception", exc))
    traces = [r["trace"] for r in recs]
    chunks = [list(range(i, min(i + chunk, len(traces)))) for i in range(0, len(traces), chunk)]

    class _Sub:                                    # collects TLC runs from threads
        def __init__(self):
            self.runs = []

        def add_tlc(self, res, lab):
            self.runs.append((res, lab))

    def work(idx):
        sub = _Sub()
        rej = BR.validate_traces(sub, [traces[i] for i in idx], label, timeout=timeout)
        return sub, [(idx[i], clause, at) for i, clause, at in rej]

    with ThreadPoolExecutor(max_workers=4) as ex:
        for sub, rej in ex.map(work, chunks):
            for res, lab in sub.runs:
                ctx.add_tlc(res, lab)
            for i, clause, at in rej:
                bad.append((recs[i], clause, dict(at=at)))
    return bad


def _selftest_loop(ctx, recs):
    """Binding is not vacuous: corrupt one recorded field of an accepted trace, TLC must reject it."""
    import copy
    from . import loop as L
    out = {}
    cand = [r for r in recs if any(e["k"] == "fstep" for e in r["ev"])][:1]
    cand += [r for r in recs if any(e["k"] == "trial" and not e["acc"] for e in r["ev"])][:1]
    for n, r in enumerate(cand):
        c = copy.deepcopy(r)
        if n == 0:
            e = next(e for e in c["ev"] if e["k"] == "fstep")
            e["q"] = [[e["q"][0][0], e["q"][0][1] + 1]]            # the Brownian query is not the step taken
            want = "Queries"
        else:
            e = next(e for e in c["ev"] if e["k"] == "trial" and not e["acc"])
            e["acc"] = True                                        # a rejected trial recorded as accepted
            want = "AcceptRule"
        v = L.validate_traces(ctx, [("selftest", c["hdr"], c["ev"])], "harvest self-test (corrupted trace)", timeout=300)
        ok, at, clauses = v["selftest"]
        if ok:
            raise tlc.TLCMachineryError(f"harvest self-test: corrupted loop trace ({want}) was accepted")
        out[want] = clauses
    return out


def _selftest_brownian(ctx, recs):
    import copy
    from . import brownian_run as BR
    out = {}
    cand = [r for r in recs if any(len(e["pieces"]) >= 1 and e["newNodes"] for e in r["trace"]["events"])][:1]
    for r in cand:
        c = copy.deepcopy(r["trace"])
        e = next(e for e in c["events"] if len(e["pieces"]) >= 1 and e["newNodes"])
        e["newNodes"][0][2] += 1                                   # a child that does not partition its parent
        rej = BR.validate_traces(ctx, [c], "harvest self-test (corrupted Brownian trace)", timeout=300)
        if not rej:
            raise tlc.TLCMachineryError("harvest self-test: corrupted Brownian trace was accepted")
        out["corrupted_child_span"] = rej[0][1]
    return out


def harvest(ctx, selection_name, kinds, pid_map=None, workers=16, k_expr=None, bm_events=None, selftest=True):
    """Run, validate, report.  pid_map: clause -> property id, only violations of ctx.pid are reported as
    violations; others are noted (they are reported by the check of their own property)."""
    sel = SELECTIONS[selection_name]
    outdir, summ = run_pytest(sel, kinds, workers=workers, k_expr=k_expr, bm_events=bm_events)
    try:
        note = dict(selection=selection_name, pytest=summ)
        if summ["rc"] not in (0, 1):
            raise tlc.TLCMachineryError(f"harvest: pytest exited {summ['rc']}: {summ['tail']}")
        other = {}
        if "loop" in kinds:
            recs, mach = load(outdir, "loop")
            note["loop_traces"] = len(recs)
            note["loop_machinery"] = len(mach)
            if mach:
                note["loop_machinery_sample"] = mach[0]
            stats = dict(adaptive=sum(1 for r in recs if r["info"]["adaptive"]),
                         backward=sum(1 for r in recs if r["info"]["backward"]),
                         rejected_trials=sum(r["info"]["rejected"] for r in recs),
                         trials=sum(r["info"]["trials"] for r in recs), cut=sum(1 for r in recs if r["info"]["cut"]),
                         solvers=sorted({r["info"]["solver"] for r in recs}),
                         events=sum(len(r["ev"]) for r in recs))
            note["loop_stats"] = stats
            bad = validate_loop(ctx, recs, f"harvest {selection_name} loop") if recs else []
            if selftest:
                note["loop_selftest_rejected_by"] = _selftest_loop(ctx, [r for r in recs if id(r) not in {id(b[0]) for b in bad}])
            badset = {id(b[0]) for b in bad}
            for r in recs:
                if id(r) not in badset:
                    ctx.case(("harvest-loop", r["info"]["solver"], r["info"]["adaptive"], r["info"]["backward"],
                              len(r["ev"]) // 8), trace=True,
                             sample=dict(source="repository test", test=r["info"]["test"], hdr=r["hdr"], events=r["ev"][:4]))
            for r, clauses, at in bad:
                mode = "adaptive" if r["info"]["adaptive"] else "fixed"
                prop = "C14" if mode == "adaptive" else "C12"
                key = dict(source="harvest", mode=mode, solver=r["info"]["solver"], clause=",".join(sorted(clauses)))
                msg = (f"trace harvested from {r['info']['test']} rejected by TraceLoop at event {at}: clauses {clauses}; "
                       f"event {r['ev'][at - 1] if 0 < at <= len(r['ev']) else None}")
                if mode == "adaptive" and set(clauses) <= MECHANISM_ONLY_ADAPTIVE:
                    ctx.drift(msg[:300])
                elif prop == ctx.pid:
                    ctx.violation(key, msg, replay=dict(kind="harvest-loop", record=r))
                else:
                    other.setdefault(prop, []).append(msg[:300])
        if "brownian" in kinds:
            recs, mach = load(outdir, "brownian")
            note["brownian_traces"] = len(recs)
            note["brownian_machinery"] = len(mach)
            if mach:
                note["brownian_machinery_sample"] = mach[0]
            note["brownian_stats"] = dict(calls=sum(r["info"]["calls"] for r in recs),
                                          events=sum(r["info"]["events"] for r in recs),
                                          repeats_checked=sum(r["info"]["repeats"] for r in recs),
                                          additivity_checked=sum(r["info"]["additive"] for r in recs),
                                          truncated=sum(1 for r in recs if r["info"]["truncated"]),
                                          halfway=sum(1 for r in recs if r["info"]["halfway"]),
                                          max_nodes=max([r["info"]["nodes"] for r in recs] or [0]))
            bad = validate_brownian(ctx, recs, f"harvest {selection_name} brownian") if recs else []
            if selftest:
                note["brownian_selftest_rejected_by"] = _selftest_brownian(
                    ctx, [r for r in recs if id(r) not in {id(b[0]) for b in bad}])
            badset = {id(b[0]) for b in bad}
            for r in recs:
                if id(r) not in badset:
                    ctx.case(("harvest-bm", r["info"]["levy"], r["info"]["halfway"], r["info"]["cache_size"],
                              min(r["info"]["events"], 50)), trace=True,
                             sample=dict(source="repository test", test=r["test"], events=r["trace"]["events"][:3]))
            for r, clause, detail in bad:
                prop = "C03" if clause in C03_CLAUSES else "C07" if clause in C07_CLAUSES else "C05"
                key = dict(source="harvest", clause=clause, levy=r["info"]["levy"], halfway=r["info"]["halfway"])
                msg = f"Brownian trace harvested from {r['test']} fails clause {clause}: {detail}"
                if prop == ctx.pid:
                    ctx.violation(key, msg, replay=dict(kind="harvest-brownian", record=r))
                else:
                    other.setdefault(prop, []).append(msg[:300])
        if other:
            note["failures_of_other_properties"] = {k: v[:3] for k, v in other.items()}
        ctx.notes.setdefault("harvest", []).append(note)
        return note
    finally:
        shutil.rmtree(outdir, ignore_errors=True)


def replay(rp):
    """Re-run the single repository test a rejected trace was harvested from, under the plugin, and validate again.
    Returns 1 when a trace of that test is rejected again."""
    rec = rp["record"]
    test = rec.get("test") or rec.get("info", {}).get("test")
    kind = "loop" if rp["kind"] == "harvest-loop" else "brownian"
    outdir, summ = run_pytest([test], [kind], workers=0)
    try:
        recs, _ = load(outdir, kind)

        class _C:
            def add_tlc(self, *a):
                pass
        bad = validate_loop(_C(), recs, "replay", parallel=1) if kind == "loop" else validate_brownian(_C(), recs, "replay")
        for b in bad[:5]:
            print(b[1], b[2])
        print(f"{len(recs)} traces harvested from {test}, {len(bad)} rejected")
        return 1 if bad else 0
    finally:
        shutil.rmtree(outdir, ignore_errors=True)
