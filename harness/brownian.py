"""Driver / recorder / projection for the real torchsde Brownian objects.

The TLA+ model (spec/BrownianImpl.tla) measures time in integer sub-units on [0, N*Sub]; the real
object is BrownianInterval(t0=0, t1=N, ...) with real time = x / Sub (Sub a power of two: every
midpoint the code computes is exact in float64).  Tol = 0 <-> tol = 0 ; Tol = Sub <-> tol = 1.0
(ndigits = 0, Python round-half-even to whole ticks).

Everything here observes; nothing here decides a property.  Private attributes are read for the
structural projection only; if one is missing the projection is reported unavailable and API-level
relations still run.
"""
import math
import sys
import warnings

import torch

from torchsde._brownian import brownian_interval as _bi
import torchsde

warnings.filterwarnings("ignore", message=".*optimised for interval-based queries.*")


class Cfg:
    """Constants of one BrownianImpl instance."""

    def __init__(self, N, Sub=1, Tol=0, CacheSize=2, Halfway=False, DtHint=0, WarmUp=100, QStep=1, ZeroLen=False,
                 Fuel=12, MaxEval=3, MaxNodes=31, Legacy=False, off=0):
        self.N, self.Sub, self.Tol, self.CacheSize, self.Halfway = N, Sub, Tol, CacheSize, Halfway
        # `off`: origin of the real time axis in sub-units: model time x <-> real time (x + off) / Sub.  Not a constant
        # of the TLA+ model (which is translation invariant); with Tol > 0 it must be a multiple of 2 Tol so that
        # round-half-even resolves ties the same way.  Exercises intervals that straddle or lie left of zero.
        assert Tol == 0 or off % (2 * Tol) == 0, (Tol, off)
        self.off = off
        self.DtHint, self.WarmUp, self.QStep, self.ZeroLen = DtHint, WarmUp, QStep, ZeroLen
        self.Fuel, self.MaxEval, self.MaxNodes, self.Legacy = Fuel, MaxEval, MaxNodes, Legacy

    @property
    def T(self):
        return self.N * self.Sub

    def t(self, x):
        """real time of model time x (sub-units)"""
        return (x + self.off) / self.Sub

    def shifted(self, off):
        c = Cfg(self.N, self.Sub, self.Tol, self.CacheSize, self.Halfway, self.DtHint, self.WarmUp, self.QStep, self.ZeroLen,
                self.Fuel, self.MaxEval, self.MaxNodes, self.Legacy, off=off)
        return c

    def offsets(self):
        """origins tried by the replays: 0, the interval centred at zero, entirely negative, far to the right"""
        step = 2 * self.Tol if self.Tol else 1
        cands = [0, -(self.T // 2), -self.T, 3 * self.T]
        return [o for o in cands if o % step == 0]

    def key(self):
        return (f"N{self.N}s{self.Sub}t{self.Tol}c{self.CacheSize}h{int(self.Halfway)}d{self.DtHint}"
                f"w{self.WarmUp}q{self.QStep}z{int(self.ZeroLen)}")

    def constants_cfg(self):
        b = lambda x: "TRUE" if x else "FALSE"  # noqa: E731
        s = (f"CONSTANTS N={self.N} Sub={self.Sub} Tol={self.Tol} Halfway={b(self.Halfway)} DtHint={self.DtHint} "
             f"WarmUp={self.WarmUp} QStep={self.QStep} ZeroLen={b(self.ZeroLen)} Fuel={self.Fuel} "
             f"MaxEval={self.MaxEval} MaxNodes={self.MaxNodes} Legacy={b(self.Legacy)}\n")
        s += "CONSTANT CacheSize <- Unlimited\n" if self.CacheSize < 0 else f"CONSTANT CacheSize = {self.CacheSize}\n"
        return s

    def as_dict(self):
        d = dict(N=self.N, Sub=self.Sub, Tol=self.Tol, CacheSize=self.CacheSize, Halfway=self.Halfway,
                 DtHint=self.DtHint, WarmUp=self.WarmUp, QStep=self.QStep, ZeroLen=self.ZeroLen)
        if self.off:
            d["off"] = self.off
        return d

    def round(self, x):
        """The model's Round on integer sub-units (round-half-even to multiples of Tol)."""
        if self.Tol == 0:
            return x
        k, r = divmod(x, self.Tol)
        if 2 * r < self.Tol:
            return k * self.Tol
        if 2 * r > self.Tol:
            return (k + 1) * self.Tol
        return k * self.Tol if k % 2 == 0 else (k + 1) * self.Tol


_GRID_ONE_TOLS = (1.0, 2.0, 5.0, 0.5, 1.0, 3.0)


def make_real(cfg, size=(), levy="none", entropy=1234, W=None, H=None, dtype=torch.float64, scale_warmup=True):
    """Construct the real object the model instance describes."""
    # The library resolves times to the grid 10**-ndigits, ndigits = -int(log10(tol)): every tol in (0.1, 10) means
    # the grid of whole ticks the model calls Tol.  The value handed over rotates among such tolerances (not only the
    # power of ten): nothing but the grid may matter.
    tol = _GRID_ONE_TOLS[(int(entropy) + cfg.N + int(cfg.off)) % len(_GRID_ONE_TOLS)] if cfg.Tol else 0.0
    kw = dict(t0=cfg.t(0), t1=cfg.t(cfg.T), size=size if (W is None and H is None) else None, dtype=dtype,
              entropy=entropy, tol=tol,
              cache_size=None if cfg.CacheSize < 0 else cfg.CacheSize,
              halfway_tree=bool(cfg.Halfway), levy_area_approximation=levy)
    if cfg.DtHint:
        kw["dt"] = cfg.DtHint / cfg.Sub
    if W is not None:
        kw["W"] = W
    if H is not None:
        kw["H"] = H
    if kw["size"] is None:
        kw.pop("size")
    bm = torchsde.BrownianInterval(**kw)
    if scale_warmup and cfg.WarmUp != 100 and not cfg.Halfway and not cfg.DtHint:
        # scaling aid for small exhaustive models: shorten the warm-up period (observation aid only;
        # long-history checks run with the real constant 100)
        if hasattr(bm, "_num_evaluations"):
            bm._num_evaluations = -cfg.WarmUp
        else:
            raise ProjectionUnavailable("_num_evaluations")
    return bm


class ProjectionUnavailable(Exception):
    pass


def _as_units(x, sub):
    """model time (sub-units) of real time x; `sub` is a Cfg (or, legacy, the integer Sub with origin 0)"""
    v = x * sub.Sub - sub.off if isinstance(sub, Cfg) else x * sub
    iv = int(round(v))
    if abs(v - iv) > 1e-9:
        raise ProjectionUnavailable(f"time {x!r} is not on the sub-unit grid")
    return iv


def project(bm, sub):
    """Abstract state of a real BrownianInterval: tree {path: (s, e, mid)}, cache [paths], last path,
    counters.  Paths are strings over '0'/'1' ('' = root)."""
    try:
        tree = {}
        ids = {}
        stack = [(bm, "")]
        while stack:
            node, path = stack.pop()
            ids[id(node)] = path
            mid = node._midway
            tree[path] = (_as_units(node._start, sub), _as_units(node._end, sub),
                          -1 if mid is None else _as_units(mid, sub))
            if mid is not None:
                stack.append((node._left_child, path + "0"))
                stack.append((node._right_child, path + "1"))
        c = bm._increment_and_space_time_levy_area_cache
        if isinstance(c, _bi._LRUDict):
            cache = [ids[id(k)] for k in c._keys]
        elif isinstance(c, dict):
            cache = [ids[id(k)] for k in c.keys()]
        else:
            cache = []
        st = dict(tree=tree, cache=cache, last=ids[id(bm._last_interval)])
        if not bm._halfway_tree:
            scale = sub.Sub if isinstance(sub, Cfg) else sub
            st["nEval"] = bm._num_evaluations
            st["treeDt"] = bm._tree_dt * scale
            st["avgDt"] = bm._average_dt * scale
        return st, ids
    except (AttributeError, KeyError) as e:
        raise ProjectionUnavailable(repr(e))


def cache_len(bm):
    """Number of cached entries, through the public container protocol only."""
    c = getattr(bm, "_increment_and_space_time_levy_area_cache", None)
    try:
        return len(c)
    except TypeError:
        return 0


class LocRecorder:
    """Wraps _Interval._loc (looked up through the class at call time) to record the pieces returned
    for each call and the Python frame depth at which it was called."""

    def __init__(self):
        self.calls = []
        self.max_depth = 0
        self._orig = None

    def __enter__(self):
        rec = self
        orig = _bi._Interval._loc
        self._orig = orig

        def _loc(self_, ta, tb):
            d = 0
            f = sys._getframe()
            while f is not None:
                d += 1
                f = f.f_back
            if d > rec.max_depth:
                rec.max_depth = d
            out = orig(self_, ta, tb)
            rec.calls.append((self_, ta, tb, out))
            return out

        _bi._Interval._loc = _loc
        # the dyadic _split recurses below _loc: sample the frame depth at every node creation too
        self._orig_split = getattr(_bi._Interval, "_split_exact", None)
        if self._orig_split is not None:
            orig_split = self._orig_split

            def _split_exact(self_, midway):
                d = 0
                f = sys._getframe()
                while f is not None:
                    d += 1
                    f = f.f_back
                if d > rec.max_depth:
                    rec.max_depth = d
                return orig_split(self_, midway)

            _bi._Interval._split_exact = _split_exact
        # ... and inside the value computation: the walk to the nearest cached ancestor draws noise through the
        # module-level _randn for every node it computes; its frame depth shows whether that walk recurses
        self._orig_randn = getattr(_bi, "_randn", None)
        if self._orig_randn is not None:
            orig_randn = self._orig_randn

            def _randn(*a, **k):
                d = 0
                f = sys._getframe()
                while f is not None:
                    d += 1
                    f = f.f_back
                if d > rec.max_depth:
                    rec.max_depth = d
                return orig_randn(*a, **k)

            _bi._randn = _randn
        return self

    def __exit__(self, *a):
        _bi._Interval._loc = self._orig
        if self._orig_split is not None:
            _bi._Interval._split_exact = self._orig_split
        if self._orig_randn is not None:
            _bi._randn = self._orig_randn

    def reset(self):
        self.calls = []
        self.max_depth = 0


def base_depth():
    d = 0
    f = sys._getframe()
    while f is not None:
        d += 1
        f = f.f_back
    return d


class NonTermination(RuntimeError):
    """A public call used more than CALL_CPU_LIMIT_S seconds of CPU time (a query needs microseconds to milliseconds)."""


CALL_CPU_LIMIT_S = 20.0


class cpu_watchdog:
    """Bounds the CPU time (not wall-clock time: the machine may be busy) of a call on the real code, so that a
    search that never terminates becomes an observable failure instead of a hung check.  Main thread only; elsewhere
    it is a no-op."""

    fires = 0          # once a few calls have run into the limit, later ones get a short one (keeps a broken tree fast)

    def __init__(self, seconds=CALL_CPU_LIMIT_S):
        self.seconds = seconds if cpu_watchdog.fires < 3 else min(seconds, 3.0)
        self.armed = False

    def _fire(self, signum, frame):
        cpu_watchdog.fires += 1
        raise NonTermination(f"no result within {self.seconds}s of CPU time")

    def __enter__(self):
        import signal
        import threading
        if threading.current_thread() is threading.main_thread():
            try:
                self.old = signal.signal(signal.SIGPROF, self._fire)
                signal.setitimer(signal.ITIMER_PROF, self.seconds)
                self.armed = True
            except (ValueError, OSError):
                self.armed = False
        return self

    def __exit__(self, *exc):
        if self.armed:
            import signal
            signal.setitimer(signal.ITIMER_PROF, 0)
            signal.signal(signal.SIGPROF, self.old)
        return False


def call(bm, a, b, sub, levy):
    """One public call with real times a/sub, b/sub.  Returns (W, U, A) (U/A None when not available)."""
    with cpu_watchdog():
        return _call(bm, a, b, sub, levy)


def _call(bm, a, b, sub, levy):
    ta, tb = (sub.t(a), sub.t(b)) if isinstance(sub, Cfg) else (a / sub, b / sub)
    if levy in ("none",):
        return bm(ta, tb), None, None
    if levy == "space-time":
        W, U = bm(ta, tb, return_U=True)
        return W, U, None
    W, U, A = bm(ta, tb, return_U=True, return_A=True)
    return W, U, A


def step_real(bm, a, b, cfg, levy, rec=None):
    """Execute one query, catching exceptions.  Returns dict(W,U,A,exc,pieces,depth)."""
    out = dict(W=None, U=None, A=None, exc=None, pieces=None, depth=None)
    if rec is not None:
        rec.reset()
    try:
        with warnings.catch_warnings():
            warnings.simplefilter("ignore")
            out["W"], out["U"], out["A"] = call(bm, a, b, cfg, levy)
    except RecursionError as e:
        out["exc"] = "RecursionError"
    except Exception as e:  # noqa: BLE001
        out["exc"] = type(e).__name__
        out["exc_msg"] = str(e)[:200]
    if rec is not None and out["exc"] is None and rec.calls:
        node, ta, tb, pieces = rec.calls[-1]
        try:
            out["pieces"] = [(_as_units(p._start, cfg), _as_units(p._end, cfg)) for p in pieces]
            out["piece_nodes"] = pieces
        except (ProjectionUnavailable, AttributeError):
            out["pieces"] = None
        out["depth"] = rec.max_depth
    return out


def path_str(p):
    return "".join(str(x) for x in p)


def spec_tree_to_py(tree_json):
    """ToJson of the spec's tree-as-sequence dump: list of [path, s, e, mid]."""
    return {path_str(e[0]): (e[1], e[2], e[3]) for e in tree_json}


# ---------------------------------------------------------------------------------------
# Replay of model behaviours into the real object
# ---------------------------------------------------------------------------------------

def replay(cfg, queries, size=(), levy="none", entropy=1234, W=None, H=None, dtype=torch.float64,
           structural=True):
    """Run `queries` (pairs of integer sub-units) on a fresh real object.  Returns (bm, steps); each step is the
    dict of step_real plus 'state' (structural projection after the call, or None)."""
    bm = make_real(cfg, size=size, levy=levy, entropy=entropy, W=W, H=H, dtype=dtype)
    steps = []
    rec = LocRecorder()
    with rec:
        for (a, b) in queries:
            r = step_real(bm, a, b, cfg, levy, rec)
            r["q"] = (a, b)
            r["cache_len"] = cache_len(bm)
            if structural:
                try:
                    st, _ = project(bm, cfg)
                except ProjectionUnavailable as e:
                    st = None
                    r["projection_unavailable"] = str(e)
                r["state"] = st
            steps.append(r)
            if r["exc"]:
                break
    return bm, steps


def init_state_matches(cfg, beh_tree0=None):
    return True


def compare_with_model(cfg, beh, steps):
    """Implementation-shaped comparison (-> model drift, never a verdict): pieces, cache order, cursor,
    warm-up counters after every step and the final tree."""
    drift = []
    hist = beh["hist"]
    for k, (h, r) in enumerate(zip(hist, steps)):
        if h["err"]:
            if r["exc"] is None:
                drift.append(f"step {k} {h['q']}: model predicts {h['err']}, code returned normally")
            break
        if r["exc"] is not None:
            drift.append(f"step {k} {h['q']}: code raised {r['exc']}, model predicts normal return")
            break
        st = r.get("state")
        if st is None:
            continue
        spans = [tuple(x) for x in h["spans"]]
        if r["pieces"] is not None and h["out"] and spans != r["pieces"]:
            drift.append(f"step {k} {h['q']}: pieces {r['pieces']} != model {spans}")
        mcache = [path_str(p) for p in h["cache"]]
        if st["cache"] != mcache:
            drift.append(f"step {k} {h['q']}: cache {st['cache']} != model {mcache}")
        if st["last"] != path_str(h["last"]):
            drift.append(f"step {k} {h['q']}: cursor {st['last']!r} != model {path_str(h['last'])!r}")
        if len(st["tree"]) != h["nn"]:
            drift.append(f"step {k} {h['q']}: {len(st['tree'])} nodes != model {h['nn']}")
        if "nEval" in st and not cfg.Halfway and not cfg.DtHint:
            if st["nEval"] != h["nEval"]:
                drift.append(f"step {k}: nEval {st['nEval']} != model {h['nEval']}")
            if abs(st["treeDt"] - h["treeDt"]) > 1e-9:
                drift.append(f"step {k}: treeDt {st['treeDt']} != model {h['treeDt']}")
    if len(steps) == len(hist) and steps and steps[-1].get("state") is not None and not hist[-1]["err"] \
            and steps[-1]["exc"] is None:
        mtree = spec_tree_to_py(beh["tree"])
        if steps[-1]["state"]["tree"] != mtree:
            a, b = steps[-1]["state"]["tree"], mtree
            diff = {k: (a.get(k), b.get(k)) for k in set(a) | set(b) if a.get(k) != b.get(k)}
            drift.append(f"final tree differs: {dict(list(diff.items())[:4])}")
    return drift
