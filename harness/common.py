"""Shared helpers: tier/seed, context object carrying evidence + verdicts, numeric comparisons."""
import json
import os
import sys
import time
import traceback

VERIF = os.path.dirname(os.path.dirname(os.path.abspath(__file__)))
REPO = os.environ.get("VERIF_REPO", "/repo")
GUARD = "TORCHSDE_VERIF"

os.environ.setdefault(GUARD, "1")
os.environ.setdefault("PYTHONHASHSEED", "0")

LEVELS = ("exploration", "fault_enumeration", "model_checking", "proof", "translation_validation", "other")


def load_known_findings():
    path = os.path.join(VERIF, "known_findings.json")
    if not os.path.exists(path):
        return {"known": [], "fixed": []}
    with open(path) as fh:
        return json.load(fh)


class Ctx:
    """One run of one property check.  Collects coverage, violations, known findings, model drift."""

    def __init__(self, property_id, tier, seed, level):
        assert level in LEVELS
        self.pid = property_id
        self.tier = tier
        self.seed = seed
        self.level = level
        self.t0 = time.time()
        self.states = 0
        self.transitions = 0
        self.traces = 0
        self.evaluations = 0
        self.nontrivial = set()
        self.samples = []
        self.tlc_runs = []
        self.violations = []        # (key, message, replay_path)
        self.known_hits = []
        self.model_drift = []
        self.assumptions = []
        self.notes = {}
        self.rule = ""
        self.exhaustive = None
        kf = load_known_findings()
        self.known = [k for k in kf.get("known", []) if k["property"] == property_id]
        self._reported_known = set()

    # ---- coverage -----------------------------------------------------------------
    def add_tlc(self, res, label=None):
        self.states += res.distinct
        self.transitions += res.generated
        d = res.summary()
        if label:
            d["label"] = label
        if res.coverage:
            d["actions_taken"] = {k: v[1] for k, v in res.coverage.items()}
        self.tlc_runs.append(d)

    def case(self, key=None, nontrivial=True, sample=None, trace=False):
        """Count one case executed on the real code."""
        self.evaluations += 1
        if trace:
            self.traces += 1
        if nontrivial and key is not None:
            self.nontrivial.add(key if isinstance(key, (str, int, tuple)) else json.dumps(key, sort_keys=True))
        if sample is not None and len(self.samples) < 6:
            self.samples.append(sample)

    # ---- verdicts -----------------------------------------------------------------
    def violation(self, key, message, replay=None):
        """A property-level failure on the real code.  `key` identifies the failing input class;
        if it matches an entry of known_findings.json it is reported as KNOWN-FINDING instead."""
        for k in self.known:
            if _match(k, key):
                if k["id"] not in self._reported_known:
                    self._reported_known.add(k["id"])
                    self.known_hits.append(dict(id=k["id"], key=key, message=message))
                    print(f"KNOWN-FINDING: property={self.pid} {k['id']}: {k['what']}", flush=True)
                return False
        rdir = os.environ.get("VERIF_REPLAY_DIR", os.path.join(VERIF, "replays"))
        os.makedirs(rdir, exist_ok=True)
        n = len(self.violations)
        path = os.path.join(rdir, f"{self.pid}-{n:03d}.json")
        with open(path, "w") as fh:
            json.dump(dict(property=self.pid, key=key, message=message, replay=replay, seed=self.seed,
                           tier=self.tier), fh, indent=1, default=str)
        self.violations.append((key, message, path))
        if n < 20:
            print(f"VIOLATION property={self.pid} replay={path}", flush=True)
            print(f"  {key}: {message}"[:600], flush=True)
        return True

    def drift(self, what):
        if len(self.model_drift) < 50:
            self.model_drift.append(what)

    # ---- output -------------------------------------------------------------------
    def finish(self):
        cov = dict(
            evaluations=int(self.evaluations),
            distinct_nontrivial=len(self.nontrivial),
            rule=self.rule,
            samples=self.samples if self.samples else [],
            states=int(self.states),
            transitions=int(self.transitions),
            traces_validated_against_impl=int(self.traces),
            tlc_runs=self.tlc_runs,
            model_drift=self.model_drift,
            known_findings_hit=self.known_hits,
        )
        if self.exhaustive is not None:
            cov["exhaustive"] = bool(self.exhaustive)
        cov.update(self.notes)
        ev = dict(property_id=self.pid, tier=self.tier, seed=int(self.seed), level=self.level, coverage=cov,
                  assumptions=self.assumptions, wall_s=round(time.time() - self.t0, 2),
                  violations=len(self.violations))
        # (VERIF_EVIDENCE_DIR / VERIF_REPLAY_DIR: used only when the checks are tried against seeded changes, so that
        # the committed evidence of the unchanged tree is not overwritten)
        edir = os.environ.get("VERIF_EVIDENCE_DIR", os.path.join(VERIF, "evidence"))
        os.makedirs(edir, exist_ok=True)
        with open(os.path.join(edir, f"{self.pid}.json"), "w") as fh:
            json.dump(ev, fh, indent=1, default=str)
        return 1 if self.violations else 0


def _match(entry, key):
    """A known-finding entry matches a violation key when every field of entry['match'] equals the
    corresponding field of the key (keys are dicts of scalars)."""
    m = entry.get("match", {})
    if not isinstance(key, dict):
        return False
    return all(key.get(k) == v for k, v in m.items())


def rng(seed, *salt):
    import random
    return random.Random(f"{seed}:{salt}")


def ulp_close(a, b, ulps, scale=None):
    """|a-b| <= ulps * eps(dtype) * max(scale, |a|, |b|) elementwise (torch tensors)."""
    import torch
    eps = torch.finfo(a.dtype).eps
    mag = torch.maximum(a.abs(), b.abs())
    if scale is not None:
        mag = torch.clamp(mag, min=float(scale))
    return bool(((a - b).abs() <= ulps * eps * mag + 0.0).all())


def max_rel_err(a, b, scale=None):
    import torch
    mag = torch.maximum(a.abs(), b.abs())
    if scale is not None:
        mag = torch.clamp(mag, min=float(scale))
    mag = torch.clamp(mag, min=1e-300)
    return float(((a - b).abs() / mag).max()) if a.numel() else 0.0
