"""Shared machinery for C09 / C10 / C15 (adjoint driver, reversible Heun).

Nothing here is an oracle: these are *inputs* (SDE families, prescribed Brownian paths), *recorders*
(Brownian proxy, `BaseSDESolver.integrate` wrapper) and converters between TLC's JSON output and tensors.
All oracles are numbers / forms / traces printed or accepted by TLC (spec/RevHeun.tla, spec/AdjointDriver.tla)
or relations between two real runs stated by the property.
"""
import contextlib
import json
import math
import warnings
from fractions import Fraction

import torch
import torchsde
from torch import nn
from torchsde import BaseBrownian, ReverseBrownian

torch.set_num_threads(1)
F64 = torch.float64
NOISES = ("diagonal", "scalar", "additive", "general")


# ----------------------------------------------------------------------------------------------
# rationals from TLC  ([num, den] pairs)
# ----------------------------------------------------------------------------------------------
def frac(x):
    return Fraction(int(x[0]), int(x[1]))


def is_rat(x):
    return isinstance(x, list) and len(x) == 2 and all(isinstance(v, int) for v in x)


def rat_tensor(x):
    """Nested lists of [num, den] -> float64 tensor (exact when the rationals are small dyadics)."""
    def conv(v):
        if is_rat(v):
            return float(frac(v))
        return [conv(u) for u in v]
    return torch.tensor(conv(x), dtype=F64)


def is_dyadic(fr, max_bits=50):
    d = fr.denominator
    return d & (d - 1) == 0 and abs(fr.numerator).bit_length() <= max_bits


# ----------------------------------------------------------------------------------------------
# Brownian motions with prescribed increments, and a recording proxy
# ----------------------------------------------------------------------------------------------
class GridBrownian(BaseBrownian):
    """A Brownian *path* given by its increments over the cells of a uniform grid:
    W(t0 + (j-1) tick, t0 + j tick) = incs[j-1] (tensor (batch, m)).  Queries must have end-points on the grid;
    the answer is the sum of the cells covered, i.e. the path is consistent and additive by construction.
    With `levy` set it also answers return_U / return_A (U = h W / 2, the space-time Levy area with H = 0;
    A = 0), enough for solvers that ask for them on problems where they do not influence the result."""

    def __init__(self, t0, tick, incs, levy="none"):
        super().__init__()
        self.t0 = float(t0)
        self.tick = float(tick)
        self.incs = incs if torch.is_tensor(incs) else torch.stack(list(incs))
        self.cum = torch.cat([torch.zeros_like(self.incs[:1]), torch.cumsum(self.incs, dim=0)], dim=0)
        self.levy = levy
        self.queries = []

    def _idx(self, t):
        x = (float(t) - self.t0) / self.tick
        j = round(x)
        if abs(x - j) > 1e-9 or j < 0 or j > self.incs.shape[0]:
            raise ValueError(f"GridBrownian queried off its grid: t={float(t)!r} (t0={self.t0}, tick={self.tick})")
        return j

    def __call__(self, ta, tb=None, return_U=False, return_A=False):
        if tb is None:
            ta, tb = self.t0, ta
        a, b = self._idx(ta), self._idx(tb)
        if a > b:
            raise ValueError("GridBrownian: ta > tb")
        self.queries.append((a, b))
        W = self.cum[b] - self.cum[a]
        out = [W]
        if return_U:
            out.append(0.5 * (float(tb) - float(ta)) * W)
        if return_A:
            out.append(torch.zeros(W.shape + (W.shape[-1],), dtype=W.dtype))
        return out[0] if len(out) == 1 else tuple(out)

    def __repr__(self):
        return f"GridBrownian(t0={self.t0}, tick={self.tick}, cells={self.incs.shape[0]})"

    dtype = property(lambda self: self.incs.dtype)
    device = property(lambda self: self.incs.device)
    shape = property(lambda self: tuple(self.incs.shape[1:]))
    levy_area_approximation = property(lambda self: self.levy)


class RecordingBrownian(BaseBrownian):
    """Proxy around any Brownian motion that records the (ta, tb) of every query as floats."""

    def __init__(self, base, sink=None):
        super().__init__()
        self.base = base
        self.log = []
        self.sink = sink          # optional shared event list: ("bm", ta, tb)

    def __call__(self, ta, tb=None, return_U=False, return_A=False):
        rec = (float(ta), None if tb is None else float(tb))
        self.log.append(rec)
        if self.sink is not None:
            self.sink.append(("bm",) + rec)
        return self.base(ta, tb, return_U=return_U, return_A=return_A)

    def __repr__(self):
        return f"RecordingBrownian({self.base!r})"

    dtype = property(lambda self: self.base.dtype)
    device = property(lambda self: self.base.device)
    shape = property(lambda self: self.base.shape)
    levy_area_approximation = property(lambda self: self.base.levy_area_approximation)


@contextlib.contextmanager
def record_integrate(sink, annotate=None):
    """Wrap BaseSDESolver.integrate (looked up through the class at call time by the library) so that every call
    appends ("int", [ts floats], extra_info) to `sink`.  Restored on exit."""
    from torchsde._core import base_solver
    orig = base_solver.BaseSDESolver.integrate

    def wrapper(self, y0, ts, extra0):
        info = annotate(self, y0, ts, extra0) if annotate is not None else None
        sink.append(("int", [float(t) for t in ts], info))
        return orig(self, y0, ts, extra0)

    base_solver.BaseSDESolver.integrate = wrapper
    try:
        yield
    finally:
        base_solver.BaseSDESolver.integrate = orig


@contextlib.contextmanager
def quiet():
    with warnings.catch_warnings():
        warnings.simplefilter("ignore")
        yield


# ----------------------------------------------------------------------------------------------
# SDE families (inputs)
# ----------------------------------------------------------------------------------------------
class NegReversed:
    """The time-reversed, negated SDE:  f~(s, y) = -f(-s, y),  g~(s, y) = -g(-s, y)."""

    def __init__(self, base):
        self.base = base
        self.noise_type = base.noise_type
        self.sde_type = base.sde_type

    def f(self, t, y):
        return -self.base.f(-t, y)

    def g(self, t, y):
        return -self.base.g(-t, y)


class AtomSDE:
    """Atom-valued stub: the k-th *distinct* evaluation (same (t, argument) -> same atom) of the drift returns a
    fresh unit vector of a widened state space R^D; of the diffusion a fresh unit vector (diagonal) or a matrix
    whose m columns are fresh unit vectors.  Basis vector 0 is reserved for the initial state.  Because the
    solver only combines these linearly with dyadic coefficients, every tensor it produces *is* the coefficient
    vector of a linear form over atoms, exactly."""
    sde_type = "stratonovich"

    def __init__(self, noise_type, D, m):
        self.noise_type = noise_type
        self.D = D
        self.m = m
        self.next = 1
        self.atoms = {}          # key -> value tensor
        self.order = []          # keys in order of first evaluation

    def _fresh(self):
        j = self.next
        if j >= self.D:
            raise AtomOverflow("more distinct field evaluations than the specification has atoms")
        self.next += 1
        e = torch.zeros(self.D, dtype=F64)
        e[j] = 1.0
        return e

    def _key(self, kind, t, y):
        if kind == "G" and self.noise_type == "additive":
            return (kind, float(t), None)
        return (kind, float(t), tuple(y[0].tolist()))

    def f(self, t, y):
        assert y.shape == (1, self.D)
        key = self._key("F", t, y)
        if key not in self.atoms:
            self.atoms[key] = self._fresh().unsqueeze(0)
            self.order.append(key)
        return self.atoms[key].clone()

    def g(self, t, y):
        assert y.shape == (1, self.D)
        key = self._key("G", t, y)
        if key not in self.atoms:
            if self.noise_type == "diagonal":
                val = self._fresh().unsqueeze(0)
            else:
                val = torch.stack([self._fresh() for _ in range(self.m)], dim=1).unsqueeze(0)   # (1, D, m)
            self.atoms[key] = val
            self.order.append(key)
        return self.atoms[key].clone()

    def lookup(self, kind, t, yvec):
        key = (kind, float(t), None) if (kind == "G" and self.noise_type == "additive") \
            else (kind, float(t), tuple(yvec.tolist()))
        return self.atoms.get(key)


class AtomOverflow(RuntimeError):
    pass


class FormEvaluator:
    """Evaluates the linear forms printed by spec/RevHeun.tla (SymExport) in the coordinates of an AtomSDE run:
    ["y0"] -> e_0;  ["F", ti, z] -> the stub's drift value at (t_ti, eval z);  ["Fdt", ti, z, c] -> that * h_c;
    ["G", ti, z] -> the stub's diffusion value;  ["GdW", ti, z, c] -> prod(that, dW_c).  A field evaluation the
    real code never made has no coordinates: MissingAtom."""

    def __init__(self, stub, times, hs, dws):
        self.stub = stub
        self.times = times      # times[ti]
        self.hs = hs            # hs[c]  (1-based cell)
        self.dws = dws          # dws[c] tensor (m,) or (D,) for diagonal
        self.memo = {}
        self.used = set()

    def form(self, fj, kind="state"):
        key = (kind, json.dumps(fj))
        if key in self.memo:
            return self.memo[key]
        acc = None
        for num, den, atom in fj:
            v = self.atom(atom) * (num / den)
            acc = v if acc is None else acc + v
        if acc is None:
            acc = torch.zeros(self.stub.D, dtype=F64)
        self.memo[key] = acc
        return acc

    def atom(self, a):
        tag = a[0]
        if tag == "y0":
            e = torch.zeros(self.stub.D, dtype=F64)
            e[0] = 1.0
            return e
        z = self.form(a[2])
        kind = "F" if tag in ("F", "Fdt") else "G"
        val = self.stub.lookup(kind, self.times[a[1]], z)
        if val is None:
            raise MissingAtom(f"the specification evaluates {kind} at time index {a[1]} at a point the code did not")
        self.used.add((kind, float(self.times[a[1]]),
                       None if (kind == "G" and self.stub.noise_type == "additive") else tuple(z.tolist())))
        val = val[0]
        if tag in ("F", "G"):
            return val
        if tag == "Fdt":
            return val * self.hs[a[3]]
        dw = self.dws[a[3]]
        if self.stub.noise_type == "diagonal":
            return val * dw
        return val @ dw


class MissingAtom(RuntimeError):
    pass


def _mlp_init(gen, *shape, scale=0.5):
    return nn.Parameter((torch.rand(*shape, generator=gen, dtype=F64) * 2 - 1) * scale)


class SmoothSDE(nn.Module):
    """Smooth, non-polynomial, time-dependent Stratonovich/Ito SDE with tanh / sin vector fields for each of the
    four noise types (element-wise diffusion when diagonal, state-independent when additive)."""

    def __init__(self, noise_type, d, m, seed, sde_type="stratonovich", hidden=4, gscale=0.5):
        super().__init__()
        self.noise_type = noise_type
        self.sde_type = sde_type
        self.d, self.m = d, m
        gen = torch.Generator().manual_seed(int(seed) % (2 ** 31))
        self.W1 = _mlp_init(gen, hidden, d + 1)
        self.b1 = _mlp_init(gen, hidden)
        self.W2 = _mlp_init(gen, d, hidden)
        self.b2 = _mlp_init(gen, d, scale=0.25)
        gout = d if noise_type == "diagonal" else d * m
        self.gscale = gscale
        if noise_type == "diagonal":
            self.ga = _mlp_init(gen, d)
            self.gb = _mlp_init(gen, d)
            self.gc = _mlp_init(gen, d)
        elif noise_type == "additive":
            self.ga = _mlp_init(gen, gout)
            self.gb = _mlp_init(gen, gout)
        else:
            self.V1 = _mlp_init(gen, hidden, d + 1)
            self.c1 = _mlp_init(gen, hidden)
            self.V2 = _mlp_init(gen, gout, hidden)
            self.c2 = _mlp_init(gen, gout, scale=0.25)

    def _aug(self, t, y):
        tt = torch.as_tensor(t, dtype=y.dtype).reshape(1, 1).expand(y.shape[0], 1)
        return torch.cat([y, torch.sin(tt)], dim=1)

    def f(self, t, y):
        h = torch.tanh(self._aug(t, y) @ self.W1.T + self.b1)
        return h @ self.W2.T + self.b2

    def g(self, t, y):
        if self.noise_type == "diagonal":
            tt = torch.as_tensor(t, dtype=y.dtype)
            return self.gscale * (self.ga * torch.sin(y * self.gb + tt) + self.gc)
        if self.noise_type == "additive":
            tt = torch.as_tensor(t, dtype=y.dtype)
            out = self.gscale * (self.ga * torch.sin(tt * self.gb) + self.gb)
            return out.reshape(1, self.d, self.m).expand(y.shape[0], self.d, self.m)
        h = torch.tanh(self._aug(t, y) @ self.V1.T + self.c1)
        out = self.gscale * torch.sin(h @ self.V2.T + self.c2)
        return out.reshape(y.shape[0], self.d, self.m)


class LinearSDE(nn.Module):
    """f(t, y) = A y + (1 + t) c;  column j of g:  B_j y + (1 + t) e_j  -- the family of RevHeun.tla Part II,
    held in the parameter layout natural for each noise type:
      diagonal: Bd (d,), ed (d,)   [g_i = Bd_i y_i + (1+t) ed_i];  additive: E (d, m);
      scalar / general: B (m, d, d), E (d, m)."""
    sde_type = "stratonovich"

    def __init__(self, noise_type, params):
        super().__init__()
        self.noise_type = noise_type
        A = rat_tensor(params["A"])
        c = rat_tensor(params["c"])
        B = rat_tensor(params["B"])              # (m, d, d) general coordinates
        e = rat_tensor(params["e"])              # (m, d)
        self.d = A.shape[0]
        self.m = B.shape[0]
        self.A = nn.Parameter(A)
        self.c = nn.Parameter(c)
        if noise_type == "diagonal":
            self.Bd = nn.Parameter(torch.stack([B[j, j, j] for j in range(self.m)]))
            self.ed = nn.Parameter(torch.stack([e[j, j] for j in range(self.m)]))
        elif noise_type == "additive":
            self.E = nn.Parameter(e.T.clone())
        else:
            self.B = nn.Parameter(B)
            self.E = nn.Parameter(e.T.clone())

    def f(self, t, y):
        return y @ self.A.T + (1 + t) * self.c

    def g(self, t, y):
        if self.noise_type == "diagonal":
            return self.Bd * y + (1 + t) * self.ed
        if self.noise_type == "additive":
            return ((1 + t) * self.E).unsqueeze(0).expand(y.shape[0], self.d, self.m)
        # g[b, i, j] = sum_l B[j, i, l] y[b, l] + (1+t) E[i, j]
        return torch.einsum("jil,bl->bij", self.B, y) + (1 + t) * self.E

    def slot_value(self, grads, slot):
        """Pick the entry of the real gradient tensors that corresponds to a spec slot (1-based indices)."""
        name, idx = slot[0], [i - 1 for i in slot[1:]]
        if name == "y0":
            return grads["y0"][0, idx[0]]
        if name == "A":
            return grads["A"][idx[0], idx[1]]
        if name == "c":
            return grads["c"][idx[0]]
        if name == "B":
            return grads["Bd"][idx[0]] if self.noise_type == "diagonal" else grads["B"][idx[0], idx[1], idx[2]]
        if name == "e":
            return grads["ed"][idx[0]] if self.noise_type == "diagonal" else grads["E"][idx[1], idx[0]]
        raise KeyError(slot)


class ConstSDE(nn.Module):
    """f == a, g == b (constants): every consistent solver reproduces y(t) = y0 + a (t - t0) + b W(t0, t) exactly.
    `u` is a parameter the vector fields never use."""

    def __init__(self, noise_type, sde_type, d, m, a, b):
        super().__init__()
        self.noise_type = noise_type
        self.sde_type = sde_type
        self.d, self.m = d, m
        self.a = nn.Parameter(a.clone())
        self.b = nn.Parameter(b.clone())          # (d,) diagonal, else (d, m)
        self.u = nn.Parameter(torch.ones(3, dtype=F64))

    def f(self, t, y):
        return self.a.unsqueeze(0).expand(y.shape[0], self.d)

    def g(self, t, y):
        if self.noise_type == "diagonal":
            return self.b.unsqueeze(0).expand(y.shape[0], self.d)
        return self.b.unsqueeze(0).expand(y.shape[0], self.d, self.m)


class LinTimeSDE(nn.Module):
    """f == a (1 + t), g == b (1 + t): state-independent, time-dependent (not even in t).  The adjoint state is
    piecewise constant, and every consistent solver evaluates (1 + t) at nodes inside each step, so gradients
    are pinned down up to a derived quadrature budget (AdjointDriver!LinStep).  `u` is never used."""

    def __init__(self, noise_type, sde_type, d, m, a, b):
        super().__init__()
        self.noise_type = noise_type
        self.sde_type = sde_type
        self.d, self.m = d, m
        self.a = nn.Parameter(a.clone())
        self.b = nn.Parameter(b.clone())          # (d,) diagonal, else (d, m)
        self.u = nn.Parameter(torch.ones(3, dtype=F64))

    def f(self, t, y):
        return (self.a * (1 + t)).unsqueeze(0).expand(y.shape[0], self.d)

    def g(self, t, y):
        if self.noise_type == "diagonal":
            return (self.b * (1 + t)).unsqueeze(0).expand(y.shape[0], self.d)
        return (self.b * (1 + t)).unsqueeze(0).expand(y.shape[0], self.d, self.m)


# ----------------------------------------------------------------------------------------------
# comparisons
# ----------------------------------------------------------------------------------------------
def rel_err(a, b):
    """max |a - b| / max(|a|_inf, |b|_inf)  (0 when both vanish)."""
    a = a.detach()
    b = b.detach()
    scale = max(float(a.abs().max()) if a.numel() else 0.0, float(b.abs().max()) if b.numel() else 0.0)
    if scale == 0.0:
        return 0.0
    return float((a - b).abs().max()) / scale


def grads_of(loss, tensors):
    gs = torch.autograd.grad(loss, tensors, allow_unused=True)
    return [torch.zeros_like(t) if g is None else g for g, t in zip(gs, tensors)]


def weights_tensor(gen, shape):
    """Dyadic loss weights in [-2, 2]."""
    return torch.randint(-8, 9, shape, generator=gen).to(F64) / 4.0


def saved_extras_count(ys, n_params):
    """Observation aid: how many extra-solver-state tensors the adjoint Function saved for backward
    (saved tensors are ys, ts, *extras, *adjoint_params).  None when not observable."""
    fn = ys.grad_fn
    try:
        while fn is not None and not hasattr(fn, "saved_tensors"):
            fn = fn.next_functions[0][0]
        return len(fn.saved_tensors) - 2 - n_params
    except Exception:
        return None


# ----------------------------------------------------------------------------------------------
# recording a real sdeint_adjoint run as an event trace, and validating traces with TLC
# ----------------------------------------------------------------------------------------------
OFFGRID = -99999


def to_tick(t, tick):
    x = float(t) / tick
    j = round(x)
    return j if abs(x - j) <= 1e-9 * max(1.0, abs(x)) else OFFGRID


def _coef(t, V):
    """t == c * V exactly (elementwise) -> Fraction(c); else None."""
    nz = V != 0
    if not bool(nz.any()):
        return None
    c = (t[nz] / V[nz]).reshape(-1)
    c0 = float(c[0])
    if not bool((t == c0 * V).all()) or not math.isfinite(c0):
        return None
    fr = Fraction(c0)
    return fr if is_dyadic(fr, 24) else None


class RenamedSDE(nn.Module):
    """The same SDE with its drift and diffusion under other method names (to be announced through `names=`): the
    inner module is a registered sub-module, so `parameters()` are the very same tensors."""

    def __init__(self, inner):
        super().__init__()
        self.inner = inner
        self.noise_type, self.sde_type = inner.noise_type, inner.sde_type

    def drift_fn(self, t, y):
        return self.inner.f(t, y)

    def diffusion_fn(self, t, y):
        return self.inner.g(t, y)


RENAMES = dict(drift="drift_fn", diffusion="diffusion_fn")


def traced_adjoint_run(sde, y0, ts, base_bm, dt, method, adjoint_method, loss_fn, grad_inputs, tick, V=None,
                       adjoint_params=None, tick_offset=0, renamed=False, **kwargs):
    """Run the REAL sdeint_adjoint forward + backward with a recording Brownian proxy and a recorder around
    BaseSDESolver.integrate.  Returns (ys, grads, events) where events are dicts in ticks:
       int: ts, sidx (1-based index j with state-part == ys[j] bit for bit, 0 if none), lam (Fraction / None)
       bm : a, b      end: lam."""
    raw = []
    rb = RecordingBrownian(base_bm, sink=raw)
    holder = {}

    def annotate(solver, y0_, ts_, extra0):
        if "ys" not in holder:
            return None
        ys = holder["ys"]
        nb = ys[0].numel()
        flat = y0_.detach().reshape(-1)
        state, adj = flat[:nb], flat[nb:2 * nb]
        sidx = 0
        for j in range(ys.shape[0]):
            if torch.equal(state, ys[j].reshape(-1)):
                sidx = j + 1
        lam = _coef(adj.reshape(ys[0].shape), V) if V is not None else None
        if V is not None and lam is None and not bool(adj.any()):
            lam = Fraction(0)
        return dict(sidx=sidx, lam=lam)

    kw = dict(kwargs)
    if adjoint_params is not None:
        kw["adjoint_params"] = adjoint_params
    if renamed and hasattr(sde, "f") and hasattr(sde, "g") and isinstance(sde, nn.Module):
        # the same call through the `names=` option (C16: equivalent interfaces): values, gradients and the tensors that
        # receive gradients must be the same
        sde = RenamedSDE(sde)
        kw["names"] = dict(RENAMES)
    with record_integrate(raw, annotate), quiet():
        ys = torchsde.sdeint_adjoint(sde, y0, ts, bm=rb, dt=dt, method=method, adjoint_method=adjoint_method, **kw)
        holder["ys"] = ys.detach()
        n_fwd = len(raw)
        loss = loss_fn(ys)
        grads = torch.autograd.grad(loss, grad_inputs, allow_unused=True)
    events = []

    def tk(t):
        # ticks relative to the scenario's origin: real time = (tick index + tick_offset) * tick, mirrored when negative
        j = to_tick(t, tick)
        if j == OFFGRID or tick_offset == 0:
            return j
        return j - tick_offset if float(t) >= 0 else j + tick_offset

    for e in raw:
        if e[0] == "int":
            info = e[2] or {}
            events.append(dict(k="int", ts=[tk(t) for t in e[1]], sidx=info.get("sidx", 0), lam=info.get("lam")))
        else:
            events.append(dict(k="bm", a=tk(e[1]), b=tk(e[2])))
    lam_end = None
    if V is not None and y0.requires_grad and grads[0] is not None:
        lam_end = _coef(grads[0], V)
        if lam_end is None and not bool(grads[0].any()):
            lam_end = Fraction(0)
    events.append(dict(k="end", lam=lam_end))
    return ys, grads, events, n_fwd


def _tla_rat(fr):
    return "<<0, 0>>" if fr is None else f"<<{_tla_int(fr.numerator)}, {fr.denominator}>>"


def _tla_int(i):
    return str(i) if i >= 0 else f"(-{-i})"


def _tla_seq(xs):
    return "<<" + ", ".join(_tla_int(int(x)) for x in xs) + ">>"


def _tla_set(xs):
    return "{" + ", ".join(json.dumps(x) if isinstance(x, str) else str(x) for x in xs) + "}"


def trace_scn(D, ts, wset, pair, req=None):
    req = req or dict(y0=True, a=True, b=True, u=True, ask=["*"])
    b = lambda v: "TRUE" if v else "FALSE"
    return (f"[D |-> {D}, ts |-> {_tla_seq(ts)}, wset |-> {_tla_set(sorted(wset))}, rid |-> 0, pair |-> {json.dumps(pair)}, "
            f"req |-> [y0 |-> {b(req['y0'])}, a |-> {b(req['a'])}, b |-> {b(req['b'])}, u |-> {b(req['u'])}, "
            f"ask |-> {_tla_set(req['ask'])}]]")


def _tla_event(e):
    if e["k"] == "int":
        return (f'[k |-> "int", ts |-> {_tla_seq(e["ts"])}, sidx |-> {e["sidx"]}, lam |-> {_tla_rat(e["lam"])}, '
                f'a |-> 0, b |-> 0]')
    if e["k"] == "bm":
        return f'[k |-> "bm", ts |-> <<>>, sidx |-> 0, lam |-> <<0, 0>>, a |-> {_tla_int(e["a"])}, b |-> {_tla_int(e["b"])}]'
    return f'[k |-> "end", ts |-> <<>>, sidx |-> 0, lam |-> {_tla_rat(e["lam"])}, a |-> 0, b |-> 0]'


def validate_traces(traces, label, ctx, max_rounds=6):
    """traces: list of dict(scn=<TLA record text>, ev=[events], key=...).  All traces are validated in ONE TLC run
    of TraceAdjoint (tid chosen in Init); a rejected trace stops the run with invariant NotStuck violated and a
    counterexample naming tid and the index of the first unmatched event; it is recorded, removed, and the rest
    re-validated.  Returns list of (trace index, event index, spec state dict)."""
    from harness import tlc
    rejected = []
    live = list(range(len(traces)))
    for _round in range(max_rounds):
        if not live:
            break
        body = ",\n".join(
            "[scn |-> %s,\n  ev |-> <<%s>>]" % (traces[i]["scn"], ",\n     ".join(_tla_event(e) for e in traces[i]["ev"]))
            for i in live)
        data = "---- MODULE TraceData ----\nEXTENDS Integers, Sequences\nTraces == <<\n" + body + "\n>>\n====\n"
        cfg = ("SPECIFICATION TSpec\nCONSTANTS\n  Layouts = {}\n  ReqPatterns = {}\n  PairClasses = {}\n"
               "INVARIANT NotStuck\nINVARIANT TraceInvariants\nPOSTCONDITION AllAccepted\nCHECK_DEADLOCK FALSE\n")
        res = tlc.run("TraceAdjoint", cfg_text=cfg, workers=4, timeout=900, extra_modules={"TraceData": data})
        ctx.add_tlc(res, f"{label}: TraceAdjoint over {len(live)} recorded trace(s)")
        if res.ok and not res.postcondition_failed:
            break
        if res.violated is None:
            raise tlc.TLCMachineryError("TraceAdjoint: postcondition failed without a rejected trace:\n" + res.output[-1500:])
        cex = tlc.parse_counterexample(res.output)
        last = cex[-1][1] if cex else {}
        tid = last.get("tid")
        if not isinstance(tid, int):
            raise tlc.TLCMachineryError("cannot read the rejected trace id:\n" + res.output[-2000:])
        idx = live[tid - 1]
        rejected.append((idx, last.get("li"), dict(invariant=res.violated, pc=last.get("pc"), seg=last.get("seg"),
                                                   cur=last.get("cur"), lam=last.get("lam"))))
        live.pop(tid - 1)
    return rejected


def violation_once(ctx, key, message, replay=None):
    """Report a violation once per distinct key (the key names the failing input class); count repeats."""
    seen = ctx.notes.setdefault("violation_counts", {})
    k = json.dumps(key, sort_keys=True)
    seen[k] = seen.get(k, 0) + 1
    if seen[k] == 1:
        ctx.violation(key, message, replay=replay)
