"""Binding of spec/SolverLoop.tla and spec/TraceLoop.tla to BaseSDESolver.integrate (C12, C13, C14).

Contents
  * cfg builders / runners for SolverLoop.tla (exhaustive checking, behaviour generation, refutation of
    seeded design defects) and for TraceLoop.tla (validation of traces recorded from the real code);
  * observation of the real loop from outside: a recording BaseBrownian proxy, wrappers around
    adaptive_stepping.compute_error / update_step_size (module attributes, looked up at call time) and around
    solver.step (installed per instance from a wrapper of BaseSDESolver.integrate);
  * example SDEs for the four noise types, the table of fixed-step solvers, the tick -> float time mapping;
  * conversion of a recorded run into TraceLoop events (times and step sizes are order-abstracted by ranking,
    arithmetic facts are evaluated here in the floating point format of the run and logged as booleans).
Nothing here is an oracle taken from the code: predictions come from TLC, value relations are between real runs
or use the rational weights printed by the spec.
"""
import contextlib
import json
import math
import warnings
from fractions import Fraction

import torch

import torchsde
from torchsde._core import adaptive_stepping, base_solver

from . import tlc

warnings.filterwarnings("ignore")

# ---------------------------------------------------------------------------------------------------------
# SolverLoop.tla
# ---------------------------------------------------------------------------------------------------------

_DEFAULTS = dict(Mode="fixed", TEnds={12}, MaxInterior=3, Dts={1, 2, 3, 4, 5}, DtMins={0}, StepVals={0},
                 Extras={False}, RestartMode="none", PairMode=False, MaxTrials=0, KeepHist=True, Emit=False,
                 Bugs={"none"})

FIXED_INVS = ("TypeOK", "GridSteps", "OutputForm", "OutputFormIsGrid", "ChunkEq", "Tiling", "AllEmitted", "GridRefinementInit")
FIXED_PROPS = ("TilingStep", "GridRefinement")
ADAPT_INVS = ("TypeOK", "Tiling", "MinStep", "MinStepSize", "AllEmitted", "OutputFormA", "AcceptedOnly")
ADAPT_PROPS = ("AcceptRule", "RetrySmaller", "HalfStepValue", "RejectKeepsState", "TilingStep", "AdaptiveRefinement")


def loop_cfg(spec="Spec", invariants=(), properties=(), **consts):
    c = dict(_DEFAULTS)
    for k in consts:
        if k not in c:
            raise KeyError(k)
    c.update(consts)
    lines = [f"SPECIFICATION {spec}", "CONSTANTS"]
    for k, v in c.items():
        lines.append(f"  {k} = {tlc.tla_literal(v)}")
    lines += [f"INVARIANT {i}" for i in invariants]
    lines += [f"PROPERTY {p}" for p in properties]
    lines.append("CHECK_DEADLOCK FALSE")
    return "\n".join(lines) + "\n"


JAVA_OPTS = ("-XX:TieredStopAtLevel=1", "-XX:ParallelGCThreads=2", "-Xms256m")   # short runs: fast start-up


def run_loop_spec(ctx, label, spec="Spec", invariants=(), properties=(), workers=4, timeout=900, coverage=False,
                  expect=None, action_constraints=(), **consts):
    """Run TLC on SolverLoop.  expect=None: the run must be clean (anything else raises: a refuted design
    invariant on the unmodified spec is a problem of the model, not a verdict on the code).
    expect=<name(s)>: a seeded design defect; TLC must refute one of these invariants / properties."""
    emit = bool(consts.get("Emit"))
    invs = tuple(invariants) + (("EmitInv",) if emit else ())
    cfg = loop_cfg(spec, invs, properties, **consts)
    for ac in action_constraints:
        cfg += f"ACTION_CONSTRAINT {ac}\n"
    res = tlc.run("SolverLoop", cfg_text=cfg, workers=workers, timeout=timeout, coverage=coverage,
                  java_opts=JAVA_OPTS)
    if ctx is not None:
        ctx.add_tlc(res, label)
    if expect is None:
        if not res.ok:
            raise tlc.TLCMachineryError(f"SolverLoop [{label}]: TLC refutes {res.violated} on the unmodified spec\n"
                                        + res.output[-3000:])
    else:
        if res.ok or res.violated not in (expect if isinstance(expect, (tuple, list, set)) else (expect,)):
            raise tlc.TLCMachineryError(f"SolverLoop [{label}]: seeded defect should be refuted by {expect}, "
                                        f"TLC says ok={res.ok} violated={res.violated}")
    return res


def check_seeded_defects(res, expected, label):
    """res: a run with Bugs = several seeded defects, INVARIANT Detect, ACTION_CONSTRAINT DetectAct (nothing is
    refuted; every violated property is printed).  expected: {bug: names, one of which must have caught it}.
    The unmodified design ("none") must not be caught by anything."""
    caught = {}
    for p in res.printed:
        if isinstance(p, dict) and "caught" in p:
            caught.setdefault(p["bug"], set()).add(p["caught"])
    if caught.get("none"):
        raise tlc.TLCMachineryError(f"[{label}] the unmodified design violates {caught['none']}")
    for bug, names in expected.items():
        if not (caught.get(bug, set()) & set(names)):
            raise tlc.TLCMachineryError(f"[{label}] seeded design defect {bug} is not caught by any of {names} "
                                        f"(caught by: {sorted(caught.get(bug, []))}): the invariant is vacuous")
    return {k: sorted(v) for k, v in caught.items()}


# seeded design defects and the invariant / property that must catch each (shows no invariant is vacuous)
FIXED_BUGS = {"noclip": ("GridSteps", "Tiling"), "toOutputs": ("GridSteps",), "stalePrev": ("OutputForm",),
              "swapW": ("OutputForm",)}
RESTART_BUGS = {"dropExtra": ("ChunkEq",), "toOutputs": ("ChunkEq",)}
ADAPT_BUGS = {"noclip": ("Tiling",), "noclamp": ("MinStepSize", "MinStep"), "acceptAll": ("AcceptRule",),
              "noForce": ("AcceptRule",), "fullValue": ("HalfStepValue",), "neverShrink": ("RetrySmaller",),
              "extraOnReject": ("RejectKeepsState",)}


# ---------------------------------------------------------------------------------------------------------
# Observation of the real loop
# ---------------------------------------------------------------------------------------------------------

class WatchdogExpired(RuntimeError):
    pass


class RecordingBrownian(torchsde.BaseBrownian):
    """A BaseBrownian that forwards to `inner` and logs (ta, tb) of every call."""

    def __init__(self, inner, log=None, max_calls=None):
        super().__init__()
        self.inner = inner
        self.log = [] if log is None else log
        self.max_calls = max_calls          # watchdog: a loop that never ends is stopped here

    def __call__(self, ta, tb=None, return_U=False, return_A=False):
        if self.max_calls is not None and len(self.log) >= self.max_calls:
            raise WatchdogExpired(f"more than {self.max_calls} Brownian queries: the stepping loop does not terminate")
        self.log.append((float(ta), None if tb is None else float(tb)))
        return self.inner(ta, tb, return_U=return_U, return_A=return_A)

    def __repr__(self):
        return f"RecordingBrownian({self.inner!r})"

    @property
    def dtype(self):
        return self.inner.dtype

    @property
    def device(self):
        return self.inner.device

    @property
    def shape(self):
        return self.inner.shape

    @property
    def levy_area_approximation(self):
        return self.inner.levy_area_approximation


class LoopRecorder:
    """Context manager recording what the stepping loop does, from outside.

    events (in program order):
      ("integrate", y0, ts, extra0)                      entry of BaseSDESolver.integrate
      ("step", t0, t1, y0, extra0, y1, extra1, nq0, nq1)  one solver.step call; bm.log[nq0:nq1] are its queries
      ("err", y11, y12, rtol, atol, ret)                  adaptive_stepping.compute_error
      ("upd", est, prev_step, prev_ratio, new_step, new_ratio)
      ("return", ys, extra)                               exit of integrate
    err_script / upd_script: optional callables replacing the real functions (scripted environment).
    """

    MAX_SAME_START = 400      # watchdog: trials starting at the same time without ever being accepted

    def __init__(self, bm=None, err_script=None, upd_script=None, max_trials=None):
        self.events = []
        self._starts = {}
        self.inner_step = None
        self.bm = bm
        self.err_script = err_script
        self.upd_script = upd_script
        self.max_trials = max_trials
        self.n_err = 0

    def __enter__(self):
        rec = self
        self._orig = (adaptive_stepping.compute_error, adaptive_stepping.update_step_size,
                      base_solver.BaseSDESolver.integrate)
        orig_err, orig_upd, orig_int = self._orig

        def compute_error(y11, y12, rtol, atol, *a, **k):
            rec.n_err += 1
            if rec.max_trials is not None and rec.n_err > rec.max_trials:
                raise WatchdogExpired(rec.n_err)
            ret = rec.err_script(rec.n_err) if rec.err_script else orig_err(y11, y12, rtol, atol, *a, **k)
            rec.events.append(("err", y11, y12, rtol, atol, ret))
            return ret

        def update_step_size(error_estimate, prev_step_size, *a, **k):
            prev_ratio = k.get("prev_error_ratio", a[3] if len(a) > 3 else None)
            if rec.upd_script:
                ret = rec.upd_script(error_estimate, prev_step_size, prev_ratio)
            else:
                ret = orig_upd(error_estimate, prev_step_size, *a, **k)
            rec.events.append(("upd", error_estimate, prev_step_size, prev_ratio, ret[0], ret[1]))
            return ret

        def integrate(solver, y0, ts, extra0):
            rec.events.append(("integrate", y0, ts, extra0))
            inner_step = solver.step
            rec.inner_step = inner_step           # for the independent re-execution along the accepted steps

            def step(t0, t1, y, extra):
                k = float(t0)
                rec._starts[k] = rec._starts.get(k, 0) + 1
                if rec._starts[k] > 2 * rec.MAX_SAME_START + 2:      # a trial makes two step calls from its start
                    raise WatchdogExpired(f"more than {rec.MAX_SAME_START} trials from t={k} without an accepted step")
                nq0 = len(rec.bm.log) if rec.bm is not None else 0
                y1, extra1 = inner_step(t0, t1, y, extra)
                nq1 = len(rec.bm.log) if rec.bm is not None else 0
                rec.events.append(("step", t0, t1, y, extra, y1, extra1, nq0, nq1))
                return y1, extra1

            had, prev = "step" in solver.__dict__, solver.__dict__.get("step")   # SRK assigns self.step in __init__
            solver.step = step
            try:
                ys, extra = orig_int(solver, y0, ts, extra0)
            finally:
                if had:
                    solver.step = prev
                else:
                    del solver.__dict__["step"]
            rec.events.append(("return", ys, extra))
            return ys, extra

        adaptive_stepping.compute_error = compute_error
        adaptive_stepping.update_step_size = update_step_size
        base_solver.BaseSDESolver.integrate = integrate
        return self

    def __exit__(self, *exc):
        (adaptive_stepping.compute_error, adaptive_stepping.update_step_size,
         base_solver.BaseSDESolver.integrate) = self._orig
        return False


# ---------------------------------------------------------------------------------------------------------
# Example problems
# ---------------------------------------------------------------------------------------------------------

class ExampleSDE:
    """Small smooth non-linear, time-dependent SDE for any noise type (no nn.Module, no parameters).
    g shapes: diagonal (B, d); scalar (B, d, 1); additive / general (B, d, m)."""

    def __init__(self, noise_type, sde_type, d=3, m=2):
        self.noise_type = noise_type
        self.sde_type = sde_type
        self.d = d
        self.m = {"diagonal": d, "scalar": 1}.get(noise_type, m)
        self._c = None

    def _coef(self, y):
        if self._c is None or self._c[0].dtype != y.dtype:
            a = torch.arange(1, self.d * self.m + 1, dtype=y.dtype).reshape(self.d, self.m)
            self._c = (0.125 + 0.0625 * torch.sin(a), 0.125 * torch.cos(2.0 * a))
        return self._c

    def f(self, t, y):
        return -0.5 * y + 0.25 * torch.sin(torch.roll(y, 1, dims=1)) + 0.125 * t

    def g(self, t, y):
        if self.noise_type == "diagonal":
            return 0.25 + 0.125 * torch.cos(y) + 0.0625 * t
        if self.noise_type == "scalar":
            return (0.25 + 0.125 * torch.cos(y) + 0.0625 * t).unsqueeze(-1)
        c1, c2 = self._coef(y)
        if self.noise_type == "additive":
            return ((1.0 + 0.5 * t) * c1).unsqueeze(0).expand(y.size(0), self.d, self.m)
        return c1.unsqueeze(0) * torch.cos(y).unsqueeze(-1) + c2.unsqueeze(0) * torch.sin(
            torch.roll(y, 1, dims=1)).unsqueeze(-1) + 0.0625 * t


class SwitchSDE(ExampleSDE):
    """ExampleSDE whose vector fields change STRUCTURE with time (Python control flow on t): before t_switch the diffusion
    is a constant that has no dependence on (and no autograd path to) the state - a burn-in phase -, afterwards it is the
    state-dependent diffusion of ExampleSDE; the drift gains a term.  One-shot and restarted solves see the switch at
    different distances from their own start."""

    def __init__(self, noise_type, sde_type, t_switch, d=3, m=2):
        super().__init__(noise_type, sde_type, d=d, m=m)
        self.t_switch = float(t_switch)

    def f(self, t, y):
        out = super().f(t, y)
        return out if float(t) < self.t_switch else out + 0.0625 * torch.cos(y)

    def g(self, t, y):
        if float(t) >= self.t_switch:
            return super().g(t, y)
        shape = {"diagonal": (y.size(0), self.d), "scalar": (y.size(0), self.d, 1)}.get(self.noise_type,
                                                                                        (y.size(0), self.d, self.m))
        return torch.full(shape, 0.3125, dtype=y.dtype)


class LinearSDE:
    """dy = -lam y dt + sig dW (additive) or dy = -lam y dt + sig y dW (diagonal), Ito or Stratonovich.
    lam large = stiff.  Closed form (diagonal, Ito):  y0 exp((-lam - sig^2/2) t + sig W_t)."""

    def __init__(self, lam, sig, noise_type="diagonal", sde_type="ito", omega=0.0):
        self.lam, self.sig, self.omega = lam, sig, omega
        self.noise_type, self.sde_type = noise_type, sde_type

    def f(self, t, y):
        out = -self.lam * y
        if self.omega:
            out = out + self.omega * torch.roll(y, 1, dims=1) * torch.tensor(
                [1.0 if i % 2 == 0 else -1.0 for i in range(y.size(1))], dtype=y.dtype)
        return out

    def g(self, t, y):
        if self.noise_type == "diagonal":
            return self.sig * y
        if self.noise_type == "additive":
            return torch.full((y.size(0), y.size(1), 1), self.sig, dtype=y.dtype)
        if self.noise_type == "scalar":
            return (self.sig * y).unsqueeze(-1)
        return (self.sig * y).unsqueeze(-1) * torch.ones(1, 1, 2, dtype=y.dtype)


NOISES = ("diagonal", "additive", "scalar", "general")
_NO_GENERAL = ("diagonal", "additive", "scalar")
# label -> (method, sde_type, noise types, levy area approximation of the Brownian motion, options, has extra state)
FIXED_METHODS = {
    "euler": ("euler", "ito", NOISES, "none", None, False),
    "milstein_ito": ("milstein", "ito", _NO_GENERAL, "none", None, False),
    "milstein_ito_gradfree": ("milstein", "ito", _NO_GENERAL, "none", {"grad_free": True}, False),
    "srk": ("srk", "ito", _NO_GENERAL, "space-time", None, False),
    "midpoint": ("midpoint", "stratonovich", NOISES, "none", None, False),
    "heun": ("heun", "stratonovich", NOISES, "none", None, False),
    "euler_heun": ("euler_heun", "stratonovich", NOISES, "none", None, False),
    "milstein_strat": ("milstein", "stratonovich", _NO_GENERAL, "none", None, False),
    "log_ode_foster": ("log_ode", "stratonovich", NOISES, "foster", None, False),
    "log_ode_davie": ("log_ode", "stratonovich", ("general", "diagonal"), "davie", None, False),
    "reversible_heun": ("reversible_heun", "stratonovich", NOISES, "none", None, True),
}


def solver_configs(dtypes=("float64", "float32"), ts_kinds=("tensor", "list"), labels=None):
    out = []
    for label, (method, sde_type, noises, levy, options, has) in FIXED_METHODS.items():
        if labels is not None and label not in labels:
            continue
        for noise in noises:
            for dt in dtypes:
                for kind in ts_kinds:
                    out.append(dict(label=label, method=method, sde_type=sde_type, noise=noise, levy=levy,
                                    options=options, has=has, dtype=dt, ts_kind=kind))
    return out


def cfg_key(c):
    return f"{c['label']}/{c['noise']}/{c['dtype']}/{c['ts_kind']}"


class Problem:
    """One (solver config, batch, state size, seed): SDE, y0 and a factory for identically seeded Brownian motions."""

    def __init__(self, c, seed, batch=2, d=3, m=2, sde=None):
        self.c = c
        self.dtype = getattr(torch, c["dtype"])
        self.sde = sde if sde is not None else ExampleSDE(c["noise"], c["sde_type"], d=d, m=m)
        self.batch, self.d = batch, d
        self.m = {"diagonal": d, "scalar": 1}.get(c["noise"], getattr(self.sde, "m", m))
        gen = torch.Generator().manual_seed(1000003 * (seed + 1) + 17)
        # dyadic initial values (k/16) so that float32 and float64 runs start from the same numbers
        self.y0 = (torch.randint(-16, 17, (batch, d), generator=gen).to(self.dtype)) / 16.0
        self.entropy = 7919 * (seed + 1) + 13

    def bm(self, t0, t1, max_calls=2000):
        inner = torchsde.BrownianInterval(t0=t0, t1=t1, size=(self.batch, self.m), dtype=self.dtype,
                                          entropy=self.entropy, levy_area_approximation=self.c["levy"])
        return RecordingBrownian(inner, max_calls=max_calls)

    def sdeint(self, ts_f, dt, bm, y0=None, options_obj=None, via_adjoint=False, **kw):
        c = self.c
        if c["ts_kind"] == "list":
            # a list or (every other call) a tuple; whole-number times as Python ints (check_contract accepts both)
            seq = [int(t) if float(t).is_integer() else float(t) for t in ts_f]
            ts = tuple(seq) if len(seq) % 2 else seq
        else:
            ts = torch.tensor(ts_f, dtype=self.dtype)
        # options_obj: ONE dict object the caller keeps and passes to every call (instead of a fresh dict per call)
        opts = options_obj if options_obj is not None else (dict(c["options"]) if c["options"] else None)
        if via_adjoint:
            # the forward pass of sdeint_adjoint is the same loop with the same forward arguments; the backward-only
            # options are set to something else on purpose (they must not reach the forward solve)
            return torchsde.sdeint_adjoint(self.sde, self.y0 if y0 is None else y0, ts, bm=bm, method=c["method"], dt=dt,
                                           options=opts, adjoint_params=(), adjoint_adaptive=True, adjoint_rtol=0.3,
                                           adjoint_atol=0.7, adjoint_options={}, **kw)
        return torchsde.sdeint(self.sde, self.y0 if y0 is None else y0, ts, bm=bm, method=c["method"], dt=dt,
                               options=opts, **kw)

    def unrelated_solve(self, options_obj):
        """Another, unrelated solve that shares the caller's options dict (a Milstein solve of an additive-noise SDE,
        when the configuration is Milstein; otherwise the same method on a fresh problem): what happens between two
        chunks must not matter to the next chunk."""
        c = self.c
        sde_type = c["sde_type"]
        if c["method"] == "milstein":
            sde = LinearSDE(0.5, 0.25, noise_type="additive", sde_type=sde_type)
            y = torch.ones(2, 2, dtype=self.dtype)
            bm = torchsde.BrownianInterval(t0=0.0, t1=0.25, size=(2, 1), dtype=self.dtype, entropy=self.entropy + 1)
            torchsde.sdeint(sde, y, [0.0, 0.25], bm=bm, method="milstein", dt=0.125, options=options_obj)


class TickMap:
    """tick u -> t0 + u * 2**-j  (exact in float32 and float64 for the small ranges used)."""

    def __init__(self, t0=0.0, j=4):
        self.t0, self.tick = float(t0), 2.0 ** (-j)

    def t(self, u):
        return self.t0 + u * self.tick

    def ts(self, us):
        return [self.t(u) for u in us]

    def dt(self, d):
        return d * self.tick

    def u(self, t):
        x = (float(t) - self.t0) / self.tick
        return int(x) if x == int(x) else x

    def queries(self, qs):
        return [(self.t(a), self.t(b)) for a, b in qs]


def eps_of(dtype):
    return torch.finfo(dtype).eps


def interp_ok(out, ya, yb, num, den, ulps=4):
    """out == (1 - num/den) ya + (num/den) yb with the rational weights of the spec, within `ulps` ulp of the
    larger neighbour (two weight roundings, two products, one sum: <= 2.5 ulp; 4 leaves room for fused ops)."""
    w = Fraction(num, den)
    exp = float(1 - w) * ya.double() + float(w) * yb.double()
    scale = torch.maximum(ya.abs(), yb.abs()).double().clamp_min(torch.finfo(out.dtype).tiny)
    err = (out.double() - exp).abs()
    return bool((err <= ulps * eps_of(out.dtype) * scale).all()), float((err / scale).max() / eps_of(out.dtype))


def frac_weight(t, a, b):
    """(t - a) / (b - a) as an exact rational of the float values."""
    return (Fraction(t) - Fraction(a)) / (Fraction(b) - Fraction(a))


# ---------------------------------------------------------------------------------------------------------
# From a recorded run to TraceLoop events
# ---------------------------------------------------------------------------------------------------------

def _same(x, y):
    if x is y:
        return True
    if torch.is_tensor(x) and torch.is_tensor(y):
        return x.shape == y.shape and x.dtype == y.dtype and torch.equal(x, y)
    return False


def plain_error_norm(y_full, y_half, rtol, atol):
    """The definition in the property: RMS over all elements of (full - half) / (rtol max(|full|,|half|) + atol),
    in float64, no floors."""
    a, b = y_full.detach().double(), y_half.detach().double()
    tol = rtol * torch.maximum(a.abs(), b.abs()) + atol
    return float(torch.sqrt((((a - b) / tol) ** 2).mean()))


def _add_in(dtype, a, step):
    """curr_t + step_size as the loop computes it: curr_t is a 0-dim tensor of ts's dtype, step a python float
    (or a 0-dim tensor)."""
    return torch.tensor(a, dtype=dtype) + step


class RunAnalysis:
    """Events, accepted steps and diagnostics of one recorded integrate call."""

    def __init__(self):
        self.hdr = None
        self.ev = []
        self.queries = []        # float pairs in order
        self.accepted = []       # (a, b, y_b) of accepted steps
        self.trials = []         # dicts (adaptive)
        self.out_prov = []       # per output: (k, Fraction weight) -> (1-w) G(k) + w G(k+1); grid: (k, 0)
        self.drift = []
        self.max_interp_ulp = 0.0
        self.complete = False
        self.reexec_detail = ""


def analyse(events, bm_log, ts_f, ts_dtype, y0, dt, adaptive, dt_min=0.0, rtol=None, atol=None,
            scripted_err=False, max_trials=None, aborted=False, norm_rtol=None, reexec=None):
    """Turn the recorder's events of ONE integrate call into TraceLoop events (see spec/TraceLoop.tla)."""
    ra = RunAnalysis()
    T = ts_f[-1]
    ret = [e for e in events if e[0] == "return"]
    ys = ret[0][1] if ret else None
    steps = [e for e in events if e[0] == "step"]
    raw_trials = []
    fsteps = []
    if adaptive:
        pend = []
        cur = None
        for e in events:
            if e[0] == "step":
                pend.append(e)
            elif e[0] == "err":
                cur = dict(steps=pend, err=e, upd=None)
                pend = []
                raw_trials.append(cur)
            elif e[0] == "upd" and cur is not None and cur["upd"] is None:
                cur["upd"] = e
    else:
        fsteps = steps

    # ---- accepted steps and per-trial facts --------------------------------------------------------
    acc_list = []
    trial_ev = []
    if adaptive:
        prev = None
        for n, tr in enumerate(raw_trials):
            st = tr["steps"]
            d = dict(k="trial")
            spans = sorted(st, key=lambda e: float(e[2]) - float(e[1]), reverse=True)
            full = spans[0] if spans else None
            a = float(full[1]) if full else float("nan")
            b = float(full[2]) if full else float("nan")
            h1 = [e for e in st if e is not full and float(e[1]) == a]
            h2 = [e for e in st if e is not full and float(e[2]) == b]
            half1 = h1[0] if h1 else None
            half2 = h2[0] if h2 else None
            m = float(half1[2]) if half1 else (float(half2[1]) if half2 else float("nan"))
            structure = len(st) == 3 and half1 is not None and half2 is not None and half1 is not half2 \
                and float(half2[1]) == m
            d.update(a=a, m=m, b=b)
            d["q"] = [bm_log[j] for e in st for j in range(e[7], e[8])]
            d["midOK"] = bool(structure and m == float(0.5 * (torch.tensor(a, dtype=ts_dtype) + torch.tensor(b, dtype=ts_dtype))))
            upd = tr["upd"]
            s = float(upd[2]) if upd else float("nan")
            d["s"] = s
            d["lenOK"] = bool(upd is not None and b == float(min(_add_in(ts_dtype, a, upd[2]), torch.tensor(T, dtype=ts_dtype))))
            est = tr["err"][5]
            d["le1"] = bool(est <= 1)
            y11, y12 = tr["err"][1], tr["err"][2]
            d["argsOK"] = bool(structure and ((_same(y11, full[5]) and _same(y12, half2[5]))
                                              or (_same(y12, full[5]) and _same(y11, half2[5]))))
            # data flow of the two half steps: half1 from the trial's input, half2 from half1's outputs
            if structure:
                flow = _same(half1[3], full[3]) and _same(half2[3], half1[5]) and _extras_same(half2[4], half1[6]) \
                    and _extras_same(half1[4], full[4])
                d["argsOK"] = d["argsOK"] and bool(flow)
            if scripted_err or not structure:
                d["normOK"] = True
            else:
                rec_norm = plain_error_norm(full[5], half2[5], rtol, atol)
                # the smallest tolerance entry: below 1e-6 the library's small-value guard (a floor of 1e-7 on the
                # mixed tolerance) may be active - unconstrained, like the floor region of the estimate itself
                a_, b_ = full[5].detach().double().abs(), half2[5].detach().double().abs()
                min_tol = float((rtol * torch.maximum(a_, b_) + atol).min())
                tol = norm_rtol if norm_rtol is not None else (1e-12 if full[5].dtype == torch.float64 else 64 * eps_of(full[5].dtype))
                d["normOK"] = bool(abs(rec_norm - est) <= tol * max(abs(est), abs(rec_norm))
                                   or (est < 1e-6 and rec_norm < 1e-6)        # floor region: unconstrained
                                   or min_tol < 1e-6)
                d["_norm"] = (est, rec_norm)
            d["raw"] = float(upd[4]) if upd else float("nan")
            d["_prev_ratio_none"] = (upd[3] is None) if upd else None
            # where does the trial's input come from
            yin = full[3] if full else None
            if prev is None:
                d["yin"] = "y0" if _same(yin, y0) else "other"
            else:
                pf, ph2, pin = prev["_full"], prev["_half2"], prev["_yin"]
                if ph2 is not None and yin is ph2[5]:
                    d["yin"] = "half"
                elif yin is pin:
                    d["yin"] = "same"
                elif pf is not None and yin is pf[5]:
                    d["yin"] = "full"
                elif ph2 is not None and _same(yin, ph2[5]) and _extras_same(full[4], ph2[6]):
                    d["yin"] = "half"
                elif _same(yin, pin):
                    d["yin"] = "same"
                elif pf is not None and _same(yin, pf[5]):
                    d["yin"] = "full"
                else:
                    d["yin"] = "other"
            d["_full"], d["_half2"], d["_yin"], d["_steps"] = full, half2, yin, st
            prev = d
            trial_ev.append(d)
        for n, d in enumerate(trial_ev):
            if n + 1 < len(trial_ev):
                nxt = trial_ev[n + 1]
                d["nxt"] = nxt["s"]
                d["acc"] = bool(nxt["a"] != d["a"])
            else:
                d["nxt"] = None
                d["acc"] = bool(d["b"] == T and ys is not None)
            if d["acc"]:
                acc_list.append((d["a"], d["b"], d["_half2"][5] if d["_half2"] is not None else None, d))
        # the extra solver state each trial starts from: the initial one, the one produced by the last accepted
        # second half step, or (after a rejection) the one the rejected trial started from
        integ = [e for e in events if e[0] == "integrate"]
        extra_init = integ[0][3] if integ else None
        for n, d in enumerate(trial_ev):
            xin = d["_full"][4] if d["_full"] is not None else None
            if n == 0:
                d["xin"] = "x0" if _extras_same(xin, extra_init) else "other"
                continue
            pv = trial_ev[n - 1]
            m_half = pv["_half2"] is not None and _extras_same(xin, pv["_half2"][6])
            m_same = pv["_full"] is not None and _extras_same(xin, pv["_full"][4])
            if m_half and m_same:                       # indistinguishable (solver without extra state)
                d["xin"] = "half" if pv["acc"] else "same"
            else:
                d["xin"] = "half" if m_half else "same" if m_same else "other"
        # mechanism (not property): ratio memory is reset exactly after a clamp
        for n, d in enumerate(trial_ev):
            exp_none = (n == 0) or (trial_ev[n - 1]["raw"] < dt_min)
            if d["_prev_ratio_none"] is not None and d["_prev_ratio_none"] != exp_none:
                ra.drift.append(f"prev_error_ratio None={d['_prev_ratio_none']} at trial {n}, model says {exp_none}")
    else:
        prev = None
        for e in fsteps:
            a, b = float(e[1]), float(e[2])
            d = dict(k="fstep", a=a, b=b, q=[bm_log[j] for j in range(e[7], e[8])])
            d["lenOK"] = bool(b == float(min(_add_in(ts_dtype, a, dt), torch.tensor(T, dtype=ts_dtype))))
            if prev is None:
                d["yin"] = "y0" if _same(e[3], y0) else "other"
            else:
                d["yin"] = "prev" if (e[3] is prev[5] or _same(e[3], prev[5])) and _extras_same(e[4], prev[6]) else "other"
            prev = e
            trial_ev.append(d)
            acc_list.append((a, b, e[5], d))

    # ---- outputs -------------------------------------------------------------------------------------
    outs_after = {}          # index in acc_list -> list of out events
    first_out = None
    n_ts = len(ts_f)
    for i, t in enumerate(ts_f):
        if i == 0:
            ok = True if ys is None else (ys.shape[0] > 0 and _same(ys[0], y0))   # aborted run: nothing returned
            first_out = dict(k="out", idx=1, t=t, a=t, b=t, kind="y0", valOK=bool(ok))
            ra.out_prov.append((0, Fraction(0)))
            continue
        j = next((j for j, (a, b, _, _) in enumerate(acc_list) if a < t <= b), None)
        if j is None:
            continue                                  # never reached: the trace will be rejected as incomplete
        a, b, yb, _ = acc_list[j]
        ya = y0 if j == 0 else acc_list[j - 1][2]
        val = ys[i] if ys is not None and ys.shape[0] > i else None
        if t == b:
            kind = "grid"
            ok = True if ys is None else (val is not None and yb is not None and _same(val, yb))
            ra.out_prov.append((j + 1, Fraction(0)))
        else:
            kind = "interp"
            w = frac_weight(t, a, b)
            ra.out_prov.append((j, w))
            if ys is None:
                ok = True
            elif val is None or ya is None or yb is None:
                ok = False
            else:
                ok, ulp = interp_ok(val, ya, yb, w.numerator, w.denominator)
                ra.max_interp_ulp = max(ra.max_interp_ulp, ulp)
        outs_after.setdefault(j, []).append(dict(k="out", idx=i + 1, t=t, a=a, b=b, kind=kind, valOK=bool(ok)))

    # ---- assemble in program order ---------------------------------------------------------------------
    ev = [first_out]
    acc_idx = {id(x[3]): j for j, x in enumerate(acc_list)}
    for d in trial_ev:
        ev.append(d)
        j = acc_idx.get(id(d))
        if j is not None:
            ev.extend(outs_after.get(j, []))
    if aborted:
        ev.append(dict(k="abort"))
    elif ys is not None:
        shape_ok = tuple(ys.shape) == (n_ts,) + tuple(y0.shape) and ys.dtype == y0.dtype
        wd_ok = True if max_trials is None else len(trial_ev) <= max_trials
        reexec_ok = True
        if adaptive and reexec is not None:
            reexec_ok, why = _reexecute(reexec, events, acc_list, y0, bm_log)
            if not reexec_ok:
                ra.reexec_detail = why
        ev.append(dict(k="end", wdOK=bool(wd_ok), shapeOK=bool(shape_ok), reexecOK=bool(reexec_ok)))
        ra.complete = True

    # ---- ranks -------------------------------------------------------------------------------------------
    times = set(ts_f)
    sizes = {float(dt), float(dt_min)}
    for d in trial_ev:
        times.update(x for x in (d["a"], d["b"], d.get("m")) if x is not None and x == x)
        for q in d["q"]:
            times.update(x for x in q if x is not None)
        if d["k"] == "trial":
            sizes.update(x for x in (d["s"], d["raw"], d["nxt"]) if x is not None and x == x)
    trank = {t: r for r, t in enumerate(sorted(times))}
    srank = {s: r for r, s in enumerate(sorted(sizes))}

    def tr_(x):
        return trank.get(x, -7) if x is not None and x == x else -7

    out_ev = []
    for d in ev:
        e = {k: v for k, v in d.items() if not k.startswith("_")}
        for k in ("a", "b", "m", "t"):
            if k in e:
                e[k] = tr_(e[k])
        if "q" in e:
            e["q"] = [[tr_(x), tr_(y)] for x, y in e["q"]]
        if e["k"] == "trial":
            e["s"] = srank.get(e["s"], -7)
            e["raw"] = srank.get(e["raw"], -7)
            e["nxt"] = -1 if e["nxt"] is None else srank.get(e["nxt"], -7)
        out_ev.append(e)
    ra.ev = out_ev
    ra.hdr = dict(mode="adaptive" if adaptive else "fixed", T=trank[T], ts=[trank[t] for t in ts_f],
                  dt=srank[float(dt)], mn=srank[float(dt_min)])
    ra.queries = [q for d in trial_ev for q in d["q"]]
    ra.accepted = [(a, b, y) for a, b, y, _ in acc_list]
    ra.trials = trial_ev
    return ra


def _reexecute(step, events, acc_list, y0, bm_log):
    """The property verbatim: the returned values are those of the two-half-step solution on the accepted steps.
    Re-run the real solver.step along the accepted half steps only, from (y0, extra0), and compare every accepted
    state, its extra state and the returned extra state bit for bit with what the loop produced."""
    integ = [e for e in events if e[0] == "integrate"]
    ret = [e for e in events if e[0] == "return"]
    if not integ or not ret:
        return True, ""
    y, extra = y0, integ[0][3]
    n_log = len(bm_log)
    try:
        with torch.no_grad():
            for k, (a, b, y_b, d) in enumerate(acc_list):
                full, half2 = d["_full"], d["_half2"]
                h1 = [e for e in (d.get("_steps") or []) if e is not full and e is not half2]
                if half2 is None or not h1:
                    return True, ""                     # structure unknown: judged by the other clauses
                h1 = h1[0]
                y_m, extra_m = step(h1[1], h1[2], y, extra)
                y, extra = step(half2[1], half2[2], y_m, extra_m)
                if not _same(y.detach(), half2[5].detach()):
                    return False, (f"accepted step {k} [{a}, {b}]: state differs from the re-executed two-half-step value by "
                                   f"{float((y - half2[5]).abs().max()):.3e}")
                if not _extras_same(extra, half2[6]):
                    return False, f"accepted step {k} [{a}, {b}]: extra solver state differs from the re-executed one"
        if not _extras_same(extra, ret[0][2]):
            return False, "returned extra solver state is not the one of the last accepted step"
        return True, ""
    finally:
        del bm_log[n_log:]                              # the re-execution's Brownian queries are not part of the run


def _extras_same(e1, e2):
    if e1 is e2:
        return True
    try:
        if len(e1) != len(e2):
            return False
        return all(_same(x, y) for x, y in zip(e1, e2))
    except TypeError:
        return False


def _validate_chunk(traces, timeout):
    text = "\n".join(json.dumps(dict(tid=tid, hdr=hdr, ev=ev)) for tid, hdr, ev in traces) + "\n"
    cfg = "SPECIFICATION Spec\nPOSTCONDITION AllAccepted\nCHECK_DEADLOCK FALSE\n"
    return tlc.run("TraceLoop", cfg_text=cfg, workers=1, timeout=timeout, extra_files={"loop_traces.ndjson": text},
                   env={"TRACE_FILE": "loop_traces.ndjson"}, java_opts=JAVA_OPTS)


def validate_traces(ctx, traces, label, timeout=900, parallel=1):
    """traces: list of (tid, hdr, ev).  TLC runs of TraceLoop over all of them (`parallel` JVMs side by side).
    Returns {tid: (ok, at, [failing clause names])}."""
    if not traces:
        return {}
    from concurrent.futures import ThreadPoolExecutor
    parallel = max(1, min(parallel, len(traces)))
    # balance by number of events
    order = sorted(traces, key=lambda t: -len(t[2]))
    chunks = [[] for _ in range(parallel)]
    load = [0] * parallel
    for t in order:
        k = load.index(min(load))
        chunks[k].append(t)
        load[k] += len(t[2]) + 1
    with ThreadPoolExecutor(max_workers=parallel) as ex:
        results = list(ex.map(lambda ch: _validate_chunk(ch, timeout), chunks))
    verdicts = {}
    for k, res in enumerate(results):
        ctx.add_tlc(res, label if parallel == 1 else f"{label} [{k + 1}/{parallel}]")
        got = {}
        for p in res.printed:
            if isinstance(p, dict) and "tid" in p and "ok" in p:
                got[p["tid"]] = (bool(p["ok"]), p["at"], list(p["bad"]))
        missing = [tid for tid, _, _ in chunks[k] if tid not in got]
        if missing:
            raise tlc.TLCMachineryError(f"TraceLoop [{label}]: no verdict for traces {missing[:5]}\n" + res.output[-2000:])
        if all(v[0] for v in got.values()) != (not res.postcondition_failed):
            raise tlc.TLCMachineryError(f"TraceLoop [{label}]: POSTCONDITION and per-trace verdicts disagree")
        verdicts.update(got)
    return verdicts


def beh_to_events(beh):
    """A behaviour printed by SolverLoop (ticks) as TraceLoop events, without any real code: used to show that
    the monitor accepts every behaviour of the model."""
    ts = beh["ts"]
    adaptive = beh["mode"] == "adaptive"
    ev = [dict(k="out", idx=1, t=ts[0], a=ts[0], b=ts[0], kind="y0", valOK=True)]
    acc = []
    emitted = 1

    def outs_for(a, b):
        nonlocal emitted
        o = []
        while emitted < len(ts) and ts[emitted] <= b:
            t = ts[emitted]
            o.append(dict(k="out", idx=emitted + 1, t=t, a=a, b=b, kind="grid" if t == b else "interp", valOK=True))
            emitted += 1
        return o

    if adaptive:
        sch = beh["sched"]
        prevk = "first"
        for n, s in enumerate(sch):
            ev.append(dict(k="trial", a=s["a"], m=s["m"], b=s["b"], q=[[s["a"], s["b"]], [s["a"], s["m"]], [s["m"], s["b"]]],
                           midOK=True, lenOK=True, s=s["s"], le1=s["est"] == "le1", normOK=True, argsOK=True,
                           raw=s["raw"], nxt=sch[n + 1]["s"] if n + 1 < len(sch) else -1, acc=s["acc"],
                           yin={"first": "y0", "acc": "half", "rej": "same"}[prevk],
                           xin={"first": "x0", "acc": "half", "rej": "same"}[prevk]))
            prevk = "acc" if s["acc"] else "rej"
            if s["acc"]:
                ev.extend(outs_for(s["a"], s["b"]))
    else:
        for n, (a, b) in enumerate(beh["acc"]):
            ev.append(dict(k="fstep", a=a, b=b, q=[[a, b]], lenOK=True, yin="y0" if n == 0 else "prev"))
            ev.extend(outs_for(a, b))
    ev.append(dict(k="end", wdOK=True, shapeOK=True, reexecOK=True))
    hdr = dict(mode=beh["mode"], T=beh["T"], ts=ts, dt=beh["d"], mn=beh["mn"])
    return hdr, ev


# ---------------------------------------------------------------------------------------------------------
# helpers shared by the checks
# ---------------------------------------------------------------------------------------------------------

def n_layouts(T, max_interior):
    return sum(math.comb(T - 1, k) for k in range(max_interior + 1))


def run_tlc_jobs(ctx, jobs, max_parallel=4):
    """jobs: list of (label, kwargs for run_loop_spec).  Runs them concurrently (TLC is a subprocess), then adds
    the results to ctx in order.  Returns {label: TLCResult}."""
    from concurrent.futures import ThreadPoolExecutor
    with ThreadPoolExecutor(max_workers=max_parallel) as ex:
        futs = [(label, ex.submit(run_loop_spec, None, label, **kw)) for label, kw in jobs]
        out = {}
        for label, f in futs:
            res = f.result()
            ctx.add_tlc(res, label)
            out[label] = res
    return out


def bits_equal(a, b):
    if a.shape != b.shape or a.dtype != b.dtype:
        return False
    it = {torch.float64: torch.int64, torch.float32: torch.int32}[a.dtype]
    return bool(torch.equal(a.contiguous().view(it), b.contiguous().view(it)))


def layout_class(beh):
    """What makes a layout non-trivial: outputs strictly inside a step, several outputs in one step, clipped last step."""
    interior = [k for k in beh["outK"] if k[1] != 0]
    same_step = len({k[0] for k in interior}) < len(interior)
    clipped = beh["T"] % beh["d"] != 0
    return f"in{min(len(interior), 2)}{'m' if same_step else ''}{'c' if clipped else ''}"


# ---------------------------------------------------------------------------------------------------------
# C12: one group = one (solver config, d, T, time map): a grid run + many layouts
# ---------------------------------------------------------------------------------------------------------

def c12_group(job):
    torch.set_num_threads(1)
    c, seed, d, T = job["c"], job["seed"], job["d"], job["T"]
    tm = TickMap(job["t0"], job["j"])
    p = Problem(c, seed)
    base_key = dict(label=c["label"], noise=c["noise"], dtype=c["dtype"], ts_kind=c["ts_kind"])
    fails, traces, keys = [], [], []
    max_ulp = 0.0

    def fail(check, msg, beh):
        fails.append((dict(base_key, check=check), msg,
                      dict(config=c, seed=seed, d=d, T=T, t0=job["t0"], j=job["j"], ts=beh["ts"] if beh else None)))

    behs = job["behs"]
    spec_q = behs[0]["queries"]
    grid_u = sorted({min(k * d, T) for k in range(0, (T + d - 1) // d + 1)})
    grid_ts = tm.ts(grid_u)
    bm = p.bm(grid_ts[0], grid_ts[-1], max_calls=64)
    try:
        ys_grid = p.sdeint(grid_ts, tm.dt(d), bm)
    except Exception as e:  # noqa
        fail("exception", f"grid run raised {type(e).__name__}: {e}", None)
        return dict(fails=fails, traces=traces, keys=keys, max_ulp=max_ulp, n=0)
    if [(tm.u(a), tm.u(b)) for a, b in bm.log] != [tuple(q) for q in spec_q]:
        fail("queries", f"grid-layout run queried {[(tm.u(a), tm.u(b)) for a, b in bm.log]}, spec: {spec_q}", None)
    keys.append((f"{cfg_key(c)}|d={d}|T={T}|grid", None))
    memo = {}
    for bi, beh in enumerate(behs):
        if len(fails) >= 8:
            break                                   # enough evidence from this group; keep a broken tree fast
        ts_u = beh["ts"]
        ts_f = tm.ts(ts_u)
        bm = p.bm(ts_f[0], ts_f[-1], max_calls=64)
        want_trace = bi in job["trace_idx"]
        # options that only concern adaptive stepping must not matter with fixed steps: rotate them (a dt_min larger
        # than the clipped last step, larger than dt, larger than the whole interval; loose / tight tolerances)
        irr = [{}, dict(dt_min=1.5 * tm.tick), dict(dt_min=tm.dt(T) * 4, rtol=1e-1, atol=1e-1),
               dict(dt_min=tm.dt(d) * 1.25, rtol=1e-12, atol=1e-12)][(bi + seed + d) % 4]
        # dt is a `Scalar`: a Python float or (every third layout) a 0-dim tensor in the dtype of the problem
        dt_arg = torch.tensor(tm.dt(d), dtype=p.dtype) if (bi + d) % 3 == 1 else tm.dt(d)
        try:
            if want_trace:
                with LoopRecorder(bm) as rec:
                    ys = p.sdeint(ts_f, dt_arg, bm, **irr)
            else:
                ys = p.sdeint(ts_f, dt_arg, bm, **irr)
        except Exception as e:  # noqa
            fail("exception", f"sdeint raised {type(e).__name__}: {e} (options {irr})", beh)
            continue
        keys.append((f"{cfg_key(c)}|d={d}|T={T}|{layout_class(beh)}",
                     dict(config=cfg_key(c), ts_ticks=ts_u, dt_ticks=d, t0=job["t0"], tick=tm.tick)))
        got_q = [(tm.u(a), tm.u(b)) for a, b in bm.log]
        if got_q != [tuple(q) for q in beh["queries"]]:
            fail("queries", f"ts={ts_u} d={d} options {irr}: Brownian queries {got_q} != spec {beh['queries']}", beh)
        if tuple(ys.shape) != (len(ts_u), p.batch, p.d) or ys.dtype != p.dtype:
            fail("shape", f"ts={ts_u}: shape {tuple(ys.shape)} dtype {ys.dtype}", beh)
            continue
        if not bits_equal(ys[0], p.y0):
            fail("y0", f"ts={ts_u}: ys[0] is not y0 bit for bit", beh)
        for i, (k, num, den) in enumerate(beh["outK"]):
            if i == 0:
                continue
            if k + (1 if num else 0) >= ys_grid.shape[0]:
                fail("grid_value", f"ts={ts_u}: grid run has no state {k}", beh)
                continue
            if num == 0:
                if not torch.equal(ys[i], ys_grid[k]):
                    fail("grid_value", f"ts={ts_u} d={d}: output {i} (t={ts_u[i]}) differs from grid state {k} of the "
                                       f"run whose ts is the grid, max diff {float((ys[i] - ys_grid[k]).abs().max()):.3e}", beh)
            else:
                ok, ulp = interp_ok(ys[i], ys_grid[k], ys_grid[k + 1], num, den)
                max_ulp = max(max_ulp, ulp)
                if not ok:
                    fail("interp", f"ts={ts_u} d={d}: output {i} (t={ts_u[i]}) is not (1-{num}/{den}) G({k}) + "
                                   f"{num}/{den} G({k + 1}) ({ulp:.1f} ulp)", beh)
            prev = memo.setdefault(ts_u[i], ys[i])
            if prev is not ys[i] and not torch.equal(prev, ys[i]):
                fail("invariance", f"output at t={ts_u[i]} changed when other output times changed (ts={ts_u})", beh)
        if want_trace:
            ra = analyse(rec.events, bm.log, ts_f, p.dtype, p.y0, tm.dt(d), False)
            traces.append((beh, ra.hdr, ra.ev))
    return dict(fails=fails, traces=traces, keys=keys, max_ulp=max_ulp, n=len(behs) + 1)


# ---------------------------------------------------------------------------------------------------------
# C13: chunked (checkpoint / restart) runs against the one-shot run
# ---------------------------------------------------------------------------------------------------------

def _extra_equal(e1, e2):
    if len(e1) != len(e2):
        return False
    return all(bits_equal(a, b) if torch.is_tensor(a) and torch.is_tensor(b) else a == b for a, b in zip(e1, e2))


def chunked_run(p, tm, ts_u, rs, d, bm, pass_extra=True, rec=None):
    """sdeint chunk by chunk over ts_u, restarting at the ticks in rs from (ys[-1], returned extra state)."""
    cuts = [0] + [i for i, u in enumerate(ts_u) if u in rs and 0 < i < len(ts_u) - 1] + [len(ts_u) - 1]
    y, extra = p.y0, None
    pieces = []
    # the chunks share ONE options dict object, and an unrelated solve that uses the same dict runs between chunks
    shared = dict(p.c["options"]) if p.c["options"] else None
    for a, b in zip(cuts[:-1], cuts[1:]):
        kw = {}
        if extra is not None and pass_extra:
            kw["extra_solver_state"] = extra
        if shared is not None:
            kw["options_obj"] = shared
            if a > 0:
                p.unrelated_solve(shared)
        ys, extra = p.sdeint(tm.ts(ts_u[a:b + 1]), tm.dt(d), bm, y0=y, extra=True, **kw)
        pieces.append(ys if a == 0 else ys[1:])
        y = ys[-1]
    return torch.cat(pieces, dim=0), extra, len(cuts) - 1


def c13_group(job):
    torch.set_num_threads(1)
    c, seed = job["c"], job["seed"]
    tm = TickMap(job["t0"], job["j"])
    p = Problem(c, seed)
    switch = job.get("switch", job["gi"] % 3 == 1)
    if switch:
        # every third group: vector fields that change structure two ticks into the run (state-independent diffusion
        # during a burn-in, state-dependent afterwards)
        p = Problem(c, seed, sde=SwitchSDE(c["noise"], c["sde_type"], tm.t(2)))
    base_key = dict(label=c["label"], noise=c["noise"], dtype=c["dtype"], ts_kind=c["ts_kind"])
    fails, keys = [], []
    sens = [0, 0]

    def fail(check, msg, beh, same_obj):
        fails.append((dict(base_key, check=check), msg,
                      dict(config=c, seed=seed, d=beh["d"], T=beh["T"], t0=job["t0"], j=job["j"], ts=beh["ts"],
                           rs=beh["rs"], same_brownian_object=same_obj, switch=switch)))

    for n, beh in enumerate(job["behs"]):
        if len(fails) >= 8:
            break
        ts_u, rs, d = beh["ts"], set(beh["rs"]), beh["d"]
        ts_f = tm.ts(ts_u)
        same_obj = (n + job["gi"]) % 2 == 0
        # solvers without extra state: alternate between passing the returned () and omitting it
        pass_extra = True if c["has"] else (n % 3 != 0)
        try:
            bm1 = p.bm(ts_f[0], ts_f[-1], max_calls=128)
            ys1, ex1 = p.sdeint(ts_f, tm.dt(d), bm1, extra=True)
            nq1 = len(bm1.log)
            bm2 = bm1 if same_obj else p.bm(ts_f[0], ts_f[-1], max_calls=128)
            ys2, ex2, nchunks = chunked_run(p, tm, ts_u, rs, d, bm2, pass_extra=pass_extra)
        except Exception as e:  # noqa
            fail("exception", f"ts={ts_u} rs={sorted(rs)}: {type(e).__name__}: {e}", beh, same_obj)
            continue
        keys.append((f"{cfg_key(c)}|d={d}|T={beh['T']}|chunks={nchunks}{'|same_bm' if same_obj else ''}",
                     dict(config=cfg_key(c), ts_ticks=ts_u, restarts_at=sorted(rs), dt_ticks=d, same_brownian_object=same_obj,
                          extra_state_passed=pass_extra)))
        want = [tuple(q) for q in beh["queries"]]
        q1 = [(tm.u(a), tm.u(b)) for a, b in bm1.log[:nq1]]
        q2 = [(tm.u(a), tm.u(b)) for a, b in (bm2.log[nq1:] if same_obj else bm2.log)]
        if q1 != want or q2 != want:
            fail("queries", f"ts={ts_u} rs={sorted(rs)} d={d}: queries one-shot {q1}, chunked {q2}, spec {want}", beh, same_obj)
        if ys1.shape != ys2.shape or not bits_equal(ys1, ys2):
            bad = [i for i in range(min(len(ys1), len(ys2))) if not bits_equal(ys1[i], ys2[i])]
            fail("chunk_values", f"ts={ts_u} restarts at {sorted(rs)} d={d}: chunked outputs differ from one-shot at "
                                 f"indices {bad}, max diff {float((ys1 - ys2).abs().max()) if ys1.shape == ys2.shape else 'shape'}",
                 beh, same_obj)
        if not _extra_equal(ex1, ex2):
            fail("chunk_extra", f"ts={ts_u} restarts at {sorted(rs)}: final extra solver state differs from one-shot", beh, same_obj)
        if c["has"] and rs and n % 4 == 0:
            # sensitivity of the binding (not a verdict): dropping the extra state must be visible
            ys3, _, _ = chunked_run(p, tm, ts_u, rs, d, p.bm(ts_f[0], ts_f[-1]), pass_extra=False)
            sens[0] += 1
            sens[1] += int(not bits_equal(ys1, ys3))
    return dict(fails=fails, keys=keys, n=len(job["behs"]), sens=sens)


def c13_nondyadic_group(job):
    """C13 with a step size that is NOT exactly representable (dt = 0.1, 0.05, 1e-2 ...): "t1 lies on the step grid" then
    means: t1 is, bit for bit, a step time of the one-shot solve.  The one-shot solve over [t0, T] is run under a
    recording Brownian proxy, its step times are read from the query log, restart sets are drawn among them, and the
    chunked solve (restarting from ys[-1] and the returned extra state, same Brownian object or an identically seeded
    twin) must reproduce the one-shot solve over the same output times bit for bit - values, extra state, queries."""
    torch.set_num_threads(1)
    c, seed = job["c"], job["seed"]
    import random as _r
    rnd = _r.Random(f"{seed}:{cfg_key(c)}:nd")
    p = Problem(c, seed)
    fails, keys = [], []
    # mixed precision (accepted by the library): float32 state and times, float64 Brownian motion - the values computed
    # by the steps are float64 then; only with tensor ts (a list would be converted to the dtype of each chunk's y0)
    mixed = bool(job.get("mixed")) and c["dtype"] == "float32" and c["ts_kind"] == "tensor"
    if mixed:
        def _bm64(t0_, t1_, max_calls=2000):
            inner = torchsde.BrownianInterval(t0=t0_, t1=t1_, size=(p.batch, p.m), dtype=torch.float64, entropy=p.entropy,
                                              levy_area_approximation=c["levy"])
            return RecordingBrownian(inner, max_calls=max_calls)
        p.bm = _bm64
    for (t0, dt, nsteps, clip) in job["grids"]:
        T = t0 + nsteps * dt + (0.37 * dt if clip else 0.0)
        key = dict(label=c["label"], noise=c["noise"], dtype=c["dtype"] + ("+bm64" if mixed else ""), ts_kind=c["ts_kind"],
                   check="chunk_values", grid="nondyadic")
        try:
            bm0 = p.bm(t0, T, max_calls=8 * nsteps + 64)
            p.sdeint([t0, T], dt, bm0)
            grid = [bm0.log[0][0]] + [b for (_, b) in bm0.log]
            if any(b2 <= b1 for b1, b2 in zip(grid[:-1], grid[1:])):
                fails.append((dict(key, check="queries"), f"dt={dt}: the one-shot step times {grid[:6]}... do not increase", dict(config=c, dt=dt)))
                continue
            interior = list(range(1, len(grid) - 1))
            for rep in range(job["reps"]):
                k = rnd.choice([1, 1, 2, 3])
                cuts = sorted(rnd.sample(interior, min(k, len(interior))))
                extra_outs = sorted(set(rnd.sample(interior, min(2, len(interior)))) | set(cuts))
                idx = [0] + extra_outs + [len(grid) - 1]
                ts_f = [grid[i] for i in idx]
                same_obj = rep % 2 == 0
                bm1 = p.bm(t0, T, max_calls=8 * nsteps + 64)
                ys1, ex1 = p.sdeint(ts_f, dt, bm1, extra=True)
                nq1 = len(bm1.log)
                bm2 = bm1 if same_obj else p.bm(t0, T, max_calls=8 * nsteps + 64)
                y, extra, pieces = p.y0, None, []
                bounds = [0] + [idx.index(i) for i in cuts] + [len(idx) - 1]
                for a, b in zip(bounds[:-1], bounds[1:]):
                    kw = {} if extra is None else dict(extra_solver_state=extra)
                    ys, extra = p.sdeint(ts_f[a:b + 1], dt, bm2, y0=y, extra=True, **kw)
                    pieces.append(ys if a == 0 else ys[1:])
                    y = ys[-1]
                ys2 = torch.cat(pieces, dim=0)
                q1 = bm1.log[:nq1]
                q2 = bm2.log[nq1:] if same_obj else bm2.log
                keys.append((f"nondyadic{'|mixed' if mixed else ''}|{cfg_key(c)}|dt={dt}|n={nsteps}|clip={clip}|chunks={len(cuts) + 1}",
                             dict(config=cfg_key(c), dt=dt, t0=t0, steps=nsteps, clipped_last_step=clip,
                                  restart_times=[grid[i] for i in cuts], same_brownian_object=same_obj)))
                rp = dict(config=c, seed=seed, nondyadic=dict(t0=t0, dt=dt, nsteps=nsteps, clip=clip, cuts=cuts, outs=idx))
                if q1 != q2:
                    j = next((j for j in range(min(len(q1), len(q2))) if q1[j] != q2[j]), min(len(q1), len(q2)))
                    fails.append((dict(key, check="queries"),
                                  f"dt={dt} t0={t0} restarts at step {cuts}: Brownian query {j} is {q1[j] if j < len(q1) else None!r} "
                                  f"one-shot but {q2[j] if j < len(q2) else None!r} chunked ({len(q1)} vs {len(q2)} queries)", rp))
                if ys1.shape != ys2.shape or not bits_equal(ys1, ys2):
                    fails.append((key, f"dt={dt} t0={t0} ({c['dtype']}) restarts at steps {cuts} of {nsteps}: chunked outputs differ from "
                                       f"one-shot, max diff {float((ys1 - ys2).abs().max()) if ys1.shape == ys2.shape else 'shape'}", rp))
                if not _extra_equal(ex1, extra):
                    fails.append((dict(key, check="chunk_extra"), f"dt={dt} restarts at steps {cuts}: final extra solver state differs", rp))
                if len(fails) >= 6:
                    break
        except Exception as e:  # noqa
            fails.append((dict(key, check="exception"), f"dt={dt} t0={t0}: {type(e).__name__}: {e}", dict(config=c, dt=dt)))
    return dict(fails=fails, keys=keys)


# ---------------------------------------------------------------------------------------------------------
# C14: adaptive runs
# ---------------------------------------------------------------------------------------------------------

ADAPTIVE_LABELS = ("euler", "milstein_ito", "srk", "midpoint", "heun", "euler_heun", "milstein_strat", "log_ode_foster",
                   "reversible_heun")


def c14_scripted(job):
    """Force one TLC-generated adaptive behaviour (beh['sched']) through the real loop.
    mode 'exact': compute_error AND update_step_size are scripted, so the real loop must reproduce the behaviour
                  tick for tick (queries, accepted steps, output provenance);
    mode 'classes': only compute_error is scripted (estimate classes), the real controller chooses step sizes; the
                  recorded run is judged by TraceLoop alone."""
    torch.set_num_threads(1)
    out = []
    for item in job["items"]:
        out.append(_c14_scripted_one(job["c"], job["seed"], item))
    return out


def _c14_scripted_one(c, seed, item):
    beh, mode = item["beh"], item["mode"]
    tm = TickMap(item["t0"], item["j"])
    p = Problem(c, seed)
    sch = beh["sched"]
    ts_f = tm.ts(beh["ts"])
    dt, dt_min = tm.dt(beh["d"]), tm.dt(beh["mn"])
    calls = {"upd": 0}

    def err_script(n):
        return 0.5 if (n > len(sch) or sch[n - 1]["est"] == "le1") else 2.0

    def upd_script(est, prev_step, prev_ratio):
        n = calls["upd"]
        calls["upd"] += 1
        raw = sch[min(n, len(sch) - 1)]["raw"]
        val = tm.dt(raw) if raw > 0 else tm.tick / 4          # "0" = below one tick (hence below dt_min)
        return val, (1.0 if est <= 1 or prev_ratio is None else prev_ratio)

    bm = p.bm(ts_f[0], ts_f[-1])
    fails = []
    key = dict(label=c["label"], noise=c["noise"], dtype=c["dtype"], mode="scripted-" + mode)
    replay = dict(config=c, seed=seed, t0=item["t0"], j=item["j"], ts=beh["ts"], d=beh["d"], mn=beh["mn"],
                  sched=[(s["est"], s["raw"]) for s in sch])
    limit = len(sch) + 3 if mode == "exact" else 40 * (len(sch) + 8)
    aborted = False
    with LoopRecorder(bm, err_script=err_script, upd_script=upd_script if mode == "exact" else None, max_trials=limit) as rec:
        try:
            p.sdeint(ts_f, dt, bm, adaptive=True, dt_min=dt_min, rtol=1e-3, atol=1e-3)
        except WatchdogExpired:
            aborted = True
        except Exception as e:  # noqa
            fails.append((dict(key, check="exception"), f"{type(e).__name__}: {e}", replay))
            return dict(fails=fails, trace=None, drift=[], steered=True, ntrials=0)
    ra = analyse(rec.events, bm.log, ts_f, p.dtype, p.y0, dt, True, dt_min=dt_min, rtol=1e-3, atol=1e-3,
                 scripted_err=True, max_trials=limit, aborted=aborted, reexec=rec.inner_step)
    steered = rec.n_err > 0 and (mode != "exact" or calls["upd"] > 0)
    if mode == "exact" and steered:
        # trial by trial (a, midpoint, b); the order of the full step and the two half steps inside a trial is not
        # prescribed by the property, so the three Brownian queries of a trial are compared as a set (by TraceLoop)
        got_tr = [(tm.u(d["a"]), tm.u(d["m"]), tm.u(d["b"])) for d in ra.trials]
        want_tr = [(s["a"], s["m"], s["b"]) for s in sch]
        if got_tr != want_tr:
            fails.append((dict(key, check="replay:trials"),
                          f"ts={beh['ts']} dt={beh['d']} dt_min={beh['mn']} schedule {replay['sched']}: trials (a, mid, b) "
                          f"{got_tr} != spec {want_tr}", replay))
        got_q = sorted((tm.u(a), tm.u(b)) for a, b in bm.log)
        if got_q != sorted(tuple(q) for q in beh["queries"]):
            fails.append((dict(key, check="replay:queries"),
                          f"ts={beh['ts']} schedule {replay['sched']}: Brownian queries (as a multiset) {got_q} != spec "
                          f"{sorted(tuple(q) for q in beh['queries'])}", replay))
        got_acc = [(tm.u(a), tm.u(b)) for a, b, _ in ra.accepted]
        if got_acc != [tuple(x) for x in beh["acc"]]:
            fails.append((dict(key, check="replay:accepted"),
                          f"ts={beh['ts']} schedule {replay['sched']}: accepted steps {got_acc} != spec {beh['acc']}", replay))
        want_prov = [(k, Fraction(n, dd) if n else Fraction(0)) for k, n, dd in beh["outK"]]
        if ra.complete and ra.out_prov != want_prov:
            fails.append((dict(key, check="replay:outputs"),
                          f"ts={beh['ts']} schedule {replay['sched']}: output provenance {ra.out_prov} != spec {want_prov}", replay))
    return dict(fails=fails, trace=(ra.hdr, cap_trace(ra.ev)[0]), drift=ra.drift if mode == "classes" else [], steered=steered,
                detail=ra.reexec_detail, nrej=sum(1 for d in ra.trials if not d["acc"]),
                ntrials=len(ra.trials), key=key, replay=replay)


def natural_problems(seed, quick):
    """Natural adaptive runs: stiff linear, oscillatory, the example SDEs; tolerances over three decades; dt_min hit."""
    probs = []

    def add(name, label, noise, dtype, sde, ts, dt, rtol, atol, dt_min, batch=2, d=3):
        probs.append(dict(name=name, label=label, noise=noise, dtype=dtype, sde=sde, ts=ts, dt=dt, rtol=rtol, atol=atol,
                          dt_min=dt_min, batch=batch, d=d))

    tols = [(1e-2, 1e-2), (1e-3, 1e-3), (1e-4, 1e-4)]
    for i, (rt, at) in enumerate(tols):
        # stiff linear, dt_min reached when the tolerance is tight
        add(f"stiff-diag-euler-{rt:g}", "euler", "diagonal", "float64", ("linear", 40.0, 0.5, 0.0), [0.0, 0.13, 0.5], 0.25,
            rt, at, 2.0 ** -8)
        add(f"stiff-diag-milstein-{rt:g}", "milstein_ito", "diagonal", "float64", ("linear", 60.0, 0.75, 0.0), [0.0, 0.3, 0.4],
            0.2, rt, at, 2.0 ** -9)
        add(f"stiff-add-srk-{rt:g}", "srk", "additive", "float64", ("linear", 80.0, 0.5, 0.0), [0.0, 0.21, 0.5], 0.125,
            rt, at, 2.0 ** -9)
        # oscillatory
        add(f"osc-heun-{rt:g}", "heun", "diagonal", "float64", ("linear", 0.25, 0.125, 24.0), [0.0, 0.4, 0.75, 1.0], 0.3,
            rt, at, 1e-3, d=2)
        add(f"osc-midpoint-{rt:g}", "midpoint", "additive", "float64", ("linear", 0.5, 0.25, 16.0), [0.0, 0.37, 1.0], 0.5,
            rt, at, 1e-3, d=2)
    if not quick:
        for i, (rt, at) in enumerate(tols):
            add(f"stiff-scalar-euler_heun-{rt:g}", "euler_heun", "scalar", "float64", ("linear", 50.0, 0.5, 0.0),
                [0.0, 0.2, 0.5], 0.25, rt, at, 2.0 ** -9)
            add(f"stiff-general-euler-{rt:g}", "euler", "general", "float64", ("linear", 30.0, 0.25, 0.0), [0.0, 0.5], 0.25,
                rt, at, 2.0 ** -8)
    # the example SDEs: every noise type, several solvers, both precisions
    ex = [("euler", "general", "float64"), ("reversible_heun", "general", "float64"), ("log_ode_foster", "general", "float64"),
          ("srk", "scalar", "float64"), ("milstein_strat", "scalar", "float32"), ("euler_heun", "additive", "float64"),
          ("midpoint", "diagonal", "float32"), ("reversible_heun", "additive", "float32")]
    if not quick:
        ex += [(lab, nz, dtp) for lab in ADAPTIVE_LABELS for nz in FIXED_METHODS[lab][2] for dtp in ("float64", "float32")]
    for k, (lab, nz, dtp) in enumerate(ex):
        rt, at = tols[(k + seed) % 3] if dtp == "float64" else (1e-2, 1e-2)
        add(f"example-{lab}-{nz}-{dtp}", lab, nz, dtp, ("example",), [0.0, 0.3, 0.55, 1.0], 0.25, rt, at,
            2.0 ** -7 if dtp == "float64" else 2.0 ** -5)
    # one-sided tolerances: purely relative (atol = 0) on small states, purely absolute (rtol = 0)
    add("relonly-diag-euler", "euler", "diagonal", "float64", ("linear_small", 2.0, 0.5, 0.0), [0.0, 0.3, 1.0], 0.25,
        1e-3, 0.0, 2.0 ** -10)
    add("relonly-diag-milstein", "milstein_ito", "diagonal", "float64", ("linear_small", 4.0, 0.75, 0.0), [0.0, 0.45, 1.0],
        0.2, 1e-3, 0.0, 2.0 ** -10)
    add("absonly-diag-heun", "heun", "diagonal", "float64", ("linear", 2.0, 0.5, 0.0), [0.0, 0.3, 1.0], 0.25,
        0.0, 1e-3, 2.0 ** -10)
    # a solver with extra state (f, g, z) and many rejections: a rejected trial must not advance the extra state
    add("osc-revheun-0.001", "reversible_heun", "diagonal", "float64", ("linear", 0.25, 0.125, 24.0), [0.0, 0.4, 1.0], 0.3,
        1e-3, 1e-3, 1e-3, d=2)
    add("stiff-revheun-0.001", "reversible_heun", "additive", "float64", ("linear", 40.0, 0.5, 0.0), [0.0, 0.21, 0.5], 0.25,
        1e-3, 1e-3, 2.0 ** -9)
    add("example-revheun-scalar-0.001", "reversible_heun", "scalar", "float64", ("example",), [0.0, 0.3, 1.0], 0.5, 1e-3, 1e-3,
        2.0 ** -8)
    # grids that start at a negative, non-dyadic time and end just after zero, or are taken in one long clipped step:
    # ts[-1] - curr_t is then inexact in floating point (the clip of the last step must still land exactly on ts[-1])
    add("neg-start-euler", "euler", "diagonal", "float64", ("linear", 2.0, 0.5, 0.0), [-1.0, -0.37, 0.01], 0.25, 1e-3, 1e-3, 1e-4)
    add("neg-start-heun", "heun", "additive", "float64", ("example",), [-0.5, 0.003], 0.2, 1e-2, 1e-2, 1e-4)
    add("neg-one-step-midpoint", "midpoint", "additive", "float64", ("example",), [-0.1, 0.2], 0.5, 1e-1, 1e-1, 1e-3)
    add("neg-one-step-srk", "srk", "diagonal", "float64", ("example",), [-0.7, 0.3], 2.0, 5e-1, 5e-1, 1e-3)
    add("neg-start-revheun", "reversible_heun", "diagonal", "float64", ("example",), [-2.0, -0.9, 0.02], 0.5, 1e-2, 1e-2, 1e-3)
    # dt_min hit on purpose: coarse dt_min with a tight tolerance
    add("dtmin-hit-euler", "euler", "diagonal", "float64", ("linear", 20.0, 1.0, 0.0), [0.0, 0.33, 1.0], 0.25, 1e-4, 1e-4, 2.0 ** -4)
    add("dtmin-hit-revheun", "reversible_heun", "diagonal", "float64", ("example",), [0.0, 0.5, 1.0], 0.5, 1e-4, 1e-6, 2.0 ** -3)
    return probs


def watchdog_limit(span, dt_min):
    """Bound on the number of trials of a terminating run: every accepted step but the last is >= dt_min
    (<= span/dt_min + 1 accepted steps); the controller shrinks geometrically after a rejection, so a handful of
    rejections per accepted step; factor 4 is generous (natural runs here use < 1.5 trials per accepted step)."""
    return 4 * (int(math.ceil(span / dt_min)) + 1) + 50


MAX_TRACE_EVENTS = 4000


def cap_trace(ev):
    """Traces longer than MAX_TRACE_EVENTS are validated on their first MAX_TRACE_EVENTS events (DESIGN 4.2); an aborted
    (watchdog) run keeps its "abort" event so that it is still rejected with clause Terminates."""
    if len(ev) <= MAX_TRACE_EVENTS:
        return ev, False
    tail = ev[-1] if ev[-1]["k"] == "abort" else dict(k="cut")
    return ev[:MAX_TRACE_EVENTS] + [tail], True


def c14_natural(job):
    torch.set_num_threads(1)
    pr, seed = job["prob"], job["seed"]
    method, sde_type, _, levy, options, has = FIXED_METHODS[pr["label"]]
    c = dict(label=pr["label"], method=method, sde_type=sde_type, noise=pr["noise"], levy=levy, options=options, has=has,
             dtype=pr["dtype"], ts_kind="tensor")
    if pr["sde"][0] in ("linear", "linear_small"):
        _, lam, sig, omega = pr["sde"]
        sde = LinearSDE(lam, sig, noise_type=pr["noise"], sde_type=sde_type, omega=omega)
    else:
        sde = ExampleSDE(pr["noise"], sde_type, d=pr["d"])
    p = Problem(c, seed, batch=pr["batch"], d=pr["d"], sde=sde)
    if pr["sde"][0] in ("linear", "linear_small"):
        p.m = {"diagonal": pr["d"], "additive": 1, "scalar": 1, "general": 2}[pr["noise"]]
        p.y0 = p.y0 + 1.5                      # away from the fixed point 0
        if pr["sde"][0] == "linear_small":
            p.y0 = p.y0 / 64.0                 # small states: with atol = 0 the tolerance is rtol |y| ~ 1e-5
    ts_f = pr["ts"]
    span = ts_f[-1] - ts_f[0]
    limit = watchdog_limit(span, pr["dt_min"])
    bm = p.bm(ts_f[0], ts_f[-1], max_calls=8 * limit + 100)
    key = dict(label=c["label"], noise=c["noise"], dtype=c["dtype"], mode="natural")
    aborted = False
    # dt, dt_min, rtol, atol are `Scalar`s: Python floats or 0-dim tensors.  Every other problem passes tensors (and
    # checks afterwards that the caller's tensors still hold the values passed).
    as_tensor = (sum(map(ord, pr["name"])) + seed) % 2 == 0
    # (in the dtype of the problem, so that the time arithmetic of the loop stays in the dtype of ts)
    sc = {k: (torch.tensor(pr[k], dtype=p.dtype) if as_tensor else pr[k]) for k in ("dt", "dt_min", "rtol", "atol")}
    sc0 = {k: float(v) for k, v in sc.items()}
    via_adjoint = (sum(map(ord, pr["name"])) // 2 + seed) % 3 == 0       # a third of the runs through sdeint_adjoint
    with LoopRecorder(bm, max_trials=limit) as rec:
        try:
            p.sdeint(ts_f, sc["dt"], bm, adaptive=True, dt_min=sc["dt_min"], rtol=sc["rtol"], atol=sc["atol"],
                     via_adjoint=via_adjoint)
        except WatchdogExpired:
            aborted = True
        except Exception as e:  # noqa
            return dict(fails=[(dict(key, check="exception"), f"{pr['name']}: {type(e).__name__}: {e}", pr)], trace=None)
    ra = analyse(rec.events, bm.log, ts_f, p.dtype, p.y0, sc0["dt"], True, dt_min=sc0["dt_min"], rtol=sc0["rtol"],
                 atol=sc0["atol"], max_trials=limit, aborted=aborted, reexec=rec.inner_step)
    tr = ra.trials
    stats = dict(trials=len(tr), accepted=sum(d["acc"] for d in tr), rejected=sum(not d["acc"] for d in tr),
                 forced_at_dt_min=sum(1 for d in tr if d["acc"] and not d["le1"]),
                 clamped=sum(1 for d in tr if d["raw"] < pr["dt_min"]),
                 max_norm_rel_dev=max([abs(d["_norm"][0] - d["_norm"][1]) / max(d["_norm"]) for d in tr if "_norm" in d] or [0.0]),
                 max_interp_ulp=ra.max_interp_ulp)
    ev, cut = cap_trace(ra.ev)
    stats["trace_cut"] = cut
    stats["terminated"] = not aborted
    stats["scalars_as_tensors"] = as_tensor
    stats["through_sdeint_adjoint"] = via_adjoint
    fails = []
    if as_tensor:
        changed = {k: float(sc[k]) for k in sc if float(sc[k]) != sc0[k]}
        if changed:
            fails.append((dict(key, check="argument_mutated"),
                          f"{pr['name']}: the caller's tensor arguments were modified by sdeint: {changed} (passed "
                          f"{ {k: pr[k] for k in changed} })", pr))
    return dict(fails=fails, trace=(ra.hdr, ev), drift=ra.drift, stats=stats, key=key, name=pr["name"],
                detail=ra.reexec_detail)


def tolerance_exploration(seed, n_paths=6):
    """Exploration only: strong error of adaptive Milstein on dy = -lam y dt + sig y dW (closed form) for
    rtol = atol in {1e-2, 1e-3, 1e-4}, same Brownian object for all three tolerances."""
    lam, sig, T = 2.0, 0.75, 1.0
    c = dict(label="milstein_ito", method="milstein", sde_type="ito", noise="diagonal", levy="none", options=None, has=False,
             dtype="float64", ts_kind="tensor")
    errs = {1e-2: [], 1e-3: [], 1e-4: []}
    for k in range(n_paths):
        p = Problem(c, seed * 100 + k, batch=4, d=2, sde=LinearSDE(lam, sig, "diagonal", "ito"))
        p.y0 = p.y0.abs() + 0.5
        bm = p.bm(0.0, T, max_calls=None)
        for tol in (1e-2, 1e-3, 1e-4):
            with LoopRecorder(None, max_trials=20000) as rec:       # watchdog only
                try:
                    ys = p.sdeint([0.0, T], 0.25, bm, adaptive=True, rtol=tol, atol=tol, dt_min=2.0 ** -14)
                except WatchdogExpired:
                    return None
            w = bm.inner(0.0, T)
            exact = p.y0 * torch.exp((-lam - 0.5 * sig ** 2) * T + sig * w)
            errs[tol].append(float((ys[-1] - exact).abs().mean()))
    return {f"{t:g}": sum(v) / len(v) for t, v in errs.items()}


def require_actions(results, names):
    """Coverage: every action in `names` was taken in at least one of the TLC runs (run with coverage=True)."""
    taken = {}
    for res in results:
        for k, v in (res.coverage or {}).items():
            taken[k] = taken.get(k, 0) + v[1]
    missing = [n for n in names if not taken.get(n)]
    if missing:
        raise tlc.TLCMachineryError(f"actions never taken in any covered TLC run: {missing}")
    return {n: taken[n] for n in names}


# ---------------------------------------------------------------------------------------------------------
# --replay: re-execute the single failing case stored by ctx.violation
# ---------------------------------------------------------------------------------------------------------

class _ReplayCtx:
    """Minimal stand-in for common.Ctx when replaying one case."""

    def __init__(self):
        self.tlc_runs = []

    def add_tlc(self, res, label=None):
        self.tlc_runs.append(label)


def replay_file(path):
    with open(path) as fh:
        rec = json.load(fh)
    pid, rp, key = rec["property"], rec["replay"], rec["key"]
    ctx = _ReplayCtx()
    fails = []
    if isinstance(rp, dict) and str(rp.get("kind", "")).startswith("harvest-"):
        from . import harvest_run
        return harvest_run.replay(rp)
    if pid == "C12" and "dt" in rp:
        fails = c12_default_dtype_group(dict(c=rp["config"], seed=rp["seed"], dts=[rp["dt"]], ts_list=[rp["ts"]]))["fails"]
    elif pid == "C12":
        res = run_loop_spec(ctx, "replay", invariants=FIXED_INVS, Mode="fixed", TEnds={rp["T"]}, MaxInterior=3,
                            Dts={rp["d"]}, Emit=True, workers=2)
        behs = [b for b in res.printed if isinstance(b, dict) and (rp.get("ts") is None or b["ts"] == rp["ts"])]
        out = c12_group(dict(c=rp["config"], seed=rp["seed"] if "seed" in rp else rec["seed"], d=rp["d"], T=rp["T"],
                             t0=rp["t0"], j=rp["j"], behs=behs[:1], trace_idx={0}))
        fails = out["fails"]
        if out["traces"]:
            v = validate_traces(ctx, [(1, out["traces"][0][1], out["traces"][0][2])], "replay")
            if not v[1][0]:
                fails.append((dict(key, check="trace"), f"TraceLoop rejects at event {v[1][1]}: {v[1][2]}", rp))
    elif pid == "C13":
        res = run_loop_spec(ctx, "replay", invariants=FIXED_INVS, Mode="fixed", RestartMode="grid",
                            Extras={bool(rp["config"]["has"])}, TEnds={rp["T"]}, MaxInterior=2, Dts={rp["d"]}, Emit=True,
                            workers=2)
        behs = [b for b in res.printed if isinstance(b, dict) and b["ts"] == rp["ts"] and b["rs"] == rp["rs"]]
        for gi in (0, 1):      # both Brownian-object variants
            fails += c13_group(dict(c=rp["config"], seed=rp["seed"], gi=gi, t0=rp["t0"], j=rp["j"], behs=behs[:1],
                                    switch=bool(rp.get("switch", False))))["fails"]
    elif pid == "C14" and "sched" in rp:
        res = run_loop_spec(ctx, "replay", invariants=ADAPT_INVS, Mode="adaptive", TEnds={rp["ts"][-1]}, MaxInterior=1,
                            Dts={rp["d"]}, DtMins={rp["mn"]}, StepVals={0, 2, 4, 8}, MaxTrials=6, KeepHist=True, Emit=True,
                            workers=2)
        want = [list(x) for x in rp["sched"]]
        behs = [b for b in res.printed if isinstance(b, dict) and b["ts"] == rp["ts"]
                and [[s["est"], s["raw"]] for s in b["sched"]] == want]
        for mode in ("exact", "classes"):
            for b in behs[:1]:
                out = _c14_scripted_one(rp["config"], rp["seed"], dict(beh=b, mode=mode, t0=rp["t0"], j=rp["j"]))
                fails += out["fails"]
                if out["trace"]:
                    v = validate_traces(ctx, [(1, out["trace"][0], out["trace"][1])], "replay")
                    if not v[1][0]:
                        fails.append((dict(out["key"], check="trace:" + "+".join(sorted(v[1][2]))),
                                      f"TraceLoop rejects at event {v[1][1]}: {out['trace'][1][v[1][1] - 1] if v[1][1] <= len(out['trace'][1]) else 'end'}", rp))
    elif pid == "C14" and "name" in rp:
        out = c14_natural(dict(prob=rp, seed=rec["seed"]))
        fails += out["fails"]
        if out.get("trace"):
            v = validate_traces(ctx, [(1, out["trace"][0], out["trace"][1])], "replay")
            if not v[1][0]:
                ev = out["trace"][1]
                fails.append((dict(out["key"], check="trace:" + "+".join(sorted(v[1][2]))),
                              f"TraceLoop rejects at event {v[1][1]}: {ev[v[1][1] - 1] if v[1][1] <= len(ev) else 'end'}", rp))
    else:
        print(f"replay of {path}: nothing to re-execute for this record (key {key})")
        return 0
    for k, msg, _ in fails:
        print(f"REPLAY-VIOLATION property={pid} {k}: {msg}"[:800])
    print(f"replay of {path}: {'still failing' if fails else 'passes now'} ({len(fails)} findings)")
    return 1 if fails else 0


# ---------------------------------------------------------------------------------------------------------
# C12: the dt grid does not depend on the process default dtype (metamorphic pair of real runs)
# ---------------------------------------------------------------------------------------------------------

def c12_default_dtype_group(job):
    """float64 problem, NON-dyadic dt given as a Python float: the same sdeint call under
    torch.set_default_dtype(float64) and under torch.set_default_dtype(float32) must make the same Brownian queries
    (as Python floats), the same number of steps, and return torch.equal outputs."""
    torch.set_num_threads(1)
    c, seed = job["c"], job["seed"]
    fails, keys, drift = [], [], []
    saved = torch.get_default_dtype()
    try:
        for dt in job["dts"]:
            for ts_f in job["ts_list"]:
                runs = {}
                err = None
                for dd in (torch.float64, torch.float32):
                    torch.set_default_dtype(dd)
                    try:
                        p = Problem(c, seed)
                        bm = p.bm(ts_f[0], ts_f[-1], max_calls=int(4 * (ts_f[-1] - ts_f[0]) / dt) + 50)
                        ys = p.sdeint(ts_f, dt, bm)
                        runs[dd] = (list(bm.log), ys)
                    except Exception as e:  # noqa
                        err = f"default dtype {dd}: {type(e).__name__}: {e}"
                        break
                    finally:
                        torch.set_default_dtype(saved)
                key = dict(clause="default_dtype_independence", method=c["label"], noise=c["noise"])
                replay = dict(config=c, seed=seed, dt=dt, ts=ts_f)
                if err:
                    fails.append((key, f"dt={dt} ts={ts_f}: {err}", replay))
                    continue
                (q64, y64), (q32, y32) = runs[torch.float64], runs[torch.float32]
                keys.append(f"default_dtype|{cfg_key(c)}|dt={dt}")
                if len(q64) != len(q32):
                    fails.append((key, f"dt={dt} ts={ts_f} ({c['ts_kind']} ts): {len(q64)} steps under default float64 but "
                                       f"{len(q32)} under default float32; last queries {q64[-1]} vs {q32[-1]}", replay))
                elif q64 != q32:
                    i = next(i for i in range(len(q64)) if q64[i] != q32[i])
                    fails.append((key, f"dt={dt} ts={ts_f} ({c['ts_kind']} ts): Brownian query {i} is {q64[i]!r} under default "
                                       f"float64 but {q32[i]!r} under default float32: the step grid depends on the process "
                                       f"default dtype", replay))
                if y64.dtype != y32.dtype or y64.shape != y32.shape or not torch.equal(y64, y32):
                    fails.append((key, f"dt={dt} ts={ts_f}: outputs differ between default dtypes (max "
                                       f"{float((y64.double() - y32.double()).abs().max()) if y64.shape == y32.shape else 'shape'})",
                                  replay))
                # information only: the grid against the float64 accumulation t <- t + dt from ts[0], clipped at ts[-1]
                t = torch.tensor(ts_f[0], dtype=torch.float64)
                T = torch.tensor(ts_f[-1], dtype=torch.float64)
                for k, (a, b) in enumerate(q64):
                    nt = min(t + dt, T)
                    tol = 2 * eps_of(torch.float64) * max(abs(float(nt)), abs(float(t)), 1e-300)
                    if abs(a - float(t)) > tol or abs(b - float(nt)) > tol:
                        drift.append(f"{cfg_key(c)} dt={dt}: step {k} is [{a!r}, {b!r}], float64 accumulation gives "
                                     f"[{float(t)!r}, {float(nt)!r}]")
                        break
                    t = nt
    finally:
        torch.set_default_dtype(saved)
    return dict(fails=fails, keys=keys, drift=drift)
