"""pytest plugin that harvests traces from the repository's OWN test-suite (DESIGN 4.2 (ii)).

The existing tests already drive interesting executions; only their assertions are weak.  Loaded with

    cd /repo && PYTHONPATH=/verif VERIF_HARVEST_DIR=<dir> /venv/bin/python -m pytest -p harness.harvest tests/...

it wraps, at run time and without touching the repository,

  * BaseSDESolver.integrate (+ solver.step, solver.bm, adaptive_stepping.compute_error / update_step_size):
    every integrate call of every test - forward solves, adaptive solves, the backward segments of
    sdeint_adjoint - becomes one TraceLoop trace (spec/TraceLoop.tla), built by harness.loop.analyse;
  * BrownianInterval.__call__, _Interval._loc, _Interval._split_exact: every Brownian object a test creates
    becomes one TraceBrownian trace (spec/TraceBrownian.tla): per public call the rounded query, the pieces
    returned, the tree refinement delta (new nodes / new split points, logged AT the split) and the cache
    length; at test teardown the accumulated deltas are audited against a full walk of the real tree (a node
    whose span or split point changed cannot hide);
  * property-level value monitors evaluated on every call (C05 bit-identical repeats, C03 additivity of W over
    triples of already-answered intervals, zero-length = 0) - relations between values of ONE object.

Traces are written as ndjson to VERIF_HARVEST_DIR/{loop,brownian}-<pid>.ndjson (one file per xdist worker) and
validated by TLC afterwards (harness.harvest_run).  Nothing here decides anything; recording failures are
written as {"machinery": ...} lines and never fail a test.
"""
import json
import os
import sys
import traceback

OUT = os.environ.get("VERIF_HARVEST_DIR")
MAX_BM_EVENTS = int(os.environ.get("VERIF_HARVEST_BM_EVENTS", "160"))
MAX_STORE = 192           # answered queries remembered per Brownian object for the value monitors
MAX_NUMEL = 200000

_state = dict(test="", loop_fh=None, brownian_fh=None, frames=[], bms={}, installed=False, n_loop=0, n_bm=0)


def _fh(kind):
    key = kind + "_fh"
    if _state[key] is None:
        os.makedirs(OUT, exist_ok=True)
        _state[key] = open(os.path.join(OUT, f"{kind}-{os.getpid()}.ndjson"), "a")
    return _state[key]


def _write(kind, obj):
    fh = _fh(kind)
    fh.write(json.dumps(obj, default=str) + "\n")
    fh.flush()


def _machinery(kind, where):
    try:
        _write(kind, dict(machinery=where, test=_state["test"], tb=traceback.format_exc()[-1500:]))
    except Exception:  # noqa
        pass


# ---------------------------------------------------------------------------------------------------------
# stepping loop
# ---------------------------------------------------------------------------------------------------------

class _Frame:
    def __init__(self):
        self.events = []
        self.log = []


def _install_loop():
    import torch
    from torchsde._core import adaptive_stepping, base_solver
    from . import loop as L

    orig_err, orig_upd = adaptive_stepping.compute_error, adaptive_stepping.update_step_size
    orig_int = base_solver.BaseSDESolver.integrate

    def compute_error(y11, y12, rtol, atol, *a, **k):
        ret = orig_err(y11, y12, rtol, atol, *a, **k)
        if _state["frames"]:
            _state["frames"][-1].events.append(("err", y11, y12, rtol, atol, ret))
        return ret

    def update_step_size(error_estimate, prev_step_size, *a, **k):
        ret = orig_upd(error_estimate, prev_step_size, *a, **k)
        if _state["frames"]:
            prev_ratio = k.get("prev_error_ratio", a[3] if len(a) > 3 else None)
            _state["frames"][-1].events.append(("upd", error_estimate, prev_step_size, prev_ratio, ret[0], ret[1]))
        return ret

    def integrate(solver, y0, ts, extra0):
        fr = _Frame()
        fr.events.append(("integrate", y0, ts, extra0))
        inner_step = solver.step
        bm0 = solver.bm
        rbm = L.RecordingBrownian(bm0, log=fr.log)

        def step(t0, t1, y, extra):
            nq0 = len(fr.log)
            y1, extra1 = inner_step(t0, t1, y, extra)
            fr.events.append(("step", t0, t1, y, extra, y1, extra1, nq0, len(fr.log)))
            return y1, extra1

        had, prev = "step" in solver.__dict__, solver.__dict__.get("step")
        solver.step = step
        solver.bm = rbm
        _state["frames"].append(fr)
        try:
            ys, extra = orig_int(solver, y0, ts, extra0)
        finally:
            _state["frames"].pop()
            solver.bm = bm0
            if had:
                solver.step = prev
            else:
                solver.__dict__.pop("step", None)
        fr.events.append(("return", ys, extra))
        try:
            _emit_loop(L, torch, solver, fr, y0, ts)
        except Exception:  # noqa
            _machinery("loop", "analyse")
        return ys, extra

    adaptive_stepping.compute_error = compute_error
    adaptive_stepping.update_step_size = update_step_size
    base_solver.BaseSDESolver.integrate = integrate


def _emit_loop(L, torch, solver, fr, y0, ts):
    ts_f = [float(t) for t in ts]
    adaptive = bool(solver.adaptive)
    dt_min = float(solver.dt_min) if adaptive else 0.0
    ra = L.analyse(fr.events, fr.log, ts_f, ts.dtype if torch.is_tensor(ts) else torch.float64, y0, solver.dt, adaptive,
                   dt_min=dt_min, rtol=solver.rtol, atol=solver.atol, reexec=None)
    ev, cut = L.cap_trace(ra.ev)
    _state["n_loop"] += 1
    sde = getattr(solver, "sde", None)
    info = dict(test=_state["test"], solver=type(solver).__name__, adaptive=adaptive,
                sde=type(sde).__name__ if sde is not None else "", backward=bool(ts_f and ts_f[0] < 0 and ts_f[-1] <= 0),
                dtype=str(y0.dtype), n_ts=len(ts_f), cut=cut, dt=float(solver.dt), dt_min=dt_min,
                trials=len(ra.trials), rejected=sum(1 for d in ra.trials if d["k"] == "trial" and not d["acc"]),
                norm_dev=max([abs(d["_norm"][0] - d["_norm"][1]) / max(max(d["_norm"]), 1e-300)
                              for d in ra.trials if "_norm" in d] or [0.0]),
                interp_ulp=ra.max_interp_ulp)
    _write("loop", dict(tid=f"{os.getpid()}-{_state['n_loop']}", hdr=ra.hdr, ev=ev, info=info, drift=ra.drift[:3]))


# ---------------------------------------------------------------------------------------------------------
# Brownian objects
# ---------------------------------------------------------------------------------------------------------

class _BmTrace:
    def __init__(self, bm):
        self.bm = bm                      # strong reference: ids stay unique while the test runs
        self.root = (bm._start, bm._end)
        self.events = []
        self.acc = {"": [bm._start, bm._end, None]}
        self.pending_nodes = []
        self.pending_mids = []
        self.loc = None
        self.in_call = False
        self.store = {}
        self.by_start = {}
        self.fails = []                   # (clause, detail) from the value monitors
        self.n_calls = 0
        self.n_repeat = 0
        self.n_add = 0
        self.exceptions = []
        self.truncated = False


def _path(node):
    p = []
    while node._parent is not None:
        p.append("0" if node._is_left else "1")
        node = node._parent
    return "".join(reversed(p))


def _trace_of(top, create=True, created=None):
    tr = _state["bms"].get(id(top))
    if tr is None and create:
        if created is not None:
            created.append(True)
        tr = _BmTrace(top)
        _state["bms"][id(top)] = tr
        # a tree that was pre-shaped by the constructor (dt hint) before we saw the object
        stack = [(top, "")]
        while stack:
            node, p = stack.pop()
            mid = getattr(node, "_midway", None)
            if mid is not None:
                tr.pending_mids.append((p, mid))
                for ch, c in ((node._left_child, "0"), (node._right_child, "1")):
                    tr.pending_nodes.append((p + c, ch._start, ch._end))
                    stack.append((ch, p + c))
    return tr


def _install_brownian():
    import torch
    from torchsde._brownian import brownian_interval as bi

    orig_call = bi.BrownianInterval.__call__
    orig_loc = bi._Interval._loc
    orig_split = bi._Interval._split_exact

    def _split_exact(self_, midway):
        out = orig_split(self_, midway)
        try:
            created = []
            tr = _trace_of(self_._top, created=created)
            if not created:                # (a trace created just now has walked the tree, this split included)
                p = _path(self_)
                tr.pending_mids.append((p, self_._midway))
                tr.pending_nodes.append((p + "0", self_._left_child._start, self_._left_child._end))
                tr.pending_nodes.append((p + "1", self_._right_child._start, self_._right_child._end))
        except Exception:  # noqa
            _machinery("brownian", "split")
        return out

    def _loc(self_, ta, tb):
        out = orig_loc(self_, ta, tb)
        try:
            tr = _trace_of(self_._top, create=False)
            if tr is not None and tr.in_call and tr.loc is None:
                rnd = self_._top._round           # _loc searches for the end points rounded to the tolerance grid
                tr.loc = (rnd(ta), rnd(tb), [(p._start, p._end) for p in out])
        except Exception:  # noqa
            _machinery("brownian", "loc")
        return out

    def __call__(self_, ta, tb=None, return_U=False, return_A=False):
        try:
            tr = _trace_of(self_)
            if not tr.events and (tr.pending_nodes or tr.pending_mids):
                _flush_event(tr, (tr.root[0], tr.root[0]), [], self_)      # constructor-time pre-shaping
            tr.loc = None
            tr.in_call = True
        except Exception:  # noqa
            tr = None
            _machinery("brownian", "pre-call")
        try:
            out = orig_call(self_, ta, tb, return_U=return_U, return_A=return_A)
        except BaseException as e:  # noqa
            if tr is not None:
                tr.in_call = False
                tr.exceptions.append((type(e).__name__, str(e)[:120], _safe_float(ta), _safe_float(tb)))
            raise
        if tr is not None:
            tr.in_call = False
            try:
                _after_call(torch, tr, self_, ta, tb, return_U, return_A, out)
            except Exception:  # noqa
                _machinery("brownian", "post-call")
        return out

    bi._Interval._split_exact = _split_exact
    bi._Interval._loc = _loc
    bi.BrownianInterval.__call__ = __call__


def _safe_float(x):
    try:
        return None if x is None else float(x)
    except Exception:  # noqa
        return None


def _flush_event(tr, q, pieces, bm):
    if len(tr.events) >= MAX_BM_EVENTS:
        tr.truncated = True
        # keep the accumulated tree current for the audit
        for p, s, e in tr.pending_nodes:
            tr.acc.setdefault(p, [s, e, None])
        for p, mid in tr.pending_mids:
            if p in tr.acc and tr.acc[p][2] is None:
                tr.acc[p][2] = mid
        tr.pending_nodes, tr.pending_mids = [], []
        return
    try:
        cache_len = len(bm._increment_and_space_time_levy_area_cache)
    except Exception:  # noqa
        cache_len = 0
    dup = 0
    for p, s, e in tr.pending_nodes:
        if p in tr.acc:
            dup += 1                       # a node created twice: existing nodes are never re-created
        else:
            tr.acc[p] = [s, e, None]
    for p, mid in tr.pending_mids:
        if p in tr.acc and tr.acc[p][2] is None:
            tr.acc[p][2] = mid
        else:
            dup += 1
    tr.events.append(dict(q=list(q), pieces=[list(x) for x in pieces],
                          newNodes=[[p, s, e] for p, s, e in tr.pending_nodes],
                          newMids=[[p, m] for p, m in tr.pending_mids], cacheLen=cache_len, changed=dup))
    tr.pending_nodes, tr.pending_mids = [], []


def _eq(x, y):
    import torch
    if x is None or y is None:
        return x is None and y is None
    return x.shape == y.shape and x.dtype == y.dtype and bool(torch.equal(x, y))


def _after_call(torch, tr, bm, ta, tb, return_U, return_A, out):
    tr.n_calls += 1
    if tr.loc is not None:
        qa, qb, pieces = tr.loc
        _flush_event(tr, (qa, qb), pieces, bm)
    else:
        # zero-length (after clamping / rounding): no search
        x = _safe_float(ta if tb is not None else bm._start)
        _flush_event(tr, (x, x), [], bm)
    outs = out if isinstance(out, tuple) else (out,)
    W = outs[0]
    if not torch.is_tensor(W) or W.numel() > MAX_NUMEL:
        return
    # ---- C05: asking the same interval again returns the same bits ------------------------------------
    key = (_safe_float(ta), _safe_float(tb), bool(return_U), bool(return_A))
    old = tr.store.get(key)
    if old is not None:
        tr.n_repeat += 1
        if len(old) != len(outs) or not all(_eq(a, b) for a, b in zip(old, outs)):
            tr.fails.append(("RepeatValue", dict(q=key[:2], return_U=key[2], return_A=key[3],
                                                   maxdiff=max(float((a - b).abs().max()) for a, b in zip(old, outs)
                                                               if a is not None and b is not None and a.shape == b.shape))))
    elif len(tr.store) < MAX_STORE:
        tr.store[key] = tuple(o.detach().clone() if torch.is_tensor(o) else o for o in outs)
    # ---- C03: zero-length = 0; additivity of W over already answered neighbours -----------------------
    if tr.loc is None:
        if any(torch.is_tensor(o) and bool((o != 0).any()) for o in outs):
            tr.fails.append(("ZeroLen", dict(q=key[:2])))
        return
    qa, qb, _ = tr.loc
    if tb is None:
        return                                           # point evaluation (BrownianPath-style offset semantics)
    eps = torch.finfo(W.dtype).eps
    scale = max(1.0, 4.0 * (tr.root[1] - tr.root[0]) ** 0.5, float(W.abs().max()) if W.numel() else 0.0)
    ends = tr.by_start.setdefault(qa, {})
    for u, Wsu in list(ends.items()):
        if qa < u < qb:
            Wut = tr.by_start.get(u, {}).get(qb)
            if Wut is not None and Wsu.shape == W.shape:
                tr.n_add += 1
                err = float((W - Wsu - Wut).abs().max())
                if err > 512 * eps * max(scale, float(Wsu.abs().max()), float(Wut.abs().max())):
                    tr.fails.append(("Additive", dict(s=qa, u=u, t=qb, err=err)))
    if len(ends) < 16 and sum(len(v) for v in tr.by_start.values()) < MAX_STORE:
        ends.setdefault(qb, W.detach().clone())


def _finalize_bm(tr):
    """Audit the accumulated refinement deltas against a full walk of the real tree, rank the times, write."""
    bm = tr.bm
    changed = []
    try:
        for p, s, e in tr.pending_nodes:
            tr.acc.setdefault(p, [s, e, None])
        for p, mid in tr.pending_mids:
            if p in tr.acc and tr.acc[p][2] is None:
                tr.acc[p][2] = mid
        real = {}
        stack = [(bm, "")]
        while stack:
            node, p = stack.pop()
            mid = getattr(node, "_midway", None)
            real[p] = [node._start, node._end, mid]
            if mid is not None:
                stack.append((node._left_child, p + "0"))
                stack.append((node._right_child, p + "1"))
        for p in set(real) | set(tr.acc):
            if real.get(p) != tr.acc.get(p):
                changed.append([p, tr.acc.get(p), real.get(p)])
    except Exception:  # noqa
        _machinery("brownian", "audit")
    times = set(tr.root)
    for ev in tr.events:
        times.update(ev["q"])
        for s, e in ev["pieces"]:
            times.update((s, e))
        for _, s, e in ev["newNodes"]:
            times.update((s, e))
        for _, m in ev["newMids"]:
            times.add(m)
    rank = {t: i for i, t in enumerate(sorted(times))}
    evs = []
    for ev in tr.events:
        evs.append(dict(q=[rank[ev["q"][0]], rank[ev["q"][1]]], pieces=[[rank[s], rank[e]] for s, e in ev["pieces"]],
                        newNodes=[[[int(c) for c in p], rank[s], rank[e]] for p, s, e in ev["newNodes"]],
                        newMids=[[[int(c) for c in p], rank[m]] for p, m in ev["newMids"]], cacheLen=ev["cacheLen"],
                        changed=ev["changed"]))
    cs = getattr(bm, "_cache_size", None)
    _state["n_bm"] += 1
    _write("brownian", dict(
        tid=f"{os.getpid()}-{_state['n_bm']}", test=_state["test"],
        trace=dict(tol=0, cacheSize=-1 if cs is None else int(cs), dyadic=False, root=[rank[tr.root[0]], rank[tr.root[1]]],
                   events=evs),
        info=dict(calls=tr.n_calls, events=len(evs), truncated=tr.truncated, repeats=tr.n_repeat, additive=tr.n_add,
                  nodes=len(tr.acc), halfway=bool(getattr(bm, "_halfway_tree", False)), tol=float(getattr(bm, "_tol", 0.0)),
                  levy=str(getattr(bm, "_levy_area_approximation", "")), size=list(getattr(bm, "_size", ())),
                  cache_size=cs),
        audit_changed=changed[:5], n_audit_changed=len(changed), fails=tr.fails[:5], n_fails=len(tr.fails),
        exceptions=tr.exceptions[:5]))


# ---------------------------------------------------------------------------------------------------------
# pytest hooks
# ---------------------------------------------------------------------------------------------------------

def _install():
    if _state["installed"] or not OUT:
        return
    _state["installed"] = True
    sys.path.insert(0, os.path.dirname(os.path.dirname(os.path.abspath(__file__))))
    kinds = os.environ.get("VERIF_HARVEST_KINDS", "loop,brownian").split(",")
    if "loop" in kinds:
        _install_loop()
    if "brownian" in kinds:
        _install_brownian()


def pytest_configure(config):
    _install()


def pytest_runtest_setup(item):
    _state["test"] = item.nodeid
    _state["bms"].clear()
    _state["frames"].clear()


def pytest_runtest_teardown(item, nextitem):
    if not OUT:
        return
    for tr in list(_state["bms"].values()):
        try:
            if tr.n_calls:
                _finalize_bm(tr)
        except Exception:  # noqa
            _machinery("brownian", "finalize")
    _state["bms"].clear()
