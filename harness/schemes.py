"""Binding between spec/Schemes.tla, Dual.tla, Logqp.tla and the real torchsde (C08, C17, C18).

* run_schemes / run_dual / run_logqp: run TLC on the three root modules and return the scenarios it printed.
* AstSDE: the polynomial (expression-tree) SDE TLC printed, as a torch nn.Module whose parameters are the
  coefficients p_k; f/g evaluate the tree with torch operations in the tree's own order (exact on the small dyadic
  inputs TLC uses).
* ScriptedBrownian: a BaseBrownian that returns the Brownian increments (and U, A) TLC prescribed for each step.
* ReplayBrownian: a BaseBrownian proxy around a real Brownian motion that records what it returned per query
  (so that two solves see ONE recorded path) and can pad an extra channel (logqp with diagonal noise).
* real_solve: drive the real torchsde.sdeint along one TLC case.
"""
from fractions import Fraction

import torch
import torchsde
from torch import nn

from . import tlc

RATIONAL_FIELD = ("CONSTANT NAdd <- RAdd\nCONSTANT NMul <- RMul\nCONSTANT NInv <- RInv\n"
                  "CONSTANT NRat <- RIdent\nCONSTANT NVal <- RIdent\n")

DT = torch.float64


# ---------------------------------------------------------------------------------------------
# rationals
# ---------------------------------------------------------------------------------------------
def frac(q):
    return Fraction(int(q[0]), int(q[1]))


def fl(q):
    return float(frac(q))


def fl_nested(x):
    """nested lists of [num, den] -> nested lists of floats"""
    if isinstance(x, (list, tuple)) and len(x) == 2 and all(isinstance(v, int) for v in x):
        return fl(x)
    return [fl_nested(v) for v in x]


def is_dyadic(q):
    d = int(q[1])
    return d & (d - 1) == 0


# ---------------------------------------------------------------------------------------------
# TLC drivers
# ---------------------------------------------------------------------------------------------
def run_schemes(tier, timeout=600, coverage=False):
    cfg = ("SPECIFICATION SpecC17\n" + RATIONAL_FIELD +
           "INVARIANT EmbedLemma\nINVARIANT WitnessDiffers\nINVARIANT BothSolversAsDocumented\nCHECK_DEADLOCK FALSE\n")
    return tlc.run("Schemes", cfg_text=cfg, timeout=timeout, coverage=coverage)


def run_dual(tier, timeout=900, coverage=False):
    cfg = (f"SPECIFICATION Spec\nCONSTANT Tier = \"{tier}\"\n"
           "INVARIANT ScenarioOK\nINVARIANT WeightsWellFormed\nINVARIANT NoGradInCtl\nINVARIANT CombosAsDocumented\n"
           "CHECK_DEADLOCK FALSE\n")
    return tlc.run("Dual", cfg_text=cfg, timeout=timeout, coverage=coverage)


def run_logqp(tier, timeout=900, coverage=False):
    cfg = (f"SPECIFICATION Spec\nCONSTANT Tier = \"{tier}\"\n"
           "INVARIANT LogqpOK\nINVARIANT NonConstWitness\nCHECK_DEADLOCK FALSE\n")
    return tlc.run("Logqp", cfg_text=cfg, timeout=timeout, coverage=coverage)


def action_coverage(module, spec, extra="", timeout=300):
    """TLC -coverage on the scenario machine alone (no invariants: the arithmetic under the cost model of
    -coverage exhausts the heap).  Returns {action: number of times taken}."""
    res = tlc.run(module, cfg_text=f"SPECIFICATION {spec}\n{extra}CHECK_DEADLOCK FALSE\n", timeout=timeout,
                  coverage=True)
    return res, {k: v[1] for k, v in res.coverage.items()}


def require_all_actions(ctx, module, spec, extra="", label="coverage"):
    res, cov = action_coverage(module, spec, extra)
    ctx.add_tlc(res, label)
    never = [a for a, n in cov.items() if n == 0]
    if never or not cov:
        raise tlc.TLCMachineryError(f"{module}: actions never taken: {never} (coverage {cov})")
    return cov


# ---------------------------------------------------------------------------------------------
# expression trees -> torch
# ---------------------------------------------------------------------------------------------
def ev(e, t, y, theta):
    """Evaluate an expression tree (as printed by TLC) on a batch y (B, d); returns a tensor of shape (B,) or ()."""
    op = e[0]
    if op == "c":
        return fl(e[1])
    if op == "t":
        return t
    if op == "y":
        return y[:, e[1] - 1]
    if op == "p":
        return theta[e[1] - 1]
    a = ev(e[1], t, y, theta)
    b = ev(e[2], t, y, theta)
    if op == "+":
        return a + b
    if op == "*":
        return a * b
    if op == "/":
        return a / b
    raise ValueError(op)


def _col(x, y):
    """broadcast a scalar (python float / 0-dim tensor) to the batch shape (B,)"""
    if not torch.is_tensor(x):
        x = torch.as_tensor(x, dtype=y.dtype)
    if x.dim() == 0:
        x = x.expand(y.size(0))
    return x


class AstSDE(nn.Module):
    """The SDE [nt, cal, d, m, f, g] TLC printed; parameters = the coefficients p_k (self.theta)."""

    def __init__(self, sde, th):
        super().__init__()
        self.noise_type = sde["nt"]
        self.sde_type = sde["cal"]
        self.d, self.m = sde["d"], sde["m"]
        self._f, self._g = sde["f"], sde["g"]
        self.theta = nn.Parameter(torch.tensor([fl(q) for q in th], dtype=DT))

    def _vec(self, trees, t, y):
        return torch.stack([_col(ev(e, t, y, self.theta), y) for e in trees], dim=1)

    def f(self, t, y):
        return self._vec(self._f, t, y)

    def g(self, t, y):
        if self.noise_type == "diagonal":
            return self._vec(self._g, t, y)
        return torch.stack([self._vec(row, t, y) for row in self._g], dim=1)


class AstSDEWithPrior(AstSDE):
    """... with the prior drift h (for logqp)."""

    def __init__(self, sde, th):
        super().__init__(sde, th)
        self._h = sde["h"]

    def h(self, t, y):
        return self._vec(self._h, t, y)


# ---------------------------------------------------------------------------------------------
# Brownian motions
# ---------------------------------------------------------------------------------------------
class ScriptedBrownian(torchsde.BaseBrownian):
    """Returns prescribed (W, U, A) for prescribed query intervals; any other query is an error."""

    def __init__(self, table, shape, levy="none"):
        super().__init__()
        self._table = table            # {(ta, tb): (W, U, A)}
        self._shape = tuple(shape)
        self._levy = levy
        self.queries = []

    def __call__(self, ta, tb=None, return_U=False, return_A=False):
        key = (float(ta), float(tb))
        self.queries.append(key)
        if key not in self._table:
            raise KeyError(f"ScriptedBrownian: unexpected query {key}; scripted: {sorted(self._table)}")
        W, U, A = self._table[key]
        if return_U and return_A:
            return W, U, A
        if return_U:
            return W, U
        if return_A:
            return W, A
        return W

    def __repr__(self):
        return f"ScriptedBrownian({len(self._table)} intervals)"

    dtype = property(lambda self: DT)
    device = property(lambda self: torch.device("cpu"))
    shape = property(lambda self: self._shape)
    levy_area_approximation = property(lambda self: self._levy)


class ReplayBrownian(torchsde.BaseBrownian):
    """Proxy around a real Brownian motion: the first time an interval is asked the answer of the wrapped object is
    recorded, afterwards the record is replayed (ONE recorded path for several solves).  `pad` appends that many
    extra channels holding the constant `pad_value` to W (and U; A is padded with zero rows/columns), for the
    augmented diagonal-noise SDE of logqp."""

    def __init__(self, bm, record=None, pad=0, pad_value=0.75):
        super().__init__()
        self._bm = bm
        self.record = {} if record is None else record
        self._pad = pad
        self._pad_value = pad_value
        self.queries = []

    def _padW(self, W):
        if not self._pad:
            return W
        return torch.cat([W, W.new_full((W.size(0), self._pad), self._pad_value)], dim=1)

    def _padA(self, A):
        if not self._pad:
            return A
        B, m, _ = A.shape
        out = A.new_zeros(B, m + self._pad, m + self._pad)
        out[:, :m, :m] = A
        return out

    def __call__(self, ta, tb=None, return_U=False, return_A=False):
        key = (float(ta), float(tb), bool(return_U), bool(return_A))
        self.queries.append(key)
        if key not in self.record:
            self.record[key] = self._bm(ta, tb, return_U=return_U, return_A=return_A)
        out = self.record[key]
        if not (return_U or return_A):
            return self._padW(out)
        out = list(out)
        out[0] = self._padW(out[0])
        i = 1
        if return_U:
            out[i] = self._padW(out[i])
            i += 1
        if return_A:
            out[i] = self._padA(out[i])
        return tuple(out)

    def __repr__(self):
        return f"ReplayBrownian({self._bm!r}, pad={self._pad})"

    dtype = property(lambda self: self._bm.dtype)
    device = property(lambda self: self._bm.device)
    shape = property(lambda self: (self._bm.shape[0], self._bm.shape[1] + self._pad))
    levy_area_approximation = property(lambda self: self._bm.levy_area_approximation)


def levy_for(method):
    return {"srk": "space-time", "log_ode": "davie"}.get(method, "none")


# ---------------------------------------------------------------------------------------------
# one TLC case on the real code
# ---------------------------------------------------------------------------------------------
def grid_times(case):
    """The step grid the fixed-step loop walks: t0 + k dt clipped to ts[-1] (exact on dyadic inputs)."""
    t0, dt = frac(case["t0"]), frac(case["dt"])
    tend = frac(case["ts"][-1])
    out = [t0]
    while out[-1] < tend:
        out.append(min(t0 + len(out) * dt, tend))
    return out


def scripted_bm(case, batch=1, noise=None, pad=None):
    """Brownian stub for a case: step k returns nz[k] (W, U, A).  `noise`: list (per batch row) of nz lists."""
    rows = noise if noise is not None else [case["nz"]] * batch
    grid = grid_times(case)
    m = len(rows[0][0]["w"])
    table = {}
    for k in range(len(grid) - 1):
        W = torch.tensor([[fl(q) for q in r[k]["w"]] for r in rows], dtype=DT)
        U = torch.tensor([[fl(q) for q in r[k]["u"]] for r in rows], dtype=DT)
        A = torch.tensor([[[fl(q) for q in row] for row in r[k]["a"]] for r in rows], dtype=DT)
        table[(float(grid[k]), float(grid[k + 1]))] = (W, U, A)
    return ScriptedBrownian(table, (len(rows), m), levy=levy_for(case["method"])), grid


def pad_noise(nz, value=(3, 2)):
    """one more (irrelevant) Brownian channel for the augmented diagonal-noise SDE of logqp"""
    out = []
    for st in nz:
        m = len(st["w"])
        a = [row + [[0, 1]] for row in st["a"]] + [[[0, 1]] * (m + 1)]
        out.append(dict(w=st["w"] + [list(value)], u=st["u"] + [list(value)], a=a))
    return out


def options_for(case):
    return {"grad_free": True} if case.get("gradfree") else {}


def real_solve(case, sde=None, y0=None, bm=None, logqp=False, ts=None, noise=None, batch=1):
    """sdeint of the real library on a TLC case; returns (result, sde, y0, bm)."""
    if sde is None:
        sde = (AstSDEWithPrior if logqp else AstSDE)(case["sde"], case["th"])
    if y0 is None:
        y0 = torch.tensor([[fl(q) for q in case["y0"]]] * batch, dtype=DT)
    if bm is None:
        bm, _ = scripted_bm(case, batch=batch, noise=noise)
    tsf = [fl(q) for q in (ts if ts is not None else case["ts"])]
    out = torchsde.sdeint(sde, y0, tsf, bm=bm, method=case["method"], dt=fl(case["dt"]),
                          options=options_for(case), logqp=logqp)
    return out, sde, y0, bm


def rel_err(a, b, scale=None):
    """max |a-b| / max(1, scale) with scale = max |b| by default"""
    a = torch.as_tensor(a, dtype=DT)
    b = torch.as_tensor(b, dtype=DT)
    s = float(b.abs().max()) if scale is None else float(scale)
    return float((a - b).abs().max()) / max(1.0, s) if a.numel() else 0.0


def case_id(key):
    return "/".join(f"{k}={key[k]}" for k in sorted(key))


# ---------------------------------------------------------------------------------------------
# probes around the step-size controller (looked up through the module at call time by base_solver)
# ---------------------------------------------------------------------------------------------
class CtlProbe:
    def __init__(self):
        from torchsde._core import adaptive_stepping
        self.mod = adaptive_stepping
        self.orig = (adaptive_stepping.compute_error, adaptive_stepping.update_step_size)
        self.estimates = []
        self.steps = []                # step sizes proposed by update_step_size
        self.breaches = []
        self.calls = 0

    def __enter__(self):
        probe = self

        def compute_error(y11, y12, rtol, atol, *a, **k):
            probe.calls += 1
            ts_ = [t for t in ((y11,) if torch.is_tensor(y11) else tuple(y11)) + ((y12,) if torch.is_tensor(y12) else tuple(y12))]
            if torch.is_grad_enabled() and any(t.requires_grad for t in ts_):
                probe.breaches.append("compute_error ran with autograd enabled on tensors requiring grad")
            out = probe.orig[0](y11, y12, rtol, atol, *a, **k)
            if torch.is_tensor(out) and out.requires_grad:
                probe.breaches.append("compute_error returned a tensor requiring grad")
            probe.estimates.append(float(out))
            return out

        def update_step_size(*a, **k):
            vals = list(a) + list(k.values())
            if any(torch.is_tensor(v) and v.requires_grad and torch.is_grad_enabled() for v in vals):
                probe.breaches.append("update_step_size ran with autograd enabled on tensors requiring grad")
            out = probe.orig[1](*a, **k)
            probe.steps.append(float(out[0]))
            if any(torch.is_tensor(v) and v.requires_grad for v in out if v is not None):
                probe.breaches.append("update_step_size returned a tensor requiring grad")
            return out

        self.mod.compute_error, self.mod.update_step_size = compute_error, update_step_size
        return self

    def __exit__(self, *exc):
        self.mod.compute_error, self.mod.update_step_size = self.orig
        return False


def replay_file(path, logqp=False):
    """`python -m checks.check --property Cnn --replay file`: print the stored failure and, when the replay holds a
    polynomial TLC case, run the real solver on it again."""
    import json
    with open(path) as fh:
        rp = json.load(fh)
    print(json.dumps(dict(property=rp.get("property"), key=rp.get("key"), message=rp.get("message")), indent=1))
    case = (rp.get("replay") or {}).get("case")
    if case:
        lq = logqp and "h" in case["sde"]
        noise = [pad_noise(case["nz"])] if lq and case["sde"]["nt"] == "diagonal" else None
        out, _, _, _ = real_solve(case, logqp=lq, noise=noise)
        if isinstance(out, tuple):
            print("ys      =", out[0].detach().squeeze(1).tolist())
            print("logqp   =", out[1].detach().squeeze(1).tolist())
        else:
            print("ys      =", out.detach().squeeze(1).tolist())
    return 0
