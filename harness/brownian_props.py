"""Property-level analyses on the real Brownian objects (C03, C04, C05, C06, C07, C20).

Each function takes model constants (harness.brownian.Cfg) and a query history in integer sub-units,
runs fresh real objects and returns a list of failures [(kind, detail_dict)].  Oracles are relations
between values returned through the public API, or rationals printed by TLC.
"""
import itertools
import math
import warnings
from fractions import Fraction

import torch

import torchsde
from torchsde._brownian import brownian_interval as _bi
from torchsde._brownian import ReverseBrownian

from . import brownian as B

EPS = torch.finfo(torch.float64).eps
LEVIES = ("none", "space-time", "davie", "foster")
SHAPES = {"scalar": (), "batch": (3,), "matrix": (2, 3), "cube": (2, 3, 3)}   # cube: two batch dimensions, the second equal to the channel count


def _scale(*ts):
    m = 1.0
    for t in ts:
        if t is not None and t.numel():
            m = max(m, float(t.abs().max()))
    return m


def _close(a, b, ulps, scale):
    return bool(((a - b).abs() <= ulps * EPS * scale).all())


def rounded_points(cfg, queries):
    pts = set()
    for a, b in queries:
        pts.add(cfg.round(a))
        pts.add(cfg.round(b))
    return sorted(pts)


def triples(points, limit, rnd):
    tr = list(itertools.combinations(points, 3))
    if len(tr) > limit:
        tr = rnd.sample(tr, limit)
    return tr


# ------------------------------------------------------------------------------------------
# C03
# ------------------------------------------------------------------------------------------

def chen_fold(pieces):
    """Chen combination of per-piece (W, A) in order."""
    W, A = pieces[0]
    for Wi, Ai in pieces[1:]:
        A = A + Ai + 0.5 * (W.unsqueeze(-1) * Wi.unsqueeze(-2) - Wi.unsqueeze(-1) * W.unsqueeze(-2))
        W = W + Wi
    return W, A


def _ask_fn(obj, levy):
    def ask(ta, tb):
        with B.cpu_watchdog():            # a search that never terminates becomes an exception (NonTermination)
            if levy == "none":
                return obj(ta, tb), None, None
            if levy == "space-time":
                W, U = obj(ta, tb, return_U=True)
                return W, U, None
            return obj(ta, tb, return_U=True, return_A=True)
    return ask


def check_chen(cfg, queries, size, levy, rnd, entropy=99, n_triples=8, wrapper="interval", ulps=512):
    """Additivity, Chen for U, zero-length, antisymmetry after the given history; through the
    BrownianInterval itself or through ReverseBrownian (a Brownian object on the mirrored time axis)."""
    fails = []
    bm = B.make_real(cfg, size=size, levy=levy, entropy=entropy)
    sub = cfg.Sub
    if wrapper == "interval":
        ask = _ask_fn(bm, levy)
        tq = [(cfg.t(a), cfg.t(b)) for a, b in queries]
        pts = [cfg.t(p) for p in sorted(set(rounded_points(cfg, queries)) | {0, cfg.round(cfg.T)})]
    elif wrapper == "reverse":
        ask = _ask_fn(ReverseBrownian(bm), levy)
        tq = [(-cfg.t(b), -cfg.t(a)) for a, b in queries]
        pts = sorted(-cfg.t(p) for p in set(rounded_points(cfg, queries)) | {0, cfg.round(cfg.T)})
    else:
        raise ValueError(wrapper)
    span = float(cfg.N)
    with warnings.catch_warnings():
        warnings.simplefilter("ignore")
        try:
            told = []
            for (ta, tb), (qa, qb) in zip(tq, queries):
                ans = ask(ta, tb)
                # only queries at RESOLVED times (end points on the tolerance grid) are in the scope of the property:
                # for an off-grid query W is the increment between the rounded end points, while U is converted
                # with the unrounded length (observed; outside "tolerance (at resolved times)")
                if cfg.round(qa) == qa and cfg.round(qb) == qb:
                    told.append((ta, tb, ans))
            # ONE path over the whole history: what was answered DURING the history is consistent with what is
            # answered after it (the same query again; the query cut at an interior point)
            seen = set()
            for ta, tb, (W0, U0, A0) in told:
                if not ta < tb or (ta, tb) in seen or len(seen) >= 4:
                    continue
                seen.add((ta, tb))
                Wn, Un, An = ask(ta, tb)
                if not _close(Wn, W0, ulps, _scale(Wn, W0) * max(1.0, span)):
                    fails.append(("history_repeat", dict(s=ta, t=tb, err=float((Wn - W0).abs().max()))))
                inner = [p for p in pts if ta < p < tb]
                if inner:
                    u = inner[len(inner) // 2]
                    W1, U1, _ = ask(ta, u)
                    W2, U2, _ = ask(u, tb)
                    if not _close(W0, W1 + W2, ulps, _scale(W1, W2, W0) * max(1.0, span)):
                        fails.append(("history_additivity", dict(s=ta, u=u, t=tb, err=float((W0 - W1 - W2).abs().max()))))
                    if U0 is not None:
                        rhs = U1 + U2 + (tb - u) * W1
                        if not _close(U0, rhs, ulps, _scale(U1, U2, U0, (tb - u) * W1) * max(1.0, span)):
                            fails.append(("history_chen_U", dict(s=ta, u=u, t=tb, err=float((U0 - rhs).abs().max()))))
            # end points that ALMOST coincide with a stored node's (tol = 0 resolves every float): the query [a, b - d],
            # d = |b| 2**-31, is another interval than [a, b] - additivity must hold across the sliver.  On an object
            # of its own with the REAL warm-up of 100 queries (with the shortened warm-up of the replays such a short
            # query is the trigger of known finding K9).
            if not cfg.Tol and wrapper == "interval":
                bm2 = B.make_real(cfg, size=size, levy=levy, entropy=entropy, scale_warmup=False)
                ask2 = _ask_fn(bm2, levy)
                for ta, tb in tq:
                    ask2(ta, tb)
                for ta, tb in list(seen)[:2]:
                    d = abs(tb) * 2.0 ** -31
                    if d == 0.0 or not ta < tb - d < tb:
                        continue
                    Wa, Ua, _ = ask2(ta, tb)
                    Wb, Ub, _ = ask2(ta, tb - d)
                    Wc, Uc, _ = ask2(tb - d, tb)
                    if not _close(Wa, Wb + Wc, ulps, _scale(Wa, Wb, Wc) * max(1.0, span)):
                        fails.append(("near_coincident_additivity", dict(s=ta, u=tb - d, t=tb, err=float((Wa - Wb - Wc).abs().max()))))
                    if Ua is not None:
                        rhs = Ub + Uc + d * Wb
                        if not _close(Ua, rhs, ulps, _scale(Ua, Ub, Uc) * max(1.0, span)):
                            fails.append(("near_coincident_chen_U", dict(s=ta, u=tb - d, t=tb, err=float((Ua - rhs).abs().max()))))
            for s, u, t in triples(pts, n_triples, rnd):
                W1, U1, A1 = ask(s, u)
                W2, U2, A2 = ask(u, t)
                W, U, A = ask(s, t)
                sc = _scale(W1, W2, W) * max(1.0, span)
                if not _close(W, W1 + W2, ulps, sc):
                    fails.append(("additivity", dict(s=s, u=u, t=t, err=float((W - W1 - W2).abs().max()))))
                if U is not None:
                    rhs = U1 + U2 + (t - u) * W1
                    scu = _scale(U1, U2, U, (t - u) * W1) * max(1.0, span)
                    if not _close(U, rhs, ulps, scu):
                        fails.append(("chen_U", dict(s=s, u=u, t=t, err=float((U - rhs).abs().max()))))
                for AA in (A, A1, A2):
                    if AA is not None and AA.dim() >= 2 and len(size) >= 2 and \
                            not _close(AA, -AA.transpose(-1, -2), 4, _scale(AA)):
                        fails.append(("antisymmetry", dict(s=s, t=t)))
            for p in pts[:3]:
                W, U, A = ask(p, p)
                if W.shape != torch.Size(size) or (W.numel() and float(W.abs().max()) != 0.0):
                    fails.append(("zero_length_W", dict(t=p)))
                if U is not None and (U.shape != torch.Size(size) or (U.numel() and float(U.abs().max()) != 0.0)):
                    fails.append(("zero_length_U", dict(t=p)))
                if A is not None:
                    want = torch.Size((*size, *size[-1:]))
                    if A.shape != want or (A.numel() and float(A.abs().max()) != 0.0):
                        fails.append(("zero_length_A", dict(t=p, shape=list(A.shape))))
        except Exception as e:  # noqa: BLE001
            fails.append(("exception", dict(exc=type(e).__name__, msg=str(e)[:200])))
    return fails


def check_chen_pieces(cfg, queries, size, levy, entropy=99, ulps=512):
    """Levy area combines across the stored pieces by Chen's relation (needs the piece recorder)."""
    fails = []
    if levy not in ("davie", "foster") or len(size) < 2:
        return fails
    bm = B.make_real(cfg, size=size, levy=levy, entropy=entropy)
    rec = B.LocRecorder()
    with rec, warnings.catch_warnings():
        warnings.simplefilter("ignore")
        try:
            for a, b in queries:
                r = B.step_real(bm, a, b, cfg, levy, rec)
                if r["exc"]:
                    fails.append(("exception", dict(exc=r["exc"])))
                    return fails
                if not r["pieces"] or len(r["pieces"]) < 2:
                    continue
                parts = []
                for (s, e) in r["pieces"]:
                    Wp, _, Ap = B.call(bm, s, e, cfg, levy)
                    parts.append((Wp, Ap))
                Wc, Ac = chen_fold(parts)
                if not _close(r["A"], Ac, ulps, _scale(r["A"], Ac) * max(1.0, cfg.N)):
                    fails.append(("chen_A_pieces", dict(q=[a, b], pieces=r["pieces"],
                                                        err=float((r["A"] - Ac).abs().max()))))
                if not _close(r["W"], Wc, ulps, _scale(r["W"]) * max(1.0, cfg.N)):
                    fails.append(("additivity_pieces", dict(q=[a, b])))
        except B.ProjectionUnavailable:
            pass
    return fails


def check_path_tree_wrappers(rnd, levy_none_only=True):
    """BrownianPath / BrownianTree: point queries add w0, interval queries obey additivity."""
    fails = []
    w0 = torch.tensor([[0.5, -1.0], [2.0, 0.25]], dtype=torch.float64)
    for name in ("path", "tree"):
        if name == "path":
            bm = torchsde.BrownianPath(t0=0.0, w0=w0)
        else:
            bm = torchsde.BrownianTree(t0=0.0, w0=w0, t1=1.0, tol=2.0 ** -10, entropy=5)
        pts = sorted(rnd.sample([k / 64 for k in range(1, 64)], 5))
        with warnings.catch_warnings():
            warnings.simplefilter("ignore")
            try:
                for s, u, t in itertools.combinations(pts, 3):
                    W = bm(s, t)
                    W1 = bm(s, u)
                    W2 = bm(u, t)
                    if not _close(W, W1 + W2, 512, _scale(W, W1, W2)):
                        fails.append((f"{name}_additivity", dict(s=s, u=u, t=t)))
                    # point evaluation is w0 + increment from t0
                    if not _close(bm(t) - bm(s), W, 512, _scale(W) + 2.0):
                        fails.append((f"{name}_point", dict(s=s, t=t)))
                z = bm(pts[0], pts[0])
                if float(z.abs().max()) != 0.0 or z.shape != w0.shape:
                    fails.append((f"{name}_zero", {}))
                if not _close(bm(0.0), w0, 4, _scale(w0)):
                    fails.append((f"{name}_w0", {}))
            except Exception as e:  # noqa: BLE001
                fails.append((f"{name}_exception", dict(exc=type(e).__name__, msg=str(e)[:200])))
    # BrownianTree with w1: end-to-end increment is w1 - w0
    w1 = w0 + 1.5
    bt = torchsde.BrownianTree(t0=0.0, w0=w0, t1=1.0, w1=w1, tol=2.0 ** -10, entropy=7)
    bt(0.25, 0.5)
    with warnings.catch_warnings():
        warnings.simplefilter("ignore")
        if not _close(bt(0.0, 1.0), w1 - w0, 4, _scale(w1)):
            fails.append(("tree_w1", {}))
    return fails


# ------------------------------------------------------------------------------------------
# C05
# ------------------------------------------------------------------------------------------

def _eq(x, y):
    if x is None or y is None:
        return x is None and y is None
    return torch.equal(x, y)


def _typed(ans, size, dtype):
    """Every tensor of an answer has the sample's dtype; W and U have the sample's shape, A one more axis."""
    W, U, A = ans
    want = torch.Size(size)
    ok = W.dtype == dtype and W.shape == want
    if U is not None:
        ok = ok and U.dtype == dtype and U.shape == want
    if A is not None:
        ok = ok and A.dtype == dtype
        if len(size) >= 2:                  # (for 0-d / 1-d samples the library treats the axis as a batch axis)
            ok = ok and A.shape == torch.Size((*size, *size[-1:]))
    return ok


def check_repeat(cfg, queries, size, levy, rnd, entropy=31, interleave=True, dtype=torch.float64):
    """Ask every earlier query again after every later one: bit-identical W, U, A (in the dtype asked for)."""
    fails = []
    bm = B.make_real(cfg, size=size, levy=levy, entropy=entropy, dtype=dtype)
    first = {}
    order = []
    with warnings.catch_warnings():
        warnings.simplefilter("ignore")
        try:
            for k, (a, b) in enumerate(queries):
                ans = B.call(bm, a, b, cfg, levy)
                if not _typed(ans, size, dtype):
                    fails.append(("answer_type", dict(q=[a, b], at=k, want=str(dtype), got=[None if x is None else
                                                      (str(x.dtype), list(x.shape)) for x in ans])))
                if (a, b) in first:
                    if not all(_eq(x, y) for x, y in zip(first[(a, b)], ans)):
                        fails.append(("repeat", dict(q=[a, b], at=k, phase="history")))
                else:
                    first[(a, b)] = ans
                    order.append((a, b))
                if interleave:
                    # re-ask one earlier query after this one
                    qa = order[rnd.randrange(len(order))]
                    ans2 = B.call(bm, qa[0], qa[1], cfg, levy)
                    if not all(_eq(x, y) for x, y in zip(first[qa], ans2)):
                        fails.append(("repeat", dict(q=list(qa), after=[a, b], at=k, phase="interleave")))
            for qa in reversed(order):
                ans2 = B.call(bm, qa[0], qa[1], cfg, levy)
                if not all(_eq(x, y) for x, y in zip(first[qa], ans2)):
                    fails.append(("repeat", dict(q=list(qa), phase="final")))
        except Exception as e:  # noqa: BLE001
            fails.append(("exception", dict(exc=type(e).__name__, msg=str(e)[:200])))
    return fails


# ------------------------------------------------------------------------------------------
# C06
# ------------------------------------------------------------------------------------------

def check_same_history(cfg, queries, size, levy, entropy=77):
    fails = []
    b1 = B.make_real(cfg, size=size, levy=levy, entropy=entropy)
    b2 = B.make_real(cfg, size=size, levy=levy, entropy=entropy)
    with warnings.catch_warnings():
        warnings.simplefilter("ignore")
        try:
            for k, (a, b) in enumerate(queries):
                x = B.call(b1, a, b, cfg, levy)
                y = B.call(b2, a, b, cfg, levy)
                if not all(_eq(p, q) for p, q in zip(x, y)):
                    fails.append(("same_history", dict(q=[a, b], at=k)))
        except Exception as e:  # noqa: BLE001
            fails.append(("exception", dict(exc=type(e).__name__, msg=str(e)[:200])))
    return fails


def check_order_independence(cfg, hist1, hist2, probes, size, levy, entropy=55):
    """Dyadic mode: the answer for a probe depends only on entropy/options, not on the history."""
    fails = []
    b1 = B.make_real(cfg, size=size, levy=levy, entropy=entropy)
    b2 = B.make_real(cfg, size=size, levy=levy, entropy=entropy)
    with warnings.catch_warnings():
        warnings.simplefilter("ignore")
        try:
            for a, b in hist1:
                B.call(b1, a, b, cfg, levy)
            for a, b in hist2:
                B.call(b2, a, b, cfg, levy)
            # Each probe gets siblings: raw end points that differ from the probe's but round to the same grid interval
            # (only with a tolerance grid).  The first object is asked probe after probe, each preceded by its sibling;
            # the second one is asked the probes alone, in reverse order: the answer for a probe must not depend on
            # what was asked immediately before it (nor on anything else in the history).
            def siblings(a, b):
                out = []
                for da in (-1, 1):
                    for (sa, sb) in ((a + da, b), (a, b + da)):
                        if 0 <= sa < sb <= cfg.T and (cfg.round(sa), cfg.round(sb)) == (cfg.round(a), cfg.round(b)):
                            out.append((sa, sb))
                return out[:2]
            ans1 = {}
            for a, b in probes:
                for (sa, sb) in siblings(a, b):
                    B.call(b1, sa, sb, cfg, levy)
                ans1[(a, b)] = B.call(b1, a, b, cfg, levy)
            for a, b in reversed(list(probes)):
                x = ans1[(a, b)]
                y = B.call(b2, a, b, cfg, levy)
                # the Levy-area approximation of a query spanning several stored pieces is a Chen
                # combination of per-piece samples; in dyadic mode the pieces are canonical too
                if not all(_eq(p, q) for p, q in zip(x, y)):
                    fails.append(("order_independence", dict(q=[a, b])))
        except Exception as e:  # noqa: BLE001
            fails.append(("exception", dict(exc=type(e).__name__, msg=str(e)[:200])))
    return fails


def check_entropies_differ(n=32):
    """Pairwise different entropies - small consecutive ones, and wide ones that differ only in their high bits
    (entropy is an integer of any width for numpy's SeedSequence: 64- and 128-bit seeds, base + (worker << 32)) -
    give pairwise different samples, through BrownianInterval (both tree modes) and BrownianTree."""
    ents = [1000 + e for e in range(n)] + [7, 7 + 2 ** 32, 7 + 2 ** 33, 7 + 2 ** 64, 7 + 2 ** 100, 2 ** 63 - 1, 2 ** 63,
                                           12345678901234567890, 12345678901234567890 + 2 ** 64]
    fails = []
    makers = [("interval", lambda e: torchsde.BrownianInterval(0.0, 1.0, size=(4,), entropy=e, dtype=torch.float64)),
              ("dyadic", lambda e: torchsde.BrownianInterval(0.0, 1.0, size=(4,), entropy=e, dtype=torch.float64,
                                                             tol=2.0 ** -6, halfway_tree=True)),
              ("tree", lambda e: torchsde.BrownianTree(t0=0.0, w0=torch.zeros(4, dtype=torch.float64), t1=1.0, entropy=e,
                                                       tol=2.0 ** -6))]
    with warnings.catch_warnings():
        warnings.simplefilter("ignore")
        for name, mk in makers:
            es = ents if name == "interval" else ents[n:]
            try:
                ws = [mk(e)(0.0, 0.5) for e in es]
            except Exception as ex:  # noqa: BLE001
                fails.append(("exception", dict(object=name, exc=type(ex).__name__, msg=str(ex)[:200])))
                continue
            for i in range(len(es)):
                for j in range(i + 1, len(es)):
                    if torch.equal(ws[i], ws[j]):
                        fails.append(("entropy_collision", dict(object=name, entropies=[es[i], es[j]])))
    return fails


# ------------------------------------------------------------------------------------------
# C07
# ------------------------------------------------------------------------------------------

def check_no_crash(cfg, queries, size, levy, entropy=3):
    """Every call returns normally; cache never exceeds cache_size."""
    fails = []
    bm, steps = B.replay(cfg, queries, size=size, levy=levy, entropy=entropy, structural=False)
    for k, r in enumerate(steps):
        if r["exc"]:
            fails.append(("exception", dict(exc=r["exc"], q=list(r["q"]), at=k)))
            break
        if cfg.CacheSize >= 0 and r["cache_len"] > cfg.CacheSize:
            fails.append(("cache_bound", dict(len=r["cache_len"], at=k)))
    return fails


def long_run(n, cache_size=45, levy="none", tol=0.0, halfway=False, dt_hint=False, backward=True, size=(1, 1),
             entropy=11, retries=False, shape="equal"):
    """Solver-shaped history with the REAL warm-up constant: n steps forward (optionally with adaptive-style
    retries), then the same steps backward.  Returns dict(exc, max_depth, max_cache).
    shape: "equal"      n equal steps over [0, 1];
           "loose_hint" n equal steps but the constructor's dt hint is 64 times larger than the steps taken (the hint
                        is only the expected average step size);
           "two_rate"   n/8 steps of size 8h over [0, 1/2... then n fine steps of size h/8 (the step size drops
                        sharply, as with an adaptive solver), all inside the span of a few coarse steps."""
    kw = dict(t0=0.0, t1=1.0, size=size, dtype=torch.float64, entropy=entropy, cache_size=cache_size, tol=tol,
              halfway_tree=halfway, levy_area_approximation=levy)
    if dt_hint or shape == "loose_hint":
        kw["dt"] = (64.0 if shape == "loose_hint" else 1.0) / n
    out = dict(exc=None, max_depth=0, max_cache=0, n=n)
    rec = B.LocRecorder()
    base = B.base_depth()
    try:
        with rec, warnings.catch_warnings():
            warnings.simplefilter("ignore")
            bm = torchsde.BrownianInterval(**kw)
            ks = list(range(n))
            seq = [(k / n, (k + 1) / n) for k in ks]
            if shape == "two_rate":
                nc = max(4, n // 8)
                coarse = [(0.5 * k / nc, 0.5 * (k + 1) / nc) for k in range(nc)]
                h = (0.5 / nc) / 128.0
                fine = [(0.5 + k * h, 0.5 + (k + 1) * h) for k in range(n) if 0.5 + (k + 1) * h <= 1.0]
                seq = coarse + fine
            if retries:
                seq2 = []
                for (a, b) in seq:
                    seq2 += [(a, b), (a, 0.5 * (a + b)), (0.5 * (a + b), b)]
                seq = seq2
            if backward:
                seq = seq + list(reversed(seq))
            step = max(1, len(seq) // 400)
            for i, (a, b) in enumerate(seq):
                with B.cpu_watchdog():
                    if levy == "none":
                        bm(a, b)
                    else:
                        bm(a, b, return_U=True, return_A=levy in ("davie", "foster"))
                if i % step == 0:
                    out["max_cache"] = max(out["max_cache"], B.cache_len(bm))
            out["max_cache"] = max(out["max_cache"], B.cache_len(bm))
    except RecursionError:
        out["exc"] = "RecursionError"
    except Exception as e:  # noqa: BLE001
        out["exc"] = type(e).__name__
        out["msg"] = str(e)[:200]
    out["max_depth"] = max(0, rec.max_depth - base)
    return out


# ------------------------------------------------------------------------------------------
# C04: labelled noise
# ------------------------------------------------------------------------------------------

class LabelledNoise:
    """Substitute brownian_interval._randn: the k-th distinct seed yields the k-th unit vector along the
    first axis.  With size=(K,) every returned tensor IS the coefficient vector of the answer over the
    noise atoms, i.e. the exact linear map noise -> answer the code realises for that history.
    mode 'zero' returns zeros (used to read off the part of an answer that is linear in supplied W/H)."""

    def __init__(self, K, mode="label"):
        self.K = K
        self.mode = mode
        self.labels = {}
        self._orig = None
        self.overflow = False

    def __enter__(self):
        self._orig = _bi._randn
        me = self

        def _randn(size, dtype, device, seed):
            out = torch.zeros(size, dtype=dtype, device=device)
            if me.mode == "zero":
                return out
            k = me.labels.setdefault(int(seed), len(me.labels))
            if k >= me.K:
                me.overflow = True
                return out
            out[k] = 1.0
            return out

        _bi._randn = _randn
        return self

    def __exit__(self, *a):
        _bi._randn = self._orig


def frac(x):
    return Fraction(x[0], x[1])


def cov_lookup(table):
    d = {}
    for r in table:
        d[(tuple(r["q1"]), tuple(r["q2"]))] = (frac(r["ww"]), frac(r["wu"]), frac(r["uu"]))
    return d


def check_law(cfg, queries, probes, covtab, levy, supplied="none", K=160, tol=2e-12, wrapper="interval"):
    """Gram matrix of the realised linear map vs the Brownian covariance printed by TLC.
    Only tick-grid queries (multiples of Sub, tol = 0) are used: covtab is on the tick grid.
    wrapper="reverse": the object is ReverseBrownian over a base on [-N, 0] - the path X(t) = -B(-t) of
    spec/BrownianDerived.tla, itself a Brownian motion on [0, N]: the answers it returns (history and probes asked
    THROUGH the wrapper) must have the same covariance table."""
    fails = []
    if wrapper == "reverse":
        if supplied != "none" or (cfg.Tol and cfg.T % (2 * cfg.Tol)):
            return []
        base_cfg = cfg.shifted(-cfg.T)
    sub = cfg.Sub
    have_U = levy != "none"
    allq = [q for q in list(queries) + list(probes) if q[0] % sub == 0 and q[1] % sub == 0 and q[0] < q[1]]
    seen = []
    for q in allq:
        if q not in seen:
            seen.append(q)
    kw = {}
    if supplied in ("W", "WH"):
        kw["W"] = torch.zeros(K, dtype=torch.float64)
    if supplied == "WH":
        kw["H"] = torch.zeros(K, dtype=torch.float64)
    with LabelledNoise(K) as ln, warnings.catch_warnings():
        warnings.simplefilter("ignore")
        try:
            if wrapper == "reverse":
                rev = _ask_fn(ReverseBrownian(B.make_real(base_cfg, size=(K,), levy=levy, entropy=5)), levy)

                def ask(a, b):
                    return rev(a / cfg.Sub, b / cfg.Sub)
            else:
                bm = B.make_real(cfg, size=(K,), levy=levy, entropy=5, **kw)

                def ask(a, b):
                    return B.call(bm, a, b, cfg, levy)
            for a, b in queries:
                ask(a, b)
            vecs = {}
            for q in seen:
                W, U, _ = ask(q[0], q[1])
                vecs[q] = (W, U)
        except Exception as e:  # noqa: BLE001
            return [("exception", dict(exc=type(e).__name__, msg=str(e)[:200]))]
        if ln.overflow:
            return [("machinery_label_overflow", {})]
    T = (0, cfg.T)
    N = cfg.N
    if levy == "none" and supplied == "WH":
        supplied = "W"   # without space-time Levy area the supplied H is not used

    def tick(q):
        return (q[0] // sub, q[1] // sub)

    def cov(kind, q1, q2):
        ww, wu, uu = covtab[(tick(q1), tick(q2))]
        if kind == "WW":
            return ww
        if kind == "WU":
            return wu
        if kind == "UW":
            return covtab[(tick(q2), tick(q1))][1]
        return uu

    def cond(kind, q1, q2):
        """covariance conditional on the supplied root statistics"""
        base = cov(kind, q1, q2)
        if supplied == "none":
            return base
        k1, k2 = kind[0], kind[1]
        if supplied == "W":
            c1 = cov(k1 + "W", q1, T)
            c2 = cov(k2 + "W", q2, T)
            return base - c1 * c2 / cov("WW", T, T)
        # condition on (W_T, U_T)  (equivalently (W_T, H_T))
        a = [cov(k1 + "W", q1, T), cov(k1 + "U", q1, T)]
        b = [cov(k2 + "W", q2, T), cov(k2 + "U", q2, T)]
        s11, s12, s22 = cov("WW", T, T), cov("WU", T, T), cov("UU", T, T)
        det = s11 * s22 - s12 * s12
        inv = [[s22 / det, -s12 / det], [-s12 / det, s11 / det]]
        return base - sum(a[i] * inv[i][j] * b[j] for i in range(2) for j in range(2))

    worst = 0.0
    for q1 in seen:
        for q2 in seen:
            W1, U1 = vecs[q1]
            W2, U2 = vecs[q2]
            pairs = [("WW", W1, W2)]
            if have_U:
                pairs += [("WU", W1, U2), ("UU", U1, U2)]
            for kind, x, y in pairs:
                got = float((x * y).sum())
                want = float(cond(kind, q1, q2))
                sc = max(1.0, abs(want), float(N) ** 3)
                err = abs(got - want) / sc
                worst = max(worst, err)
                if err > tol:
                    fails.append(("law", dict(kind=kind, q1=list(q1), q2=list(q2), got=got, want=want,
                                              supplied=supplied)))
                    if len(fails) > 5:
                        return fails
    return fails


def check_supplied_exact(cfg, queries, levy, size=(3,), supply_H=True):
    """With user-supplied W (and H) the whole interval returns exactly the supplied value."""
    fails = []
    g = torch.Generator().manual_seed(3)
    W = torch.randn(size, dtype=torch.float64, generator=g)
    H = torch.randn(size, dtype=torch.float64, generator=g) if supply_H else None
    with warnings.catch_warnings():
        warnings.simplefilter("ignore")
        try:
            bm = B.make_real(cfg, levy=levy, entropy=8, W=W, H=H)
            for a, b in queries:
                B.call(bm, a, b, cfg, levy)
            Wq, Uq, _ = B.call(bm, 0, cfg.T, cfg, levy)
            if not torch.equal(Wq, W):
                fails.append(("supplied_W", dict(err=float((Wq - W).abs().max()))))
            if Uq is not None and H is not None:
                want = cfg.N * (0.5 * W + H)
                if not _close(Uq, want, 4, _scale(want)):
                    fails.append(("supplied_H", dict(err=float((Uq - want).abs().max()))))
        except Exception as e:  # noqa: BLE001
            fails.append(("exception", dict(exc=type(e).__name__, msg=str(e)[:200])))
    return fails


def check_levy(levy, levytab, m=2, tol=1e-12):
    """Conditional mean H(x)W - W(x)H and conditional variance of the Levy-area approximation.
    The residual A - mean is a linear function of the Levy noise; feeding one-hot noise entries
    reads off its coefficient vector c, and Var = sum c^2 for iid N(0,1) entries whatever the
    construction.  W/H noise is made identical in every batch row so all rows share (W, H)."""
    fails = []
    worst = 0.0
    for row in levytab:
        h = int(row["h"])
        K = m * m
        orig = _bi._randn
        state = dict()
        g = torch.Generator().manual_seed(100 + h)
        base = {}

        def _randn(size, dtype, device, seed, _state=state):
            size = tuple(size)
            if len(size) == 3:  # Levy noise (batch, m, m): row k carries one-hot entry k
                out = torch.zeros(size, dtype=dtype)
                if _state.get("mode") == "zero":
                    return out
                for k in range(size[0]):
                    out[k, k // m, k % m] = 1.0
                return out
            key = int(seed)
            if key not in base:
                base[key] = torch.randn(size[1:], dtype=dtype, generator=g)
            return base[key].unsqueeze(0).expand(size).clone()

        _bi._randn = _randn
        try:
            # choose supplied H so that H_i^2, H_j^2 are the rationals of the row
            hi = math.sqrt(frac(row["hi2"]))
            hj = math.sqrt(frac(row["hj2"]))
            Hs = torch.tensor([hi, hj] + [0.3] * (m - 2), dtype=torch.float64).unsqueeze(0).expand(K, m).clone()
            Ws = torch.tensor([0.7, -1.1] + [0.2] * (m - 2), dtype=torch.float64).unsqueeze(0).expand(K, m).clone()
            with warnings.catch_warnings():
                warnings.simplefilter("ignore")
                bm = torchsde.BrownianInterval(t0=0.0, t1=float(h), W=Ws, H=Hs, levy_area_approximation=levy,
                                               entropy=2)
                W, U, A = bm(0.0, float(h), return_U=True, return_A=True)
                state["mode"] = "zero"
                bm0 = torchsde.BrownianInterval(t0=0.0, t1=float(h), W=Ws, H=Hs, levy_area_approximation=levy,
                                                entropy=2)
                _, _, A0 = bm0(0.0, float(h), return_U=True, return_A=True)
        finally:
            _bi._randn = orig
        Hq = U / h - 0.5 * W
        mean = Hq.unsqueeze(-1) * W.unsqueeze(-2) - W.unsqueeze(-1) * Hq.unsqueeze(-2)
        if not _close(A0, mean, 16, _scale(mean)):
            fails.append(("levy_mean", dict(levy=levy, h=h, err=float((A0 - mean).abs().max()))))
        resid = A - A0  # (K, m, m): row k = response to noise entry k
        var01 = float((resid[:, 0, 1] ** 2).sum())
        want = float(frac(row["davie"] if levy == "davie" else row["foster"]))
        err = abs(var01 - want) / max(1.0, abs(want))
        worst = max(worst, err)
        if err > tol:
            fails.append(("levy_variance", dict(levy=levy, h=h, hi2=row["hi2"], hj2=row["hj2"], got=var01,
                                                want=want)))
        # antisymmetry of the residual and zero diagonal
        if float((resid + resid.transpose(-1, -2)).abs().max()) > 4 * EPS * max(1.0, float(resid.abs().max())):
            fails.append(("levy_antisymmetry", dict(levy=levy, h=h)))
    return fails, worst


# ------------------------------------------------------------------------------------------
# C20 (Brownian part): every element has its own noise element
# ------------------------------------------------------------------------------------------

def check_element_independence(cfg, queries, size, levy, entropy=9):
    """Perturb the noise of ONE element (for every seed): only that element of W/U (and only row/column
    pairs of that batch row in A) may change.  Also: rows of a real sample are pairwise different."""
    fails = []
    if len(size) == 0:
        return fails
    numel = 1
    for s in size:
        numel *= s
    orig = _bi._randn

    def run(elem, levy_row=None):
        def _randn(sz, dtype, device, seed):
            out = orig(sz, dtype, device, seed)
            if elem is not None and tuple(sz) == tuple(size):
                flat = out.reshape(-1).clone()
                flat[elem] += 0.5
                out = flat.reshape(out.shape)
            elif levy_row is not None and tuple(sz) != tuple(size):
                # any other draw is Levy-area noise: it must carry the batch dimensions of the sample, so that the
                # noise of ONE batch row can be perturbed; if it does not, the perturbation hits every row
                out = out.clone()
                if len(sz) == len(size) + 1 and tuple(sz[:len(size) - 1]) == tuple(size[:-1]) and len(size) >= 2:
                    out.reshape(-1, *sz[-2:])[levy_row] += torch.tensor([[0.0, 0.5], [0.25, 0.0]], dtype=dtype).repeat(
                        (sz[-2] + 1) // 2, (sz[-1] + 1) // 2)[:sz[-2], :sz[-1]]
                else:
                    out += 0.5 * torch.arange(out.numel(), dtype=dtype).reshape(out.shape) / max(1, out.numel())
            return out
        _bi._randn = _randn
        try:
            with warnings.catch_warnings():
                warnings.simplefilter("ignore")
                bm = B.make_real(cfg, size=size, levy=levy, entropy=entropy)
                outs = []
                for a, b in queries:
                    outs.append(B.call(bm, a, b, cfg, levy))
                return outs
        finally:
            _bi._randn = orig

    try:
        ref = run(None)
        for elem in sorted({0, numel - 1, numel // 2}):
            got = run(elem)
            for k, (r, g) in enumerate(zip(ref, got)):
                for name, x, y in (("W", r[0], g[0]), ("U", r[1], g[1])):
                    if x is None or x.numel() == 0:
                        continue
                    diff = (x != y).reshape(-1)
                    others = [i for i in range(numel) if i != elem and bool(diff[i])]
                    if others:
                        fails.append(("element_crosstalk", dict(tensor=name, elem=elem, leaked_to=others[:4], at=k)))
                if r[2] is not None and r[2].dim() >= 2 and len(size) >= 2:
                    # Levy area of batch row b only depends on row b
                    m = size[-1]
                    row = elem // m
                    d = (r[2] != g[2]).reshape(-1, m, m).any(-1).any(-1)
                    leaked = [i for i in range(d.numel()) if i != row and bool(d[i])]
                    if leaked:
                        fails.append(("element_crosstalk", dict(tensor="A", elem=elem, leaked_rows=leaked[:4], at=k)))
        # Levy-area noise: perturbing the noise of one batch row changes A of that row only
        if levy in ("davie", "foster") and len(size) >= 2:
            nrows = 1
            for d_ in size[:-1]:
                nrows *= d_
            for row in sorted({0, nrows - 1}):
                got = run(None, levy_row=row)
                changed_any = False
                for k, (r, g) in enumerate(zip(ref, got)):
                    if r[2] is None:
                        continue
                    d = (r[2] != g[2]).reshape(nrows, -1).any(-1)
                    changed_any = changed_any or bool(d[row])
                    leaked = [i for i in range(nrows) if i != row and bool(d[i])]
                    if leaked:
                        fails.append(("levy_noise_crosstalk", dict(row=row, leaked_rows=leaked[:4], at=k)))
                        break
        # rows (and elements) of a genuine sample differ pairwise
        flat = ref[-1][0].reshape(-1)
        if flat.numel() > 1 and len(set(flat.tolist())) != flat.numel() and float(flat.abs().max()) != 0.0:
            fails.append(("elements_share_noise", dict()))
    except Exception as e:  # noqa: BLE001
        fails.append(("exception", dict(exc=type(e).__name__, msg=str(e)[:200])))
    return fails


# ------------------------------------------------------------------------------------------
# Constructor pipeline (spec/BrownianCtor.tla)
# ------------------------------------------------------------------------------------------

def ctor_outcome(c):
    """Construct the real BrownianInterval for one configuration of BrownianCtor and, if accepted, ask a few
    in-range queries.  Returns 'ok', 'ValueError', another exception name, or 'query:<exc>'."""
    shape = SHAPES[c["shape"]]
    other = {(): (2,), (3,): (4,), (2, 3): (3, 2), (2, 3, 3): (3, 3, 2)}[shape]
    t0, t1 = {"lt": (0.0, 1.0), "eq": (0.5, 0.5), "gt": (1.0, 0.0)}[c["order"]]
    if c.get("ends") == "off":        # end points off the tolerance grid (rounding outwards and inwards), straddling zero
        t0, t1 = {"lt": (-1.0 / 3.0, 2.0 / 3.0), "eq": (2.0 / 3.0, 2.0 / 3.0), "gt": (2.0 / 3.0, -1.0 / 3.0)}[c["order"]]
    kw = dict(t0=t0, t1=t1, tol={"neg": -1e-3, "zero": 0.0, "pos": 1e-3}[c["tol"]],
              cache_size={"none": None, "zero": 0, "one": 1, "many": 45}[c["cache"]],
              levy_area_approximation=c["levy"], halfway_tree=bool(c["halfway"]), entropy=17)
    if c["dt"] == "pos":
        kw["dt"] = 0.125
    g = torch.Generator().manual_seed(1)
    src = c["src"]
    if src in ("size", "size+W", "mismatch"):
        kw["size"] = shape
        kw["dtype"] = torch.float64
    if src in ("W", "WH", "size+W"):
        kw["W"] = torch.randn(shape, dtype=torch.float64, generator=g)
    if src == "WH":
        kw["H"] = torch.randn(shape, dtype=torch.float64, generator=g)
    if src == "mismatch":
        kw["W"] = torch.randn(other, dtype=torch.float64, generator=g)
    if src == "intW":
        kw["W"] = torch.ones(shape, dtype=torch.int64)
    with warnings.catch_warnings():
        warnings.simplefilter("ignore")
        try:
            bm = torchsde.BrownianInterval(**kw)
        except ValueError:
            return "ValueError"
        except Exception as e:  # noqa: BLE001
            return type(e).__name__
        try:
            levy = c["levy"]
            ask = _ask_fn(bm, levy)
            mid = 0.5 * (t0 + t1)
            for (a, b) in ((t0, t1), (t0, mid), (mid, t1), (mid, mid), (t0 + 0.25 * (t1 - t0), mid), (t0, t1),
                           (t0 + 0.75 * (t1 - t0), t1), (t0, t0 + 0.125 * (t1 - t0))):
                W, U, A = ask(a, b)
                if tuple(W.shape) != tuple(shape):
                    return "query:shape"
            bm(mid)
        except Exception as e:  # noqa: BLE001
            return "query:" + type(e).__name__
    return "ok"


# ------------------------------------------------------------------------------------------
# C04 on deep trees: one seed set per node, and the W-law on long solver-shaped histories
# ------------------------------------------------------------------------------------------

def collect_seeds(bm):
    """All PRNG seeds held by the tree: 4 per internal node (+ the top-level Levy seed).  Observation aid:
    returns None if the attributes do not exist."""
    try:
        seeds = []
        depth_max = 0
        stack = [(bm, 0)]
        while stack:
            node, d = stack.pop()
            depth_max = max(depth_max, d)
            if node._midway is not None:
                seeds += [int(node._W_seed), int(node._H_seed), int(node._left_a_seed), int(node._right_a_seed)]
                stack.append((node._left_child, d + 1))
                stack.append((node._right_child, d + 1))
        return seeds, depth_max
    except AttributeError:
        return None


def deep_law(n, cache_size, dt_hint, levy="none", K=None, backward=False, tol=2e-12):
    """n equal sequential steps on [0,1] with the real warm-up constant, labelled noise: the Gram matrix of the
    step increments must be (1/n) * identity (disjoint intervals independent, Var = length), the sum of all
    steps must be the root increment, and all seeds in the tree must be pairwise distinct."""
    fails = []
    K = K or (8 * n + 64)
    kw = dict(t0=0.0, t1=1.0, size=(K,), dtype=torch.float64, entropy=4242, cache_size=cache_size,
              levy_area_approximation=levy)
    if dt_hint:
        kw["dt"] = 1.0 / n
    with LabelledNoise(K) as ln, warnings.catch_warnings():
        warnings.simplefilter("ignore")
        try:
            bm = torchsde.BrownianInterval(**kw)
            vecs = []
            for k in range(n):
                vecs.append(bm(k / n, (k + 1) / n))
            if backward:
                for k in reversed(range(n)):
                    w = bm(k / n, (k + 1) / n)
                    if not torch.equal(w, vecs[k]):
                        fails.append(("deep_repeat", dict(step=k)))
                        break
            root = bm(0.0, 1.0)
        except Exception as e:  # noqa: BLE001
            return [("exception", dict(exc=type(e).__name__, msg=str(e)[:200]))], {}
        if ln.overflow:
            return [("machinery_label_overflow", dict(K=K, labels=len(ln.labels)))], {}
    V = torch.stack(vecs)                     # (n, K)
    G = V @ V.T
    want = torch.eye(n, dtype=torch.float64) / n
    err = float((G - want).abs().max())
    info = dict(n=n, gram_max_err=err, labels=len(ln.labels))
    if err > tol:
        i, j = divmod(int((G - want).abs().argmax()), n)
        fails.append(("law_deep", dict(n=n, i=i, j=j, got=float(G[i, j]), want=float(want[i, j]), cache_size=cache_size,
                                       dt_hint=dt_hint)))
    tot = V.sum(0)
    if float((tot - root).abs().max()) > 64 * EPS:
        fails.append(("sum_of_steps", dict(err=float((tot - root).abs().max()))))
    sd = collect_seeds(bm)
    if sd is not None:
        seeds, depth = sd
        info["tree_depth"] = depth
        info["seeds"] = len(seeds)
        if len(set(seeds)) != len(seeds):
            fails.append(("seed_collision", dict(n=n, seeds=len(seeds), distinct=len(set(seeds)), depth=depth,
                                                 cache_size=cache_size, dt_hint=dt_hint)))
    return fails, info


# ---------------------------------------------------------------------------------------
# the work of ONE call (spec/BrownianWork.tla)
# ---------------------------------------------------------------------------------------

class WorkBound(RuntimeError):
    """One public call split more tree nodes than the budget (a query needs a handful of splits)."""


class split_budget:
    """Counts the calls of _Interval._split_exact (every split creates two tree nodes) while active, and aborts the
    running call with WorkBound once `cap` is exceeded.  A verdict by COUNT, not by time: a call that would create
    10^7 nodes is stopped after `cap` of them whatever the speed of the machine."""

    def __init__(self, cap=50000):
        self.cap, self.count = cap, 0

    def __enter__(self):
        self.orig = _bi._Interval._split_exact
        me, orig = self, self.orig

        def counted(self_, *a, **k):
            me.count += 1
            if me.count > me.cap:
                raise WorkBound(f"more than {me.cap} splits in one call")
            return orig(self_, *a, **k)

        _bi._Interval._split_exact = counted
        return self

    def __exit__(self, *exc):
        _bi._Interval._split_exact = self.orig
        return False


def work_per_call(t1=1.0, cache_size=45, warm=(100, 2.0 ** -10), pre=(), query=(0.5, 0.5 + 2.0 ** -30), dt=None, tol=0.0,
                  halfway=False, cap=50000, whole_warm=False):
    """History: `warm[0]` consecutive queries of length warm[1] from t0 = 0 (whole_warm: the whole interval each time,
    which splits nothing), the queries `pre`, then ONE query - whose number of splits is returned.
    dict(outcome "ok" | "work_bound" | exception name, splits)."""
    out = dict(outcome="ok", splits=0)
    try:
        with warnings.catch_warnings():
            warnings.simplefilter("ignore")
            kw = dict(t0=0.0, t1=t1, size=(1, 1), dtype=torch.float64, entropy=5, cache_size=cache_size, tol=tol,
                      halfway_tree=halfway)
            if dt is not None:
                kw["dt"] = dt
            with split_budget(cap) as sb0, B.cpu_watchdog():
                bm = torchsde.BrownianInterval(**kw)
                n, h = warm
                for i in range(n):
                    bm(0.0, t1) if whole_warm else bm(i * h, (i + 1) * h)
                for (a, b) in pre:
                    bm(a, b)
            out["splits_before"] = sb0.count
            with split_budget(cap) as sb:
                try:
                    with B.cpu_watchdog():
                        bm(*query)
                finally:
                    out["splits"] = sb.count
    except WorkBound:
        out["outcome"] = "work_bound"
    except RecursionError:
        out["outcome"] = "RecursionError"
    except Exception as e:  # noqa: BLE001
        out["outcome"] = type(e).__name__
        out["msg"] = str(e)[:200]
    return out


def sdeint_default_bm_work(ts, dt, cap=50000, **kw):
    """sdeint with its default Brownian motion under a split budget for the WHOLE solve (construction included)."""
    class _S:
        noise_type, sde_type = "diagonal", "ito"

        def f(self, t, y):
            return -y

        def g(self, t, y):
            return 0.2 + 0.0 * y

    out = dict(outcome="ok", splits=0)
    with split_budget(cap) as sb:
        try:
            with warnings.catch_warnings(), B.cpu_watchdog(120.0):
                warnings.simplefilter("ignore")
                ys = torchsde.sdeint(_S(), torch.ones(1, 1, dtype=torch.float64), ts, dt=dt, **kw)
            if not bool(torch.isfinite(ys).all()):
                out["outcome"] = "non-finite"
        except WorkBound:
            out["outcome"] = "work_bound"
        except RecursionError:
            out["outcome"] = "RecursionError"
        except Exception as e:  # noqa: BLE001
            out["outcome"] = type(e).__name__
            out["msg"] = str(e)[:200]
        out["splits"] = sb.count
    return out


# ---------------------------------------------------------------------------------------
# fresh noise atoms for the Levy-area approximation (BrownianLaw.tla: FreshAtoms)
# ---------------------------------------------------------------------------------------

def check_fresh_atoms(cfg, queries, size, levy, entropy=13):
    """Every random quantity of the object is a deterministic function of (seed, shape) of one `_randn` draw, so two
    quantities are independent exactly when their draws use different seeds.  The labelled-noise replays key their
    atoms by seed and so see shared seeds among the W / H draws; the Levy-area noise has its own shape and is covered
    here: over the history (every query with return_A, then the whole interval) no seed may serve draws of two
    different shapes (Levy noise tied to an increment), and no two tree nodes may draw their Levy noise from one
    seed."""
    fails = []
    orig, orig_levy = _bi._randn, _bi._Interval._randn_levy
    by_seed, by_node, keep = {}, {}, []

    def _randn(sz, dtype, device, seed):
        by_seed.setdefault(int(seed), set()).add(tuple(sz))
        return orig(sz, dtype, device, seed)

    def _randn_levy(self_):
        keep.append(self_)
        try:
            by_node[id(self_)] = int(self_._a_seed())
        except Exception:  # noqa: BLE001   (an implementation without per-node Levy seeds: nothing to audit here)
            pass
        return orig_levy(self_)

    _bi._randn, _bi._Interval._randn_levy = _randn, _randn_levy
    try:
        with warnings.catch_warnings():
            warnings.simplefilter("ignore")
            bm = B.make_real(cfg, size=size, levy=levy, entropy=entropy)
            for a, b in list(queries) + [(0, cfg.round(cfg.T))]:
                B.call(bm, a, b, cfg, levy)
    except Exception as e:  # noqa: BLE001
        fails.append(("exception", dict(exc=type(e).__name__, msg=str(e)[:200])))
    finally:
        _bi._randn, _bi._Interval._randn_levy = orig, orig_levy
    for seed, shapes in by_seed.items():
        if len(shapes) > 1:
            fails.append(("levy_noise_shares_seed", dict(seed=seed, shapes=sorted(map(list, shapes)))))
    seen = {}
    for node, seed in by_node.items():
        if seed in seen and seen[seed] != node:
            fails.append(("levy_noise_same_seed_on_two_nodes", dict(seed=seed)))
        seen[seed] = node
    return fails, dict(draw_seeds=len(by_seed), levy_nodes=len(by_node))
