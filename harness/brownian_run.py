"""TLC runs shared by the Brownian checks (C03-C07, C20): exhaustive invariant checking of
BrownianImpl, generation of behaviours (exhaustive dump or simulation), catalogue of configurations,
and the implementation-shaped comparison that feeds ctx.drift."""
import json
import random

from . import tlc
from . import brownian as B

STRUCT_INVS = ["TypeOK", "Partition", "NoSameSpanChild", "Tiles", "Dyadic", "CursorFree"]
LIVE_INVS = ["CacheBound", "CacheNoDup", "StackBound", "Terminates", "NoError"]


def catalogue(tier):
    """name -> Cfg.  Small instances that TLC explores exhaustively (sizes measured, see DESIGN)."""
    C = {
        # tol = 0, whole-tick queries, refinement to half ticks, FIFO cache of 2, warm-up 1
        "A": B.Cfg(4, 2, 0, 2, False, 0, 1, 2, False, Fuel=20, MaxEval=3, MaxNodes=31),
        # dyadic tree, tol = 1 tick, sub-tick queries incl. end points that coincide after rounding
        "B": B.Cfg(4, 4, 4, 2, True, 0, 1, 1, True, Fuel=20, MaxNodes=31),
        # tol = 1 tick, non-dyadic, sub-tick queries, refinement firing
        "C2": B.Cfg(4, 2, 2, 2, False, 0, 1, 1, True, Fuel=20, MaxEval=2, MaxNodes=31),
        # dt hint given to the constructor, cache 1
        "D": B.Cfg(8, 2, 0, 1, False, 2, 1, 2, False, Fuel=20, MaxNodes=63),
        # cache_size = 0
        "E": B.Cfg(4, 2, 0, 0, False, 0, 1, 2, False, Fuel=20, MaxEval=3),
        # dyadic tree over an interval that is NOT a power of two tolerances long: rounded midpoints are off-centre
        # ([0,3] splits at round(1.5) = 2), so children of one node have different lengths
        "H6": B.Cfg(6, 2, 2, 2, True, 0, 1, 2, False, Fuel=20, MaxNodes=31),
    }
    # zero-length queries around the warm-up threshold, tol = 0 (cheap: also in the quick tier, used by C07)
    C["A3"] = B.Cfg(4, 2, 0, 3, False, 0, 2, 2, True, Fuel=20, MaxEval=3, MaxNodes=31)
    if tier == "thorough":
        C.update({
            "F": B.Cfg(4, 2, 0, -1, False, 0, 2, 2, False, Fuel=20, MaxEval=3),
            "G": B.Cfg(8, 1, 1, 2, True, 0, 1, 1, False, Fuel=20, MaxNodes=63),
            "C": B.Cfg(4, 4, 4, 2, False, 0, 1, 1, True, Fuel=20, MaxEval=2, MaxNodes=31),
            "A1": B.Cfg(6, 2, 0, 1, False, 0, 1, 2, False, Fuel=24, MaxEval=2, MaxNodes=31),
            "E2": B.Cfg(4, 2, 2, 0, False, 2, 1, 1, True, Fuel=20, MaxNodes=31),
        })
    return C


def exhaustive(ctx, name, cfg, invs, props=(), view="View", timeout=900, workers=None, module="BrownianImpl",
               spec="Spec"):
    c = (f"SPECIFICATION {spec}\n" + cfg.constants_cfg() + "".join(f"INVARIANT {i}\n" for i in invs)
         + "".join(f"PROPERTY {p}\n" for p in props) + "CONSTRAINT Bounded\n"
         + (f"VIEW {view}\n" if view else "") + "CHECK_DEADLOCK FALSE\n")
    res = tlc.run(module, cfg_text=c, timeout=timeout, workers=workers or 8)
    ctx.add_tlc(res, f"exhaustive {name} {cfg.key()} invs={','.join(invs)} props={','.join(props)}")
    return res


def counterexample_queries(res):
    qs = []
    for action, st in tlc.parse_counterexample(res.output):
        q = st.get("lastQ")
        if action != "Initial" and isinstance(q, list) and len(q) == 2:
            qs.append((q[0], q[1]))
    return qs


def behaviours(ctx, name, cfg, depth, limit, seed, timeout=600, branching_cap=4000):
    """Behaviours of BrownianDump: exhaustive to `depth` when the tree of histories is small enough,
    otherwise `limit` simulated ones.  Returns (list, exhaustive?)."""
    T = cfg.T
    npts = T // cfg.QStep + 1
    nq = npts * (npts - 1) // 2 + (npts if cfg.ZeroLen else 0)
    base = ("SPECIFICATION SpecD\n" + cfg.constants_cfg() + f"CONSTANT Depth = {depth}\nINVARIANT Dump\n"
            "CONSTRAINT Bounded\nCHECK_DEADLOCK FALSE\n")
    total = sum(nq ** k for k in range(depth + 1))
    if total <= branching_cap:
        res = tlc.run("BrownianDump", cfg_text=base, timeout=timeout, workers=8)
        ctx.add_tlc(res, f"dump {name} {cfg.key()} depth={depth}")
        behs = res.printed
        exhaustive_ = True
    else:
        res = tlc.run("BrownianDump", cfg_text=base, timeout=timeout, workers=4,
                      simulate=f"num={limit}", depth=depth + 1, seed=seed)
        ctx.add_tlc(res, f"simulate {name} {cfg.key()} depth={depth} num={limit}")
        behs = res.printed
        exhaustive_ = False
    # de-duplicate, deterministic order
    seen = {}
    for b in behs:
        key = json.dumps([h["q"] for h in b["hist"]])
        seen.setdefault(key, b)
    out = [seen[k] for k in sorted(seen)]
    if len(out) > limit:
        rnd = random.Random(f"{seed}:{name}")
        out = rnd.sample(out, limit)
        exhaustive_ = False
    return out, exhaustive_


def history(beh):
    return [tuple(h["q"]) for h in beh["hist"]]


def structural_replay(ctx, name, cfg, beh, pid):
    """Replay one behaviour, compare the projected real state with the model after each step.
    Mismatch -> model drift (never a verdict).  Returns the steps."""
    qs = history(beh)
    try:
        bm, steps = B.replay(cfg, qs)
    except B.ProjectionUnavailable as e:
        # e.g. the cache refers to a node that is no longer in the tree: the object is not in ANY state of the model
        ctx.notes["projection_unavailable"] = str(e)
        ctx.drift(f"{name} {cfg.key()} {qs}: the abstract state of the real object cannot be projected ({e})")
        return None
    d = B.compare_with_model(cfg, beh, steps)
    for m in d[:2]:
        ctx.drift(f"{name} {cfg.key()} {qs}: {m}")
    return steps


# ---------------------------------------------------------------------------------------
# Trace validation of real executions against the property-level spec (TraceBrownian.tla)
# ---------------------------------------------------------------------------------------

def _path_list(p):
    return [int(c) for c in p]


def make_trace(cfg, steps, init_state=None):
    """Turn the per-step projections recorded by brownian.replay into a TraceBrownian trace."""
    events = []
    prev = {"": (cfg.round(0), cfg.round(cfg.T), -1)}
    seq = []
    if init_state is not None:
        seq.append(dict(q=(0, 0), pieces=[], state=init_state, cache_len=0))
    seq += steps
    for r in seq:
        st = r.get("state")
        if st is None or r.get("exc"):
            break
        tree = st["tree"]
        new_nodes = [[_path_list(p), v[0], v[1]] for p, v in sorted(tree.items()) if p not in prev]
        new_mids = [[_path_list(p), v[2]] for p, v in sorted(tree.items())
                    if v[2] != -1 and (p not in prev or prev[p][2] == -1)]
        changed = [p for p, v in prev.items() if p not in tree or tree[p][:2] != v[:2]
                   or (v[2] != -1 and tree[p][2] != v[2])]
        q = r["q"]
        ev = dict(q=[cfg.round(q[0]), cfg.round(q[1])],
                  pieces=[list(x) for x in (r.get("pieces") or [])] if cfg.round(q[0]) != cfg.round(q[1]) else [],
                  newNodes=new_nodes, newMids=new_mids, cacheLen=int(r.get("cache_len", 0)),
                  changed=len(changed))
        events.append(ev)
        prev = tree
    return dict(tol=cfg.Tol, cacheSize=cfg.CacheSize, dyadic=bool(cfg.Halfway),
                root=[cfg.round(0), cfg.round(cfg.T)], events=events)


def _trace_expr(tr):
    evs = []
    for e in tr["events"]:
        evs.append("[q |-> %s, pieces |-> %s, newNodes |-> %s, newMids |-> %s, cacheLen |-> %d]" % (
            tlc.tla_expr(e["q"]), tlc.tla_expr(e["pieces"]), tlc.tla_expr(e["newNodes"]),
            tlc.tla_expr(e["newMids"]), e["cacheLen"]))
    return "[tol |-> %d, cacheSize |-> %s, dyadic |-> %s, root |-> %s, events |-> <<%s>>]" % (
        tr["tol"], tlc.tla_expr(tr["cacheSize"]), "TRUE" if tr["dyadic"] else "FALSE",
        tlc.tla_expr(tr["root"]), ", ".join(evs))


def validate_traces(ctx, traces, label, timeout=600):
    """Validate recorded traces with TLC against TraceBrownian.tla.  Returns [(index, clause, at)] for
    rejected traces.  A node whose span changed cannot even be expressed as a refinement delta: it is
    rejected here (clause RefineOnly) without asking TLC."""
    rejected = []
    good = []
    for i, tr in enumerate(traces):
        k = next((j for j, e in enumerate(tr["events"]) if e["changed"]), None)
        if k is not None:
            rejected.append((i, "RefineOnly", k))
        elif tr["events"]:
            good.append(i)
    if good:
        data = ("---- MODULE TraceData ----\nEXTENDS Integers, Sequences\nTraces == <<\n"
                + ",\n".join(_trace_expr(traces[i]) for i in good) + "\n>>\n====\n")
        cfg = "SPECIFICATION Spec\nINVARIANT Report\nCHECK_DEADLOCK FALSE\n"
        res = tlc.run("TraceBrownian", cfg_text=cfg, extra_modules={"TraceData": data}, timeout=timeout,
                      workers=4)
        ctx.add_tlc(res, f"trace validation {label}: {len(good)} traces")
        verdicts = {v["tid"]: v for v in res.printed}
        if len(verdicts) != len(good):
            raise tlc.TLCMachineryError(f"trace validation produced {len(verdicts)} verdicts for {len(good)} traces")
        for n, i in enumerate(good, start=1):
            v = verdicts[n]
            if v["bad"]:
                rejected.append((i, v["bad"], v["at"] - 1))
    return rejected
