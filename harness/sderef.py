"""Binding helpers for the exact reference semantics (spec/Taylor.tla, spec/AdjointField.tla).

* rationals / coefficient tables printed by TLC -> fractions.Fraction
* polynomial SDEs as real torch modules (so that the REAL torchsde classes run on them)
* a stub Brownian motion returning prescribed (dW, U, A)
* exact substitution of numbers into a Taylor table, exact Gaussian expectation of a table
* the one-step driver around torchsde._core.methods.select(...)

Nothing in here knows any solver formula.
"""
import math
from fractions import Fraction as Fr

import numpy as np
import torch

from torchsde._brownian.brownian_base import BaseBrownian
from torchsde._core import base_sde, methods

torch.set_num_threads(1)
DT = torch.float64
EPS = float(torch.finfo(DT).eps)


# ---------------------------------------------------------------------------------------
# rationals and tables
# ---------------------------------------------------------------------------------------
def fr(x):
    """[num, den] (as printed by TLC) -> Fraction."""
    return Fr(int(x[0]), int(x[1]))


def fr_list(xs):
    return [fr(x) for x in xs]


def rat(x, den=4):
    """Fraction -> TLA+ expression R(n, d)."""
    x = Fr(x)
    return f"R({x.numerator}, {x.denominator})"


def tla_rats(xs):
    return "<<" + ", ".join(rat(x) for x in xs) + ">>"


def parse_poly(terms):
    """[[exps, [n, d]], ...] -> [(tuple exps, Fraction)]"""
    return [(tuple(int(e) for e in t[0]), fr(t[1])) for t in terms]


def parse_vec(vterms):
    return [parse_poly(t) for t in vterms]


# increments Z = (h, dW1, dW2, U1, U2, A); doubled weights
Z_W2 = (2, 1, 1, 3, 3, 2)


def zweight2(e):
    return sum(a * b for a, b in zip(e, Z_W2))


def trunc(table, w2):
    """Keep the monomials of doubled weight <= w2 (T_p: w2 = 2p)."""
    return [[(e, c) for (e, c) in comp if zweight2(e) <= w2] for comp in table]


def eval_table(table, h, dW, U, A):
    """Exact value of a table at Fractions h, dW[0..1], U[0..1], A."""
    z = (h, dW[0], dW[1], U[0], U[1], A)
    out = []
    for comp in table:
        s = Fr(0)
        for e, c in comp:
            v = c
            for zi, ei in zip(z, e):
                if ei:
                    v *= zi ** ei
            s += v
        out.append(s)
    return out


def _dfact(n):  # (n-1)!! for even n = E[xi^n]
    r = 1
    k = n - 1
    while k > 1:
        r *= k
        k -= 2
    return r


def gauss_moment(n):
    return 0 if n % 2 else _dfact(n)


def mean_table(table, h):
    """Exact expectation of a table at step size h (Fraction) under
    dW_j = xi_j sqrt(h), U_j = h (dW_j / 2 + eta_j sqrt(h / 12)), xi, eta iid N(0,1), A symmetric about 0
    (A may only occur linearly)."""
    out = []
    for comp in table:
        s = Fr(0)
        for e, c in comp:
            ih, j1, j2, k1, k2, la = e
            if la % 2 == 1:
                continue
            if la != 0:
                raise ValueError("A^2 terms are outside the supported weights")
            v = c * h ** ih
            half_pows = 0  # power of sqrt(h)
            for j, k in ((j1, k1), (j2, k2)):
                # E[ xi^j (xi/2 + eta/sqrt12)^k ] * s^(j + 3k)
                m = Fr(0)
                for r in range(0, k + 1, 2):
                    m += math.comb(k, r) * Fr(1, 2) ** (k - r) * Fr(1, 12) ** (r // 2) \
                        * gauss_moment(j + k - r) * gauss_moment(r)
                v *= m
                half_pows += j + 3 * k
            if v == 0:
                continue
            assert half_pows % 2 == 0
            v *= h ** (half_pows // 2)
            s += v
        out.append(s)
    return out


def gauss_hermite(n=6):
    """Nodes / weights of the n-point rule for the standard normal density."""
    x, w = np.polynomial.hermite_e.hermegauss(n)
    return x.astype(float), (w / math.sqrt(2.0 * math.pi)).astype(float)


# ---------------------------------------------------------------------------------------
# polynomial SDEs as torch modules
# ---------------------------------------------------------------------------------------
def _ipow(x, n):
    out = None
    for _ in range(n):
        out = x if out is None else out * x
    return out


def poly_eval(terms, t, y, theta=None):
    """sum c * t^a * prod y_i^b_i (* prod theta_k^e_k): y (B, d) -> (B,).  Repeated multiplication only,
    so that dyadic inputs are evaluated without rounding."""
    B, d = y.shape
    out = torch.zeros(B, dtype=y.dtype)
    for exps, c in terms:
        v = torch.full((B,), float(c), dtype=y.dtype)
        if exps[0]:
            v = v * _ipow(t, exps[0])
        for i in range(d):
            if exps[1 + i]:
                v = v * _ipow(y[:, i], exps[1 + i])
        if theta is not None:
            for k, th in enumerate(theta):
                e = exps[1 + d + k]
                if e:
                    v = v * _ipow(th, e)
        out = out + v
    return out


class PolySDE(torch.nn.Module):
    """dY = f dt + g (o) dW with polynomial coefficients (exact float64 images of the rationals TLC used).

    f_terms[i], g_terms[i][j]: lists of (exps over (t, y_1..y_d[, theta...]), Fraction).
    The shape of g follows the torchsde convention of the declared noise type."""

    def __init__(self, f_terms, g_terms, d, m, noise_type, sde_type, theta=None):
        super().__init__()
        self.f_terms, self.g_terms, self.d, self.m = f_terms, g_terms, d, m
        self.noise_type, self.sde_type = noise_type, sde_type
        self.theta = theta          # list of 0-dim tensors (views into parameters) or None
        if noise_type == "diagonal":
            assert d == m and all(not g_terms[i][j] for i in range(d) for j in range(m) if i != j)
        if noise_type == "scalar":
            assert m == 1

    def _theta(self):
        return self.theta() if callable(self.theta) else self.theta

    def f(self, t, y):
        th = self._theta()
        return torch.stack([poly_eval(self.f_terms[i], t, y, th) for i in range(self.d)], dim=1)

    def g(self, t, y):
        th = self._theta()
        if self.noise_type == "diagonal":
            return torch.stack([poly_eval(self.g_terms[i][i], t, y, th) for i in range(self.d)], dim=1)
        rows = [torch.stack([poly_eval(self.g_terms[i][j], t, y, th) for j in range(self.m)], dim=1)
                for i in range(self.d)]
        return torch.stack(rows, dim=1)          # (B, d, m)


class StubBrownian(BaseBrownian):
    """Returns prescribed increments for one interval, in BrownianInterval's return convention."""
    __slots__ = ("W", "U", "A", "_levy", "interval", "queries")

    def __init__(self, W, U, A, levy_area_approximation, interval=None):
        super().__init__()
        self.W, self.U, self.A = W, U, A
        self._levy = levy_area_approximation
        self.interval = interval
        self.queries = 0

    def __call__(self, ta, tb=None, return_U=False, return_A=False):
        if self.interval is not None:
            if float(ta) != self.interval[0] or tb is None or float(tb) != self.interval[1]:
                raise RuntimeError(f"stub Brownian asked for ({ta}, {tb}), can only serve {self.interval}")
        self.queries += 1
        if return_U:
            return (self.W, self.U, self.A) if return_A else (self.W, self.U)
        return (self.W, self.A) if return_A else self.W

    def __repr__(self):
        return "StubBrownian()"

    @property
    def dtype(self):
        return self.W.dtype

    @property
    def device(self):
        return self.W.device

    @property
    def shape(self):
        return self.W.shape

    @property
    def levy_area_approximation(self):
        return self._levy


class Refused(Exception):
    """The solver's constructor refused the (sde type, noise type, Levy area) combination."""


def make_solver(method, sde, bm, h, options=None):
    """The real solver class on a real ForwardSDE.  Raises Refused when the solver refuses the SDE."""
    fsde = base_sde.ForwardSDE(sde)
    cls = methods.select(method=method, sde_type=sde.sde_type)
    try:
        return cls(sde=fsde, bm=bm, dt=h, adaptive=False, rtol=1e-5, atol=1e-5, dt_min=1e-10,
                   options=dict(options or {}))
    except ValueError as e:
        raise Refused(str(e))


def one_step(method, sde, options, t0, h, y0, W, U, A, levy="foster", warm_up=False):
    """solver.step(t0, t0 + h, y0, extra0) with the prescribed increments; returns (y1, strong_order)."""
    t0_ = torch.tensor(float(t0), dtype=DT)
    t1_ = torch.tensor(float(t0) + float(h), dtype=DT)
    bm = StubBrownian(W, U, A, levy, interval=(float(t0_), float(t1_)))
    solver = make_solver(method, sde, bm, torch.tensor(float(h), dtype=DT), options)
    extra0 = solver.init_extra_solver_state(t0_, y0)
    if warm_up:
        # A step is a function of (t0, t1, y0, extra0) and the increments only: whatever the solver OBJECT did before
        # must not matter.  The same object first takes a step of a different length (4 h, from another state, with
        # other increments) - as the clipped last step of a solve follows longer steps - and its result is dropped.
        bm.interval = None
        keep = (bm.W, bm.U, bm.A)
        bm.W, bm.U, bm.A = 2.0 * W + 0.25, (None if U is None else 8.0 * U - 0.125), (None if A is None else -4.0 * A)
        solver.step(t0_ - 4.0 * float(h), t0_, y0 + 0.5, solver.init_extra_solver_state(t0_ - 4.0 * float(h), y0 + 0.5))
        bm.W, bm.U, bm.A = keep
        bm.interval = (float(t0_), float(t1_))
        bm.queries = 0
    y1, _ = solver.step(t0_, t1_, y0, extra0)
    return y1.detach(), float(solver.strong_order), bm.queries
